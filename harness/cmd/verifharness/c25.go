//go:build verif

package main

import (
	"context"
	"fmt"
	"path/filepath"
	"sort"
	"sync/atomic"
	"time"

	"github.com/jdillenkofer/pithos/internal/storage"
	"github.com/jdillenkofer/pithos/internal/storage/middlewares/delegator"
	"github.com/jdillenkofer/pithos/internal/storage/middlewares/lifecyclereconciler"
	"github.com/jdillenkofer/pithos/internal/verifx"
)

// C25: ReconcileOnce of the real lifecycle reconciler, clock injected with WithNow, against
//   (a) an in-memory inner storage serving generated version histories (c25_fake.go), and
//   (b) the real SQLite storage behind a recording delegator (c25_real.go, directed scenarios).
// The trace holds the rules, the clock, every listing served, every mutating call with the true
// history of its key at that moment. Format: see lean/Driver/C25.lean.

func init() { register("c25", runC25) }

type c25Reconciler interface {
	ReconcileOnce(ctx context.Context, cancelTask *atomic.Bool)
}

// c25Reconcile builds the real middleware over inner and runs one sweep.
func c25Reconcile(rec *c25Rec, inner storage.Storage, now time.Time) {
	defer func() {
		if p := recover(); p != nil {
			rec.add("panic", verifx.HexS(fmt.Sprint(p)))
		}
	}()
	mw := lifecyclereconciler.NewStorageMiddleware(inner, lifecyclereconciler.WithNow(func() time.Time { return now }),
		lifecyclereconciler.WithReconcileInterval(0))
	r, ok := mw.(c25Reconciler)
	if !ok {
		rec.add("panic", verifx.HexS("ReconcileOnce not reachable"))
		return
	}
	r.ReconcileOnce(context.Background(), nil)
}

var c25Day0 = time.Date(2026, 3, 10, 0, 0, 0, 0, time.UTC)

const c25DayD = 24 * time.Hour

func c25NextMidnight(t time.Time) time.Time { return t.UTC().Truncate(c25DayD).Add(c25DayD) }

func c25P32(v int) *int32 { x := int32(v); return &x }
func c25P64(v int64) *int64 { return &v }
func c25PStr(s string) *string { return &s }
func c25PTime(t time.Time) *time.Time { return &t }
func c25PBool(b bool) *bool { return &b }

var (
	c25KeyPool   = []string{"logs/a", "logs/b", "logs/a/x", "data/x", "tmp/1", "l", "logs"}
	c25PfxPool   = []string{"", "logs/", "data/", "l", "logs/a", "tmp/", "zzz"}
	c25TagPool   = [][2]string{{"env", "prod"}, {"env", "dev"}, {"tier", "cold"}, {"", "x"}}
	// tag predicates with an EMPTY value (valid in S3): they select objects that carry the key with an empty
	// value, not objects that lack the key
	c25EmptyTagPool = [][2]string{{"archive", ""}, {"env", ""}}
	c25SizePool  = []int64{0, 1, 100, 1024, 1025, 5000}
	c25ClassPool = []string{"STANDARD_IA", "GLACIER", "DEEP_ARCHIVE", "ONEZONE_IA"}
	c25TodPool   = []time.Duration{0, 1, time.Second, 12 * time.Hour, c25DayD - time.Second, c25DayD - 1}
	c25StepPool  = []time.Duration{1, time.Millisecond, time.Second, time.Hour, c25DayD - time.Second, c25DayD, 3 * c25DayD, 10 * c25DayD}
)

func c25GenTags(r *verifx.Rng) map[string]string {
	m := map[string]string{}
	if r.Chance(1, 4) {
		return m // completely untagged
	}
	for _, t := range c25TagPool[:3] {
		if r.Chance(1, 3) {
			m[t[0]] = t[1]
		}
	}
	if r.Chance(1, 5) {
		m["archive"] = verifx.Pick(r, []string{"", "", "yes"})
	}
	if _, ok := m["env"]; !ok && r.Chance(1, 8) {
		m["env"] = ""
	}
	return m
}

// c25FilterTag picks a tag predicate for a rule filter: mostly a non-empty value, sometimes an empty one.
func c25FilterTag(r *verifx.Rng) [2]string {
	if r.Chance(1, 4) {
		return verifx.Pick(r, c25EmptyTagPool)
	}
	return verifx.Pick(r, c25TagPool[:3])
}

func c25GenSelector(r *verifx.Rng, ru *storage.LifecycleRule) {
	switch r.Intn(9) {
	case 0:
		ru.Prefix = c25PStr(verifx.Pick(r, c25PfxPool))
	case 1:
		ru.Filter = &storage.LifecycleFilter{}
	case 2, 3:
		ru.Filter = &storage.LifecycleFilter{Prefix: c25PStr(verifx.Pick(r, c25PfxPool))}
	case 4:
		t := c25FilterTag(r)
		ru.Filter = &storage.LifecycleFilter{Tag: &storage.LifecycleTag{Key: t[0], Value: t[1]}}
	case 5:
		ru.Filter = &storage.LifecycleFilter{ObjectSizeGreaterThan: c25P64(verifx.Pick(r, c25SizePool))}
	case 6:
		ru.Filter = &storage.LifecycleFilter{ObjectSizeLessThan: c25P64(verifx.Pick(r, c25SizePool) + 1)}
	default:
		a := &storage.LifecycleFilterAnd{}
		if r.Bool() {
			a.Prefix = c25PStr(verifx.Pick(r, c25PfxPool))
		}
		for _, t := range [][2]string{c25TagPool[r.Intn(2)], c25TagPool[2], c25EmptyTagPool[0]} {
			if r.Chance(2, 5) {
				a.Tags = append(a.Tags, storage.LifecycleTag{Key: t[0], Value: t[1]})
			}
		}
		if r.Chance(1, 3) {
			a.ObjectSizeGreaterThan = c25P64(verifx.Pick(r, c25SizePool[:4]))
		}
		if r.Chance(1, 3) {
			a.ObjectSizeLessThan = c25P64(verifx.Pick(r, c25SizePool[3:]) + 1)
		}
		ru.Filter = &storage.LifecycleFilter{And: a}
	}
}

func c25HasTagOrSize(ru *storage.LifecycleRule) (tag, size bool) {
	f := ru.Filter
	if f == nil {
		return
	}
	tag = f.Tag != nil || (f.And != nil && len(f.And.Tags) > 0)
	size = f.ObjectSizeGreaterThan != nil || f.ObjectSizeLessThan != nil ||
		(f.And != nil && (f.And.ObjectSizeGreaterThan != nil || f.And.ObjectSizeLessThan != nil))
	return
}

func c25GenRule(r *verifx.Rng) storage.LifecycleRule {
	ru := storage.LifecycleRule{Status: storage.LifecycleRuleStatusEnabled}
	if r.Chance(3, 20) {
		ru.Status = storage.LifecycleRuleStatusDisabled
	}
	c25GenSelector(r, &ru)
	hasTag, hasSize := c25HasTagOrSize(&ru)
	nact := 1 + r.Intn(3)
	expDays := -1
	for a := 0; a < nact; a++ {
		switch r.Intn(7) {
		case 0, 1:
			if ru.Expiration != nil {
				continue
			}
			switch r.Intn(5) {
			case 0:
				ru.Expiration = &storage.LifecycleExpiration{Date: c25PTime(c25Day0.AddDate(0, 0, r.Intn(9)-4))}
			case 1:
				if !hasTag {
					ru.Expiration = &storage.LifecycleExpiration{ExpiredObjectDeleteMarker: c25PBool(r.Chance(9, 10))}
				}
			default:
				expDays = 1 + r.Intn(8)
				ru.Expiration = &storage.LifecycleExpiration{Days: c25P32(expDays)}
			}
		case 2:
			if len(ru.Transitions) > 0 {
				continue
			}
			n := 1 + r.Intn(2)
			off := r.Intn(len(c25ClassPool))
			for i := 0; i < n; i++ {
				t := storage.LifecycleTransition{StorageClass: c25ClassPool[(off+i)%len(c25ClassPool)]}
				if r.Chance(1, 5) {
					t.Date = c25PTime(c25Day0.AddDate(0, 0, r.Intn(9)-4))
				} else {
					t.Days = c25P32(r.Intn(6))
				}
				ru.Transitions = append(ru.Transitions, t)
			}
		case 3, 4:
			if ru.NoncurrentVersionExpiration != nil {
				continue
			}
			ne := &storage.LifecycleNoncurrentVersionExpiration{NoncurrentDays: c25P32(1 + r.Intn(6))}
			if ru.Filter != nil && r.Bool() {
				ne.NewerNoncurrentVersions = c25P32(1 + r.Intn(3))
			}
			ru.NoncurrentVersionExpiration = ne
		case 5:
			if len(ru.NoncurrentVersionTransitions) > 0 {
				continue
			}
			n := 1 + r.Intn(2)
			off := r.Intn(len(c25ClassPool))
			for i := 0; i < n; i++ {
				t := storage.LifecycleNoncurrentVersionTransition{StorageClass: c25ClassPool[(off+i)%len(c25ClassPool)], NoncurrentDays: c25P32(1 + r.Intn(4))}
				if ru.Filter != nil && r.Chance(1, 3) {
					t.NewerNoncurrentVersions = c25P32(1 + r.Intn(2))
				}
				ru.NoncurrentVersionTransitions = append(ru.NoncurrentVersionTransitions, t)
			}
		case 6:
			if !hasTag && !hasSize {
				ru.AbortIncompleteMultipartUpload = &storage.LifecycleAbortIncompleteMultipartUpload{DaysAfterInitiation: c25P32(1 + r.Intn(5))}
			}
		}
	}
	if ru.Expiration == nil && ru.AbortIncompleteMultipartUpload == nil && len(ru.Transitions) == 0 && ru.NoncurrentVersionExpiration == nil && len(ru.NoncurrentVersionTransitions) == 0 {
		ru.Expiration = &storage.LifecycleExpiration{Days: c25P32(1 + r.Intn(5))}
	}
	// keep most rules acceptable to the validator: transition days below expiration days
	if ru.Expiration != nil && ru.Expiration.Days != nil {
		for i := range ru.Transitions {
			if d := ru.Transitions[i].Days; d != nil && *d >= *ru.Expiration.Days && r.Chance(9, 10) {
				ru.Expiration.Days = c25P32(int(*d) + 1 + r.Intn(3))
			}
		}
	}
	if ne := ru.NoncurrentVersionExpiration; ne != nil {
		for i := range ru.NoncurrentVersionTransitions {
			if d := ru.NoncurrentVersionTransitions[i].NoncurrentDays; d != nil && *d >= *ne.NoncurrentDays && r.Chance(9, 10) {
				ne.NoncurrentDays = c25P32(int(*d) + 1 + r.Intn(3))
			}
		}
	}
	// a small malformed stream (rejected by the validator; tie only, not judged)
	if r.Chance(1, 14) {
		switch r.Intn(5) {
		case 0:
			ru.Prefix = c25PStr("logs/")
			if ru.Filter == nil {
				ru.Filter = &storage.LifecycleFilter{Prefix: c25PStr("data/")}
			}
		case 1:
			if ru.Filter == nil {
				ru.Filter = &storage.LifecycleFilter{}
				ru.Prefix = nil
			}
			ru.Filter.Prefix = c25PStr("l")
			ru.Filter.ObjectSizeGreaterThan = c25P64(100)
			if ru.Filter.And != nil {
				ru.Filter.And.ObjectSizeGreaterThan = c25P64(1)
			}
		case 2:
			ru.Expiration = &storage.LifecycleExpiration{Days: c25P32(0)}
		case 3:
			ru.Status = "enabled"
		case 4:
			ru.Expiration = &storage.LifecycleExpiration{Days: c25P32(2), Date: c25PTime(c25Day0.Add(time.Hour))}
		}
	}
	return ru
}

// c25GenHistory fills the fake with keys, version chains and uploads.
func c25GenHistory(r *verifx.Rng, f *c25Fake) {
	nk := 1 + r.Intn(4)
	seen := map[string]bool{}
	for len(f.keys) < nk {
		k := verifx.Pick(r, c25KeyPool)
		if !seen[k] {
			seen[k] = true
			f.keys = append(f.keys, k)
		}
	}
	sort.Strings(f.keys)
	for ki, k := range f.keys {
		n := 1
		if f.mode != "unversioned" {
			n = 1 + r.Intn(6)
		}
		t := c25Day0.AddDate(0, 0, -r.Intn(45)).Add(verifx.Pick(r, c25TodPool))
		if r.Chance(1, 4) {
			t = t.Add(time.Duration(r.Intn(int(c25DayD))))
		}
		var asc []*c25Ver
		for i := 0; i < n; i++ {
			v := &c25Ver{created: t, size: verifx.Pick(r, c25SizePool), etag: fmt.Sprintf("e%d%02d", ki, i), tags: c25GenTags(r)}
			switch {
			case f.mode == "unversioned":
				v.vid = "null"
			case i == 0 && r.Chance(1, 6):
				v.vid = "null" // written before versioning was enabled
			case f.mode == "suspended" && i == n-1 && r.Bool():
				v.vid = "null"
				// a suspended write replaces the older null version
				kept := asc[:0]
				for _, o := range asc {
					if o.vid != "null" {
						kept = append(kept, o)
					}
				}
				asc = kept
			default:
				v.vid = f.newVid()
			}
			if f.mode != "unversioned" && n > 1 && v.vid != "null" && r.Chance(1, 5) { // (the SQL store never writes a null delete marker)
				v.dm, v.size, v.etag, v.tags = true, 0, "", map[string]string{}
			}
			if !v.dm && r.Chance(1, 3) {
				c := verifx.Pick(r, append([]string{"STANDARD"}, c25ClassPool...))
				v.cls = &c
			}
			asc = append(asc, v)
			t = t.Add(verifx.Pick(r, c25StepPool))
		}
		// LastModified
		for i, v := range asc {
			v.lm = v.created
			if f.regime == "pithos" && i+1 < len(asc) {
				// the row was last touched when it lost is_latest
				v.lm = asc[i+1].created.Add(-verifx.Pick(r, []time.Duration{0, 1, time.Millisecond}))
				if v.lm.Before(v.created) {
					v.lm = v.created
				}
			}
		}
		if f.regime == "pithos" && r.Chance(1, 3) {
			// later row updates (tagging, transition) move LastModified forward
			nb := 1 + r.Intn(3)
			for b := 0; b < nb; b++ {
				v := asc[r.Intn(len(asc))]
				if !v.dm {
					v.lm = v.lm.Add(verifx.Pick(r, c25StepPool))
					if last := asc[len(asc)-1].created; r.Bool() && v.lm.Before(last) {
						v.lm = last.Add(time.Duration(1+r.Intn(1000)) * time.Millisecond)
					}
				}
			}
		}
		ch := make([]*c25Ver, len(asc))
		for i, v := range asc {
			ch[len(asc)-1-i] = v
			if i+1 < len(asc) {
				v.ncSince = asc[i+1].created
			}
		}
		f.chains[k] = ch
	}
	nu := 0
	if r.Chance(1, 2) {
		nu = 1 + r.Intn(3)
	}
	for i := 0; i < nu; i++ {
		t := c25Day0.AddDate(0, 0, -r.Intn(12)).Add(verifx.Pick(r, c25TodPool))
		f.uploads = append(f.uploads, &c25Upl{key: verifx.Pick(r, c25KeyPool), id: fmt.Sprintf("u%03d", i), initiated: t})
	}
	sort.SliceStable(f.uploads, func(i, j int) bool { return f.uploads[i].key < f.uploads[j].key })
}

// c25DueInstants: the instants at which something becomes due, to place the clock around.
func c25DueInstants(f *c25Fake) []time.Time {
	var out []time.Time
	addDays := func(t time.Time, d *int32) {
		if d != nil {
			out = append(out, c25NextMidnight(t.AddDate(0, 0, int(*d))))
		}
	}
	for i := range f.cfg.Rules {
		ru := &f.cfg.Rules[i]
		for _, k := range f.keys {
			ch := f.chains[k]
			for j, v := range ch {
				if j == 0 {
					if ru.Expiration != nil {
						addDays(v.created, ru.Expiration.Days)
						addDays(v.lm, ru.Expiration.Days)
						if ru.Expiration.Date != nil {
							out = append(out, *ru.Expiration.Date)
						}
					}
					for _, t := range ru.Transitions {
						addDays(v.created, t.Days)
						if t.Date != nil {
							out = append(out, *t.Date)
						}
					}
					continue
				}
				if ru.NoncurrentVersionExpiration != nil {
					addDays(ch[j-1].created, ru.NoncurrentVersionExpiration.NoncurrentDays)
					addDays(ch[j-1].lm, ru.NoncurrentVersionExpiration.NoncurrentDays)
				}
				for _, t := range ru.NoncurrentVersionTransitions {
					addDays(ch[j-1].created, t.NoncurrentDays)
				}
			}
		}
		if ru.AbortIncompleteMultipartUpload != nil {
			for _, u := range f.uploads {
				addDays(u.initiated, ru.AbortIncompleteMultipartUpload.DaysAfterInitiation)
			}
		}
	}
	return out
}

var c25Deltas = []time.Duration{-c25DayD, -time.Second, -1, 0, 1, time.Second, c25DayD, 40 * c25DayD}

func c25GenCase(r *verifx.Rng, rec *c25Rec) *c25Fake {
	f := &c25Fake{DelegatingStorage: delegator.Wrap(nil), rec: rec, bucket: storage.MustNewBucketName("c25"), chains: map[string][]*c25Ver{}}
	switch x := r.Intn(20); {
	case x < 6:
		f.mode = "unversioned"
	case x < 17:
		f.mode = "enabled"
	default:
		f.mode = "suspended"
	}
	f.regime = verifx.Pick(r, []string{"s3", "pithos"})
	f.listOrder = verifx.Pick(r, []string{"recency", "recency", "nulllast"})
	f.pageSize = verifx.Pick(r, []int{0, 0, 1, 2, 3, 5})
	f.zone = verifx.Pick(r, []*time.Location{nil, time.UTC, time.FixedZone("UTC-8", -8*3600), time.FixedZone("UTC+9:30", 9*3600+1800), time.FixedZone("UTC-11", -11*3600)})
	f.listTags = r.Chance(1, 3)
	c25GenHistory(r, f)
	cfg := &storage.BucketLifecycleConfiguration{}
	nr := 1 + r.Intn(4)
	for i := 0; i < nr; i++ {
		cfg.Rules = append(cfg.Rules, c25GenRule(r))
	}
	f.cfg = cfg
	dues := c25DueInstants(f)
	if len(dues) > 0 && r.Chance(9, 10) {
		f.now = verifx.Pick(r, dues).Add(verifx.Pick(r, c25Deltas))
	} else {
		f.now = c25Day0.AddDate(0, 0, r.Intn(30)-5).Add(time.Duration(r.Intn(int(c25DayD))))
	}
	// the "replaced after it was listed" scenario
	if r.Chance(1, 5) {
		k := verifx.Pick(r, f.keys)
		ch := f.chains[k]
		f.swapKey, f.swapKind = k, "current"
		if f.mode != "unversioned" && len(ch) > 1 && ch[len(ch)-1].vid == "null" && r.Bool() {
			f.swapKind = "nullnoncurrent"
		}
	}
	return f
}

func c25UnixNano(t time.Time) int64 { return t.UnixNano() }

func c25RunFake(out *verifx.Out, k int, seed uint64, f *c25Fake) {
	out.Case(k, seed)
	f.rec.lines = append([][]any{{"cfg", f.mode, f.regime, f.listOrder}, {"now", c25Time{f.now}}}, f.rec.lines...)
	c25Reconcile(f.rec, f, f.now)
	f.rec.emit(out, c25UnixNano)
	out.End()
}

// ---------- directed cases on the in-memory storage ----------

type c25V struct {
	vid     string
	dm      bool
	created time.Time
	lm      time.Time // zero = created
	size    int64
	etag    string
	cls     string
	tags    map[string]string
}

func c25Directed(mode, regime string, now time.Time, rules []storage.LifecycleRule, chains map[string][]c25V, uploads []*c25Upl) *c25Fake {
	f := &c25Fake{DelegatingStorage: delegator.Wrap(nil), rec: &c25Rec{}, bucket: storage.MustNewBucketName("c25"), chains: map[string][]*c25Ver{},
		mode: mode, regime: regime, listOrder: "recency", now: now, cfg: &storage.BucketLifecycleConfiguration{Rules: rules}, uploads: uploads, nvid: 100}
	for k, vs := range chains {
		f.keys = append(f.keys, k)
		for _, v := range vs { // given newest first
			nv := &c25Ver{vid: v.vid, dm: v.dm, created: v.created, lm: v.lm, size: v.size, etag: v.etag, tags: v.tags}
			if nv.lm.IsZero() {
				nv.lm = v.created
			}
			if v.cls != "" {
				c := v.cls
				nv.cls = &c
			}
			if nv.tags == nil {
				nv.tags = map[string]string{}
			}
			f.chains[k] = append(f.chains[k], nv)
		}
		for i, v := range f.chains[k] {
			if i > 0 {
				v.ncSince = f.chains[k][i-1].created
			}
		}
	}
	sort.Strings(f.keys)
	return f
}

func c25DirectedCases() []*c25Fake {
	d := func(days int, tod time.Duration) time.Time { return c25Day0.AddDate(0, 0, days).Add(tod) }
	pfx := func(p string) *storage.LifecycleFilter { return &storage.LifecycleFilter{Prefix: c25PStr(p)} }
	en := storage.LifecycleRuleStatusEnabled
	var cs []*c25Fake
	// 0-3: Days=3 on an object created 10:30 — due at the midnight following creation + 3 days; clock at due-1ns, due, and
	// one day early at the same time of day (the `nextMidnight` without `+1 day` mutant)
	exp3 := []storage.LifecycleRule{{Status: en, Filter: pfx("logs/"), Expiration: &storage.LifecycleExpiration{Days: c25P32(3)}}}
	one := func() map[string][]c25V {
		return map[string][]c25V{"logs/a": {{vid: "null", created: d(-10, 10*time.Hour+30*time.Minute), size: 10, etag: "aa"}}, "data/x": {{vid: "null", created: d(-30, 0), size: 10, etag: "bb"}}}
	}
	cs = append(cs, c25Directed("unversioned", "s3", d(-6, 0).Add(-1), exp3, one(), nil))
	cs = append(cs, c25Directed("unversioned", "s3", d(-6, 0), exp3, one(), nil))
	cs = append(cs, c25Directed("unversioned", "s3", d(-7, 11*time.Hour), exp3, one(), nil))
	// created exactly at midnight: due is the NEXT midnight
	cs = append(cs, c25Directed("unversioned", "s3", d(-6, 0), exp3, map[string][]c25V{"logs/a": {{vid: "null", created: d(-10, 0), size: 10, etag: "aa"}}}, nil))
	// 4: expiration and transition both due: delete, no transition
	both := []storage.LifecycleRule{{Status: en, Filter: pfx(""), Expiration: &storage.LifecycleExpiration{Days: c25P32(5)},
		Transitions: []storage.LifecycleTransition{{Days: c25P32(1), StorageClass: "GLACIER"}}}}
	cs = append(cs, c25Directed("enabled", "s3", d(0, time.Hour), both, map[string][]c25V{"logs/a": {{vid: "v00001", created: d(-20, 0), size: 10, etag: "aa"}},
		"logs/b": {{vid: "v00002", created: d(-3, 0), size: 10, etag: "bb"}}}, nil))
	// 5: NewerNoncurrentVersions=2 over five noncurrent versions, LastModified = creation
	nc := []storage.LifecycleRule{{Status: en, Filter: pfx("logs/"), NoncurrentVersionExpiration: &storage.LifecycleNoncurrentVersionExpiration{NoncurrentDays: c25P32(1), NewerNoncurrentVersions: c25P32(2)},
		NoncurrentVersionTransitions: []storage.LifecycleNoncurrentVersionTransition{{NoncurrentDays: c25P32(0 + 1), StorageClass: "STANDARD_IA"}}}}
	nc[0].NoncurrentVersionExpiration.NoncurrentDays = c25P32(2)
	chain6 := func() []c25V {
		var vs []c25V
		for i := 6; i >= 1; i-- {
			vs = append(vs, c25V{vid: fmt.Sprintf("v%05d", i), created: d(-40+i, time.Duration(i)*time.Hour), size: 10, etag: fmt.Sprintf("e%d", i)})
		}
		return vs
	}
	cs = append(cs, c25Directed("enabled", "s3", d(0, 0), nc, map[string][]c25V{"logs/a": chain6()}, nil))
	// 6: the same history as the SQL store reports it after the three oldest versions were tagged later
	// (LastModified = last row update): the retention count follows LastModified, not version order
	bumped := chain6()
	for i := range bumped {
		if i > 0 {
			bumped[i].lm = bumped[i-1].created
		}
	}
	for i := 3; i < 6; i++ {
		bumped[i].lm = d(-30, time.Duration(10-i)*time.Minute)
	}
	ncOnly := []storage.LifecycleRule{{Status: en, Filter: pfx("logs/"), NoncurrentVersionExpiration: &storage.LifecycleNoncurrentVersionExpiration{NoncurrentDays: c25P32(2), NewerNoncurrentVersions: c25P32(1)}}}
	cs = append(cs, c25Directed("enabled", "pithos", d(0, 0), ncOnly, map[string][]c25V{"logs/a": bumped}, nil))
	// 7: S3 would expire the second-newest noncurrent version (NewerNoncurrentVersions=1); it is kept and transitioned
	cs = append(cs, c25Directed("enabled", "s3", d(0, 0), []storage.LifecycleRule{{Status: en, Filter: pfx(""),
		NoncurrentVersionExpiration:  &storage.LifecycleNoncurrentVersionExpiration{NoncurrentDays: c25P32(3), NewerNoncurrentVersions: c25P32(1)},
		NoncurrentVersionTransitions: []storage.LifecycleNoncurrentVersionTransition{{NoncurrentDays: c25P32(1), StorageClass: "GLACIER"}}}},
		map[string][]c25V{"logs/a": chain6()[3:]}, nil))
	// 8: two stacked delete markers, no object version
	dmRule := []storage.LifecycleRule{{Status: en, Filter: pfx(""), Expiration: &storage.LifecycleExpiration{ExpiredObjectDeleteMarker: c25PBool(true)}}}
	cs = append(cs, c25Directed("enabled", "s3", d(0, 0), dmRule, map[string][]c25V{
		"logs/a": {{vid: "v00002", dm: true, created: d(-2, 0)}, {vid: "v00001", dm: true, created: d(-3, 0)}},
		"logs/b": {{vid: "v00004", dm: true, created: d(-2, 0)}},
		"logs/c": {{vid: "v00006", dm: true, created: d(-2, 0)}, {vid: "v00005", created: d(-3, 0), size: 3, etag: "cc"}}}, nil))
	// 9-11: replaced after it was listed — current object (unversioned, versioned), transition
	sw := c25Directed("unversioned", "s3", d(0, 0), exp3, one(), nil)
	sw.swapKey, sw.swapKind = "logs/a", "current"
	cs = append(cs, sw)
	sw = c25Directed("enabled", "pithos", d(0, 0), both, map[string][]c25V{"logs/a": {{vid: "v00001", created: d(-20, 0), size: 10, etag: "aa"}}}, nil)
	sw.swapKey, sw.swapKind = "logs/a", "current"
	cs = append(cs, sw)
	sw = c25Directed("enabled", "s3", d(0, 0), []storage.LifecycleRule{{Status: en, Filter: pfx(""), Transitions: []storage.LifecycleTransition{{Days: c25P32(1), StorageClass: "GLACIER"}}}},
		map[string][]c25V{"logs/a": {{vid: "v00001", created: d(-20, 0), size: 10, etag: "aa"}}}, nil)
	sw.swapKey, sw.swapKind = "logs/a", "current"
	cs = append(cs, sw)
	// 12: a noncurrent NULL version is replaced (versioning suspended + write) between listing and delete
	sw = c25Directed("enabled", "s3", d(0, 0), []storage.LifecycleRule{{Status: en, Filter: pfx(""), NoncurrentVersionExpiration: &storage.LifecycleNoncurrentVersionExpiration{NoncurrentDays: c25P32(1)}}},
		map[string][]c25V{"logs/a": {{vid: "v00001", created: d(-20, 0), size: 10, etag: "aa"}, {vid: "null", created: d(-25, 0), size: 10, etag: "00"}}}, nil)
	sw.swapKey, sw.swapKind = "logs/a", "nullnoncurrent"
	cs = append(cs, sw)
	// 13: a sole delete marker gets an object written on top of it between listing and its delete
	sw = c25Directed("enabled", "s3", d(0, 0), dmRule, map[string][]c25V{"logs/a": {{vid: "v00001", dm: true, created: d(-2, 0)}}}, nil)
	sw.swapKey, sw.swapKind = "logs/a", "current"
	cs = append(cs, sw)
	// 14: uploads around the abort due instant
	ab := []storage.LifecycleRule{{Status: en, Filter: pfx("logs/"), AbortIncompleteMultipartUpload: &storage.LifecycleAbortIncompleteMultipartUpload{DaysAfterInitiation: c25P32(2)}}}
	cs = append(cs, c25Directed("unversioned", "s3", d(0, 0), ab, map[string][]c25V{}, []*c25Upl{
		{key: "logs/a", id: "u1", initiated: d(-3, 0).Add(-1)}, {key: "logs/a", id: "u2", initiated: d(-3, 0)}, {key: "data/x", id: "u3", initiated: d(-30, 0)}}))
	// 15: the re-tagged history of case 6 with a NoncurrentVersionTransition as well
	rebump := func() []c25V {
		vs := chain6()
		for i := range vs {
			if i > 0 {
				vs[i].lm = vs[i-1].created
			}
		}
		for i := 3; i < 6; i++ {
			vs[i].lm = d(-30, time.Duration(10-i)*time.Minute)
		}
		return vs
	}
	cs = append(cs, c25Directed("enabled", "pithos", d(0, 0), []storage.LifecycleRule{{Status: en, Filter: pfx("logs/"),
		NoncurrentVersionExpiration:  &storage.LifecycleNoncurrentVersionExpiration{NoncurrentDays: c25P32(2), NewerNoncurrentVersions: c25P32(1)},
		NoncurrentVersionTransitions: []storage.LifecycleNoncurrentVersionTransition{{NoncurrentDays: c25P32(1), StorageClass: "GLACIER"}}}},
		map[string][]c25V{"logs/a": rebump()}, nil))
	// 16: … and with a NoncurrentVersionTransition that has its own NewerNoncurrentVersions
	cs = append(cs, c25Directed("enabled", "pithos", d(0, 0), []storage.LifecycleRule{{Status: en, Filter: pfx("logs/"),
		NoncurrentVersionTransitions: []storage.LifecycleNoncurrentVersionTransition{{NoncurrentDays: c25P32(1), NewerNoncurrentVersions: c25P32(1), StorageClass: "GLACIER"}}}},
		map[string][]c25V{"logs/a": rebump()}, nil))
	// empty-valued tag predicates: `archive=""` selects the object that carries the key with an empty value,
	// neither the untagged one nor the one with another value — for the current version, a noncurrent version
	// and a transition
	emptyTag := []storage.LifecycleRule{
		{Status: en, Filter: &storage.LifecycleFilter{Tag: &storage.LifecycleTag{Key: "archive", Value: ""}}, Expiration: &storage.LifecycleExpiration{Days: c25P32(1)}},
		{Status: en, Filter: &storage.LifecycleFilter{And: &storage.LifecycleFilterAnd{Prefix: c25PStr("v/"), Tags: []storage.LifecycleTag{{Key: "archive", Value: ""}}}},
			NoncurrentVersionExpiration: &storage.LifecycleNoncurrentVersionExpiration{NoncurrentDays: c25P32(1)}},
		{Status: en, Filter: &storage.LifecycleFilter{Tag: &storage.LifecycleTag{Key: "env", Value: ""}}, Transitions: []storage.LifecycleTransition{{Days: c25P32(0), StorageClass: "GLACIER"}}},
	}
	cs = append(cs, c25Directed("enabled", "s3", d(0, 0), emptyTag, map[string][]c25V{
		"logs/a": {{vid: "v00001", created: d(-20, 0), size: 10, etag: "aa", tags: map[string]string{"archive": ""}}},
		"logs/b": {{vid: "v00002", created: d(-20, 0), size: 10, etag: "bb"}},
		"logs/c": {{vid: "v00003", created: d(-20, 0), size: 10, etag: "cc", tags: map[string]string{"archive": "yes", "env": "prod"}}},
		"logs/d": {{vid: "v00004", created: d(-20, 0), size: 10, etag: "dd", tags: map[string]string{"env": ""}}},
		"v/x": {{vid: "v00007", created: d(-5, 0), size: 10, etag: "x3"}, {vid: "v00006", created: d(-20, 0), size: 10, etag: "x2"},
			{vid: "v00005", created: d(-25, 0), size: 10, etag: "x1", tags: map[string]string{"archive": ""}}},
	}, nil))
	return cs
}

func runC25(args []string) {
	f := verifx.ParseFlags("c25", args, 2500, 25000)
	out := verifx.NewOut()
	k := 0
	for _, fc := range c25DirectedCases() {
		if f.Wants(k) {
			c25RunFake(out, k, uint64(k), fc)
		}
		k++
	}
	for i := 0; i < c25RealScenarioCount; i++ {
		if f.Wants(k) {
			c25RunReal(out, k, i, filepath.Join(f.Scratch, fmt.Sprintf("c25-real-%d", i)))
		}
		k++
	}
	for c := 0; c < f.Cases; c++ {
		if f.Wants(k) {
			seed := verifx.CaseSeed(f.Seed, k)
			r := verifx.NewRng(seed)
			rec := &c25Rec{}
			c25RunFake(out, k, seed, c25GenCase(r, rec))
		}
		k++
	}
	out.Flush()
}
