//go:build verif

package main

import (
	"bytes"
	"context"
	"database/sql"
	"encoding/hex"
	"encoding/xml"
	"fmt"
	"net/http"
	"net/http/httptest"
	"net/url"
	"path/filepath"
	"sort"
	"strconv"
	"strings"

	"github.com/jdillenkofer/pithos/internal/http/server"
	"github.com/jdillenkofer/pithos/internal/http/server/authorization"
	"github.com/jdillenkofer/pithos/internal/storage"
	"github.com/jdillenkofer/pithos/internal/storage/database"
	"github.com/jdillenkofer/pithos/internal/verifx"
)

// ---------- environment: one SQLite stack + the HTTP handler the binary would serve ----------

// c06AllowAll authorizes every request; it does not implement RequestResourceAuthorizer, so the
// per-entry list filters of the handlers answer "allowed" as well.
type c06AllowAll struct{}

func (c06AllowAll) AuthorizeRequest(ctx context.Context, request *authorization.Request) (bool, error) {
	return true, nil
}

type c06Env struct {
	ctx     context.Context
	dir     string
	gen     int
	st      *verifx.Stack
	h       http.Handler
	buckets int
}

func newC06Env(scratch string) *c06Env {
	e := &c06Env{ctx: context.Background(), dir: filepath.Join(scratch, "c06")}
	e.reset()
	return e
}

func (e *c06Env) reset() {
	if e.st != nil {
		e.st.Close()
	}
	e.gen++
	e.st = verifx.NewStack(filepath.Join(e.dir, strconv.Itoa(e.gen)), verifx.StackOpts{PartKind: "sql"})
	// no credentials (authentication off), allow-all authorizer, path-style requests to Host localhost
	e.h = server.SetupServer(nil, "eu-central-1", "localhost", "web.localhost", c06AllowAll{}, e.st.Storage)
	e.buckets = 0
}

func (e *c06Env) close() {
	if e.st != nil {
		e.st.Close()
		e.st = nil
	}
}

func (e *c06Env) newBucket(tag string) storage.BucketName {
	e.buckets++
	b := storage.MustNewBucketName(fmt.Sprintf("c06%s%d", tag, e.buckets))
	verifx.Check(e.st.Storage.CreateBucket(e.ctx, b))
	return b
}

// ---------- ground truth: the rows the listing statements operate on ----------

type c06DBRow struct {
	key       string
	versionID string // "" when NULL
	dm        bool
	latest    bool
	status    string
	uploadID  string
}

func (e *c06Env) rows(b storage.BucketName) []c06DBRow {
	var out []c06DBRow
	err := database.WithTx(e.ctx, e.st.RawDB, &sql.TxOptions{ReadOnly: true}, func(ctx context.Context, tx database.Tx) error {
		rs, err := tx.SqlTx().QueryContext(ctx, "SELECT key, COALESCE(version_id, ''), is_delete_marker, is_latest, upload_status, COALESCE(upload_id, '') FROM objects WHERE bucket_name = $1", b.String())
		if err != nil {
			return err
		}
		defer rs.Close()
		for rs.Next() {
			var r c06DBRow
			if err := rs.Scan(&r.key, &r.versionID, &r.dm, &r.latest, &r.status, &r.uploadID); err != nil {
				return err
			}
			out = append(out, r)
		}
		return rs.Err()
	})
	verifx.Check(err)
	return out
}

// c06Ranks maps every id to 1 + its rank in string order ("" and "null" map to 0).
func c06Ranks(ids []string) map[string]int {
	s := append([]string(nil), ids...)
	sort.Strings(s)
	m := map[string]int{"": 0, "null": 0}
	n := 0
	for _, id := range s {
		if id == "" || id == "null" {
			continue
		}
		if _, ok := m[id]; !ok {
			n++
			m[id] = n
		}
	}
	return m
}

// ---------- HTTP ----------

func (e *c06Env) get(path string, q url.Values) (int, []byte) {
	u := url.URL{Scheme: "http", Host: "localhost", Path: path, RawQuery: q.Encode()}
	req := httptest.NewRequest(http.MethodGet, u.String(), nil)
	req.Host = "localhost"
	rec := httptest.NewRecorder()
	e.h.ServeHTTP(rec, req)
	return rec.Code, rec.Body.Bytes()
}

type c06XPrefix struct {
	Prefix string `xml:"Prefix"`
}
type c06XListBucket struct {
	IsTruncated           bool    `xml:"IsTruncated"`
	NextMarker            *string `xml:"NextMarker"`
	NextContinuationToken *string `xml:"NextContinuationToken"`
	Contents              []struct {
		Key string `xml:"Key"`
	} `xml:"Contents"`
	CommonPrefixes []c06XPrefix `xml:"CommonPrefixes"`
}
type c06XVersionEntry struct {
	Key       string `xml:"Key"`
	VersionID string `xml:"VersionId"`
}
type c06XListVersions struct {
	IsTruncated         bool               `xml:"IsTruncated"`
	NextKeyMarker       *string            `xml:"NextKeyMarker"`
	NextVersionIDMarker *string            `xml:"NextVersionIdMarker"`
	Versions            []c06XVersionEntry `xml:"Version"`
	DeleteMarkers       []c06XVersionEntry `xml:"DeleteMarker"`
	CommonPrefixes      []c06XPrefix       `xml:"CommonPrefixes"`
}
type c06XListUploads struct {
	IsTruncated        bool    `xml:"IsTruncated"`
	NextKeyMarker      *string `xml:"NextKeyMarker"`
	NextUploadIDMarker *string `xml:"NextUploadIdMarker"`
	Uploads            []struct {
		Key      string `xml:"Key"`
		UploadID string `xml:"UploadId"`
	} `xml:"Upload"`
	CommonPrefixes []c06XPrefix `xml:"CommonPrefixes"`
}
type c06XListParts struct {
	IsTruncated          bool    `xml:"IsTruncated"`
	NextPartNumberMarker *string `xml:"NextPartNumberMarker"`
	Parts                []struct {
		PartNumber int `xml:"PartNumber"`
	} `xml:"Part"`
}

func c06ParseXML(code int, body []byte, v any) error {
	if code != 200 {
		return fmt.Errorf("http-%d", code)
	}
	if err := xml.NewDecoder(bytes.NewReader(body)).Decode(v); err != nil {
		return fmt.Errorf("xml")
	}
	return nil
}

// ---------- protocol helpers ----------

// c06Opt renders an optional byte string: "~" = absent.
func c06Opt(s *string) string {
	if s == nil {
		return "~"
	}
	return verifx.HexS(*s)
}

func c06OptInt(n int) string {
	if n < 0 {
		return "~"
	}
	return strconv.Itoa(n)
}

func c06HexList(xs []string) string {
	if len(xs) == 0 {
		return ""
	}
	h := make([]string, len(xs))
	for i, x := range xs {
		h[i] = verifx.HexS(x)
	}
	return " " + strings.Join(h, " ")
}

func c06ErrKind(err error) string {
	s := err.Error()
	s = strings.Map(func(r rune) rune {
		if r == ' ' || r == '\n' || r == '\t' {
			return '_'
		}
		return r
	}, s)
	if len(s) > 60 {
		s = s[:60]
	}
	return "err-" + hex.EncodeToString([]byte(s))
}
