//go:build verif

package main

// GENERATED ONCE from /repo/internal/storage/middlewares/delegator/delegator.go (one override per
// method of storage.Storage that the delegator forwards); edit by re-running the generator comment
// in design/C33.md. A recording storage: every call is logged as (method, bucket, key) and then
// forwarded to the wrapped storage.

import (
	"context"
	"database/sql"
	"io"

	"github.com/jdillenkofer/pithos/internal/storage"
	"github.com/jdillenkofer/pithos/internal/storage/middlewares/delegator"
)

type c33Call struct {
	Method string
	Bucket string // "" when the method has no bucket argument
	Key    string
	HasKey bool
}

type c33Recorder struct {
	delegator.DelegatingStorage
	Calls []c33Call
	Off   bool // set while the harness prepares state through the same storage
}

func newC33Recorder(inner storage.Storage) *c33Recorder {
	return &c33Recorder{DelegatingStorage: delegator.Wrap(inner)}
}

func (r *c33Recorder) rec(method string, bucket *storage.BucketName, key *storage.ObjectKey) {
	if r.Off {
		return
	}
	c := c33Call{Method: method}
	if bucket != nil {
		c.Bucket = bucket.String()
	}
	if key != nil {
		c.Key = key.String()
		c.HasKey = true
	}
	r.Calls = append(r.Calls, c)
}

func (r *c33Recorder) WithTransaction(ctx context.Context, opts *sql.TxOptions, fn func(ctx context.Context, txStorage storage.Storage) error) error {
	return delegator.WithTransaction(ctx, opts, r.Next, r, fn)
}

func (r *c33Recorder) CreateBucket(ctx context.Context, bucketName storage.BucketName) error {
	r.rec("CreateBucket", &bucketName, nil)
	return r.DelegatingStorage.CreateBucket(ctx, bucketName)
}

func (r *c33Recorder) DeleteBucket(ctx context.Context, bucketName storage.BucketName) error {
	r.rec("DeleteBucket", &bucketName, nil)
	return r.DelegatingStorage.DeleteBucket(ctx, bucketName)
}

func (r *c33Recorder) ListBuckets(ctx context.Context) ([]storage.Bucket, error) {
	r.rec("ListBuckets", nil, nil)
	return r.DelegatingStorage.ListBuckets(ctx)
}

func (r *c33Recorder) HeadBucket(ctx context.Context, bucketName storage.BucketName) (*storage.Bucket, error) {
	r.rec("HeadBucket", &bucketName, nil)
	return r.DelegatingStorage.HeadBucket(ctx, bucketName)
}

func (r *c33Recorder) GetBucketWebsiteConfiguration(ctx context.Context, bucketName storage.BucketName) (*storage.WebsiteConfiguration, error) {
	r.rec("GetBucketWebsiteConfiguration", &bucketName, nil)
	return r.DelegatingStorage.GetBucketWebsiteConfiguration(ctx, bucketName)
}

func (r *c33Recorder) PutBucketWebsiteConfiguration(ctx context.Context, bucketName storage.BucketName, config *storage.WebsiteConfiguration) error {
	r.rec("PutBucketWebsiteConfiguration", &bucketName, nil)
	return r.DelegatingStorage.PutBucketWebsiteConfiguration(ctx, bucketName, config)
}

func (r *c33Recorder) DeleteBucketWebsiteConfiguration(ctx context.Context, bucketName storage.BucketName) error {
	r.rec("DeleteBucketWebsiteConfiguration", &bucketName, nil)
	return r.DelegatingStorage.DeleteBucketWebsiteConfiguration(ctx, bucketName)
}

func (r *c33Recorder) GetBucketCORSConfiguration(ctx context.Context, bucketName storage.BucketName) (*storage.BucketCORSConfiguration, error) {
	r.rec("GetBucketCORSConfiguration", &bucketName, nil)
	return r.DelegatingStorage.GetBucketCORSConfiguration(ctx, bucketName)
}

func (r *c33Recorder) PutBucketCORSConfiguration(ctx context.Context, bucketName storage.BucketName, config *storage.BucketCORSConfiguration) error {
	r.rec("PutBucketCORSConfiguration", &bucketName, nil)
	return r.DelegatingStorage.PutBucketCORSConfiguration(ctx, bucketName, config)
}

func (r *c33Recorder) DeleteBucketCORSConfiguration(ctx context.Context, bucketName storage.BucketName) error {
	r.rec("DeleteBucketCORSConfiguration", &bucketName, nil)
	return r.DelegatingStorage.DeleteBucketCORSConfiguration(ctx, bucketName)
}

func (r *c33Recorder) GetBucketLifecycleConfiguration(ctx context.Context, bucketName storage.BucketName) (*storage.BucketLifecycleConfiguration, error) {
	r.rec("GetBucketLifecycleConfiguration", &bucketName, nil)
	return r.DelegatingStorage.GetBucketLifecycleConfiguration(ctx, bucketName)
}

func (r *c33Recorder) PutBucketLifecycleConfiguration(ctx context.Context, bucketName storage.BucketName, config *storage.BucketLifecycleConfiguration) error {
	r.rec("PutBucketLifecycleConfiguration", &bucketName, nil)
	return r.DelegatingStorage.PutBucketLifecycleConfiguration(ctx, bucketName, config)
}

func (r *c33Recorder) DeleteBucketLifecycleConfiguration(ctx context.Context, bucketName storage.BucketName) error {
	r.rec("DeleteBucketLifecycleConfiguration", &bucketName, nil)
	return r.DelegatingStorage.DeleteBucketLifecycleConfiguration(ctx, bucketName)
}

func (r *c33Recorder) GetBucketNotificationConfiguration(ctx context.Context, bucketName storage.BucketName) (*storage.BucketNotificationConfiguration, error) {
	r.rec("GetBucketNotificationConfiguration", &bucketName, nil)
	return r.DelegatingStorage.GetBucketNotificationConfiguration(ctx, bucketName)
}

func (r *c33Recorder) PutBucketNotificationConfiguration(ctx context.Context, bucketName storage.BucketName, config *storage.BucketNotificationConfiguration) error {
	r.rec("PutBucketNotificationConfiguration", &bucketName, nil)
	return r.DelegatingStorage.PutBucketNotificationConfiguration(ctx, bucketName, config)
}

func (r *c33Recorder) GetObjectTagging(ctx context.Context, bucketName storage.BucketName, key storage.ObjectKey, opts *storage.ObjectTaggingOptions) (map[string]string, error) {
	r.rec("GetObjectTagging", &bucketName, &key)
	return r.DelegatingStorage.GetObjectTagging(ctx, bucketName, key, opts)
}

func (r *c33Recorder) PutObjectTagging(ctx context.Context, bucketName storage.BucketName, key storage.ObjectKey, tags map[string]string, opts *storage.ObjectTaggingOptions) error {
	r.rec("PutObjectTagging", &bucketName, &key)
	return r.DelegatingStorage.PutObjectTagging(ctx, bucketName, key, tags, opts)
}

func (r *c33Recorder) DeleteObjectTagging(ctx context.Context, bucketName storage.BucketName, key storage.ObjectKey, opts *storage.ObjectTaggingOptions) error {
	r.rec("DeleteObjectTagging", &bucketName, &key)
	return r.DelegatingStorage.DeleteObjectTagging(ctx, bucketName, key, opts)
}

func (r *c33Recorder) ListObjects(ctx context.Context, bucketName storage.BucketName, opts storage.ListObjectsOptions) (*storage.ListBucketResult, error) {
	r.rec("ListObjects", &bucketName, nil)
	return r.DelegatingStorage.ListObjects(ctx, bucketName, opts)
}

func (r *c33Recorder) HeadObject(ctx context.Context, bucketName storage.BucketName, key storage.ObjectKey, opts *storage.HeadObjectOptions) (*storage.Object, error) {
	r.rec("HeadObject", &bucketName, &key)
	return r.DelegatingStorage.HeadObject(ctx, bucketName, key, opts)
}

func (r *c33Recorder) GetObject(ctx context.Context, bucketName storage.BucketName, key storage.ObjectKey, ranges []storage.ByteRange, opts *storage.GetObjectOptions) (*storage.Object, []io.ReadCloser, error) {
	r.rec("GetObject", &bucketName, &key)
	return r.DelegatingStorage.GetObject(ctx, bucketName, key, ranges, opts)
}

func (r *c33Recorder) PutObject(ctx context.Context, bucketName storage.BucketName, key storage.ObjectKey, contentType *string, data io.Reader, checksumInput *storage.ChecksumInput, opts *storage.PutObjectOptions) (*storage.PutObjectResult, error) {
	r.rec("PutObject", &bucketName, &key)
	return r.DelegatingStorage.PutObject(ctx, bucketName, key, contentType, data, checksumInput, opts)
}

func (r *c33Recorder) CopyObject(ctx context.Context, srcBucket storage.BucketName, srcKey storage.ObjectKey, dstBucket storage.BucketName, dstKey storage.ObjectKey, opts *storage.CopyObjectOptions) (*storage.CopyObjectResult, error) {
	r.rec("CopyObject", &dstBucket, &dstKey)
	r.rec("CopyObject.src", &srcBucket, &srcKey)
	return r.DelegatingStorage.CopyObject(ctx, srcBucket, srcKey, dstBucket, dstKey, opts)
}

func (r *c33Recorder) AppendObject(ctx context.Context, bucketName storage.BucketName, key storage.ObjectKey, data io.Reader, checksumInput *storage.ChecksumInput, opts *storage.AppendObjectOptions) (*storage.AppendObjectResult, error) {
	r.rec("AppendObject", &bucketName, &key)
	return r.DelegatingStorage.AppendObject(ctx, bucketName, key, data, checksumInput, opts)
}

func (r *c33Recorder) DeleteObject(ctx context.Context, bucketName storage.BucketName, key storage.ObjectKey, opts *storage.DeleteObjectOptions) (*storage.DeleteObjectResult, error) {
	r.rec("DeleteObject", &bucketName, &key)
	return r.DelegatingStorage.DeleteObject(ctx, bucketName, key, opts)
}

func (r *c33Recorder) GetBucketVersioningConfiguration(ctx context.Context, bucketName storage.BucketName) (*storage.BucketVersioningConfiguration, error) {
	r.rec("GetBucketVersioningConfiguration", &bucketName, nil)
	return r.DelegatingStorage.GetBucketVersioningConfiguration(ctx, bucketName)
}

func (r *c33Recorder) PutBucketVersioningConfiguration(ctx context.Context, bucketName storage.BucketName, config *storage.BucketVersioningConfiguration) error {
	r.rec("PutBucketVersioningConfiguration", &bucketName, nil)
	return r.DelegatingStorage.PutBucketVersioningConfiguration(ctx, bucketName, config)
}

func (r *c33Recorder) ListObjectVersions(ctx context.Context, bucketName storage.BucketName, opts storage.ListObjectVersionsOptions) (*storage.ListObjectVersionsResult, error) {
	r.rec("ListObjectVersions", &bucketName, nil)
	return r.DelegatingStorage.ListObjectVersions(ctx, bucketName, opts)
}

func (r *c33Recorder) DeleteObjects(ctx context.Context, bucketName storage.BucketName, entries []storage.DeleteObjectsInputEntry) (*storage.DeleteObjectsResult, error) {
	r.rec("DeleteObjects", &bucketName, nil)
	return r.DelegatingStorage.DeleteObjects(ctx, bucketName, entries)
}

func (r *c33Recorder) TransitionObjectStorageClass(ctx context.Context, bucketName storage.BucketName, key storage.ObjectKey, targetStorageClass string, opts *storage.TransitionObjectStorageClassOptions) error {
	r.rec("TransitionObjectStorageClass", &bucketName, &key)
	return r.DelegatingStorage.TransitionObjectStorageClass(ctx, bucketName, key, targetStorageClass, opts)
}

func (r *c33Recorder) CreateMultipartUpload(ctx context.Context, bucketName storage.BucketName, key storage.ObjectKey, contentType *string, checksumType *string, opts *storage.CreateMultipartUploadOptions) (*storage.InitiateMultipartUploadResult, error) {
	r.rec("CreateMultipartUpload", &bucketName, &key)
	return r.DelegatingStorage.CreateMultipartUpload(ctx, bucketName, key, contentType, checksumType, opts)
}

func (r *c33Recorder) UploadPart(ctx context.Context, bucketName storage.BucketName, key storage.ObjectKey, uploadId storage.UploadId, partNumber int32, data io.Reader, checksumInput *storage.ChecksumInput) (*storage.UploadPartResult, error) {
	r.rec("UploadPart", &bucketName, &key)
	return r.DelegatingStorage.UploadPart(ctx, bucketName, key, uploadId, partNumber, data, checksumInput)
}

func (r *c33Recorder) UploadPartCopy(ctx context.Context, srcBucket storage.BucketName, srcKey storage.ObjectKey, dstBucket storage.BucketName, dstKey storage.ObjectKey, uploadId storage.UploadId, partNumber int32, opts *storage.UploadPartCopyOptions) (*storage.UploadPartCopyResult, error) {
	r.rec("UploadPartCopy", &dstBucket, &dstKey)
	r.rec("UploadPartCopy.src", &srcBucket, &srcKey)
	return r.DelegatingStorage.UploadPartCopy(ctx, srcBucket, srcKey, dstBucket, dstKey, uploadId, partNumber, opts)
}

func (r *c33Recorder) CompleteMultipartUpload(ctx context.Context, bucketName storage.BucketName, key storage.ObjectKey, uploadId storage.UploadId, checksumInput *storage.ChecksumInput, opts *storage.CompleteMultipartUploadOptions) (*storage.CompleteMultipartUploadResult, error) {
	r.rec("CompleteMultipartUpload", &bucketName, &key)
	return r.DelegatingStorage.CompleteMultipartUpload(ctx, bucketName, key, uploadId, checksumInput, opts)
}

func (r *c33Recorder) AbortMultipartUpload(ctx context.Context, bucketName storage.BucketName, key storage.ObjectKey, uploadId storage.UploadId) error {
	r.rec("AbortMultipartUpload", &bucketName, &key)
	return r.DelegatingStorage.AbortMultipartUpload(ctx, bucketName, key, uploadId)
}

func (r *c33Recorder) ListMultipartUploads(ctx context.Context, bucketName storage.BucketName, opts storage.ListMultipartUploadsOptions) (*storage.ListMultipartUploadsResult, error) {
	r.rec("ListMultipartUploads", &bucketName, nil)
	return r.DelegatingStorage.ListMultipartUploads(ctx, bucketName, opts)
}

func (r *c33Recorder) ListParts(ctx context.Context, bucketName storage.BucketName, key storage.ObjectKey, uploadId storage.UploadId, opts storage.ListPartsOptions) (*storage.ListPartsResult, error) {
	r.rec("ListParts", &bucketName, &key)
	return r.DelegatingStorage.ListParts(ctx, bucketName, key, uploadId, opts)
}

// c33RecordedMethods lists every overridden method (for the harness self-check).
var c33RecordedMethods = []string{"CreateBucket", "DeleteBucket", "ListBuckets", "HeadBucket", "GetBucketWebsiteConfiguration", "PutBucketWebsiteConfiguration", "DeleteBucketWebsiteConfiguration", "GetBucketCORSConfiguration", "PutBucketCORSConfiguration", "DeleteBucketCORSConfiguration", "GetBucketLifecycleConfiguration", "PutBucketLifecycleConfiguration", "DeleteBucketLifecycleConfiguration", "GetBucketNotificationConfiguration", "PutBucketNotificationConfiguration", "GetObjectTagging", "PutObjectTagging", "DeleteObjectTagging", "ListObjects", "HeadObject", "GetObject", "PutObject", "CopyObject", "AppendObject", "DeleteObject", "GetBucketVersioningConfiguration", "PutBucketVersioningConfiguration", "ListObjectVersions", "DeleteObjects", "TransitionObjectStorageClass", "CreateMultipartUpload", "UploadPart", "UploadPartCopy", "CompleteMultipartUpload", "AbortMultipartUpload", "ListMultipartUploads", "ListParts"}
