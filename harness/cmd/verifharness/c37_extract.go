//go:build verif

package main

import (
	"fmt"
	"go/ast"
	"sort"
	"strings"
)

// T1 extractor "migratorflow": regenerates lean/Pithos/Gen/MigratorFlow.lean from
//   internal/storage/migrator/migrator.go
// It records, purely syntactically,
//   * which fields of s3.PutObjectInput migrateSingleObject sets and which source paths
//     (srcObject.…, tags, tempFile) and helper functions each value mentions,
//   * for every method of StorageToS3UploadAPIClientAdapter which fields of its SDK input reach
//     which parameter / option field of the storage call it makes,
//   * how objectMetadataFromSDKInput maps its parameters to storage.ObjectMetadata fields.
// Unrecognised shapes make it fail closed.

func init() { registerExtractor("migratorflow", c37ExtractMigratorFlow) }

type c37Assign struct {
	Field    string
	Mentions []string // source paths mentioned by the assigned value (aliases resolved)
	Funcs    []string // functions applied on the way
}

type c37Flow struct{ Method, Input, Sink string }

// c37Mentions collects selector paths rooted at one of `roots` and called function names.
func c37Mentions(x *ExtractCtx, e ast.Expr, roots map[string]bool, alias map[string]ast.Expr, depth int) (paths, funcs []string) {
	seenP, seenF := map[string]bool{}, map[string]bool{}
	var walk func(n ast.Node, d int)
	walk = func(n ast.Node, d int) {
		ast.Inspect(n, func(n ast.Node) bool {
			switch t := n.(type) {
			case *ast.CallExpr:
				name := x.Src(t.Fun)
				if !seenF[name] {
					seenF[name] = true
					funcs = append(funcs, name)
				}
			case *ast.SelectorExpr:
				s := x.Src(t)
				root := strings.SplitN(s, ".", 2)[0]
				if roots[root] {
					if !seenP[s] {
						seenP[s] = true
						paths = append(paths, s)
					}
					return false
				}
				if a, ok := alias[root]; ok && d < 4 {
					// metadata.X with metadata := srcObject.Metadata  →  srcObject.Metadata.X
					full := x.Src(a) + "." + strings.SplitN(s, ".", 2)[1]
					if !seenP[full] {
						seenP[full] = true
						paths = append(paths, full)
					}
					return false
				}
			case *ast.Ident:
				if roots[t.Name] {
					if !seenP[t.Name] {
						seenP[t.Name] = true
						paths = append(paths, t.Name)
					}
				} else if a, ok := alias[t.Name]; ok && d < 4 {
					walk(a, d+1)
				}
			}
			return true
		})
	}
	walk(e, depth)
	sort.Strings(paths)
	sort.Strings(funcs)
	return
}

// c37Locals maps every local variable of fn to the expression that defines it (first definition;
// for `a, err := f(x)` both names map to the call).
func c37Locals(fn *ast.FuncDecl) map[string]ast.Expr {
	m := map[string]ast.Expr{}
	ast.Inspect(fn.Body, func(n ast.Node) bool {
		as, ok := n.(*ast.AssignStmt)
		if !ok {
			return true
		}
		for i, l := range as.Lhs {
			id, ok := l.(*ast.Ident)
			if !ok || id.Name == "_" || id.Name == "err" {
				continue
			}
			var rhs ast.Expr
			if len(as.Rhs) == len(as.Lhs) {
				rhs = as.Rhs[i]
			} else if len(as.Rhs) == 1 {
				rhs = as.Rhs[0]
			}
			if rhs == nil {
				continue
			}
			if _, dup := m[id.Name]; !dup {
				m[id.Name] = rhs
			} else {
				// later plain assignments (x = …) extend what the variable may hold
				m[id.Name] = &ast.BinaryExpr{X: m[id.Name], Op: 0, Y: rhs}
			}
		}
		return true
	})
	return m
}

func c37ExtractMigratorFlow(x *ExtractCtx) error {
	const rel = "internal/storage/migrator/migrator.go"
	f, err := x.ParseFile(rel)
	if err != nil {
		return err
	}
	// ---- 1. migrateSingleObject: the PutObjectInput
	ms := FindFunc(f, "", "migrateSingleObject")
	if ms == nil {
		return fmt.Errorf("migrateSingleObject not found")
	}
	x.Note("migrateSingleObject", ms)
	locals := c37Locals(ms)
	// aliases that are plain paths (metadata := srcObject.Metadata) are resolved as prefixes
	alias := map[string]ast.Expr{}
	for n, e := range locals {
		if n == "input" || n == "uploader" || n == "adapter" {
			continue
		}
		alias[n] = e
	}
	roots := map[string]bool{"srcObject": true, "sourceObject": true, "bucketName": true, "tags": true, "tempFile": true}
	delete(alias, "tags") // tags is a root: it comes from source.GetObjectTagging
	delete(alias, "tempFile")
	delete(alias, "srcObject")
	var assigns []c37Assign
	var lit *ast.CompositeLit
	ast.Inspect(ms.Body, func(n ast.Node) bool {
		if cl, ok := n.(*ast.CompositeLit); ok && x.Src(cl.Type) == "s3.PutObjectInput" {
			if lit != nil {
				err = fmt.Errorf("more than one s3.PutObjectInput literal in migrateSingleObject")
			}
			lit = cl
		}
		return true
	})
	if err != nil {
		return err
	}
	if lit == nil {
		return fmt.Errorf("no s3.PutObjectInput literal in migrateSingleObject")
	}
	x.Note("PutObjectInput literal", lit)
	for _, el := range lit.Elts {
		kvx, ok := el.(*ast.KeyValueExpr)
		if !ok {
			return fmt.Errorf("positional field in PutObjectInput literal")
		}
		p, fn := c37Mentions(x, kvx.Value, roots, alias, 0)
		assigns = append(assigns, c37Assign{x.Src(kvx.Key), p, fn})
	}
	ast.Inspect(ms.Body, func(n ast.Node) bool {
		as, ok := n.(*ast.AssignStmt)
		if !ok {
			return true
		}
		for i, l := range as.Lhs {
			sel, ok := l.(*ast.SelectorExpr)
			if !ok || x.Src(sel.X) != "input" || i >= len(as.Rhs) {
				continue
			}
			p, fn := c37Mentions(x, as.Rhs[i], roots, alias, 0)
			assigns = append(assigns, c37Assign{sel.Sel.Name, p, fn})
			x.Note("input."+sel.Sel.Name, as)
		}
		return true
	})
	// the body is spooled: ioutils.Copy(tempFile, obj) with obj := readers[0] of source.GetObject
	spool := ""
	ast.Inspect(ms.Body, func(n ast.Node) bool {
		if c, ok := n.(*ast.CallExpr); ok && x.Src(c.Fun) == "ioutils.Copy" && len(c.Args) == 2 {
			src := x.Src(c.Args[1])
			if d, ok := locals[src]; ok {
				src = x.Src(d)
			}
			spool = x.Src(c.Args[0]) + "<-" + src
			x.Note("spool copy", c)
		}
		return true
	})
	if spool == "" {
		return fmt.Errorf("no ioutils.Copy spooling the source body found")
	}
	if e, ok := locals["srcObject"]; !ok || !strings.HasPrefix(x.Src(e), "source.GetObject(") {
		return fmt.Errorf("srcObject is not defined by source.GetObject")
	}
	if e, ok := locals["tags"]; !ok || !strings.HasPrefix(x.Src(e), "source.GetObjectTagging(") {
		return fmt.Errorf("tags is not defined by source.GetObjectTagging")
	}
	// the input must reach uploader.Upload
	uploaded := false
	ast.Inspect(ms.Body, func(n ast.Node) bool {
		if c, ok := n.(*ast.CallExpr); ok && x.Src(c.Fun) == "uploader.Upload" && len(c.Args) == 2 && x.Src(c.Args[1]) == "input" {
			uploaded = true
		}
		return true
	})
	if !uploaded {
		return fmt.Errorf("input is not passed to uploader.Upload")
	}

	// ---- 2. objectMetadataFromSDKInput: parameter -> ObjectMetadata field
	om := FindFunc(f, "", "objectMetadataFromSDKInput")
	if om == nil {
		return fmt.Errorf("objectMetadataFromSDKInput not found")
	}
	x.Note("objectMetadataFromSDKInput", om)
	var params []string
	for _, fl := range om.Type.Params.List {
		for _, n := range fl.Names {
			params = append(params, n.Name)
		}
	}
	omLocals := c37Locals(om)
	proots := map[string]bool{}
	for _, p := range params {
		proots[p] = true
	}
	omAlias := map[string]ast.Expr{}
	for n, e := range omLocals {
		omAlias[n] = e
	}
	type omField struct {
		Field, Param string
		Funcs        []string
	}
	var omFields []omField
	var omLit *ast.CompositeLit
	ast.Inspect(om.Body, func(n ast.Node) bool {
		if cl, ok := n.(*ast.CompositeLit); ok && x.Src(cl.Type) == "storage.ObjectMetadata" {
			omLit = cl
		}
		return true
	})
	if omLit == nil {
		return fmt.Errorf("no storage.ObjectMetadata literal in objectMetadataFromSDKInput")
	}
	for _, el := range omLit.Elts {
		kvx, ok := el.(*ast.KeyValueExpr)
		if !ok {
			return fmt.Errorf("positional field in ObjectMetadata literal")
		}
		p, fn := c37Mentions(x, kvx.Value, proots, omAlias, 0)
		if len(p) != 1 {
			return fmt.Errorf("ObjectMetadata.%s depends on %v (expected exactly one parameter)", x.Src(kvx.Key), p)
		}
		omFields = append(omFields, omField{x.Src(kvx.Key), strings.SplitN(p[0], ".", 2)[0], fn})
	}

	// ---- 3. adapter methods
	storageFile, err := x.ParseFile("internal/storage/storage.go")
	if err != nil {
		return err
	}
	ifaceParams := map[string][]string{} // storage interface method -> parameter names
	ast.Inspect(storageFile, func(n ast.Node) bool {
		it, ok := n.(*ast.InterfaceType)
		if !ok {
			return true
		}
		for _, m := range it.Methods.List {
			ft, ok := m.Type.(*ast.FuncType)
			if !ok || len(m.Names) != 1 {
				continue
			}
			var ps []string
			for _, fl := range ft.Params.List {
				if len(fl.Names) == 0 {
					ps = append(ps, "_")
				}
				for _, n := range fl.Names {
					ps = append(ps, n.Name)
				}
			}
			ifaceParams[m.Names[0].Name] = ps
		}
		return true
	})
	var flows []c37Flow
	var optionTypes []string
	var optionGuards, optionValues []string // per method: identifiers of the guard around the options literal; (method, option field, value expression)
	for _, method := range []string{"PutObject", "CreateMultipartUpload", "UploadPart", "CompleteMultipartUpload"} {
		fd := FindFunc(f, "StorageToS3UploadAPIClientAdapter", method)
		if fd == nil {
			return fmt.Errorf("adapter method %s not found", method)
		}
		x.Note("adapter."+method, fd)
		al := c37Locals(fd)
		// the storage call
		var call *ast.CallExpr
		ast.Inspect(fd.Body, func(n ast.Node) bool {
			if c, ok := n.(*ast.CallExpr); ok && strings.HasPrefix(x.Src(c.Fun), "a.storage.") {
				call = c
			}
			return true
		})
		if call == nil {
			return fmt.Errorf("adapter.%s makes no a.storage call", method)
		}
		smeth := strings.TrimPrefix(x.Src(call.Fun), "a.storage.")
		pn, ok := ifaceParams[smeth]
		if !ok || len(pn) != len(call.Args) {
			return fmt.Errorf("adapter.%s: cannot match arguments of storage.%s", method, smeth)
		}
		inRoot := map[string]bool{"input": true}
		for i, arg := range call.Args {
			// option structs: per field
			resolved := arg
			if id, ok := arg.(*ast.Ident); ok {
				if d, ok := al[id.Name]; ok {
					resolved = d
				}
			}
			var optLits []*ast.CompositeLit
			ast.Inspect(resolved, func(n ast.Node) bool {
				if cl, ok := n.(*ast.CompositeLit); ok && strings.HasPrefix(x.Src(cl.Type), "storage.") && strings.HasSuffix(x.Src(cl.Type), "Options") {
					optLits = append(optLits, cl)
				}
				return true
			})
			if len(optLits) > 0 {
				for _, cl := range optLits {
					optionTypes = append(optionTypes, method+":"+x.Src(cl.Type))
					// the condition under which the options are built at all: the identifiers of the
					// innermost enclosing `if` ("*" when the literal is built unconditionally)
					guard := []string{"*"}
					ast.Inspect(fd.Body, func(n ast.Node) bool {
						is, ok := n.(*ast.IfStmt)
						if !ok || is.Body.Pos() > cl.Pos() || cl.End() > is.Body.End() {
							return true
						}
						guard = nil
						seen := map[string]bool{}
						ast.Inspect(is.Cond, func(m ast.Node) bool {
							if id, ok := m.(*ast.Ident); ok && id.Name != "len" && id.Name != "nil" && !seen[id.Name] {
								seen[id.Name] = true
								guard = append(guard, id.Name)
							}
							return true
						})
						return true
					})
					optionGuards = append(optionGuards, fmt.Sprintf("(%s, %s)", LeanStr(method), LeanStrList(guard)))
					for _, el := range cl.Elts {
						if kvx, ok := el.(*ast.KeyValueExpr); ok {
							optionValues = append(optionValues, fmt.Sprintf("(%s, %s, %s)", LeanStr(method), LeanStr(x.Src(kvx.Key)), LeanStr(x.Src(kvx.Value))))
						}
					}
					for _, el := range cl.Elts {
						kvx, ok := el.(*ast.KeyValueExpr)
						if !ok {
							return fmt.Errorf("positional field in %s", x.Src(cl.Type))
						}
						key := x.Src(kvx.Key)
						// Metadata: metadata  with metadata := objectMetadataFromSDKInput(input.A, input.B, …)
						if id, ok := kvx.Value.(*ast.Ident); ok {
							if d, ok := al[id.Name]; ok {
								if c, ok := d.(*ast.CallExpr); ok && x.Src(c.Fun) == "objectMetadataFromSDKInput" {
									if len(c.Args) != len(params) {
										return fmt.Errorf("objectMetadataFromSDKInput called with %d arguments", len(c.Args))
									}
									for _, of := range omFields {
										for pi, p := range params {
											if p == of.Param {
												ps, _ := c37Mentions(x, c.Args[pi], inRoot, nil, 0)
												for _, pth := range ps {
													flows = append(flows, c37Flow{method, strings.TrimPrefix(pth, "input."), "opt:" + key + "." + of.Field})
												}
											}
										}
									}
									continue
								}
							}
						}
						ps, _ := c37Mentions(x, kvx.Value, inRoot, al, 0)
						for _, pth := range ps {
							flows = append(flows, c37Flow{method, strings.TrimPrefix(pth, "input."), "opt:" + key})
						}
					}
				}
				continue
			}
			ps, _ := c37Mentions(x, arg, inRoot, al, 0)
			for _, pth := range ps {
				flows = append(flows, c37Flow{method, strings.TrimPrefix(pth, "input."), "arg:" + pn[i]})
			}
		}
	}

	// ---- 4. the destination-emptiness probe of the per-bucket migration
	mb := FindFunc(f, "", "migrateObjectsOfBucketFromSourceStorageToDestinationStorage")
	if mb == nil {
		return fmt.Errorf("migrateObjectsOfBucketFromSourceStorageToDestinationStorage not found")
	}
	x.Note("migrateObjectsOfBucket…", mb)
	mbLocals := c37Locals(mb)
	notEmptyCond, probe := "", ""
	ast.Inspect(mb.Body, func(n ast.Node) bool {
		is, ok := n.(*ast.IfStmt)
		if !ok || !strings.Contains(x.Src(is.Body), "ErrDestinationNotEmpty") {
			return true
		}
		notEmptyCond = x.Src(is.Cond)
		ast.Inspect(is.Cond, func(m ast.Node) bool {
			if id, ok := m.(*ast.Ident); ok {
				if d, ok := mbLocals[id.Name]; ok && probe == "" {
					probe = x.Src(d)
				}
			}
			return true
		})
		return true
	})
	if notEmptyCond == "" || probe == "" {
		return fmt.Errorf("no destination-not-empty test found in the per-bucket migration")
	}

	// ---- emit
	w := x.Lean
	fmt.Fprintf(w, "-- Source: %s (migrateSingleObject, objectMetadataFromSDKInput, StorageToS3UploadAPIClientAdapter).\n", rel)
	fmt.Fprintf(w, "namespace Pithos.Gen.MigratorFlow\n\n")
	fmt.Fprintf(w, "/-- Fields of `s3.PutObjectInput` that `migrateSingleObject` sets: (field, source paths the value\nmentions, functions applied). `metadata.X` is resolved to `srcObject.Metadata.X`. -/\n")
	fmt.Fprintf(w, "def inputAssignments : List (String × List String × List String) := [\n")
	for i, a := range assigns {
		sep := ","
		if i == len(assigns)-1 {
			sep = ""
		}
		fmt.Fprintf(w, "  (%s, %s, %s)%s\n", LeanStr(a.Field), LeanStrList(a.Mentions), LeanStrList(a.Funcs), sep)
	}
	fmt.Fprintf(w, "]\n\n/-- How the object body reaches `Body`: `ioutils.Copy(dst, src)` with `src` resolved. -/\n")
	fmt.Fprintf(w, "def bodySpool : String := %s\n\n", LeanStr(spool))
	fmt.Fprintf(w, "/-- `objectMetadataFromSDKInput`: (ObjectMetadata field, parameter, functions applied). -/\n")
	fmt.Fprintf(w, "def metadataFromInput : List (String × String × List String) := [\n")
	for i, of := range omFields {
		sep := ","
		if i == len(omFields)-1 {
			sep = ""
		}
		fmt.Fprintf(w, "  (%s, %s, %s)%s\n", LeanStr(of.Field), LeanStr(of.Param), LeanStrList(of.Funcs), sep)
	}
	fmt.Fprintf(w, "]\n\n/-- Adapter methods: (method, SDK input field, where it ends up in the storage call):\n`arg:<parameter name of the storage.Storage method>` or `opt:<Options field>[.<ObjectMetadata field>]`. -/\n")
	fmt.Fprintf(w, "def adapterFlows : List (String × String × String) := [\n")
	for i, fl := range flows {
		sep := ","
		if i == len(flows)-1 {
			sep = ""
		}
		fmt.Fprintf(w, "  (%s, %s, %s)%s\n", LeanStr(fl.Method), LeanStr(fl.Input), LeanStr(fl.Sink), sep)
	}
	fmt.Fprintf(w, "]\n\n/-- Option struct types the adapter builds (method:type). -/\n")
	fmt.Fprintf(w, "def adapterOptionTypes : List String := %s\n\n", LeanStrList(optionTypes))
	fmt.Fprintf(w, "/-- Per adapter method: the identifiers the condition guarding the construction of its options\nstruct tests (`*` = built unconditionally). An option whose value is not among them is lost whenever it\nis the only attribute present. -/\n")
	fmt.Fprintf(w, "def adapterOptionGuards : List (String × List String) := [%s]\n\n", strings.Join(optionGuards, ", "))
	fmt.Fprintf(w, "/-- (method, option field, value expression) of the options literal. -/\n")
	fmt.Fprintf(w, "def adapterOptionValues : List (String × String × String) := [%s]\n\n", strings.Join(optionValues, ", "))
	fmt.Fprintf(w, "/-- How the per-bucket migration decides that the destination bucket is not empty: the call whose\nresult is tested, and the test under which `ErrDestinationNotEmpty` is returned. -/\n")
	fmt.Fprintf(w, "def destinationProbe : String := %s\ndef destinationNotEmptyCondition : String := %s\n\n", LeanStr(probe), LeanStr(notEmptyCond))
	fmt.Fprintf(w, "end Pithos.Gen.MigratorFlow\n")
	return nil
}
