//go:build verif

package main

import (
	"fmt"
	"go/ast"
	"go/token"
	"os"
	"path/filepath"
	"sort"
	"strconv"
	"strings"
)

// T1 extractor "routes" (C31): regenerates lean/Pithos/Gen/Routes.lean from the CURRENT sources
//
//	internal/http/server/*.go (non-test)            route registration, routers, handlers, helpers
//	internal/http/server/authorization/authorization.go   the Operation* constants
//	internal/http/server/authorization/lua/luaauthorizer.go   isReadOnly's two case lists
//	internal/storage/storage.go                      the method set of storage.Storage
//
// For every `mux.HandleFunc("METHOD PATTERN", server.h)` it follows the router functions (ordered
// `if cond { s.x(w, r); return }` chains) down to the leaf handlers and records, per leaf reached:
// the ordered path condition (query / header discriminators with their polarity), every authorize
// call (kind, operation name(s), bucket/key/copy-source arguments), the per-item hooks consulted,
// and every storage.Storage method reachable from the leaf (through Server helper methods) together
// with the authorize call that syntactically dominates it: the LAST top-level guard
//
//	shouldReturn := s.authorizeX(...); if shouldReturn { return }        (A)
//	if s.authorizeX(...) { return }                                      (B)
//	..., ok := s.guardHelper(...); if !ok { return }                     (C)
//	allowed, err := s.requestAuthorizer.AuthorizeRequest(ctx, req)       (D)
//	if err != nil { ...; return }; if !allowed { ...; return }
//	(or `if err != nil || !allowed { ...; return }`)
//
// that precedes the statement containing the call in the same function, or else the guard in force
// at the call site of the helper it occurs in. Everything is syntactic and fails closed: an
// authorize call anywhere else (inside a branch, a loop, a closure, a helper that is not used in
// shape C), a Server method that cannot be resolved, the receiver or s.storage escaping into a
// function argument, goto/labels, a router that is not a pure if-chain, an operation that is not an
// authorization.Operation* constant (or the two-definition `authOperation` idiom keyed on a query
// parameter) — each is an error, never a guess.
//
// Arguments are rendered symbolically ("storage.NewObjectKey(r.PathValue(keyPath))#0") by following
// single assignments and named results through the package's own functions, then classified into
// the handful of sources the Lean side knows (pathBucket, pathKey, copySrcBucket, copySrcKey,
// websiteKey, none); anything else is kept as `other "<sym>"`, which the theorems treat as unequal
// to everything but itself.

func init() { registerExtractor("routes", extractC31Routes) }

const (
	c31ServerDir = "internal/http/server"
	c31AuthzFile = "internal/http/server/authorization/authorization.go"
	c31LuaFile   = "internal/http/server/authorization/lua/luaauthorizer.go"
	c31StoreFile = "internal/storage/storage.go"
)

// authorize entry points (request level) and per-item hooks of *Server
var c31AuthEntry = map[string]bool{"authorizeRequest": true, "authorizeRequestWithRequestTags": true, "authorizeCopyRequest": true}
var c31ItemHooks = map[string]string{
	"authorizeListBucket":          "listBucket",
	"authorizeListObject":          "listObject",
	"authorizeDeleteObjectEntry":   "deleteObjectEntry",
	"authorizeListMultipartUpload": "listMultipartUpload",
	"authorizeListPart":            "listPart",
}

// helpers of the authorization plumbing itself: storage calls reachable from them run on behalf of
// the authorizer (lazy tag resolvers), not of the handler
var c31AuthzPlumbing = map[string]bool{
	"runAuthorization": true, "bindExistingObjectTagsResolver": true, "makeExistingObjectTagsResolver": true,
}

type c31Pkg struct {
	x        *ExtractCtx
	methods  map[string]*ast.FuncDecl // *Server methods
	funcs    map[string]*ast.FuncDecl // package-level functions
	consts   map[string]string        // string constants of package server
	opByName map[string]string        // OperationGetObject -> GetObject
	ops      []string                 // operation values in declaration order
	sm       []string                 // storage.Storage methods in declaration order
	smSig    map[string]c31Sig
	authzSM  map[string]bool // storage methods reachable from the authorization plumbing
}

// positions (0-based among the call's arguments) of the bucket/key/source parameters of a storage method
type c31Sig struct{ bucket, key, srcBucket, srcKey int }

type c31Cond struct {
	kind string // has | hdr | qeq | or
	a, b string
	l, r *c31Cond
}

func (c *c31Cond) lean() string {
	switch c.kind {
	case "has":
		return ".has " + LeanStr(c.a)
	case "hdr":
		return ".hdr " + LeanStr(c.a)
	case "qeq":
		return ".qeq " + LeanStr(c.a) + " " + LeanStr(c.b)
	}
	return ".or (" + c.l.lean() + ") (" + c.r.lean() + ")"
}

type c31Guard struct {
	c   *c31Cond
	pol bool
}

type c31OpAlt struct {
	op      string
	ifQuery string // "" = unconditional
}

type c31Auth struct {
	via                          string
	ops                          []c31OpAlt
	bucket, key, srcBkt, srcKey string // classified Lean Arg terms
}

type c31Call struct {
	method                       string
	via                          string
	bucket, key, srcBkt, srcKey string
	auth                         int // index into the leaf's auth list, -1 = not dominated by any guard
}

type c31Leaf struct {
	auths []c31Auth
	hooks []string
	calls []c31Call
}

type c31Route struct {
	mux, method, pattern string
	guards               []c31Guard
	handler              string
	status               int // >0: the branch only writes this status (no handler)
	leaf                 *c31Leaf
}

func extractC31Routes(x *ExtractCtx) error {
	p := &c31Pkg{x: x, methods: map[string]*ast.FuncDecl{}, funcs: map[string]*ast.FuncDecl{}, consts: map[string]string{},
		opByName: map[string]string{}, smSig: map[string]c31Sig{}, authzSM: map[string]bool{}}
	if err := p.loadServer(); err != nil {
		return err
	}
	if err := p.loadOps(); err != nil {
		return err
	}
	if err := p.loadStorage(); err != nil {
		return err
	}
	ro, rw, err := p.loadLua()
	if err != nil {
		return err
	}
	routes, mw, err := p.loadRoutes()
	if err != nil {
		return err
	}
	// storage calls made on behalf of the authorizer (lazy tag resolvers)
	for name := range c31AuthEntry {
		if err := p.collectPlumbing(name, map[string]bool{}); err != nil {
			return err
		}
	}
	for name := range c31ItemHooks {
		if err := p.collectPlumbing(name, map[string]bool{}); err != nil {
			return err
		}
	}
	p.emit(routes, mw, ro, rw)
	return nil
}

// ---------------------------------------------------------------- loading

func (p *c31Pkg) loadServer() error {
	ents, err := os.ReadDir(filepath.Join(p.x.Repo, c31ServerDir))
	if err != nil {
		return err
	}
	for _, e := range ents {
		n := e.Name()
		if e.IsDir() || !strings.HasSuffix(n, ".go") || strings.HasSuffix(n, "_test.go") {
			continue
		}
		f, err := p.x.ParseFile(filepath.Join(c31ServerDir, n))
		if err != nil {
			return err
		}
		if f.Name.Name != "server" {
			return fmt.Errorf("%s: package %s, expected server", n, f.Name.Name)
		}
		for _, d := range f.Decls {
			switch d := d.(type) {
			case *ast.FuncDecl:
				if d.Recv == nil {
					p.funcs[d.Name.Name] = d
					continue
				}
				t := d.Recv.List[0].Type
				if st, ok := t.(*ast.StarExpr); ok {
					t = st.X
				}
				if id, ok := t.(*ast.Ident); ok && id.Name == "Server" {
					if _, dup := p.methods[d.Name.Name]; dup {
						return fmt.Errorf("duplicate Server method %s", d.Name.Name)
					}
					p.methods[d.Name.Name] = d
				}
			case *ast.GenDecl:
				if d.Tok != token.CONST {
					continue
				}
				for _, sp := range d.Specs {
					vs := sp.(*ast.ValueSpec)
					for i, nm := range vs.Names {
						if i < len(vs.Values) {
							if bl, ok := vs.Values[i].(*ast.BasicLit); ok && bl.Kind == token.STRING {
								if s, err := strconv.Unquote(bl.Value); err == nil {
									p.consts[nm.Name] = s
								}
							}
						}
					}
				}
			}
		}
	}
	return nil
}

func (p *c31Pkg) loadOps() error {
	f, err := p.x.ParseFile(c31AuthzFile)
	if err != nil {
		return err
	}
	for _, d := range f.Decls {
		gd, ok := d.(*ast.GenDecl)
		if !ok || gd.Tok != token.CONST {
			continue
		}
		for _, sp := range gd.Specs {
			vs := sp.(*ast.ValueSpec)
			for i, nm := range vs.Names {
				if !strings.HasPrefix(nm.Name, "Operation") {
					continue
				}
				if i >= len(vs.Values) {
					return fmt.Errorf("%s: constant %s has no value", c31AuthzFile, nm.Name)
				}
				bl, ok := vs.Values[i].(*ast.BasicLit)
				if !ok || bl.Kind != token.STRING {
					return fmt.Errorf("%s: constant %s is not a string literal", c31AuthzFile, nm.Name)
				}
				v, _ := strconv.Unquote(bl.Value)
				if !c31IsIdent(v) {
					return fmt.Errorf("operation value %q is not an identifier", v)
				}
				p.opByName[nm.Name] = v
				p.ops = append(p.ops, v)
				p.x.Note("operation "+v, nm)
			}
		}
	}
	if len(p.ops) == 0 {
		return fmt.Errorf("no Operation* constants found")
	}
	return nil
}

func c31IsIdent(s string) bool {
	if s == "" {
		return false
	}
	for i, r := range s {
		if !(r == '_' || (r >= 'a' && r <= 'z') || (r >= 'A' && r <= 'Z') || (i > 0 && r >= '0' && r <= '9')) {
			return false
		}
	}
	return true
}

// loadStorage reads the method set of storage.Storage (the interfaces it embeds, in this file).
func (p *c31Pkg) loadStorage() error {
	f, err := p.x.ParseFile(c31StoreFile)
	if err != nil {
		return err
	}
	ifaces := map[string]*ast.InterfaceType{}
	for _, d := range f.Decls {
		gd, ok := d.(*ast.GenDecl)
		if !ok || gd.Tok != token.TYPE {
			continue
		}
		for _, sp := range gd.Specs {
			ts := sp.(*ast.TypeSpec)
			if it, ok := ts.Type.(*ast.InterfaceType); ok {
				ifaces[ts.Name.Name] = it
			}
		}
	}
	root, ok := ifaces["Storage"]
	if !ok {
		return fmt.Errorf("%s: interface Storage not found", c31StoreFile)
	}
	var walk func(it *ast.InterfaceType) error
	walk = func(it *ast.InterfaceType) error {
		for _, m := range it.Methods.List {
			switch t := m.Type.(type) {
			case *ast.FuncType:
				name := m.Names[0].Name
				sig := c31Sig{-1, -1, -1, -1}
				idx := 0
				for _, prm := range t.Params.List {
					tn := p.x.Src(prm.Type)
					names := prm.Names
					if len(names) == 0 {
						names = []*ast.Ident{{Name: "_"}}
					}
					for _, pn := range names {
						src := strings.HasPrefix(pn.Name, "src")
						switch tn {
						case "BucketName":
							if src {
								sig.srcBucket = idx
							} else if sig.bucket < 0 {
								sig.bucket = idx
							} else {
								return fmt.Errorf("storage.%s: two target buckets", name)
							}
						case "ObjectKey":
							if src {
								sig.srcKey = idx
							} else if sig.key < 0 {
								sig.key = idx
							} else {
								return fmt.Errorf("storage.%s: two target keys", name)
							}
						}
						idx++
					}
				}
				p.sm = append(p.sm, name)
				p.smSig[name] = sig
				p.x.Note("storage."+name, m)
			case *ast.Ident:
				sub, ok := ifaces[t.Name]
				if !ok {
					return fmt.Errorf("storage.Storage embeds unknown interface %s", t.Name)
				}
				if err := walk(sub); err != nil {
					return err
				}
			case *ast.SelectorExpr:
				// lifecycle.Manager (Start/Stop): not reachable from handlers; a call would be an unknown method
			default:
				return fmt.Errorf("storage.Storage: unrecognised embedded type %s", p.x.Src(m.Type))
			}
		}
		return nil
	}
	return walk(root)
}

// loadLua reads the two case lists of isReadOnly.
func (p *c31Pkg) loadLua() (ro, rw []string, err error) {
	f, err := p.x.ParseFile(c31LuaFile)
	if err != nil {
		return nil, nil, err
	}
	fd := FindFunc(f, "", "isReadOnly")
	if fd == nil {
		return nil, nil, fmt.Errorf("%s: isReadOnly not found", c31LuaFile)
	}
	var sw *ast.SwitchStmt
	for _, st := range fd.Body.List {
		if s, ok := st.(*ast.SwitchStmt); ok {
			if sw != nil {
				return nil, nil, fmt.Errorf("isReadOnly: more than one switch")
			}
			sw = s
		}
	}
	if sw == nil {
		return nil, nil, fmt.Errorf("isReadOnly: no switch")
	}
	if id, ok := sw.Tag.(*ast.Ident); !ok || id.Name != fd.Type.Params.List[0].Names[0].Name {
		return nil, nil, fmt.Errorf("isReadOnly: switch is not on the operation parameter")
	}
	// the function must be: var isReadOnly bool; switch …; return isReadOnly
	if len(fd.Body.List) != 3 {
		return nil, nil, fmt.Errorf("isReadOnly: unrecognised body shape (%d statements)", len(fd.Body.List))
	}
	for _, cc := range sw.Body.List {
		cl := cc.(*ast.CaseClause)
		if cl.List == nil {
			return nil, nil, fmt.Errorf("isReadOnly: default clause not recognised")
		}
		if len(cl.Body) != 1 {
			return nil, nil, fmt.Errorf("isReadOnly: case body not recognised")
		}
		as, ok := cl.Body[0].(*ast.AssignStmt)
		if !ok || len(as.Rhs) != 1 {
			return nil, nil, fmt.Errorf("isReadOnly: case body not recognised")
		}
		val, ok := as.Rhs[0].(*ast.Ident)
		if !ok || (val.Name != "true" && val.Name != "false") {
			return nil, nil, fmt.Errorf("isReadOnly: case body not recognised")
		}
		for _, e := range cl.List {
			sel, ok := e.(*ast.SelectorExpr)
			if !ok {
				return nil, nil, fmt.Errorf("isReadOnly: case %s is not an authorization constant", p.x.Src(e))
			}
			op, ok := p.opByName[sel.Sel.Name]
			if !ok {
				return nil, nil, fmt.Errorf("isReadOnly: unknown operation constant %s", sel.Sel.Name)
			}
			if val.Name == "true" {
				ro = append(ro, op)
			} else {
				rw = append(rw, op)
			}
		}
		p.x.Note("isReadOnly case "+val.Name, cl)
	}
	return ro, rw, nil
}

// ---------------------------------------------------------------- routes and routers

type c31Mw struct{ mux, fn string; calls []string }

func (p *c31Pkg) loadRoutes() ([]c31Route, []c31Mw, error) {
	fd := p.funcs["SetupServer"]
	if fd == nil {
		return nil, nil, fmt.Errorf("SetupServer not found")
	}
	muxes := map[string]string{} // variable -> mux id
	var srvVar string
	var routes []c31Route
	var mws []c31Mw
	handled := map[ast.Node]bool{}
	var ferr error
	fail := func(n ast.Node, format string, a ...any) {
		if ferr == nil {
			pos := p.x.Fset.Position(n.Pos())
			ferr = fmt.Errorf("%s:%d: %s", filepath.Base(pos.Filename), pos.Line, fmt.Sprintf(format, a...))
		}
	}
	for _, st := range fd.Body.List {
		as, ok := st.(*ast.AssignStmt)
		if !ok || len(as.Lhs) != 1 || len(as.Rhs) != 1 {
			continue
		}
		lhs, ok := as.Lhs[0].(*ast.Ident)
		if !ok {
			continue
		}
		if c31IsCall(as.Rhs[0], "http", "NewServeMux") {
			muxes[lhs.Name] = strings.TrimSuffix(lhs.Name, "Mux")
		}
		if ue, ok := as.Rhs[0].(*ast.UnaryExpr); ok && ue.Op == token.AND {
			if cl, ok := ue.X.(*ast.CompositeLit); ok && p.x.Src(cl.Type) == "Server" {
				srvVar = lhs.Name
			}
		}
	}
	if srvVar == "" || len(muxes) == 0 {
		return nil, nil, fmt.Errorf("SetupServer: server variable or muxes not recognised")
	}
	ast.Inspect(fd.Body, func(n ast.Node) bool {
		ce, ok := n.(*ast.CallExpr)
		if !ok {
			return true
		}
		sel, ok := ce.Fun.(*ast.SelectorExpr)
		if !ok {
			return true
		}
		recv, _ := sel.X.(*ast.Ident)
		if recv != nil {
			if mux, isMux := muxes[recv.Name]; isMux {
				if sel.Sel.Name != "HandleFunc" || len(ce.Args) != 2 {
					fail(ce, "mux call %s not recognised", p.x.Src(ce))
					return false
				}
				lit, ok := ce.Args[0].(*ast.BasicLit)
				hs, ok2 := ce.Args[1].(*ast.SelectorExpr)
				if !ok || !ok2 || lit.Kind != token.STRING {
					fail(ce, "HandleFunc arguments not recognised: %s", p.x.Src(ce))
					return false
				}
				hx, _ := hs.X.(*ast.Ident)
				if hx == nil || hx.Name != srvVar {
					fail(ce, "handler %s is not a method of the server value", p.x.Src(hs))
					return false
				}
				handled[hs] = true
				pat, _ := strconv.Unquote(lit.Value)
				parts := strings.SplitN(pat, " ", 2)
				if len(parts) != 2 {
					fail(ce, "pattern %q has no method", pat)
					return false
				}
				p.x.Note("route "+pat, ce)
				brs, err := p.router(hs.Sel.Name, nil, map[string]bool{})
				if err != nil {
					fail(ce, "%v", err)
					return false
				}
				for _, b := range brs {
					b.mux, b.method, b.pattern = mux, parts[0], parts[1]
					routes = append(routes, b)
				}
				return false
			}
		}
		return true
	})
	if ferr != nil {
		return nil, nil, ferr
	}
	// any other use of a server method value (middleware resolvers): record its storage calls
	ast.Inspect(fd.Body, func(n ast.Node) bool {
		ce, ok := n.(*ast.CallExpr)
		if !ok {
			return true
		}
		for _, a := range ce.Args {
			hs, ok := a.(*ast.SelectorExpr)
			if !ok || handled[hs] {
				continue
			}
			hx, _ := hs.X.(*ast.Ident)
			if hx == nil || hx.Name != srvVar {
				continue
			}
			if _, isField := map[string]bool{"storage": true, "requestAuthorizer": true, "tracer": true}[hs.Sel.Name]; isField {
				fail(ce, "server field %s escapes in SetupServer", hs.Sel.Name)
				return false
			}
			handled[hs] = true
			// which mux does it wrap? (the handler variable name tells: apiHandler / websiteHandler)
			mux := "?"
			for _, a2 := range ce.Args {
				if id, ok := a2.(*ast.Ident); ok && strings.HasSuffix(id.Name, "Handler") {
					mux = strings.TrimSuffix(id.Name, "Handler")
				}
			}
			lf := &c31Leaf{}
			fc := p.newFn(hs.Sel.Name, nil)
			if fc == nil {
				fail(ce, "middleware hook %s is not a Server method", hs.Sel.Name)
				return false
			}
			if err := p.walkBody(fc, lf, -1, hs.Sel.Name, map[string]bool{hs.Sel.Name: true}, false); err != nil {
				fail(ce, "%v", err)
				return false
			}
			if len(lf.auths) != 0 {
				fail(ce, "middleware hook %s authorizes", hs.Sel.Name)
				return false
			}
			m := c31Mw{mux: mux, fn: hs.Sel.Name}
			for _, c := range lf.calls {
				m.calls = append(m.calls, c.method)
			}
			mws = append(mws, m)
			p.x.Note("middleware "+hs.Sel.Name, ce)
		}
		return true
	})
	if ferr != nil {
		return nil, nil, ferr
	}
	// the server value must not be used in any other way in SetupServer
	ast.Inspect(fd.Body, func(n ast.Node) bool {
		sel, ok := n.(*ast.SelectorExpr)
		if !ok {
			return true
		}
		if id, ok := sel.X.(*ast.Ident); ok && id.Name == srvVar && !handled[sel] {
			fail(sel, "unrecognised use of the server value: %s", p.x.Src(sel))
		}
		return true
	})
	if ferr != nil {
		return nil, nil, ferr
	}
	if len(routes) == 0 {
		return nil, nil, fmt.Errorf("no routes found")
	}
	return routes, mws, nil
}

func c31IsCall(e ast.Expr, pkg, fn string) bool {
	ce, ok := e.(*ast.CallExpr)
	if !ok {
		return false
	}
	sel, ok := ce.Fun.(*ast.SelectorExpr)
	if !ok || sel.Sel.Name != fn {
		return false
	}
	id, ok := sel.X.(*ast.Ident)
	return ok && id.Name == pkg
}

// router returns the branches of handler `name` if it is a router (a pure dispatch chain), else a
// single branch whose leaf is analysed.
func (p *c31Pkg) router(name string, pre []c31Guard, seen map[string]bool) ([]c31Route, error) {
	fd := p.methods[name]
	if fd == nil {
		return nil, fmt.Errorf("handler %s is not a Server method", name)
	}
	if seen[name] {
		return nil, fmt.Errorf("router cycle through %s", name)
	}
	if !p.isRouter(fd) {
		lf, err := p.leaf(name)
		if err != nil {
			return nil, fmt.Errorf("%s: %v", name, err)
		}
		return []c31Route{{guards: append([]c31Guard(nil), pre...), handler: name, leaf: lf}}, nil
	}
	seen[name] = true
	defer delete(seen, name)
	p.x.Note("router "+name, fd)
	vars := map[string]string{} // local -> "query" | "get:<param>"
	var out []c31Route
	g := append([]c31Guard(nil), pre...)
	terminated, err := p.routerBlock(name, fd.Body.List, &g, vars, seen, &out)
	if err != nil {
		return nil, fmt.Errorf("router %s: %v", name, err)
	}
	if !terminated {
		return nil, fmt.Errorf("router %s: falls off the end without dispatching", name)
	}
	return out, nil
}

// isRouter: the body mentions neither s.storage nor any authorize call nor the tracer, and every
// Server method it calls is called with exactly (w, r).
func (p *c31Pkg) isRouter(fd *ast.FuncDecl) bool {
	recv := c31Recv(fd)
	ok := true
	ast.Inspect(fd.Body, func(n ast.Node) bool {
		switch v := n.(type) {
		case *ast.SelectorExpr:
			if id, isId := v.X.(*ast.Ident); isId && recv != nil && id.Obj == recv {
				if _, isM := p.methods[v.Sel.Name]; !isM {
					ok = false // a field: storage, tracer, requestAuthorizer
				}
				if c31AuthEntry[v.Sel.Name] || c31ItemHooks[v.Sel.Name] != "" {
					ok = false
				}
			}
		case *ast.CallExpr:
			if sel, isSel := v.Fun.(*ast.SelectorExpr); isSel {
				if id, isId := sel.X.(*ast.Ident); isId && recv != nil && id.Obj == recv {
					if len(v.Args) != 2 || p.x.Src(v.Args[0]) != "w" || p.x.Src(v.Args[1]) != "r" {
						ok = false
					}
				}
			}
		}
		return ok
	})
	return ok
}

func c31Recv(fd *ast.FuncDecl) *ast.Object {
	if fd.Recv == nil || len(fd.Recv.List) != 1 || len(fd.Recv.List[0].Names) != 1 {
		return nil
	}
	return fd.Recv.List[0].Names[0].Obj
}

// routerBlock interprets a statement list of a router; returns whether control cannot fall out of it.
func (p *c31Pkg) routerBlock(fn string, stmts []ast.Stmt, g *[]c31Guard, vars map[string]string, seen map[string]bool, out *[]c31Route) (bool, error) {
	for i, st := range stmts {
		switch s := st.(type) {
		case *ast.AssignStmt:
			if len(s.Lhs) != 1 || len(s.Rhs) != 1 || s.Tok != token.DEFINE {
				return false, fmt.Errorf("assignment %s not recognised", p.x.Src(s))
			}
			lhs := s.Lhs[0].(*ast.Ident).Name
			src := p.x.Src(s.Rhs[0])
			if src == "r.URL.Query()" {
				vars[lhs] = "query"
				continue
			}
			if ce, ok := s.Rhs[0].(*ast.CallExpr); ok && len(ce.Args) == 1 {
				if sel, ok := ce.Fun.(*ast.SelectorExpr); ok && sel.Sel.Name == "Get" {
					if id, ok := sel.X.(*ast.Ident); ok && vars[id.Name] == "query" {
						k, err := p.constStr(ce.Args[0])
						if err != nil {
							return false, err
						}
						vars[lhs] = "get:" + k
						continue
					}
				}
			}
			return false, fmt.Errorf("assignment %s not recognised", src)
		case *ast.IfStmt:
			if s.Init != nil || s.Else != nil {
				return false, fmt.Errorf("if with init/else not recognised: %s", p.x.Src(s.Cond))
			}
			c, err := p.cond(s.Cond, vars)
			if err != nil {
				return false, err
			}
			inner := append(append([]c31Guard(nil), (*g)...), c31Guard{c, true})
			term, err := p.routerBlock(fn, s.Body.List, &inner, vars, seen, out)
			if err != nil {
				return false, err
			}
			if !term {
				return false, fmt.Errorf("branch `%s` can fall through", p.x.Src(s.Cond))
			}
			*g = append(*g, c31Guard{c, false})
		case *ast.ExprStmt:
			ce, ok := s.X.(*ast.CallExpr)
			if !ok {
				return false, fmt.Errorf("statement %s not recognised", p.x.Src(s))
			}
			// must be followed by `return` or be the last statement of the function body
			last := i == len(stmts)-1
			if !last {
				if _, isRet := stmts[i+1].(*ast.ReturnStmt); !isRet || i+1 != len(stmts)-1 {
					return false, fmt.Errorf("dispatch %s is not followed by a final return", p.x.Src(s))
				}
			}
			src := p.x.Src(ce.Fun)
			if src == "w.WriteHeader" && len(ce.Args) == 1 {
				code, err := c31Status(p.x.Src(ce.Args[0]))
				if err != nil {
					return false, err
				}
				*out = append(*out, c31Route{guards: append([]c31Guard(nil), (*g)...), handler: fn, status: code})
				return true, nil
			}
			sel, ok := ce.Fun.(*ast.SelectorExpr)
			if !ok || len(ce.Args) != 2 {
				return false, fmt.Errorf("dispatch %s not recognised", p.x.Src(s))
			}
			brs, err := p.router(sel.Sel.Name, *g, seen)
			if err != nil {
				return false, err
			}
			*out = append(*out, brs...)
			return true, nil
		case *ast.ReturnStmt:
			return true, nil
		default:
			return false, fmt.Errorf("statement %s not recognised", p.x.Src(st))
		}
	}
	return false, nil
}

func c31Status(src string) (int, error) {
	if n, err := strconv.Atoi(src); err == nil {
		return n, nil
	}
	known := map[string]int{"http.StatusMethodNotAllowed": 405, "http.StatusNotFound": 404, "http.StatusBadRequest": 400,
		"http.StatusNotImplemented": 501, "http.StatusForbidden": 403}
	if n, ok := known[src]; ok {
		return n, nil
	}
	return 0, fmt.Errorf("status %s not recognised", src)
}

func (p *c31Pkg) constStr(e ast.Expr) (string, error) {
	switch v := e.(type) {
	case *ast.BasicLit:
		if v.Kind == token.STRING {
			return strconv.Unquote(v.Value)
		}
	case *ast.Ident:
		if s, ok := p.consts[v.Name]; ok {
			return s, nil
		}
	}
	return "", fmt.Errorf("%s is not a string constant of package server", p.x.Src(e))
}

func (p *c31Pkg) cond(e ast.Expr, vars map[string]string) (*c31Cond, error) {
	switch v := e.(type) {
	case *ast.ParenExpr:
		return p.cond(v.X, vars)
	case *ast.BinaryExpr:
		if v.Op == token.LOR {
			l, err := p.cond(v.X, vars)
			if err != nil {
				return nil, err
			}
			r, err := p.cond(v.Y, vars)
			if err != nil {
				return nil, err
			}
			return &c31Cond{kind: "or", l: l, r: r}, nil
		}
		if v.Op == token.NEQ && p.x.Src(v.Y) == `""` {
			// r.Header.Get(C) != ""
			if ce, ok := v.X.(*ast.CallExpr); ok && p.x.Src(ce.Fun) == "r.Header.Get" && len(ce.Args) == 1 {
				h, err := p.constStr(ce.Args[0])
				if err != nil {
					return nil, err
				}
				return &c31Cond{kind: "hdr", a: strings.ToLower(h)}, nil
			}
		}
		if v.Op == token.EQL {
			if id, ok := v.X.(*ast.Ident); ok && strings.HasPrefix(vars[id.Name], "get:") {
				val, err := p.constStr(v.Y)
				if err != nil {
					return nil, err
				}
				return &c31Cond{kind: "qeq", a: strings.TrimPrefix(vars[id.Name], "get:"), b: val}, nil
			}
		}
	case *ast.CallExpr:
		if sel, ok := v.Fun.(*ast.SelectorExpr); ok && sel.Sel.Name == "Has" && len(v.Args) == 1 {
			if id, ok := sel.X.(*ast.Ident); ok && vars[id.Name] == "query" {
				q, err := p.constStr(v.Args[0])
				if err != nil {
					return nil, err
				}
				return &c31Cond{kind: "has", a: q}, nil
			}
		}
	}
	return nil, fmt.Errorf("router condition `%s` not recognised", p.x.Src(e))
}

// ---------------------------------------------------------------- symbolic arguments

type c31Def struct {
	rhs ast.Expr
	idx int // result index for a multi-value definition, else -1
}

type c31Fn struct {
	p    *c31Pkg
	name string
	decl *ast.FuncDecl
	recv *ast.Object
	env  map[*ast.Object]string
	defs map[*ast.Object][]c31Def
	// opaque is set when a symbol had to fall back to raw source text that mentions local
	// variables: such a symbol is meaningless outside this function
	opaque bool
}

// newFn prepares function `name` (Server method first, then package function) with its parameters
// bound to the caller's symbols (nil = bind each parameter to its own name).
func (p *c31Pkg) newFn(name string, args []string) *c31Fn {
	fd := p.methods[name]
	if fd == nil {
		fd = p.funcs[name]
	}
	if fd == nil || fd.Body == nil {
		return nil
	}
	f := &c31Fn{p: p, name: name, decl: fd, recv: c31Recv(fd), env: map[*ast.Object]string{}, defs: map[*ast.Object][]c31Def{}}
	i := 0
	for _, prm := range fd.Type.Params.List {
		for _, n := range prm.Names {
			s := n.Name
			if args != nil && i < len(args) {
				s = args[i]
			}
			if n.Obj != nil {
				f.env[n.Obj] = s
			}
			i++
		}
	}
	ast.Inspect(fd.Body, func(n ast.Node) bool {
		switch s := n.(type) {
		case *ast.AssignStmt:
			if len(s.Lhs) == len(s.Rhs) {
				for k, l := range s.Lhs {
					if id, ok := l.(*ast.Ident); ok && id.Obj != nil {
						f.defs[id.Obj] = append(f.defs[id.Obj], c31Def{s.Rhs[k], -1})
					}
				}
			} else if len(s.Rhs) == 1 {
				for k, l := range s.Lhs {
					if id, ok := l.(*ast.Ident); ok && id.Obj != nil {
						f.defs[id.Obj] = append(f.defs[id.Obj], c31Def{s.Rhs[0], k})
					}
				}
			}
		case *ast.ValueSpec:
			for k, id := range s.Names {
				if id.Obj != nil && k < len(s.Values) {
					f.defs[id.Obj] = append(f.defs[id.Obj], c31Def{s.Values[k], -1})
				}
			}
		case *ast.RangeStmt:
			for _, l := range []ast.Expr{s.Key, s.Value} {
				if id, ok := l.(*ast.Ident); ok && id.Obj != nil {
					f.defs[id.Obj] = append(f.defs[id.Obj], c31Def{&ast.BasicLit{Kind: token.STRING, Value: "range(" + p.x.Src(s.X) + ")." + id.Name}, -1})
				}
			}
		}
		return true
	})
	return f
}

const c31Zero = "∅" // marks nil / zero values, which never name a resource

func c31IsZero(s string) bool { return strings.HasPrefix(s, c31Zero) }

func (f *c31Fn) sym(e ast.Expr, depth int) string {
	if depth > 16 {
		return "?deep"
	}
	switch v := e.(type) {
	case *ast.ParenExpr:
		return f.sym(v.X, depth+1)
	case *ast.BasicLit:
		if v.Value == `""` {
			return c31Zero + `""`
		}
		return v.Value
	case *ast.CompositeLit:
		if len(v.Elts) == 0 {
			return c31Zero + f.p.x.Src(v)
		}
		return f.p.x.Src(v)
	case *ast.Ident:
		if v.Name == "nil" && v.Obj == nil {
			return c31Zero + "nil"
		}
		if v.Obj == nil || (v.Obj.Kind != ast.Var) {
			return v.Name
		}
		if s, ok := f.env[v.Obj]; ok {
			return s
		}
		if v.Name == "ctx" {
			return "ctx"
		}
		var syms []string
		for _, d := range f.defs[v.Obj] {
			s := f.symDef(d, depth+1)
			if !c31IsZero(s) {
				syms = append(syms, s)
			}
		}
		sort.Strings(syms)
		uniq := syms[:0]
		for i, s := range syms {
			if i == 0 || s != syms[i-1] {
				uniq = append(uniq, s)
			}
		}
		switch len(uniq) {
		case 0:
			return c31Zero + v.Name
		case 1:
			return uniq[0]
		}
		return "phi(" + strings.Join(uniq, " | ") + ")"
	case *ast.UnaryExpr:
		if v.Op == token.AND {
			return f.sym(v.X, depth+1)
		}
		return v.Op.String() + f.sym(v.X, depth+1)
	case *ast.StarExpr:
		return f.sym(v.X, depth+1)
	case *ast.SelectorExpr:
		return f.sym(v.X, depth+1) + "." + v.Sel.Name
	case *ast.BinaryExpr:
		return f.sym(v.X, depth+1) + " " + v.Op.String() + " " + f.sym(v.Y, depth+1)
	case *ast.CallExpr:
		return f.symCall(v, -1, depth+1)
	}
	ast.Inspect(e, func(n ast.Node) bool {
		if id, ok := n.(*ast.Ident); ok && id.Obj != nil && id.Obj.Kind == ast.Var {
			if _, bound := f.env[id.Obj]; !bound {
				f.opaque = true
			}
		}
		return true
	})
	return f.p.x.Src(e)
}

func (f *c31Fn) symDef(d c31Def, depth int) string {
	if d.idx >= 0 {
		if ce, ok := d.rhs.(*ast.CallExpr); ok {
			return f.symCall(ce, d.idx, depth)
		}
		return f.sym(d.rhs, depth) + "#" + strconv.Itoa(d.idx)
	}
	return f.sym(d.rhs, depth)
}

// symCall renders result `idx` (-1 = the single result) of a call. ptrutils.ToPtr(x) and x.String()
// are transparent; calls to functions of package server are followed into their results.
func (f *c31Fn) symCall(ce *ast.CallExpr, idx int, depth int) string {
	if depth > 16 {
		return "?deep"
	}
	if c31IsCall(ce, "ptrutils", "ToPtr") && len(ce.Args) == 1 {
		return f.sym(ce.Args[0], depth+1)
	}
	if sel, ok := ce.Fun.(*ast.SelectorExpr); ok && sel.Sel.Name == "String" && len(ce.Args) == 0 {
		return f.sym(sel.X, depth+1)
	}
	args := make([]string, len(ce.Args))
	for i, a := range ce.Args {
		args[i] = f.sym(a, depth+1)
	}
	// a function or Server method of this package: follow the result
	callee := ""
	switch fun := ce.Fun.(type) {
	case *ast.Ident:
		if fun.Obj == nil || fun.Obj.Kind == ast.Fun {
			if _, ok := f.p.funcs[fun.Name]; ok {
				callee = fun.Name
			}
		}
	case *ast.SelectorExpr:
		if id, ok := fun.X.(*ast.Ident); ok && f.recv != nil && id.Obj == f.recv {
			if _, ok := f.p.methods[fun.Sel.Name]; ok {
				callee = fun.Sel.Name
			}
		}
	}
	if callee != "" && idx >= 0 {
		if s, ok := f.p.resultSym(callee, idx, args, depth+1); ok {
			return s
		}
	}
	s := f.p.x.Src(ce.Fun) + "(" + strings.Join(args, ", ") + ")"
	if idx >= 0 {
		s += "#" + strconv.Itoa(idx)
	}
	return s
}

// resultSym: the symbol of result idx of package function `name` called with args.
func (p *c31Pkg) resultSym(name string, idx int, args []string, depth int) (string, bool) {
	g := p.newFn(name, args)
	if g == nil || g.decl.Type.Results == nil {
		return "", false
	}
	var named []*ast.Ident
	for _, r := range g.decl.Type.Results.List {
		named = append(named, r.Names...)
	}
	var syms []string
	explicit := false
	ast.Inspect(g.decl.Body, func(n ast.Node) bool {
		if _, isLit := n.(*ast.FuncLit); isLit {
			return false
		}
		rs, ok := n.(*ast.ReturnStmt)
		if !ok || len(rs.Results) <= idx {
			return true
		}
		explicit = true
		s := g.sym(rs.Results[idx], depth+1)
		if !c31IsZero(s) {
			syms = append(syms, s)
		}
		return true
	})
	if !explicit {
		if idx >= len(named) {
			return "", false
		}
		s := g.sym(named[idx], depth+1)
		return s, !g.opaque
	}
	if g.opaque {
		return "", false
	}
	sort.Strings(syms)
	uniq := syms[:0]
	for i, s := range syms {
		if i == 0 || s != syms[i-1] {
			uniq = append(uniq, s)
		}
	}
	switch len(uniq) {
	case 0:
		return c31Zero + name + "#" + strconv.Itoa(idx), true
	case 1:
		return uniq[0], true
	}
	return "phi(" + strings.Join(uniq, " | ") + ")", true
}

// classify maps a symbol to a Lean `Arg` term.
func c31Classify(s string) string {
	switch {
	case c31IsZero(s):
		return ".none"
	case s == "storage.NewBucketName(r.PathValue(bucketPath))#0":
		return ".pathBucket"
	case s == "storage.NewObjectKey(r.PathValue(keyPath))#0":
		return ".pathKey"
	case s == "storage.NewBucketName(parseCopySource(r.Header.Get(copySourceHeader))#0)#0":
		return ".copySrcBucket"
	case s == "storage.NewObjectKey(parseCopySource(r.Header.Get(copySourceHeader))#1)#0":
		return ".copySrcKey"
	case strings.HasPrefix(s, "storage.NewObjectKey(websiteResolveKey(r.PathValue(keyPath), ") && strings.HasSuffix(s, "#0"):
		return ".websiteKey"
	case strings.HasPrefix(s, "storage.NewObjectKey(") && strings.HasSuffix(s, ".ErrorDocumentKey)#0"):
		return ".websiteErrorDoc"
	}
	return ".other " + LeanStr(s)
}

// ---------------------------------------------------------------- leaves

func (p *c31Pkg) leaf(name string) (*c31Leaf, error) {
	f := p.newFn(name, nil)
	if f == nil {
		return nil, fmt.Errorf("no body")
	}
	p.x.Note("handler "+name, f.decl)
	lf := &c31Leaf{}
	if err := p.walkBody(f, lf, -1, name, map[string]bool{name: true}, false); err != nil {
		return nil, err
	}
	return lf, nil
}

func (p *c31Pkg) errAt(n ast.Node, format string, a ...any) error {
	pos := p.x.Fset.Position(n.Pos())
	return fmt.Errorf("%s:%d: %s", filepath.Base(pos.Filename), pos.Line, fmt.Sprintf(format, a...))
}

// walkBody scans the top-level statements of f in order. `cur` is the index (in lf.auths) of the
// guard in force on entry (-1 = none). In a guard helper (shape C) the function returns the guard in
// force at its successful exits through *exitAuth (set by walkGuardHelper).
func (p *c31Pkg) walkBody(f *c31Fn, lf *c31Leaf, cur int, via string, stack map[string]bool, guardHelper bool) error {
	_, err := p.walkStmts(f, lf, cur, via, stack, guardHelper)
	return err
}

func (p *c31Pkg) walkStmts(f *c31Fn, lf *c31Leaf, cur int, via string, stack map[string]bool, guardHelper bool) (int, error) {
	stmts := f.decl.Body.List
	// no goto / labels anywhere
	var bad ast.Node
	ast.Inspect(f.decl.Body, func(n ast.Node) bool {
		switch v := n.(type) {
		case *ast.LabeledStmt:
			bad = v
		case *ast.BranchStmt:
			if v.Tok == token.GOTO || v.Label != nil {
				bad = v
			}
		}
		return bad == nil
	})
	if bad != nil {
		return cur, p.errAt(bad, "goto/label in %s", f.name)
	}
	for i := 0; i < len(stmts); i++ {
		st := stmts[i]
		// ---- guard shapes
		if ce, lhs := c31AssignedCall(st); ce != nil {
			if name := f.serverMethod(ce); name != "" {
				if c31AuthEntry[name] {
					// (A) x := s.authorizeX(...); if x { return }
					if len(lhs) != 1 || i+1 >= len(stmts) || !c31IsIfIdentReturn(stmts[i+1], lhs[0], false) {
						return cur, p.errAt(st, "authorize call not followed by `if %s { return }`", lhs[0])
					}
					a, err := p.authFromEntry(f, name, ce, via)
					if err != nil {
						return cur, err
					}
					if err := p.scanExprs(f, lf, cur, via, stack, ce.Args); err != nil { // storage calls inside the arguments run before the decision
						return cur, err
					}
					lf.auths = append(lf.auths, a)
					cur = len(lf.auths) - 1
					i++
					continue
				}
				if p.isGuardHelper(name) {
					// (C) ..., ok := s.helper(...); if !ok { return }
					if len(lhs) == 0 || i+1 >= len(stmts) || !c31IsIfIdentReturn(stmts[i+1], lhs[len(lhs)-1], true) {
						return cur, p.errAt(st, "guard helper %s not followed by `if !ok { return }`", name)
					}
					if stack[name] {
						return cur, p.errAt(st, "recursion through %s", name)
					}
					args := make([]string, len(ce.Args))
					for k, a := range ce.Args {
						args[k] = f.sym(a, 0)
					}
					g := p.newFn(name, args)
					stack[name] = true
					exit, err := p.walkStmts(g, lf, cur, via+">"+name, stack, true)
					delete(stack, name)
					if err != nil {
						return cur, err
					}
					cur = exit
					i++
					continue
				}
			}
			if c31IsDirectAuthorize(f, ce) {
				// (D) allowed, err := s.requestAuthorizer.AuthorizeRequest(ctx, req) + deny/err exits
				if len(lhs) != 2 {
					return cur, p.errAt(st, "direct AuthorizeRequest call: results not recognised")
				}
				n, ok := c31DenyExits(stmts[i+1:], lhs[0], lhs[1], guardHelper)
				if !ok {
					return cur, p.errAt(st, "direct AuthorizeRequest call is not followed by error/deny exits")
				}
				a, err := p.authFromDirect(f, ce, via)
				if err != nil {
					return cur, err
				}
				lf.auths = append(lf.auths, a)
				cur = len(lf.auths) - 1
				i += n
				continue
			}
		}
		if is, ok := st.(*ast.IfStmt); ok && is.Init == nil && is.Else == nil {
			// (B) if s.authorizeX(...) { return }
			if ce, ok := is.Cond.(*ast.CallExpr); ok {
				if name := f.serverMethod(ce); c31AuthEntry[name] {
					if len(is.Body.List) != 1 || !c31IsBareReturn(is.Body.List[0]) {
						return cur, p.errAt(st, "authorize call in an if whose body is not `return`")
					}
					a, err := p.authFromEntry(f, name, ce, via)
					if err != nil {
						return cur, err
					}
					if err := p.scanExprs(f, lf, cur, via, stack, ce.Args); err != nil {
						return cur, err
					}
					lf.auths = append(lf.auths, a)
					cur = len(lf.auths) - 1
					continue
				}
			}
		}
		// ---- in a guard helper every return before the first guard must report failure
		if guardHelper && cur < 0 {
			var badRet ast.Node
			ast.Inspect(st, func(n ast.Node) bool {
				if _, isLit := n.(*ast.FuncLit); isLit {
					return false
				}
				if rs, ok := n.(*ast.ReturnStmt); ok {
					if len(rs.Results) == 0 || f.p.x.Src(rs.Results[len(rs.Results)-1]) != "false" {
						badRet = rs
					}
				}
				return badRet == nil
			})
			if badRet != nil {
				return cur, p.errAt(badRet, "guard helper %s can succeed before authorizing", f.name)
			}
		}
		// ---- ordinary statement: collect what it reaches under the guard in force
		if err := p.scanNode(f, lf, cur, via, stack, st); err != nil {
			return cur, err
		}
	}
	return cur, nil
}

// c31AssignedCall matches `lhs... := call(...)` / `lhs... = call(...)` and returns the call and the lhs names.
func c31AssignedCall(st ast.Stmt) (*ast.CallExpr, []string) {
	as, ok := st.(*ast.AssignStmt)
	if !ok || len(as.Rhs) != 1 {
		return nil, nil
	}
	ce, ok := as.Rhs[0].(*ast.CallExpr)
	if !ok {
		return nil, nil
	}
	var names []string
	for _, l := range as.Lhs {
		id, ok := l.(*ast.Ident)
		if !ok {
			return nil, nil
		}
		names = append(names, id.Name)
	}
	return ce, names
}

// serverMethod: the name X when ce is `s.X(...)` with s the receiver, else "".
func (f *c31Fn) serverMethod(ce *ast.CallExpr) string {
	sel, ok := ce.Fun.(*ast.SelectorExpr)
	if !ok {
		return ""
	}
	id, ok := sel.X.(*ast.Ident)
	if !ok || f.recv == nil || id.Obj != f.recv {
		return ""
	}
	return sel.Sel.Name
}

func c31IsDirectAuthorize(f *c31Fn, ce *ast.CallExpr) bool {
	sel, ok := ce.Fun.(*ast.SelectorExpr)
	if !ok || sel.Sel.Name != "AuthorizeRequest" {
		return false
	}
	in, ok := sel.X.(*ast.SelectorExpr)
	if !ok || in.Sel.Name != "requestAuthorizer" {
		return false
	}
	id, ok := in.X.(*ast.Ident)
	return ok && f.recv != nil && id.Obj == f.recv
}

func c31IsBareReturn(st ast.Stmt) bool {
	rs, ok := st.(*ast.ReturnStmt)
	return ok && len(rs.Results) == 0
}

// `if x { return }` (neg=false) or `if !x { return }` (neg=true)
func c31IsIfIdentReturn(st ast.Stmt, name string, neg bool) bool {
	is, ok := st.(*ast.IfStmt)
	if !ok || is.Init != nil || is.Else != nil || len(is.Body.List) != 1 || !c31IsBareReturn(is.Body.List[0]) {
		return false
	}
	c := is.Cond
	if neg {
		ue, ok := c.(*ast.UnaryExpr)
		if !ok || ue.Op != token.NOT {
			return false
		}
		c = ue.X
	}
	id, ok := c.(*ast.Ident)
	return ok && id.Name == name
}

// c31DenyExits recognises, right after `allowed, err := …AuthorizeRequest(…)`:
//
//	if err != nil { …; return … }   if !allowed { …; return … }        (2 statements)
//	if err != nil || !allowed { …; return … }                           (1 statement)
//
// In a guard helper the returns must report failure (`false` as last result). Returns the number of
// statements consumed.
func c31DenyExits(rest []ast.Stmt, allowed, errName string, guardHelper bool) (int, bool) {
	exits := func(st ast.Stmt, cond string) bool {
		is, ok := st.(*ast.IfStmt)
		if !ok || is.Init != nil || is.Else != nil || len(is.Body.List) == 0 {
			return false
		}
		var b strings.Builder
		c31CondText(&b, is.Cond)
		if b.String() != cond {
			return false
		}
		return c31AllPathsReturn(is.Body.List, guardHelper)
	}
	if len(rest) >= 1 && (exits(rest[0], errName+"!=nil||!"+allowed) || exits(rest[0], "!"+allowed+"||"+errName+"!=nil")) {
		return 1, true
	}
	if len(rest) >= 2 && exits(rest[0], errName+"!=nil") && exits(rest[1], "!"+allowed) {
		return 2, true
	}
	return 0, false
}

func c31CondText(b *strings.Builder, e ast.Expr) {
	switch v := e.(type) {
	case *ast.ParenExpr:
		c31CondText(b, v.X)
	case *ast.BinaryExpr:
		c31CondText(b, v.X)
		b.WriteString(v.Op.String())
		c31CondText(b, v.Y)
	case *ast.UnaryExpr:
		b.WriteString(v.Op.String())
		c31CondText(b, v.X)
	case *ast.Ident:
		b.WriteString(v.Name)
	default:
		b.WriteString("?")
	}
}

// every path through the block ends in a return (reporting failure in a guard helper)
func c31AllPathsReturn(stmts []ast.Stmt, mustBeFalse bool) bool {
	if len(stmts) == 0 {
		return false
	}
	switch last := stmts[len(stmts)-1].(type) {
	case *ast.ReturnStmt:
		if mustBeFalse {
			if len(last.Results) == 0 {
				return false
			}
			id, ok := last.Results[len(last.Results)-1].(*ast.Ident)
			return ok && id.Name == "false"
		}
		return true
	case *ast.IfStmt:
		if last.Else == nil {
			return false
		}
		eb, ok := last.Else.(*ast.BlockStmt)
		if !ok {
			return false
		}
		return c31AllPathsReturn(last.Body.List, mustBeFalse) && c31AllPathsReturn(eb.List, mustBeFalse)
	}
	return false
}

// isGuardHelper: a Server method that contains a direct AuthorizeRequest call at the top level of its body.
func (p *c31Pkg) isGuardHelper(name string) bool {
	fd := p.methods[name]
	if fd == nil || fd.Body == nil || c31AuthzPlumbing[name] || fd.Type.Results == nil || len(fd.Type.Results.List) == 0 {
		return false
	}
	if last := fd.Type.Results.List[len(fd.Type.Results.List)-1]; p.x.Src(last.Type) != "bool" {
		return false
	}
	f := &c31Fn{p: p, decl: fd, recv: c31Recv(fd)}
	for _, st := range fd.Body.List {
		if ce, _ := c31AssignedCall(st); ce != nil && c31IsDirectAuthorize(f, ce) {
			return true
		}
	}
	return false
}

func (p *c31Pkg) opAlts(f *c31Fn, e ast.Expr) ([]c31OpAlt, error) {
	parse := func(s string) (string, bool) {
		if !strings.HasPrefix(s, "authorization.") {
			return "", false
		}
		op, ok := p.opByName[strings.TrimPrefix(s, "authorization.")]
		return op, ok
	}
	if sel, ok := e.(*ast.SelectorExpr); ok {
		if op, ok := parse(p.x.Src(sel)); ok {
			return []c31OpAlt{{op: op}}, nil
		}
		return nil, p.errAt(e, "operation %s is not an authorization.Operation* constant", p.x.Src(e))
	}
	id, ok := e.(*ast.Ident)
	if !ok || id.Obj == nil {
		return nil, p.errAt(e, "operation expression %s not recognised", p.x.Src(e))
	}
	if s, ok := f.env[id.Obj]; ok { // a parameter bound at the call site
		if op, ok := parse(s); ok {
			return []c31OpAlt{{op: op}}, nil
		}
		return nil, p.errAt(e, "operation parameter bound to %s", s)
	}
	// the idiom: op := authorization.A; if v != nil { op = authorization.B } with v := httputils.GetQueryParam(<query>, C)
	var alts []c31OpAlt
	for _, st := range f.decl.Body.List {
		switch s := st.(type) {
		case *ast.AssignStmt:
			if len(s.Lhs) == 1 && len(s.Rhs) == 1 {
				if l, ok := s.Lhs[0].(*ast.Ident); ok && l.Obj == id.Obj {
					op, ok := parse(p.x.Src(s.Rhs[0]))
					if !ok || len(alts) != 0 {
						return nil, p.errAt(s, "definition of %s not recognised", id.Name)
					}
					alts = append(alts, c31OpAlt{op: op})
				}
			}
		case *ast.IfStmt:
			assigns := false
			ast.Inspect(s, func(n ast.Node) bool {
				if as, ok := n.(*ast.AssignStmt); ok {
					for _, l := range as.Lhs {
						if li, ok := l.(*ast.Ident); ok && li.Obj == id.Obj {
							assigns = true
						}
					}
				}
				return true
			})
			if !assigns {
				continue
			}
			if s.Init != nil || s.Else != nil || len(s.Body.List) != 1 || len(alts) != 1 {
				return nil, p.errAt(s, "conditional definition of %s not recognised", id.Name)
			}
			as, ok := s.Body.List[0].(*ast.AssignStmt)
			if !ok || len(as.Lhs) != 1 || len(as.Rhs) != 1 || as.Tok != token.ASSIGN {
				return nil, p.errAt(s, "conditional definition of %s not recognised", id.Name)
			}
			op, ok := parse(p.x.Src(as.Rhs[0]))
			be, ok2 := s.Cond.(*ast.BinaryExpr)
			if !ok || !ok2 || be.Op != token.NEQ || p.x.Src(be.Y) != "nil" {
				return nil, p.errAt(s, "conditional definition of %s not recognised", id.Name)
			}
			v, ok := be.X.(*ast.Ident)
			if !ok || v.Obj == nil || len(f.defs[v.Obj]) != 1 {
				return nil, p.errAt(s, "condition variable of %s not recognised", id.Name)
			}
			ce, ok := f.defs[v.Obj][0].rhs.(*ast.CallExpr)
			if !ok || !c31IsCall(ce, "httputils", "GetQueryParam") || len(ce.Args) != 2 {
				return nil, p.errAt(s, "condition variable of %s is not a query parameter", id.Name)
			}
			q, err := p.constStr(ce.Args[1])
			if err != nil {
				return nil, err
			}
			alts = append(alts, c31OpAlt{op: op, ifQuery: q})
		default:
			touched := false
			ast.Inspect(st, func(n ast.Node) bool {
				if as, ok := n.(*ast.AssignStmt); ok {
					for _, l := range as.Lhs {
						if li, ok := l.(*ast.Ident); ok && li.Obj == id.Obj {
							touched = true
						}
					}
				}
				return true
			})
			if touched {
				return nil, p.errAt(st, "definition of %s inside an unrecognised statement", id.Name)
			}
		}
	}
	if len(alts) == 0 {
		return nil, p.errAt(e, "no definition of %s found", id.Name)
	}
	return alts, nil
}

func (p *c31Pkg) authFromEntry(f *c31Fn, name string, ce *ast.CallExpr, via string) (c31Auth, error) {
	a := c31Auth{via: via + ":" + name, bucket: ".none", key: ".none", srcBkt: ".none", srcKey: ".none"}
	var opE ast.Expr
	switch name {
	case "authorizeRequest": // (ctx, operation, bucket, key, w, r)
		if len(ce.Args) != 6 {
			return a, p.errAt(ce, "authorizeRequest: %d arguments", len(ce.Args))
		}
		opE = ce.Args[1]
		a.bucket, a.key = c31Classify(f.sym(ce.Args[2], 0)), c31Classify(f.sym(ce.Args[3], 0))
	case "authorizeRequestWithRequestTags": // (ctx, operation, bucket, key, tags, w, r)
		if len(ce.Args) != 7 {
			return a, p.errAt(ce, "authorizeRequestWithRequestTags: %d arguments", len(ce.Args))
		}
		opE = ce.Args[1]
		a.bucket, a.key = c31Classify(f.sym(ce.Args[2], 0)), c31Classify(f.sym(ce.Args[3], 0))
	case "authorizeCopyRequest": // (ctx, operation, srcBucket, srcKey, srcVersion, dstBucket, dstKey, w, r)
		if len(ce.Args) != 9 {
			return a, p.errAt(ce, "authorizeCopyRequest: %d arguments", len(ce.Args))
		}
		opE = ce.Args[1]
		a.srcBkt, a.srcKey = c31Classify(f.sym(ce.Args[2], 0)), c31Classify(f.sym(ce.Args[3], 0))
		a.bucket, a.key = c31Classify(f.sym(ce.Args[5], 0)), c31Classify(f.sym(ce.Args[6], 0))
		// the helper must really put these into the request: check its parameter order by name
		fd := p.methods[name]
		var names []string
		for _, prm := range fd.Type.Params.List {
			for _, n := range prm.Names {
				names = append(names, n.Name)
			}
		}
		want := []string{"ctx", "operation", "srcBucket", "srcKey", "sourceVersionID", "dstBucket", "dstKey", "w", "r"}
		if strings.Join(names, ",") != strings.Join(want, ",") {
			return a, p.errAt(fd, "authorizeCopyRequest: parameter list changed: %v", names)
		}
	}
	alts, err := p.opAlts(f, opE)
	if err != nil {
		return a, err
	}
	a.ops = alts
	p.x.Note("authorize "+name, ce)
	return a, nil
}

// authFromDirect reads Operation/Bucket/Key/SourceBucket/SourceKey from the *authorization.Request literal.
func (p *c31Pkg) authFromDirect(f *c31Fn, ce *ast.CallExpr, via string) (c31Auth, error) {
	a := c31Auth{via: via + ":AuthorizeRequest", bucket: ".none", key: ".none", srcBkt: ".none", srcKey: ".none"}
	if len(ce.Args) != 2 {
		return a, p.errAt(ce, "AuthorizeRequest: %d arguments", len(ce.Args))
	}
	e := ce.Args[1]
	if id, ok := e.(*ast.Ident); ok && id.Obj != nil && len(f.defs[id.Obj]) == 1 {
		e = f.defs[id.Obj][0].rhs
	}
	if ue, ok := e.(*ast.UnaryExpr); ok && ue.Op == token.AND {
		e = ue.X
	}
	cl, ok := e.(*ast.CompositeLit)
	if !ok || p.x.Src(cl.Type) != "authorization.Request" {
		return a, p.errAt(ce, "AuthorizeRequest: the request is not an authorization.Request literal")
	}
	var opE ast.Expr
	for _, el := range cl.Elts {
		kv, ok := el.(*ast.KeyValueExpr)
		if !ok {
			return a, p.errAt(el, "authorization.Request literal without field names")
		}
		switch p.x.Src(kv.Key) {
		case "Operation":
			opE = kv.Value
		case "Bucket":
			a.bucket = c31Classify(f.sym(kv.Value, 0))
		case "Key":
			a.key = c31Classify(f.sym(kv.Value, 0))
		case "SourceBucket":
			a.srcBkt = c31Classify(f.sym(kv.Value, 0))
		case "SourceKey":
			a.srcKey = c31Classify(f.sym(kv.Value, 0))
		}
	}
	if opE == nil {
		return a, p.errAt(cl, "authorization.Request literal without Operation")
	}
	alts, err := p.opAlts(f, opE)
	if err != nil {
		return a, err
	}
	a.ops = alts
	p.x.Note("authorize direct", ce)
	return a, nil
}

func (p *c31Pkg) scanExprs(f *c31Fn, lf *c31Leaf, cur int, via string, stack map[string]bool, es []ast.Expr) error {
	for _, e := range es {
		if err := p.scanNode(f, lf, cur, via, stack, e); err != nil {
			return err
		}
	}
	return nil
}

// scanNode records every storage call, per-item hook and helper call inside n (guard in force: cur)
// and rejects every use of the receiver it does not understand.
func (p *c31Pkg) scanNode(f *c31Fn, lf *c31Leaf, cur int, via string, stack map[string]bool, n ast.Node) error {
	var err error
	okSel := map[*ast.SelectorExpr]bool{}
	ast.Inspect(n, func(n ast.Node) bool {
		if err != nil {
			return false
		}
		switch v := n.(type) {
		case *ast.CallExpr:
			// s.storage.M(...)
			if sel, ok := v.Fun.(*ast.SelectorExpr); ok {
				if in, ok := sel.X.(*ast.SelectorExpr); ok {
					if id, ok := in.X.(*ast.Ident); ok && f.recv != nil && id.Obj == f.recv {
						switch in.Sel.Name {
						case "storage":
							sig, known := p.smSig[sel.Sel.Name]
							if !known {
								err = p.errAt(v, "s.storage.%s is not a method of storage.Storage", sel.Sel.Name)
								return false
							}
							c := c31Call{method: sel.Sel.Name, via: via, auth: cur, bucket: ".none", key: ".none", srcBkt: ".none", srcKey: ".none"}
							arg := func(i int) string {
								if i < 0 || i >= len(v.Args) {
									return ".none"
								}
								return c31Classify(f.sym(v.Args[i], 0))
							}
							c.bucket, c.key, c.srcBkt, c.srcKey = arg(sig.bucket), arg(sig.key), arg(sig.srcBucket), arg(sig.srcKey)
							lf.calls = append(lf.calls, c)
							okSel[in] = true
							p.x.Note("storage call "+sel.Sel.Name, v)
						case "tracer":
							okSel[in] = true
						case "requestAuthorizer":
							if c31AuthzPlumbing[f.name] || c31ItemHooks[f.name] != "" {
								okSel[in] = true // the plumbing itself
							} else {
								err = p.errAt(v, "authorizer call in an unrecognised position in %s", f.name)
								return false
							}
						}
					}
				}
				// s.X(...)
				if name := f.serverMethod(v); name != "" {
					if _, isMethod := p.methods[name]; !isMethod {
						return true // a field selector handled elsewhere
					}
					okSel[sel] = true
					switch {
					case c31AuthEntry[name]:
						err = p.errAt(v, "authorize call %s in an unrecognised position (not a top-level guard of %s)", name, f.name)
						return false
					case c31ItemHooks[name] != "":
						h := c31ItemHooks[name]
						seen := false
						for _, x := range lf.hooks {
							seen = seen || x == h
						}
						if !seen {
							lf.hooks = append(lf.hooks, h)
						}
					case p.isGuardHelper(name):
						err = p.errAt(v, "guard helper %s called in an unrecognised position in %s", name, f.name)
						return false
					default:
						if stack[name] {
							err = p.errAt(v, "recursion through %s", name)
							return false
						}
						args := make([]string, len(v.Args))
						for k, a := range v.Args {
							args[k] = f.sym(a, 0)
						}
						g := p.newFn(name, args)
						stack[name] = true
						// a helper may carry its own top-level guards; what follows them is attributed to them
						_, e2 := p.walkStmts(g, lf, cur, via+">"+name, stack, false)
						delete(stack, name)
						if e2 != nil {
							err = e2
							return false
						}
					}
				}
			}
		case *ast.FuncLit:
			// closures run later, under whatever guard is in force where they are created: scanned as part of n
		}
		return true
	})
	if err != nil {
		return err
	}
	// every occurrence of the receiver must have been understood
	var parentOK = map[*ast.Ident]bool{}
	ast.Inspect(n, func(m ast.Node) bool {
		if sel, ok := m.(*ast.SelectorExpr); ok {
			if id, ok := sel.X.(*ast.Ident); ok && f.recv != nil && id.Obj == f.recv {
				if okSel[sel] {
					parentOK[id] = true
				}
				// s.requestAuthorizer.(T) type assertion inside the plumbing / hooks
				if sel.Sel.Name == "requestAuthorizer" && (c31AuthzPlumbing[f.name] || c31ItemHooks[f.name] != "") {
					parentOK[id] = true
				}
				if sel.Sel.Name == "tracer" { // the tracer is handed to tracing wrappers; it cannot reach storage
					parentOK[id] = true
				}
			}
		}
		return true
	})
	ast.Inspect(n, func(m ast.Node) bool {
		if err != nil {
			return false
		}
		if id, ok := m.(*ast.Ident); ok && f.recv != nil && id.Obj == f.recv && !parentOK[id] {
			err = p.errAt(id, "unrecognised use of the receiver in %s (it escapes or a field is used other than by a call)", f.name)
		}
		return true
	})
	return err
}

// collectPlumbing: storage methods reachable from the authorization plumbing (authorizeX → bind… → make…).
func (p *c31Pkg) collectPlumbing(name string, seen map[string]bool) error {
	if seen[name] {
		return nil
	}
	seen[name] = true
	fd := p.methods[name]
	if fd == nil {
		return fmt.Errorf("authorization helper %s not found", name)
	}
	recv := c31Recv(fd)
	var err error
	ast.Inspect(fd.Body, func(n ast.Node) bool {
		ce, ok := n.(*ast.CallExpr)
		if !ok || err != nil {
			return err == nil
		}
		sel, ok := ce.Fun.(*ast.SelectorExpr)
		if !ok {
			return true
		}
		if in, ok := sel.X.(*ast.SelectorExpr); ok {
			if id, ok := in.X.(*ast.Ident); ok && recv != nil && id.Obj == recv && in.Sel.Name == "storage" {
				if _, known := p.smSig[sel.Sel.Name]; !known {
					err = p.errAt(ce, "s.storage.%s is not a method of storage.Storage", sel.Sel.Name)
					return false
				}
				p.authzSM[sel.Sel.Name] = true
				p.x.Note("authorizer-side storage call "+sel.Sel.Name, ce)
			}
		}
		if id, ok := sel.X.(*ast.Ident); ok && recv != nil && id.Obj == recv {
			if _, isM := p.methods[sel.Sel.Name]; isM {
				if !(c31AuthEntry[sel.Sel.Name] || c31AuthzPlumbing[sel.Sel.Name] || c31ItemHooks[sel.Sel.Name] != "") {
					err = p.errAt(ce, "authorization helper %s calls %s, which is not part of the known plumbing", name, sel.Sel.Name)
					return false
				}
				if e2 := p.collectPlumbing(sel.Sel.Name, seen); e2 != nil {
					err = e2
					return false
				}
			}
		}
		return true
	})
	return err
}

// ---------------------------------------------------------------- emit

func (p *c31Pkg) emit(routes []c31Route, mws []c31Mw, ro, rw []string) {
	w := p.x.Lean
	fmt.Fprintln(w, "-- Sources: "+c31ServerDir+"/*.go, "+c31AuthzFile+", "+c31LuaFile+", "+c31StoreFile)
	fmt.Fprintln(w, "namespace Pithos.Gen.Routes")
	fmt.Fprintln(w)
	enum := func(name, doc string, ctors []string) {
		fmt.Fprintf(w, "/-- %s -/\ninductive %s where\n", doc, name)
		for _, c := range ctors {
			fmt.Fprintf(w, "  | %s\n", c)
		}
		fmt.Fprintf(w, "  deriving DecidableEq, Repr\n\n")
		fmt.Fprintf(w, "def %s.all : List %s := [%s]\n\n", name, name, strings.Join(c31Prefix(ctors, "."), ", "))
		fmt.Fprintf(w, "def %s.name : %s → String\n", name, name)
		for _, c := range ctors {
			fmt.Fprintf(w, "  | .%s => %s\n", c, LeanStr(c))
		}
		fmt.Fprintln(w)
	}
	enum("Op", "the `authorization.Operation*` constants (values), in declaration order", p.ops)
	enum("SM", "the methods of `storage.Storage` (Start/Stop of lifecycle.Manager excluded), in declaration order", p.sm)
	muxSet := map[string]bool{}
	var muxes []string
	for _, r := range routes {
		if !muxSet[r.mux] {
			muxSet[r.mux] = true
			muxes = append(muxes, r.mux)
		}
	}
	enum("Mux", "the ServeMux values built in SetupServer (variable name without the Mux suffix)", muxes)
	fmt.Fprint(w, `/-- per-item hooks of authorization.RequestResourceAuthorizer as consulted by the server -/
inductive Hook where
  | listBucket | listObject | deleteObjectEntry | listMultipartUpload | listPart
  deriving DecidableEq, Repr

/-- a discriminator a router tests: query parameter present, request header non-empty,
query parameter equal to a value, disjunction -/
inductive Cond where
  | has (q : String)
  | hdr (h : String)
  | qeq (q v : String)
  | or (a b : Cond)
  deriving Repr

/-- where a bucket / key argument comes from -/
inductive Arg where
  | none            -- nil / not given
  | pathBucket      -- storage.NewBucketName(r.PathValue("bucket"))
  | pathKey         -- storage.NewObjectKey(r.PathValue("key"))
  | copySrcBucket   -- bucket part of parseCopySource(x-amz-copy-source)
  | copySrcKey      -- key part of parseCopySource(x-amz-copy-source)
  | websiteKey      -- storage.NewObjectKey(websiteResolveKey(r.PathValue("key"), websiteConfig))
  | websiteErrorDoc -- storage.NewObjectKey(*websiteConfig.ErrorDocumentKey)
  | other (sym : String)
  deriving DecidableEq, Repr

/-- one alternative of the operation name: taken when `+"`ifQuery`"+` is none or that query parameter is
present (later alternatives override earlier ones) -/
structure OpAlt where
  op : Op
  ifQuery : Option String
  deriving Repr

structure AuthCall where
  via : String
  ops : List OpAlt
  bucket : Arg
  key : Arg
  srcBucket : Arg
  srcKey : Arg
  deriving Repr

/-- `+"`auth`"+`: index (in the route's `+"`auth`"+` list) of the guard that dominates the call; none = the call is
reachable without any authorize call having succeeded -/
structure StorageCall where
  method : SM
  via : String
  bucket : Arg
  key : Arg
  srcBucket : Arg
  srcKey : Arg
  auth : Option Nat
  deriving Repr

structure Route where
  mux : Mux
  method : String
  pattern : String
  guards : List (Cond × Bool)
  handler : String
  status : Option Nat
  auth : List AuthCall
  itemHooks : List Hook
  calls : List StorageCall
  deriving Repr

`)
	fmt.Fprintln(w, "def routes : List Route := [")
	for i, r := range routes {
		var gs []string
		for _, g := range r.guards {
			gs = append(gs, fmt.Sprintf("(%s, %v)", g.c.lean(), g.pol))
		}
		status := "none"
		if r.status > 0 {
			status = fmt.Sprintf("some %d", r.status)
		}
		var as, hs, cs []string
		if r.leaf != nil {
			for _, a := range r.leaf.auths {
				var alts []string
				for _, o := range a.ops {
					q := "none"
					if o.ifQuery != "" {
						q = "some " + LeanStr(o.ifQuery)
					}
					alts = append(alts, fmt.Sprintf("{ op := .%s, ifQuery := %s }", o.op, q))
				}
				as = append(as, fmt.Sprintf("{ via := %s, ops := [%s], bucket := %s, key := %s, srcBucket := %s, srcKey := %s }",
					LeanStr(a.via), strings.Join(alts, ", "), a.bucket, a.key, a.srcBkt, a.srcKey))
			}
			for _, h := range r.leaf.hooks {
				hs = append(hs, "."+h)
			}
			for _, c := range r.leaf.calls {
				au := "none"
				if c.auth >= 0 {
					au = fmt.Sprintf("some %d", c.auth)
				}
				cs = append(cs, fmt.Sprintf("{ method := .%s, via := %s, bucket := %s, key := %s, srcBucket := %s, srcKey := %s, auth := %s }",
					c.method, LeanStr(c.via), c.bucket, c.key, c.srcBkt, c.srcKey, au))
			}
		}
		sep := ","
		if i == len(routes)-1 {
			sep = ""
		}
		fmt.Fprintf(w, "  { mux := .%s, method := %s, pattern := %s, handler := %s, status := %s,\n    guards := [%s],\n    auth := [%s],\n    itemHooks := [%s],\n    calls := [%s] }%s\n",
			r.mux, LeanStr(r.method), LeanStr(r.pattern), LeanStr(r.handler), status,
			strings.Join(gs, ", "), strings.Join(as, ",\n             "), strings.Join(hs, ", "), strings.Join(cs, ",\n              "), sep)
	}
	fmt.Fprintln(w, "]")
	fmt.Fprintln(w)
	fmt.Fprintln(w, "/-- storage calls of request middlewares registered in SetupServer (mux, function, methods): they run")
	fmt.Fprintln(w, "before routing and before any authorize call -/")
	var ms []string
	for _, m := range mws {
		if !muxSet[m.mux] {
			m.mux = "unknown_" + m.mux // fails to elaborate: fail closed
		}
		ms = append(ms, fmt.Sprintf("(.%s, %s, [%s])", m.mux, LeanStr(m.fn), strings.Join(c31Prefix(m.calls, "."), ", ")))
	}
	fmt.Fprintf(w, "def middlewareCalls : List (Mux × String × List SM) := [%s]\n\n", strings.Join(ms, ", "))
	var az []string
	for _, m := range p.sm {
		if p.authzSM[m] {
			az = append(az, m)
		}
	}
	fmt.Fprintln(w, "/-- storage methods reachable from the authorization plumbing itself (lazy tag resolvers handed to the")
	fmt.Fprintln(w, "authorizer): they run only if the authorizer asks, on its behalf -/")
	fmt.Fprintf(w, "def authorizerSideCalls : List SM := [%s]\n\n", strings.Join(c31Prefix(az, "."), ", "))
	fmt.Fprintln(w, "/-- `isReadOnly` of the Lua authorizer: the operations of its `true` case and of its `false` case;")
	fmt.Fprintln(w, "operations in neither list are reported as not read-only (the zero value) -/")
	fmt.Fprintf(w, "def luaReadOnlyTrue : List Op := [%s]\n", strings.Join(c31Prefix(ro, "."), ", "))
	fmt.Fprintf(w, "def luaReadOnlyFalse : List Op := [%s]\n\n", strings.Join(c31Prefix(rw, "."), ", "))
	fmt.Fprintln(w, "end Pithos.Gen.Routes")
}

func c31Prefix(xs []string, pre string) []string {
	out := make([]string, len(xs))
	for i, x := range xs {
		out[i] = pre + x
	}
	return out
}
