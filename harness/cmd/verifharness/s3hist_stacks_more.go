//go:build verif

package main

import (
	"context"
	"os"
	"path/filepath"
	"strings"

	"github.com/jdillenkofer/pithos/internal/storage/metadatapart"
	"github.com/jdillenkofer/pithos/internal/storage/metadatapart/partstore"
	"github.com/jdillenkofer/pithos/internal/verifx"
)

// Part-store compositions for the storage-history harness (C01's quantifier: "every supported
// part-store composition"). A stack name is either one of the aliases below or a literal word of
// the C15 stack builder (verifx.StackEnv.Build: z:<sample> g:<sample> t c:<max> o e:<d>:<p>:<stripe>)
// followed by "/fs" or "/sql", e.g. "z:64 t/fs".
var s3hAliases = map[string]string{
	"zstd":    "z:64/fs",
	"gzip":    "g:64/sql",
	"gzipfs":  "g:0/fs",  // default sample size (64 KiB): parts of 1 KiB and more really get compressed
	"zstdsql": "z:0/sql",
	"tink":    "t/fs",
	"ec":      "e:2:1:1024/fs",
	"cache":   "c:1000000/fs",
	"outbox":  "o/fs",
	"deep":    "c:100000 z:32 t/sql",
	"ecdeep":  "z:64 e:2:2:1024/mix",
	"outdeep": "o g:16/sql",
}

// S3hStackNames lists every stack the thorough tier rotates through.
var S3hStackNames = []string{"fs", "sql", "zstd", "gzip", "tink", "ec", "cache", "outbox", "deep", "ecdeep", "outdeep", "named", "gzipfs", "zstdsql"}

func newS3hStackMore(dir, name string) *verifx.Stack {
	if name == "named" {
		return newS3hNamed(dir)
	}
	if name == "route" { // C14 routing histories: remappable named stores + routing observer (s3hist_routing.go)
		return newS3hRouteStack(dir)
	}
	if a, ok := s3hAliases[name]; ok {
		name = a
	}
	i := strings.LastIndexByte(name, '/')
	if i < 0 {
		return nil
	}
	var word []verifx.Letter
	for _, f := range strings.Fields(name[:i]) {
		word = append(word, verifx.ParseLetter(f))
	}
	env := verifx.NewStackEnv(dir)
	env.Gate.Open() // outbox workers flush freely
	built := env.Build(word, name[i+1:])
	ms := verifx.NewMeta(env.DB)
	st := verifx.Must(metadatapart.NewStorage(env.DB, ms, built.Top))
	verifx.Check(st.Start(context.Background()))
	return &verifx.Stack{Dir: dir, RawDB: env.DB, DB: env.DB, Meta: ms, PartStore: built.Top, Storage: st}
}

// newS3hNamed: storage-class routed named part stores: STANDARD_IA → a second filesystem store,
// GLACIER and DEEP_ARCHIVE → a SQL store, everything else → the default filesystem store.
func newS3hNamed(dir string) *verifx.Stack {
	env := verifx.NewStackEnv(dir)
	def := env.Build(nil, "fs")
	ia := env.Build(nil, "fs")
	cold := env.Build(nil, "sql")
	ms := verifx.NewMeta(env.DB)
	st := verifx.Must(metadatapart.NewStorageWithNamedPartStores(env.DB, ms, def.Top,
		map[string]partstore.PartStore{"ia": ia.Top, "cold": cold.Top},
		map[string]string{"STANDARD_IA": "ia", "GLACIER": "cold", "DEEP_ARCHIVE": "cold"}))
	verifx.Check(st.Start(context.Background()))
	_ = os.MkdirAll(filepath.Join(dir, "x"), 0o755)
	return &verifx.Stack{Dir: dir, RawDB: env.DB, DB: env.DB, Meta: ms, PartStore: def.Top, Storage: st}
}
