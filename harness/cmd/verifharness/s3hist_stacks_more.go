//go:build verif

package main

import "github.com/jdillenkofer/pithos/internal/verifx"

func newS3hStackMore(dir, name string) *verifx.Stack { return nil }
