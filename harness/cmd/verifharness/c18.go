//go:build verif

package main

import (
	"bytes"
	"context"
	"database/sql"
	"errors"
	"fmt"
	"io"
	"os"
	"path/filepath"
	"sort"
	"strings"
	"sync"
	"sync/atomic"
	"time"

	"github.com/jdillenkofer/pithos/internal/storage/database"
	repositoryfactory "github.com/jdillenkofer/pithos/internal/storage/database/repository"
	"github.com/jdillenkofer/pithos/internal/storage/database/repository/partoutboxentry"
	"github.com/jdillenkofer/pithos/internal/storage/database/sqlite"
	"github.com/jdillenkofer/pithos/internal/storage/metadatapart/partstore"
	outboxps "github.com/jdillenkofer/pithos/internal/storage/metadatapart/partstore/outbox"
	"github.com/jdillenkofer/pithos/internal/verifx"
	"github.com/prometheus/client_golang/prometheus"
)

// C18: chosen schedules of the REAL outbox part store (two worker instances sharing one SQLite
// outbox table and one inner part store double, writers, lease expiry, heartbeats, crashes) are
// realised step by step; the trace lists the atomic steps in the order they happened together with
// what GetPart/GetPartIds answered at chosen points and the inner store's content whenever the
// workers are idle. Trace lines (see lean/Driver/C18.lean):
//
//	cfg lease=<L> clock=<logical|real>
//	commit put:<id>:<hex>,del:<id>…        one committed writer transaction
//	claim <w> none|busy|ok <entry> <version>
//	read <w> ok <hex>|vanished
//	iwrite <w> ok|failed
//	fin <w> deleted|skipped
//	rel <w> released|noop
//	ext <w> ok|lost
//	tick <d> | expire | crash <w>
//	get <id> <hex>|none <tx|free>          GetPart through the outbox part store
//	ids <id,…|->                           GetPartIds through the outbox part store
//	idle queue=<n> busy=<w,…|->            observation point: table size, workers not idle
//	inner <id>:<hex>,…|-                   content of the inner part store
//	unexpected <text>                      the implementation left the protocol the harness drives

func init() { register("c18", runC18) }

const c18NumParts = 3

type c18Case struct {
	ctx      context.Context
	outboxID string
	raw      database.Database
	rawRepo  partoutboxentry.Repository
	inner    *c18Inner
	writer   partstore.PartStore
	lines    []string
	realTime bool
	lease    int64 // logical units
	realDur  time.Duration
	clock    atomic.Int64
	base     time.Time
	maxUntil atomic.Int64
	muReal   sync.Mutex
	maxReal  time.Time
	parts    []partstore.PartId
	partOrd  map[partstore.PartId]int
	entries  map[string]int // entry ULID -> ordinal (commit order)
	workers  [2]*c18Worker
	parked   [2]string // gate the worker is parked at ("" = not parked)
	asleep   [2]bool   // after a release the worker sleeps 5 s: only a crash/restart revives it
	failed   bool
	rng      *verifx.Rng
	commits  int
	queued   int // entries committed and not yet finalized (as observed)
	lastMs   int64 // millisecond of the last outbox entry written by this case
	held     [2]string // entry the slot's worker claimed and has not finalized / released yet
	robbed   [2]bool   // another worker claimed that same entry meanwhile: this one is a straggler
	reader   partstore.PartStore // reads whose two look-ups can be separated by a flush (idsmid)
	midArmed atomic.Bool
	midHit   chan struct{}
	midGo    chan struct{}
}

func (cs *c18Case) logical(units int64) time.Time { return cs.base.Add(time.Duration(units) * time.Second) }

func (cs *c18Case) noteUntil(u int64) {
	for {
		m := cs.maxUntil.Load()
		if u <= m || cs.maxUntil.CompareAndSwap(m, u) {
			return
		}
	}
}

func (cs *c18Case) noteUntilReal(t time.Time) {
	cs.muReal.Lock()
	if t.After(cs.maxReal) {
		cs.maxReal = t
	}
	cs.muReal.Unlock()
}

func (cs *c18Case) line(format string, a ...any) { cs.lines = append(cs.lines, fmt.Sprintf(format, a...)) }

func (cs *c18Case) unexpected(format string, a ...any) {
	cs.line("unexpected %s", strings.ReplaceAll(fmt.Sprintf(format, a...), " ", "-"))
	cs.failed = true
}

// newC18Case sets up one case inside the lane's database; cases are isolated by their outbox id
// (every statement of the repository filters on outbox_id), which saves the SQLite setup per case.
func newC18Case(raw database.Database, outboxID string, realTime bool, seed uint64) *c18Case {
	cs := &c18Case{ctx: context.Background(), outboxID: outboxID, raw: raw, inner: newC18Inner(), realTime: realTime, lease: 10,
		base: time.Date(2030, 1, 1, 0, 0, 0, 0, time.UTC), partOrd: map[partstore.PartId]int{}, entries: map[string]int{},
		rng: verifx.NewRng(seed)}
	cs.realDur = 30 * time.Millisecond // logical mode: only paces the heartbeat ticker (10 ms)
	if realTime {
		cs.realDur = 60 * time.Millisecond
	}
	cs.rawRepo = verifx.Must(repositoryfactory.NewPartOutboxEntryRepository(raw))
	cs.writer = verifx.Must(outboxps.New(raw, cs.outboxID, cs.inner, cs.rawRepo, prometheus.NewRegistry(), cs.realDur))
	cs.midHit, cs.midGo = make(chan struct{}), make(chan struct{})
	cs.reader = verifx.Must(outboxps.New(raw, cs.outboxID, &c18MidInner{c18Inner: cs.inner, cs: cs}, &c18MidRepo{Repository: cs.rawRepo, cs: cs},
		prometheus.NewRegistry(), cs.realDur))
	for i := 0; i < c18NumParts; i++ {
		id := verifx.Must(partstore.NewRandomPartId())
		cs.parts = append(cs.parts, *id)
		cs.partOrd[*id] = i
	}
	clock := "logical"
	if realTime {
		clock = "real"
	}
	cs.line("cfg lease=%d clock=%s", cs.lease, clock)
	for slot := 0; slot < 2; slot++ {
		cs.startWorker(slot, 0)
	}
	return cs
}

func (cs *c18Case) startWorker(slot, inc int) {
	w := &c18Worker{cs: cs, slot: slot, inc: inc, arrive: make(chan c18Arrival), resume: make(chan string),
		done: make(chan c18Done, 8), dead: make(chan struct{})}
	w.db = &c18DB{Database: cs.raw, w: w}
	w.repo = &c18Repo{Repository: cs.rawRepo, w: w}
	w.store = verifx.Must(outboxps.New(w.db, cs.outboxID, cs.inner, w.repo, prometheus.NewRegistry(), cs.realDur))
	verifx.Check(w.store.Start(context.WithValue(cs.ctx, c18WorkerKey{}, w)))
	cs.workers[slot] = w
	cs.parked[slot] = ""
	cs.asleep[slot] = false
}

func (cs *c18Case) close() {
	for slot := range cs.workers {
		cs.kill(slot)
	}
}

// kill makes the worker take no further step (every later call of it through the doubles fails)
// and stops its goroutine. This is how a process crash looks to the table and the inner store.
func (cs *c18Case) kill(slot int) {
	w := cs.workers[slot]
	if w == nil || w.crashed.Load() {
		return
	}
	w.crashed.Store(true)
	close(w.dead)
	ctx, cancel := context.WithTimeout(cs.ctx, 5*time.Second)
	_ = w.store.Stop(ctx)
	cancel()
	cs.parked[slot] = ""
}

// ---------------------------------------------------------------- driving one worker

// awaitArrival waits until the worker is parked at a gate.
func (cs *c18Case) awaitArrival(slot int, d time.Duration) bool {
	if cs.parked[slot] != "" {
		return true
	}
	w := cs.workers[slot]
	select {
	case a := <-w.arrive:
		cs.parked[slot] = a.kind
		return true
	case <-time.After(d):
		return false
	}
}

// poke wakes the worker's loop like its 1 s poll timer would: a committed transaction in which the
// store registered its after-commit trigger (the repository double inserts no row in poke mode).
func (cs *c18Case) poke(slot int) {
	w := cs.workers[slot]
	w.pokeMode.Store(true)
	_ = database.WithTx(cs.ctx, cs.raw, &sql.TxOptions{ReadOnly: false}, func(ctx context.Context, tx database.Tx) error {
		return w.store.DeletePart(ctx, tx, cs.parts[0])
	})
	w.pokeMode.Store(false)
}

func (cs *c18Case) awaitDone(slot int, kind string) (c18Done, bool) {
	w := cs.workers[slot]
	select {
	case d := <-w.done:
		if d.kind != kind {
			cs.unexpected("worker %d finished step %s while %s was scheduled", slot, d.kind, kind)
			return d, false
		}
		return d, true
	case <-time.After(10 * time.Second):
		cs.unexpected("worker %d did not finish step %s", slot, kind)
		return c18Done{}, false
	}
}

// phase of a worker as observed: which step it would take next.
func (cs *c18Case) phase(slot int) string {
	if cs.asleep[slot] {
		return "asleep"
	}
	switch cs.parked[slot] {
	case "read":
		return "claimed"
	case "iwrite":
		return "ready"
	case "finalize":
		return "written"
	case "release":
		return "failed"
	}
	return "idle"
}

// expectNext waits for the gate the worker must reach after the step just taken.
func (cs *c18Case) expectNext(slot int) {
	cs.parked[slot] = ""
	if !cs.awaitArrival(slot, 10*time.Second) {
		cs.unexpected("worker %d did not reach its next step", slot)
	}
}

func (cs *c18Case) entryOrd(id string) int {
	if n, ok := cs.entries[id]; ok {
		return n
	}
	return -1
}

// step performs one scheduled worker step; returns false when the case must stop.
func (cs *c18Case) step(kind string, slot int) bool {
	w := cs.workers[slot]
	gateOf := map[string]string{"claim": "claim", "read": "read", "iwrite": "iwrite", "ifail": "iwrite", "fin": "finalize", "rel": "release"}
	if kind == "ext" {
		ph := cs.phase(slot)
		if ph != "claimed" && ph != "ready" {
			cs.unexpected("extend scheduled for worker %d in phase %s", slot, ph)
			return false
		}
		w.hbPermits.Add(1)
		d, ok := cs.awaitDone(slot, "extend")
		if !ok {
			return false
		}
		if d.rolledBack {
			cs.unexpected("heartbeat transaction of worker %d rolled back", slot)
			return false
		}
		w.mu.Lock()
		ext := w.extExtended
		w.mu.Unlock()
		cs.line("ext %d %s", slot, map[bool]string{true: "ok", false: "lost"}[ext])
		return true
	}
	gate := gateOf[kind]
	if cs.parked[slot] == "" {
		if kind != "claim" {
			cs.unexpected("step %s scheduled for worker %d which is not parked", kind, slot)
			return false
		}
		if !cs.awaitArrival(slot, 20*time.Millisecond) {
			cs.poke(slot)
			if !cs.awaitArrival(slot, 10*time.Second) {
				cs.unexpected("worker %d never attempted a claim", slot)
				return false
			}
		}
	}
	if cs.parked[slot] != gate {
		cs.unexpected("worker %d is at %s, schedule wants %s", slot, cs.parked[slot], kind)
		return false
	}
	act := "go"
	if kind == "ifail" {
		act = "fail"
	}
	w.resume <- act
	d, ok := cs.awaitDone(slot, gate)
	if !ok {
		return false
	}
	if d.rolledBack {
		cs.unexpected("transaction of step %s of worker %d rolled back", kind, slot)
		return false
	}
	w.mu.Lock()
	defer w.mu.Unlock()
	switch kind {
	case "claim":
		switch {
		case w.claimOK:
			cs.line("claim %d ok %d %d", slot, cs.entryOrd(w.claimID), w.claimVer)
			cs.held[slot], cs.robbed[slot] = w.claimID, false
			if o := 1 - slot; cs.held[o] == w.claimID {
				if ph := cs.phase(o); ph == "claimed" || ph == "ready" {
					cs.robbed[o] = true
				}
			}
			w.mu.Unlock()
			cs.expectNext(slot)
			w.mu.Lock()
		case w.claimFound:
			cs.line("claim %d busy", slot)
			cs.parked[slot] = ""
		default:
			cs.line("claim %d none", slot)
			cs.parked[slot] = ""
		}
	case "read":
		if d.readErr != nil {
			cs.line("read %d vanished", slot)
		} else {
			cs.line("read %d ok %s", slot, verifx.Hex(d.readBytes))
		}
		w.mu.Unlock()
		cs.expectNext(slot)
		w.mu.Lock()
	case "iwrite", "ifail":
		if d.innerFail {
			cs.line("iwrite %d failed", slot)
		} else {
			cs.line("iwrite %d ok", slot)
		}
		w.mu.Unlock()
		cs.expectNext(slot)
		w.mu.Lock()
	case "fin":
		cs.held[slot], cs.robbed[slot] = "", false
		if w.finDeleted {
			cs.queued--
			cs.line("fin %d deleted", slot)
			w.mu.Unlock()
			cs.expectNext(slot) // the loop goes straight to the next claim
			w.mu.Lock()
		} else {
			cs.line("fin %d skipped", slot)
			cs.parked[slot] = ""
		}
	case "rel":
		cs.held[slot], cs.robbed[slot] = "", false
		cs.line("rel %d %s", slot, map[bool]string{true: "released", false: "noop"}[w.relReleased])
		cs.parked[slot] = ""
		cs.asleep[slot] = true // waitForPartOutboxRetry: 5 s
	}
	if len(w.unknownTx) > 0 {
		cs.unexpected("%s", strings.Join(w.unknownTx, ","))
		return false
	}
	return true
}

func (cs *c18Case) crash(slot int) {
	cs.held[slot], cs.robbed[slot] = "", false
	cs.kill(slot)
	cs.line("crash %d", slot)
	cs.startWorker(slot, cs.workers[slot].inc+1)
}

// ---------------------------------------------------------------- writers, readers, environment

type c18Op struct {
	put  bool
	part int
	data []byte
}

// c18NextMilli waits until the wall clock has moved past the millisecond of the previous outbox
// entry of this case. Entry ids are ULIDs made by ulid.Make(): their order is the commit order only
// as long as later entries get a later millisecond or the process-wide monotonic entropy is not reset
// in between — and it IS reset whenever another goroutine (here: another lane of this harness) calls
// ulid.Make() with an older millisecond between two calls that share one. Spacing the entries of a
// case by a millisecond keeps the tie's assumption "entry ids ascend in commit order" true under the
// harness' own parallelism.
func c18NextMilli(last *int64) {
	for time.Now().UnixMilli() <= *last {
		time.Sleep(200 * time.Microsecond)
	}
	*last = time.Now().UnixMilli()
}

func (cs *c18Case) commit(ops []c18Op) {
	var ids []string
	err := database.WithTx(cs.ctx, cs.raw, &sql.TxOptions{ReadOnly: false}, func(ctx context.Context, tx database.Tx) error {
		for _, op := range ops {
			var err error
			c18NextMilli(&cs.lastMs)
			if op.put {
				err = cs.writer.PutPart(ctx, tx, cs.parts[op.part], bytes.NewReader(op.data))
			} else {
				err = cs.writer.DeletePart(ctx, tx, cs.parts[op.part])
			}
			if err != nil {
				return err
			}
			e, err := cs.rawRepo.FindLastPartOutboxEntryByPartId(ctx, tx.SqlTx(), cs.outboxID, cs.parts[op.part])
			if err != nil || e == nil {
				return fmt.Errorf("entry just written not found: %v", err)
			}
			ids = append(ids, e.Id.String())
		}
		return nil
	})
	if err != nil {
		cs.unexpected("writer transaction failed: %v", err)
		return
	}
	toks := make([]string, len(ops))
	for i, op := range ops {
		cs.entries[ids[i]] = len(cs.entries)
		if op.put {
			toks[i] = fmt.Sprintf("put:%d:%s", op.part, verifx.Hex(op.data))
		} else {
			toks[i] = fmt.Sprintf("del:%d", op.part)
		}
	}
	cs.commits++
	cs.queued += len(ops)
	cs.line("commit %s", strings.Join(toks, ","))
}

func (cs *c18Case) get(part int, txFree bool) {
	var res string
	read := func(ctx context.Context, tx database.Tx) error {
		r, err := cs.writer.GetPart(ctx, tx, cs.parts[part])
		if errors.Is(err, partstore.ErrPartNotFound) {
			res = "none"
			return nil
		}
		if err != nil {
			return err
		}
		b, err := io.ReadAll(r)
		_ = r.Close()
		if err != nil {
			return err
		}
		res = verifx.Hex(b)
		return nil
	}
	var err error
	mode := "tx"
	if txFree {
		mode = "free"
		err = read(cs.ctx, nil)
	} else {
		err = database.WithTx(cs.ctx, cs.raw, &sql.TxOptions{ReadOnly: true}, read)
	}
	if err != nil {
		res = "error:" + verifx.HexS(err.Error())
	}
	cs.line("get %d %s %s", part, res, mode)
}

func (cs *c18Case) ids() {
	var out []int
	err := database.WithTx(cs.ctx, cs.raw, &sql.TxOptions{ReadOnly: true}, func(ctx context.Context, tx database.Tx) error {
		ids, err := cs.writer.GetPartIds(ctx, tx)
		if err != nil {
			return err
		}
		for _, id := range ids {
			if n, ok := cs.partOrd[id]; ok {
				out = append(out, n)
			} else {
				out = append(out, 99)
			}
		}
		return nil
	})
	if err != nil {
		cs.line("ids error:%s", verifx.HexS(err.Error()))
		return
	}
	sort.Ints(out)
	cs.line("ids %s", c18JoinInts(out))
}

// A reader whose two look-ups (the outbox table, the inner store) can be separated: after the FIRST
// of them has returned, the read pauses until the harness lets it go on. GetPartIds is not one
// atomic step; whatever the worker flushes in between, the answer must be the committed parts.
type c18MidRepo struct {
	partoutboxentry.Repository
	cs *c18Case
}

type c18MidInner struct {
	*c18Inner
	cs *c18Case
}

func (cs *c18Case) midPause() {
	if cs.midArmed.CompareAndSwap(true, false) {
		cs.midHit <- struct{}{}
		<-cs.midGo
	}
}

func (r *c18MidRepo) FindLastPartOutboxEntryGroupedByPartId(ctx context.Context, tx *sql.Tx, outboxId string) ([]partoutboxentry.Entity, error) {
	es, err := r.Repository.FindLastPartOutboxEntryGroupedByPartId(ctx, tx, outboxId)
	r.cs.midPause()
	return es, err
}

func (in *c18MidInner) GetPartIds(ctx context.Context, tx database.Tx) ([]partstore.PartId, error) {
	ids, err := in.c18Inner.GetPartIds(ctx, tx)
	in.cs.midPause()
	return ids, err
}

// idsMid: GetPartIds starts, its first look-up returns, the worker in `slot` (which is about to
// mutate the inner store) completes its inner mutation and its finalize, then the read goes on.
func (cs *c18Case) idsMid(slot int) {
	if cs.phase(slot) != "ready" {
		cs.unexpected("idsmid scheduled for worker %d in phase %s", slot, cs.phase(slot))
		return
	}
	type result struct {
		ids []partstore.PartId
		err error
	}
	resCh := make(chan result, 1)
	cs.midArmed.Store(true)
	go func() {
		var r result
		r.err = database.WithTx(cs.ctx, cs.raw, &sql.TxOptions{ReadOnly: true}, func(ctx context.Context, tx database.Tx) error {
			var err error
			r.ids, err = cs.reader.GetPartIds(ctx, tx)
			return err
		})
		resCh <- r
	}()
	select {
	case <-cs.midHit:
	case <-time.After(10 * time.Second):
		cs.unexpected("GetPartIds made none of its two look-ups")
		return
	}
	cs.step("iwrite", slot)
	if !cs.failed && cs.phase(slot) == "written" {
		cs.step("fin", slot)
	}
	cs.midGo <- struct{}{}
	r := <-resCh
	if r.err != nil {
		cs.line("ids error:%s", verifx.HexS(r.err.Error()))
		return
	}
	var out []int
	for _, id := range r.ids {
		if n, ok := cs.partOrd[id]; ok {
			out = append(out, n)
		} else {
			out = append(out, 99)
		}
	}
	sort.Ints(out)
	cs.line("ids %s", c18JoinInts(out))
}

func c18JoinInts(xs []int) string {
	if len(xs) == 0 {
		return "-"
	}
	s := make([]string, len(xs))
	for i, x := range xs {
		s[i] = fmt.Sprint(x)
	}
	return strings.Join(s, ",")
}

func (cs *c18Case) tick(d int64) {
	if cs.realTime {
		cs.unexpected("tick in real-time mode")
		return
	}
	cs.clock.Add(d)
	cs.line("tick %d", d)
}

// expire lets every lease handed out so far run out.
func (cs *c18Case) expire() {
	if cs.realTime {
		cs.muReal.Lock()
		until := cs.maxReal
		cs.muReal.Unlock()
		if wait := time.Until(until); wait > 0 {
			time.Sleep(wait)
		}
		time.Sleep(10 * time.Millisecond)
	} else if m := cs.maxUntil.Load(); m > cs.clock.Load() {
		cs.clock.Store(m)
	}
	cs.line("expire")
}

// observe prints the idle observation point and the inner store's content.
func (cs *c18Case) observe() {
	count := -1
	_ = database.WithTx(cs.ctx, cs.raw, &sql.TxOptions{ReadOnly: true}, func(ctx context.Context, tx database.Tx) error {
		var err error
		count, err = cs.rawRepo.Count(ctx, tx.SqlTx(), cs.outboxID)
		return err
	})
	var busy []int
	for slot := range cs.workers {
		if ph := cs.phase(slot); ph != "idle" && ph != "asleep" {
			busy = append(busy, slot)
		}
	}
	cs.line("idle queue=%d busy=%s", count, c18JoinInts(busy))
	snap := cs.inner.snapshot()
	var toks []string
	for id, b := range snap {
		n, ok := cs.partOrd[id]
		if !ok {
			n = 99
		}
		toks = append(toks, fmt.Sprintf("%d:%s", n, verifx.Hex(b)))
	}
	sort.Strings(toks)
	if len(toks) == 0 {
		cs.line("inner -")
	} else {
		cs.line("inner %s", strings.Join(toks, ","))
	}
}

// ---------------------------------------------------------------- scripts

// exec runs one script line: "commit put:0:01,del:1" | "claim 0" | "read 0" | "iwrite 0" |
// "ifail 0" | "fin 0" | "rel 0" | "ext 0" | "tick 3" | "expire" | "crash 0" | "get 0 tx" |
// "get 0 free" | "ids" | "observe".
func (cs *c18Case) exec(s string) bool {
	if cs.failed {
		return false
	}
	t := strings.Fields(s)
	num := func(i int) int {
		var n int
		fmt.Sscanf(t[i], "%d", &n)
		return n
	}
	switch t[0] {
	case "commit":
		var ops []c18Op
		for _, tok := range strings.Split(t[1], ",") {
			p := strings.Split(tok, ":")
			var part int
			fmt.Sscanf(p[1], "%d", &part)
			if p[0] == "put" {
				ops = append(ops, c18Op{put: true, part: part, data: unhexTok(p[2])})
			} else {
				ops = append(ops, c18Op{part: part})
			}
		}
		cs.commit(ops)
	case "claim", "read", "iwrite", "ifail", "fin", "rel", "ext":
		return cs.step(t[0], num(1))
	case "tick":
		cs.tick(int64(num(1)))
	case "expire":
		cs.expire()
	case "crash":
		cs.crash(num(1))
	case "get":
		cs.get(num(1), len(t) > 2 && t[2] == "free")
	case "ids":
		cs.ids()
	case "idsmid":
		cs.idsMid(num(1))
	case "observe":
		cs.observe()
	default:
		verifx.Fatalf("c18: unknown script line %q", s)
	}
	return !cs.failed
}

// nextOf is the step a worker in the given phase takes next.
func c18NextOf(phase string) string {
	switch phase {
	case "idle":
		return "claim"
	case "claimed":
		return "read"
	case "ready":
		return "iwrite"
	case "written":
		return "fin"
	case "failed":
		return "rel"
	}
	return ""
}

// drain finishes everything: leases run out, parked workers complete their pending steps in a
// random order (this is where a stale inner mutation lands), sleepers are restarted, and the
// workers then empty the table. Ends with the idle observation, the reads and the inner dump.
func (cs *c18Case) drain() {
	// a straggler: one busy worker may stay parked until the other one has emptied the table
	straggler := -1
	if cs.rng.Chance(1, 2) {
		for slot := range cs.workers {
			if ph := cs.phase(slot); ph == "claimed" || ph == "ready" {
				straggler = slot
			}
		}
	}
	for slot := range cs.workers { // a worker whose entry another worker has taken is the natural straggler
		if ph := cs.phase(slot); cs.robbed[slot] && (ph == "claimed" || ph == "ready") && cs.rng.Chance(4, 5) {
			straggler = slot
		}
	}
	if straggler >= 0 {
		other := 1 - straggler
		for round := 0; round < 400 && !cs.failed; round++ {
			ph := cs.phase(other)
			if ph == "asleep" {
				cs.exec(fmt.Sprintf("crash %d", other))
				continue
			}
			if ph == "idle" {
				cs.exec("expire")
				cs.exec(fmt.Sprintf("claim %d", other))
				if cs.phase(other) == "idle" && strings.HasSuffix(cs.lines[len(cs.lines)-1], "none") {
					break
				}
				continue
			}
			cs.exec(fmt.Sprintf("%s %d", c18NextOf(ph), other))
		}
	}
	for round := 0; round < 200 && !cs.failed; round++ {
		var cands []int
		for slot := range cs.workers {
			if ph := cs.phase(slot); ph != "idle" && ph != "asleep" {
				cands = append(cands, slot)
			}
		}
		if len(cands) == 0 {
			break
		}
		slot := verifx.Pick(cs.rng, cands)
		cs.exec(fmt.Sprintf("%s %d", c18NextOf(cs.phase(slot)), slot))
	}
	for slot := range cs.workers {
		if cs.asleep[slot] && !cs.failed {
			cs.exec(fmt.Sprintf("crash %d", slot))
		}
	}
	// now every worker is idle; empty the table with alternating workers
	for round := 0; round < 400 && !cs.failed; round++ {
		slot := cs.rng.Intn(2)
		cs.exec("expire")
		if !cs.exec(fmt.Sprintf("claim %d", slot)) {
			return
		}
		if cs.phase(slot) == "idle" { // none (or busy: cannot be after expire)
			last := cs.lines[len(cs.lines)-1]
			if strings.HasSuffix(last, "none") {
				break
			}
			continue
		}
		for cs.phase(slot) != "idle" && !cs.failed {
			next := c18NextOf(cs.phase(slot))
			cs.exec(fmt.Sprintf("%s %d", next, slot))
			if next == "fin" {
				break
			}
		}
	}
	// the worker that finalized last is parked at its next claim: let it see the empty table
	for slot := range cs.workers {
		if cs.parked[slot] == "claim" && !cs.failed {
			cs.exec(fmt.Sprintf("claim %d", slot))
		}
	}
	if cs.failed {
		return
	}
	cs.exec("observe")
	for p := 0; p < c18NumParts; p++ {
		cs.get(p, p%2 == 1)
	}
	cs.ids()
}

// generate performs a random enabled schedule.
func (cs *c18Case) generate(steps int) {
	r := cs.rng
	crashes := 0
	for i := 0; i < steps && !cs.failed; i++ {
		x := r.Intn(100)
		switch {
		case (x < 22 || (x < 75 && cs.queued == 0)) && cs.commits < 6:
			n := 1
			if r.Chance(1, 4) {
				n = 2
			}
			var toks []string
			for j := 0; j < n; j++ {
				part := verifx.Pick(r, []int{0, 0, 0, 1, 1, 2})
				if r.Chance(3, 5) {
					sz := verifx.Pick(r, []int{0, 1, 1, 2, 3})
					toks = append(toks, fmt.Sprintf("put:%d:%s", part, verifx.Hex(r.Bytes(sz))))
				} else {
					toks = append(toks, fmt.Sprintf("del:%d", part))
				}
			}
			cs.exec("commit " + strings.Join(toks, ","))
		case x < 75:
			slot := r.Intn(2)
			ph := cs.phase(slot)
			if ph == "asleep" {
				cs.exec(fmt.Sprintf("crash %d", slot))
				continue
			}
			if cs.robbed[slot] && (ph == "claimed" || ph == "ready") && r.Chance(3, 4) {
				continue // a slow worker whose entry was taken over stays slow
			}
			if ph == "ready" && !cs.robbed[slot] && cs.held[1-slot] != cs.held[slot] && r.Chance(1, 6) {
				cs.exec(fmt.Sprintf("idsmid %d", slot))
				continue
			}
			next := c18NextOf(ph)
			if (ph == "claimed" || ph == "ready") && r.Chance(1, 8) {
				next = "ext"
			} else if ph == "ready" && r.Chance(1, 12) {
				next = "ifail"
			}
			cs.exec(fmt.Sprintf("%s %d", next, slot))
		case x < 85:
			if r.Chance(1, 2) {
				cs.exec("expire")
			} else {
				cs.exec(fmt.Sprintf("tick %d", verifx.Pick(r, []int{1, 3, 7, 9, 10, 11, 25})))
			}
		case x < 89 && crashes < 2:
			crashes++
			cs.exec(fmt.Sprintf("crash %d", r.Intn(2)))
		case x < 96:
			cs.get(r.Intn(c18NumParts), r.Chance(1, 3))
		default:
			cs.ids()
		}
	}
}

// c18Directed: the witness schedules of Props/C18 (logical clock and real-time leases) and the
// boundary / heartbeat / crash / vanished-entry schedules.
func c18Directed() []struct {
	real   bool
	script []string
} {
	resurrect := []string{"commit put:0:01", "commit del:0", "claim 0", "read 0", "expire", "claim 1", "read 1", "iwrite 1", "fin 1",
		"claim 1", "iwrite 1", "iwrite 0", "fin 0", "fin 1", "claim 1", "observe", "get 0 tx", "get 0 free", "ids"}
	loss := []string{"commit del:0", "commit put:0:01", "claim 0", "expire", "claim 1", "iwrite 1", "fin 1", "claim 1", "read 1",
		"iwrite 1", "iwrite 0", "fin 0", "fin 1", "claim 1", "observe", "get 0 tx", "get 0 free", "ids"}
	benign := []string{"commit put:0:01,put:1:02", "claim 0", "read 0", "ext 0", "iwrite 0", "expire", "claim 1", "read 1", "iwrite 1",
		"fin 0", "fin 1", "get 0 tx", "get 1 free", "ids", "commit del:0,put:2:-", "claim 1", "read 1", "ifail 1", "rel 1", "crash 1",
		"claim 0", "read 0", "crash 0", "get 0 tx", "get 2 tx", "tick 10", "claim 0", "read 0", "iwrite 0", "fin 0", "claim 0", "iwrite 0",
		"fin 0", "claim 0", "read 0", "iwrite 0", "fin 0", "claim 0", "observe", "get 0 tx", "get 1 tx", "get 2 free", "ids"}
	boundary := []string{"commit put:1:aa", "claim 0", "tick 9", "claim 1", "tick 1", "claim 1", "read 1", "read 0", "iwrite 0", "iwrite 1",
		"fin 0", "fin 1", "claim 1", "observe", "get 1 tx", "ids"}
	heartbeat := []string{"commit put:2:bb", "claim 0", "read 0", "tick 9", "ext 0", "tick 9", "claim 1", "tick 1", "claim 1", "read 1",
		"ext 0", "iwrite 0", "fin 0", "iwrite 1", "fin 1", "claim 1", "observe", "get 2 free", "ids"}
	crashes := []string{"commit put:0:0102,del:1", "claim 0", "read 0", "iwrite 0", "crash 0", "get 0 tx", "claim 1", "expire", "claim 1",
		"read 1", "iwrite 1", "fin 1", "claim 0", "iwrite 0", "crash 0", "expire", "claim 1", "iwrite 1", "fin 1", "claim 1", "observe", "get 0 tx", "get 1 tx", "ids"}
	vanished := []string{"commit put:0:07", "claim 0", "expire", "claim 1", "read 1", "iwrite 1", "fin 1", "read 0", "rel 0", "crash 0",
		"claim 1", "observe", "get 0 tx", "ids"}
	// GetPartIds interleaved with a flush: between its two look-ups the worker replays and finalizes
	// a pending put (the part must be listed) and later a pending delete (it must not be)
	midread := []string{"commit put:0:01", "commit put:1:02", "claim 0", "read 0", "idsmid 0", "claim 0", "read 0", "iwrite 0", "fin 0",
		"commit del:1", "claim 0", "idsmid 0", "claim 0", "observe", "ids"}
	return []struct {
		real   bool
		script []string
	}{{false, resurrect}, {false, loss}, {true, resurrect}, {true, loss}, {false, benign}, {false, boundary}, {false, heartbeat},
		{false, crashes}, {false, vanished}, {false, midread}}
}

func runC18(args []string) {
	f := verifx.ParseFlags("c18", args, 220, 2500)
	out := verifx.NewOut()
	directed := c18Directed()
	total := len(directed) + f.Cases
	results := make([][]string, total)
	const lanes = 8
	var wg sync.WaitGroup
	for lane := 0; lane < lanes; lane++ {
		wg.Add(1)
		go func(lane int) {
			defer wg.Done()
			var raw database.Database
			dir := filepath.Join(f.Scratch, fmt.Sprintf("c18-lane%d", lane))
			for k := lane; k < total; k += lanes {
				if !f.Wants(k) {
					continue
				}
				if raw == nil {
					verifx.Check(os.MkdirAll(dir, 0o755))
					raw = verifx.Must(sqlite.OpenDatabase(filepath.Join(dir, "outbox.db")))
				}
				seed := verifx.CaseSeed(f.Seed, k)
				real := k < len(directed) && directed[k].real
				cs := newC18Case(raw, fmt.Sprintf("c18-%d", k), real, seed)
				func() {
					defer func() {
						if r := recover(); r != nil {
							cs.line("unexpected panic-%s", verifx.HexS(fmt.Sprint(r)))
						}
					}()
					if k < len(directed) {
						for _, s := range directed[k].script {
							if !cs.exec(s) {
								break
							}
						}
					} else {
						cs.generate(12 + cs.rng.Intn(30))
						cs.drain()
					}
				}()
				cs.close()
				results[k] = cs.lines
			}
			if raw != nil {
				_ = raw.Close()
				_ = os.RemoveAll(dir)
			}
		}(lane)
	}
	wg.Wait()
	for k, lines := range results {
		if lines == nil {
			continue
		}
		out.Case(k, verifx.CaseSeed(f.Seed, k))
		for _, l := range lines {
			out.Line("%s", l)
		}
		out.End()
	}
	out.Flush()
}
