//go:build verif

// verifharness runs the real pithos code in-process and prints one canonical line per observation
// (see /verif/lean/Pithos/Util/Proto.lean for the protocol). Subcommands register themselves.
package main

import (
	"fmt"
	"io"
	"log/slog"
	"os"
	"sort"
)

var subcommands = map[string]func(args []string){}

func register(name string, fn func(args []string)) { subcommands[name] = fn }

func main() {
	// the code under test logs through slog; keep stdout for the protocol
	slog.SetDefault(slog.New(slog.NewTextHandler(io.Discard, nil)))
	if len(os.Args) < 2 {
		names := []string{}
		for n := range subcommands {
			names = append(names, n)
		}
		sort.Strings(names)
		fmt.Fprintln(os.Stderr, "usage: verifharness <sub> [flags]; subs:", names)
		os.Exit(2)
	}
	fn, ok := subcommands[os.Args[1]]
	if !ok {
		fmt.Fprintln(os.Stderr, "unknown subcommand", os.Args[1])
		os.Exit(2)
	}
	fn(os.Args[2:])
}
