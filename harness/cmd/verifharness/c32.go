//go:build verif

package main

import (
	"context"
	"crypto/tls"
	"fmt"
	"net/http/httptest"
	"os"
	"strings"

	"github.com/jdillenkofer/pithos/internal/http/server"
	"github.com/jdillenkofer/pithos/internal/http/server/authorization"
	luaauth "github.com/jdillenkofer/pithos/internal/http/server/authorization/lua"
	"github.com/jdillenkofer/pithos/internal/settings"
	"github.com/jdillenkofer/pithos/internal/storage"
	"github.com/jdillenkofer/pithos/internal/verifx"
)

// C32: the real server (SetupServer → makeAuthorizationHTTPRequest → getRemoteIP/getRequestScheme)
// in front of the real Lua authorizer (NewLuaAuthorizerWithOptions) whose policy script echoes
// what it sees: request.httpRequest.remoteIP / clientIP / scheme and, for every configured CIDR
// entry, httpRequest:remoteIPInCIDR(entry). The echo travels in the Lua error message, which a
// thin RequestAuthorizer wrapper captures. No storage call is ever reached (the authorizer errors
// first), so the storage is a nil double.

type c32Capture struct {
	inner *luaauth.LuaAuthorizer
	echo  string
	calls int
}

func (c *c32Capture) AuthorizeRequest(ctx context.Context, req *authorization.Request) (bool, error) {
	c.calls++
	ok, err := c.inner.AuthorizeRequest(ctx, req)
	if err != nil {
		msg := err.Error()
		if i := strings.Index(msg, "ECHO|"); i >= 0 {
			if j := strings.LastIndex(msg, "|END"); j > i {
				c.echo = msg[i+5 : j]
			}
		}
	}
	return ok, err
}

type c32NullStorage struct{ storage.Storage }

func c32_luaQuote(s string) string {
	var b strings.Builder
	b.WriteByte('"')
	for i := 0; i < len(s); i++ {
		fmt.Fprintf(&b, "\\%03d", s[i])
	}
	b.WriteByte('"')
	return b.String()
}

func c32Script(entries []string) string {
	var b strings.Builder
	b.WriteString("function authorizeRequest(request)\n")
	b.WriteString("  if request.operation ~= \"ListBuckets\" then return true end\n")
	b.WriteString("  local h = request.httpRequest\n")
	b.WriteString("  local function s(v) if v == nil then return \"nil\" end return \"=\" .. tostring(v) end\n")
	b.WriteString("  local inc = \"\"\n")
	for _, e := range entries {
		fmt.Fprintf(&b, "  if h:remoteIPInCIDR(%s) then inc = inc .. \"1\" else inc = inc .. \"0\" end\n", c32_luaQuote(e))
	}
	b.WriteString("  error(\"ECHO|\" .. s(h.remoteIP) .. \"|\" .. s(h.clientIP) .. \"|\" .. s(h.scheme) .. \"|\" .. inc .. \"|END\", 0)\n")
	b.WriteString("end\n")
	return b.String()
}

type c32Req struct {
	tls        bool
	remoteAddr string
	cf, xff    []string
	xfp        []string
}

type c32Case struct {
	trust    bool
	entries  []string
	reqs     []c32Req
	settings *c32Settings // non-nil: trust/entries come out of settings.LoadSettings
}

// c32Settings: what the operator wrote at the two layers (nil = flag not given / variable unset).
type c32Settings struct {
	cliTrust *bool
	cliList  *string
	envTrust *string
	envList  *string
}

const (
	c32EnvTrust = "PITHOS_TRUST_FORWARDED_HEADERS"
	c32EnvList  = "PITHOS_TRUSTED_PROXY_CIDRS"
)

func c32_optBool(b *bool) string {
	if b == nil {
		return "nil"
	}
	return fmt.Sprintf("%d", c32_b2i(*b))
}

func c32_optRaw(s *string) string {
	if s == nil {
		return "nil"
	}
	return "=" + verifx.HexS(*s)
}

func c32_loadSettings(st *c32Settings) (bool, []string, error) {
	setOrUnset := func(key string, v *string) {
		if v == nil {
			os.Unsetenv(key)
		} else {
			os.Setenv(key, *v)
		}
	}
	setOrUnset(c32EnvTrust, st.envTrust)
	setOrUnset(c32EnvList, st.envList)
	defer os.Unsetenv(c32EnvTrust)
	defer os.Unsetenv(c32EnvList)
	var args []string
	if st.cliTrust != nil {
		args = append(args, fmt.Sprintf("-trustForwardedHeaders=%t", *st.cliTrust))
	}
	if st.cliList != nil {
		args = append(args, "-trustedProxyCIDRs="+*st.cliList)
	}
	s, err := settings.LoadSettings(args)
	if err != nil {
		return false, nil, err
	}
	return s.TrustForwardedHeaders(), s.TrustedProxyCIDRs(), nil
}

func init() { register("c32", runC32) }

func c32_hexList(vs []string) string {
	var b strings.Builder
	fmt.Fprintf(&b, "%d", len(vs))
	for _, v := range vs {
		b.WriteByte(' ')
		b.WriteString(verifx.HexS(v))
	}
	return b.String()
}

func c32_echoTok(f string) string {
	if f == "nil" {
		return "nil"
	}
	return verifx.HexS(strings.TrimPrefix(f, "="))
}

func runC32(args []string) {
	f := verifx.ParseFlags("c32", args, 2500, 25000)
	out := verifx.NewOut()
	k := 0

	emit := func(c c32Case, seed uint64) {
		if !f.Wants(k) {
			k++
			return
		}
		out.Case(k, seed)
		k++
		if c.settings != nil {
			// the configuration glue: real settings.LoadSettings under a controlled environment,
			// then the two accessors exactly as cmd/pithos.go hands them to the authorizer
			out.Line("set clit %s clil %s envt %s envl %s", c32_optBool(c.settings.cliTrust), c32_optRaw(c.settings.cliList),
				c32_optRaw(c.settings.envTrust), c32_optRaw(c.settings.envList))
			trust, entries, err := c32_loadSettings(c.settings)
			if err != nil {
				out.Line("error loadsettings %s", verifx.HexS(err.Error()))
				out.End()
				return
			}
			c.trust, c.entries = trust, entries
		}
		var cl strings.Builder
		fmt.Fprintf(&cl, "cfg %d", c32_b2i(c.trust))
		for _, e := range c.entries {
			cl.WriteByte(' ')
			cl.WriteString(verifx.HexS(e))
		}
		out.Line("%s", cl.String())
		la, err := luaauth.NewLuaAuthorizerWithOptions(c32Script(c.entries), luaauth.Options{
			TrustForwardedHeaders: c.trust,
			TrustedProxyCIDRs:     c.entries,
		})
		if err != nil {
			out.Line("error constructor %s", verifx.HexS(err.Error()))
			out.End()
			return
		}
		capt := &c32Capture{inner: la}
		handler := server.SetupServer(nil, "eu-central-1", "localhost", "s3-website.localhost", capt, c32NullStorage{})
		for _, rq := range c.reqs {
			out.Line("req %d %s cf %s xff %s xfp %s", c32_b2i(rq.tls), verifx.HexS(rq.remoteAddr), c32_hexList(rq.cf), c32_hexList(rq.xff), c32_hexList(rq.xfp))
			capt.echo, capt.calls = "", 0
			status := "ok"
			func() {
				defer func() {
					if r := recover(); r != nil {
						status = "panic"
					}
				}()
				hr := httptest.NewRequest("GET", "http://localhost/", nil)
				hr.Host = "localhost"
				hr.RemoteAddr = rq.remoteAddr
				if rq.tls {
					hr.TLS = &tls.ConnectionState{}
				}
				if len(rq.cf) > 0 {
					hr.Header["Cf-Connecting-Ip"] = rq.cf
				}
				if len(rq.xff) > 0 {
					hr.Header["X-Forwarded-For"] = rq.xff
				}
				if len(rq.xfp) > 0 {
					hr.Header["X-Forwarded-Proto"] = rq.xfp
				}
				handler.ServeHTTP(httptest.NewRecorder(), hr)
			}()
			parts := strings.Split(capt.echo, "|")
			if status == "ok" && (capt.calls != 1 || len(parts) != 4) {
				status = "noecho"
			}
			if status != "ok" {
				out.Line("obs %s nil nil - -", status)
				continue
			}
			inc := parts[3]
			if inc == "" {
				inc = "-"
			}
			out.Line("obs ok %s %s %s %s", c32_echoTok(parts[0]), c32_echoTok(parts[1]), c32_echoTok(parts[2]), inc)
		}
		out.End()
	}

	// ---- directed cases (the corpus) ----
	xf := func(ra string, tlsOn bool, cf, xff, xfp []string) c32Req {
		return c32Req{tls: tlsOn, remoteAddr: ra, cf: cf, xff: xff, xfp: xfp}
	}
	one := func(s string) []string { return []string{s} }
	std := []c32Req{
		xf("192.0.2.5:41000", false, nil, one("198.51.100.7"), one("https")),
		xf("10.1.2.3:41000", false, nil, one("198.51.100.7"), one("https")),
		xf("10.1.2.3:41000", true, one("2001:db8::7"), one("198.51.100.7"), one("http")),
		xf("[::ffff:10.1.2.3]:9", false, nil, one(" 203.0.113.9 , 10.0.0.1"), one("HTTPS, http")),
		xf("[2001:db8::1]:443", true, one("garbage"), one("198.51.100.7"), one("ftp")),
		xf("", false, nil, one("198.51.100.7"), one("https")),
		xf("10.1.2.3", false, nil, one("198.51.100.7"), nil),
		xf("[fe80::1%eth0]:80", false, nil, one("198.51.100.7"), one("https")),
	}
	// the known finding first: a list with no usable entry
	emit(c32Case{trust: true, entries: []string{"not-a-cidr"}, reqs: std}, 1)
	emit(c32Case{trust: true, entries: []string{"10.0.0.0/8"}, reqs: std}, 2)
	emit(c32Case{trust: true, entries: nil, reqs: std}, 3)
	emit(c32Case{trust: false, entries: nil, reqs: std}, 4)
	emit(c32Case{trust: false, entries: []string{"not-a-cidr"}, reqs: std}, 5)
	emit(c32Case{trust: true, entries: []string{"not-a-cidr", "10.0.0.0/8"}, reqs: std}, 6)
	emit(c32Case{trust: true, entries: []string{"10.0.0.0/33", "10.0.0.0", "", "/8", "10.0.0.0/8 ", "fe80::1%eth0/64"}, reqs: std}, 7)
	emit(c32Case{trust: true, entries: []string{"::ffff:10.0.0.0/104"}, reqs: std}, 8)
	emit(c32Case{trust: true, entries: []string{"::/0"}, reqs: std}, 9)
	emit(c32Case{trust: true, entries: []string{"0.0.0.0/0"}, reqs: std}, 10)
	emit(c32Case{trust: true, entries: []string{"2001:db8::/32", "10.0.0.0/08"}, reqs: std}, 11)
	emit(c32Case{trust: true, entries: []string{"::ffff:10.0.0.0/90", "010.0.0.0/8", "10.0.0.0/+8"}, reqs: std}, 12)
	// bare addresses are not CIDRs (appended after the settings cases to keep earlier case numbers)

	// ---- directed settings cases (configuration glue) ----
	sp := func(s string) *string { return &s }
	bp := func(b bool) *bool { return &b }
	// the reported lead first: the list is given on the command line only
	emit(c32Case{settings: &c32Settings{cliTrust: bp(true), cliList: sp("10.0.0.0/8")}, reqs: std}, 13)
	emit(c32Case{settings: &c32Settings{envTrust: sp("true"), envList: sp(",")}, reqs: std}, 14)
	emit(c32Case{settings: &c32Settings{envTrust: sp("true"), envList: sp("10.0.0.0/8")}, reqs: std}, 15)
	emit(c32Case{settings: &c32Settings{cliTrust: bp(true), cliList: sp("10.0.0.0/8"), envList: sp("192.0.2.0/24")}, reqs: std}, 16)
	emit(c32Case{settings: &c32Settings{cliTrust: bp(true), cliList: sp("10.0.0.0/8"), envList: sp(" , ")}, reqs: std}, 17)
	emit(c32Case{settings: &c32Settings{cliTrust: bp(true), cliList: sp("")}, reqs: std}, 18)
	emit(c32Case{settings: &c32Settings{cliTrust: bp(false), envTrust: sp("T"), cliList: sp("not-a-cidr, 10.0.0.0/8")}, reqs: std}, 19)
	emit(c32Case{settings: &c32Settings{cliTrust: bp(true), envTrust: sp("no"), envList: sp("10.0.0.0/8")}, reqs: std}, 20)
	emit(c32Case{settings: &c32Settings{cliList: sp("10.0.0.0/8")}, reqs: std}, 21)
	bare := append([]c32Req{}, std...)
	bare = append(bare, xf("[2001:db8::5]:443", false, nil, one("198.51.100.7"), one("https")), xf("[2001:db8::1]:443", false, nil, one("198.51.100.7"), nil))
	emit(c32Case{trust: true, entries: []string{"10.1.2.3", "2001:db8::1", "192.0.2.5"}, reqs: bare}, 22)

	// ---- generated cases ----
	for c := 0; c < f.Cases; c++ {
		seed := verifx.CaseSeed(f.Seed, k)
		r := verifx.NewRng(seed)
		if c%4 == 3 {
			emit(genC32SettingsCase(r), seed)
		} else {
			emit(genC32Case(r), seed)
		}
	}
	out.Flush()
}

func c32_b2i(b bool) int {
	if b {
		return 1
	}
	return 0
}
