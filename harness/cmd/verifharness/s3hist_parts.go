//go:build verif

package main

import "github.com/jdillenkofer/pithos/internal/verifx"

// s3hPartsHistory: a fixed history of multi-part objects with compressible parts above the
// compression middleware's threshold, run once on every stack of the rotation: put+append,
// a three-part multipart upload, server-side part copies (whole source, a range that ends at a
// part boundary but starts inside the part, a tail of the first part), an overwrite by copy.
func s3hPartsHistory() []string {
	rep := func(b byte, n int) string { return verifx.Hex(bytesRepeat(b, n)) }
	none := " ct=~ md=~ tags=~ cls=~"
	A, B, C := rep('a', 4096), rep('b', 3000), rep('c', 5000)
	return []string{
		"op mkb b0",
		"op put b0 k0 " + A + none + " inm=0 im=~", "op app b0 k0 " + B + " off=4096", "op get b0 k0 vid=~", "op head b0 k0 vid=~",
		"op mpu b0 k1" + none, "op upp b0 k1 0 1 " + A, "op upp b0 k1 0 2 " + B, "op upp b0 k1 0 3 " + C,
		"op cmpl b0 k1 0 parts=1,2,3 inm=0 im=~", "op get b0 k1 vid=~",
		"op mpu b0 dir/k2" + none,
		"op uppc b0 k0 b0 dir/k2 1 1 range=~", "op uppc b0 k0 b0 dir/k2 1 2 range=5000-7096", "op uppc b0 k1 b0 dir/k2 1 3 range=100-4096",
		"op uppc b0 k1 b0 dir/k2 1 4 range=4096-7096",
		"op cmpl b0 dir/k2 1 parts=~ inm=0 im=~", "op get b0 dir/k2 vid=~", "op head b0 dir/k2 vid=~",
		"op cp b0 k1 b0 k0 svid=~ mdir=C tdir=C" + none, "op get b0 k0 vid=~", "op ls b0",
		"op del b0 k1 vid=~ im=~", "op get b0 k0 vid=~", "op get b0 dir/k2 vid=~",
	}
}
