//go:build verif

package main

import (
	"context"
	"errors"
	"hash/fnv"
	"io"
	"strconv"
	"sync"

	"github.com/jdillenkofer/pithos/internal/http/server/authorization"
	"github.com/jdillenkofer/pithos/internal/storage"
	"github.com/jdillenkofer/pithos/internal/storage/middlewares/delegator"
	"github.com/jdillenkofer/pithos/internal/verifx"
)

// C31 test doubles: one shared event log, a recording storage (delegating wrapper around a real
// SQLite-backed storage) and a recording authorizer (allow-all / deny-all / PRNG program).

type c31Event struct {
	az bool
	// authorizer call
	hook, op                 string
	b, k, sb, sk, item, item2 *string
	dec                      string // "1" | "0" | "e"
	// storage call
	method string
	ver    bool
	inAz   bool
	items  []string
	ok     bool
}

type c31Log struct {
	mu   sync.Mutex
	evs  []c31Event
	inAz int
}

func (l *c31Log) add(e c31Event) int {
	l.mu.Lock()
	defer l.mu.Unlock()
	if !e.az {
		e.inAz = l.inAz > 0
	}
	l.evs = append(l.evs, e)
	return len(l.evs) - 1
}

func (l *c31Log) setOK(i int, ok bool) {
	l.mu.Lock()
	l.evs[i].ok = ok
	l.mu.Unlock()
}

func (l *c31Log) take() []c31Event {
	l.mu.Lock()
	defer l.mu.Unlock()
	e := l.evs
	l.evs = nil
	return e
}

func c31P(s string) *string { return &s }

// ---------------------------------------------------------------- recording storage

type c31Rec struct {
	delegator.DelegatingStorage
	log *c31Log
}

func c31NewRec(inner storage.Storage, log *c31Log) *c31Rec {
	return &c31Rec{DelegatingStorage: delegator.Wrap(inner), log: log}
}

func (r *c31Rec) st(method string, b *storage.BucketName, k *storage.ObjectKey, sb *storage.BucketName, sk *storage.ObjectKey, ver bool, items []string) int {
	e := c31Event{method: method, ver: ver, items: items}
	if b != nil {
		e.b = c31P(b.String())
	}
	if k != nil {
		e.k = c31P(k.String())
	}
	if sb != nil {
		e.sb = c31P(sb.String())
	}
	if sk != nil {
		e.sk = c31P(sk.String())
	}
	return r.log.add(e)
}

func (r *c31Rec) CreateBucket(ctx context.Context, b storage.BucketName) error {
	i := r.st("CreateBucket", &b, nil, nil, nil, false, nil)
	err := r.Next.CreateBucket(ctx, b)
	r.log.setOK(i, err == nil)
	return err
}
func (r *c31Rec) DeleteBucket(ctx context.Context, b storage.BucketName) error {
	i := r.st("DeleteBucket", &b, nil, nil, nil, false, nil)
	err := r.Next.DeleteBucket(ctx, b)
	r.log.setOK(i, err == nil)
	return err
}
func (r *c31Rec) ListBuckets(ctx context.Context) ([]storage.Bucket, error) {
	r.st("ListBuckets", nil, nil, nil, nil, false, nil)
	return r.Next.ListBuckets(ctx)
}
func (r *c31Rec) HeadBucket(ctx context.Context, b storage.BucketName) (*storage.Bucket, error) {
	r.st("HeadBucket", &b, nil, nil, nil, false, nil)
	return r.Next.HeadBucket(ctx, b)
}
func (r *c31Rec) GetBucketVersioningConfiguration(ctx context.Context, b storage.BucketName) (*storage.BucketVersioningConfiguration, error) {
	r.st("GetBucketVersioningConfiguration", &b, nil, nil, nil, false, nil)
	return r.Next.GetBucketVersioningConfiguration(ctx, b)
}
func (r *c31Rec) PutBucketVersioningConfiguration(ctx context.Context, b storage.BucketName, c *storage.BucketVersioningConfiguration) error {
	r.st("PutBucketVersioningConfiguration", &b, nil, nil, nil, false, nil)
	return r.Next.PutBucketVersioningConfiguration(ctx, b, c)
}
func (r *c31Rec) GetBucketWebsiteConfiguration(ctx context.Context, b storage.BucketName) (*storage.WebsiteConfiguration, error) {
	r.st("GetBucketWebsiteConfiguration", &b, nil, nil, nil, false, nil)
	return r.Next.GetBucketWebsiteConfiguration(ctx, b)
}
func (r *c31Rec) PutBucketWebsiteConfiguration(ctx context.Context, b storage.BucketName, c *storage.WebsiteConfiguration) error {
	r.st("PutBucketWebsiteConfiguration", &b, nil, nil, nil, false, nil)
	return r.Next.PutBucketWebsiteConfiguration(ctx, b, c)
}
func (r *c31Rec) DeleteBucketWebsiteConfiguration(ctx context.Context, b storage.BucketName) error {
	r.st("DeleteBucketWebsiteConfiguration", &b, nil, nil, nil, false, nil)
	return r.Next.DeleteBucketWebsiteConfiguration(ctx, b)
}
func (r *c31Rec) GetBucketCORSConfiguration(ctx context.Context, b storage.BucketName) (*storage.BucketCORSConfiguration, error) {
	r.st("GetBucketCORSConfiguration", &b, nil, nil, nil, false, nil)
	return r.Next.GetBucketCORSConfiguration(ctx, b)
}
func (r *c31Rec) PutBucketCORSConfiguration(ctx context.Context, b storage.BucketName, c *storage.BucketCORSConfiguration) error {
	r.st("PutBucketCORSConfiguration", &b, nil, nil, nil, false, nil)
	return r.Next.PutBucketCORSConfiguration(ctx, b, c)
}
func (r *c31Rec) DeleteBucketCORSConfiguration(ctx context.Context, b storage.BucketName) error {
	r.st("DeleteBucketCORSConfiguration", &b, nil, nil, nil, false, nil)
	return r.Next.DeleteBucketCORSConfiguration(ctx, b)
}
func (r *c31Rec) GetBucketLifecycleConfiguration(ctx context.Context, b storage.BucketName) (*storage.BucketLifecycleConfiguration, error) {
	r.st("GetBucketLifecycleConfiguration", &b, nil, nil, nil, false, nil)
	return r.Next.GetBucketLifecycleConfiguration(ctx, b)
}
func (r *c31Rec) PutBucketLifecycleConfiguration(ctx context.Context, b storage.BucketName, c *storage.BucketLifecycleConfiguration) error {
	r.st("PutBucketLifecycleConfiguration", &b, nil, nil, nil, false, nil)
	return r.Next.PutBucketLifecycleConfiguration(ctx, b, c)
}
func (r *c31Rec) DeleteBucketLifecycleConfiguration(ctx context.Context, b storage.BucketName) error {
	r.st("DeleteBucketLifecycleConfiguration", &b, nil, nil, nil, false, nil)
	return r.Next.DeleteBucketLifecycleConfiguration(ctx, b)
}
func (r *c31Rec) GetBucketNotificationConfiguration(ctx context.Context, b storage.BucketName) (*storage.BucketNotificationConfiguration, error) {
	r.st("GetBucketNotificationConfiguration", &b, nil, nil, nil, false, nil)
	return r.Next.GetBucketNotificationConfiguration(ctx, b)
}
func (r *c31Rec) PutBucketNotificationConfiguration(ctx context.Context, b storage.BucketName, c *storage.BucketNotificationConfiguration) error {
	r.st("PutBucketNotificationConfiguration", &b, nil, nil, nil, false, nil)
	return r.Next.PutBucketNotificationConfiguration(ctx, b, c)
}
func (r *c31Rec) GetObjectTagging(ctx context.Context, b storage.BucketName, k storage.ObjectKey, o *storage.ObjectTaggingOptions) (map[string]string, error) {
	r.st("GetObjectTagging", &b, &k, nil, nil, o != nil && o.VersionID != nil, nil)
	return r.Next.GetObjectTagging(ctx, b, k, o)
}
func (r *c31Rec) PutObjectTagging(ctx context.Context, b storage.BucketName, k storage.ObjectKey, t map[string]string, o *storage.ObjectTaggingOptions) error {
	r.st("PutObjectTagging", &b, &k, nil, nil, o != nil && o.VersionID != nil, nil)
	return r.Next.PutObjectTagging(ctx, b, k, t, o)
}
func (r *c31Rec) DeleteObjectTagging(ctx context.Context, b storage.BucketName, k storage.ObjectKey, o *storage.ObjectTaggingOptions) error {
	r.st("DeleteObjectTagging", &b, &k, nil, nil, o != nil && o.VersionID != nil, nil)
	return r.Next.DeleteObjectTagging(ctx, b, k, o)
}
func (r *c31Rec) ListObjects(ctx context.Context, b storage.BucketName, o storage.ListObjectsOptions) (*storage.ListBucketResult, error) {
	r.st("ListObjects", &b, nil, nil, nil, false, nil)
	return r.Next.ListObjects(ctx, b, o)
}
func (r *c31Rec) ListObjectVersions(ctx context.Context, b storage.BucketName, o storage.ListObjectVersionsOptions) (*storage.ListObjectVersionsResult, error) {
	r.st("ListObjectVersions", &b, nil, nil, nil, false, nil)
	return r.Next.ListObjectVersions(ctx, b, o)
}
func (r *c31Rec) HeadObject(ctx context.Context, b storage.BucketName, k storage.ObjectKey, o *storage.HeadObjectOptions) (*storage.Object, error) {
	r.st("HeadObject", &b, &k, nil, nil, o != nil && o.VersionID != nil, nil)
	return r.Next.HeadObject(ctx, b, k, o)
}
func (r *c31Rec) GetObject(ctx context.Context, b storage.BucketName, k storage.ObjectKey, rg []storage.ByteRange, o *storage.GetObjectOptions) (*storage.Object, []io.ReadCloser, error) {
	i := r.st("GetObject", &b, &k, nil, nil, o != nil && o.VersionID != nil, nil)
	obj, rd, err := r.Next.GetObject(ctx, b, k, rg, o)
	r.log.setOK(i, err == nil)
	return obj, rd, err
}
func (r *c31Rec) PutObject(ctx context.Context, b storage.BucketName, k storage.ObjectKey, ct *string, d io.Reader, ci *storage.ChecksumInput, o *storage.PutObjectOptions) (*storage.PutObjectResult, error) {
	i := r.st("PutObject", &b, &k, nil, nil, false, nil)
	res, err := r.Next.PutObject(ctx, b, k, ct, d, ci, o)
	r.log.setOK(i, err == nil)
	return res, err
}
func (r *c31Rec) CopyObject(ctx context.Context, sb storage.BucketName, sk storage.ObjectKey, db storage.BucketName, dk storage.ObjectKey, o *storage.CopyObjectOptions) (*storage.CopyObjectResult, error) {
	i := r.st("CopyObject", &db, &dk, &sb, &sk, false, nil)
	res, err := r.Next.CopyObject(ctx, sb, sk, db, dk, o)
	r.log.setOK(i, err == nil)
	return res, err
}
func (r *c31Rec) AppendObject(ctx context.Context, b storage.BucketName, k storage.ObjectKey, d io.Reader, ci *storage.ChecksumInput, o *storage.AppendObjectOptions) (*storage.AppendObjectResult, error) {
	i := r.st("AppendObject", &b, &k, nil, nil, false, nil)
	res, err := r.Next.AppendObject(ctx, b, k, d, ci, o)
	r.log.setOK(i, err == nil)
	return res, err
}
func (r *c31Rec) DeleteObject(ctx context.Context, b storage.BucketName, k storage.ObjectKey, o *storage.DeleteObjectOptions) (*storage.DeleteObjectResult, error) {
	r.st("DeleteObject", &b, &k, nil, nil, o != nil && o.VersionID != nil, nil)
	return r.Next.DeleteObject(ctx, b, k, o)
}
func (r *c31Rec) DeleteObjects(ctx context.Context, b storage.BucketName, es []storage.DeleteObjectsInputEntry) (*storage.DeleteObjectsResult, error) {
	items := make([]string, len(es))
	for i, e := range es {
		items[i] = e.Key.String()
	}
	r.st("DeleteObjects", &b, nil, nil, nil, false, items)
	return r.Next.DeleteObjects(ctx, b, es)
}
func (r *c31Rec) TransitionObjectStorageClass(ctx context.Context, b storage.BucketName, k storage.ObjectKey, c string, o *storage.TransitionObjectStorageClassOptions) error {
	r.st("TransitionObjectStorageClass", &b, &k, nil, nil, o != nil && o.VersionID != nil, nil)
	return r.Next.TransitionObjectStorageClass(ctx, b, k, c, o)
}
func (r *c31Rec) CreateMultipartUpload(ctx context.Context, b storage.BucketName, k storage.ObjectKey, ct *string, cst *string, o *storage.CreateMultipartUploadOptions) (*storage.InitiateMultipartUploadResult, error) {
	r.st("CreateMultipartUpload", &b, &k, nil, nil, false, nil)
	return r.Next.CreateMultipartUpload(ctx, b, k, ct, cst, o)
}
func (r *c31Rec) UploadPart(ctx context.Context, b storage.BucketName, k storage.ObjectKey, u storage.UploadId, n int32, d io.Reader, ci *storage.ChecksumInput) (*storage.UploadPartResult, error) {
	i := r.st("UploadPart", &b, &k, nil, nil, false, nil)
	res, err := r.Next.UploadPart(ctx, b, k, u, n, d, ci)
	r.log.setOK(i, err == nil)
	return res, err
}
func (r *c31Rec) UploadPartCopy(ctx context.Context, sb storage.BucketName, sk storage.ObjectKey, db storage.BucketName, dk storage.ObjectKey, u storage.UploadId, n int32, o *storage.UploadPartCopyOptions) (*storage.UploadPartCopyResult, error) {
	i := r.st("UploadPartCopy", &db, &dk, &sb, &sk, false, nil)
	res, err := r.Next.UploadPartCopy(ctx, sb, sk, db, dk, u, n, o)
	r.log.setOK(i, err == nil)
	return res, err
}
func (r *c31Rec) CompleteMultipartUpload(ctx context.Context, b storage.BucketName, k storage.ObjectKey, u storage.UploadId, ci *storage.ChecksumInput, o *storage.CompleteMultipartUploadOptions) (*storage.CompleteMultipartUploadResult, error) {
	r.st("CompleteMultipartUpload", &b, &k, nil, nil, false, nil)
	return r.Next.CompleteMultipartUpload(ctx, b, k, u, ci, o)
}
func (r *c31Rec) AbortMultipartUpload(ctx context.Context, b storage.BucketName, k storage.ObjectKey, u storage.UploadId) error {
	r.st("AbortMultipartUpload", &b, &k, nil, nil, false, nil)
	return r.Next.AbortMultipartUpload(ctx, b, k, u)
}
func (r *c31Rec) ListMultipartUploads(ctx context.Context, b storage.BucketName, o storage.ListMultipartUploadsOptions) (*storage.ListMultipartUploadsResult, error) {
	r.st("ListMultipartUploads", &b, nil, nil, nil, false, nil)
	return r.Next.ListMultipartUploads(ctx, b, o)
}
func (r *c31Rec) ListParts(ctx context.Context, b storage.BucketName, k storage.ObjectKey, u storage.UploadId, o storage.ListPartsOptions) (*storage.ListPartsResult, error) {
	r.st("ListParts", &b, &k, nil, nil, false, nil)
	return r.Next.ListParts(ctx, b, k, u, o)
}

var _ storage.Storage = (*c31Rec)(nil)

// ---------------------------------------------------------------- recording authorizer

// c31Authz answers every question from one deterministic program: mode + seed.
//
//	allow  everything allowed          deny   every request denied
//	prog   request-level and per-item decisions are pseudo-random functions of
//	       (hook, operation, bucket, key, source bucket, source key, item, item2); ~2% errors
//	items  requests allowed, per-item decisions pseudo-random
type c31Authz struct {
	log      *c31Log
	mode     string
	seed     uint64
	pReq     int // percent of request-level allows in prog mode
	pItem    int // percent of per-item allows in prog/items mode
	resolver bool
}

var c31ErrAuthz = errors.New("c31: authorizer program error")

func c31Str(p *string) string {
	if p == nil {
		return "\x01"
	}
	return *p
}

func (a *c31Authz) roll(parts ...string) int {
	h := fnv.New64a()
	for _, p := range parts {
		h.Write([]byte(p))
		h.Write([]byte{0})
	}
	return verifx.NewRng(a.seed ^ h.Sum64()).Intn(1000)
}

// decideRequest returns "1", "0" or "e".
func (a *c31Authz) decideRequest(r *authorization.Request) string {
	switch a.mode {
	case "allow", "items":
		return "1"
	case "deny":
		return "0"
	}
	v := a.roll("request", r.Operation, c31Str(r.Bucket), c31Str(r.Key), c31Str(r.SourceBucket), c31Str(r.SourceKey))
	if v < 20 {
		return "e"
	}
	if v < 20+a.pReq*98/10 {
		return "1"
	}
	return "0"
}

func (a *c31Authz) decideItem(hook, op, bucket, item, item2 string) string {
	switch a.mode {
	case "allow":
		return "1"
	case "deny":
		return "0"
	}
	v := a.roll(hook, op, bucket, item, item2)
	if a.mode == "prog" && v < 8 {
		return "e"
	}
	if v < 8+a.pItem*992/100 {
		return "1"
	}
	return "0"
}

func (a *c31Authz) AuthorizeRequest(ctx context.Context, r *authorization.Request) (bool, error) {
	// a policy that looks at object tags pulls them through the lazy resolvers, i.e. through storage
	if a.resolver {
		a.log.mu.Lock()
		a.log.inAz++
		a.log.mu.Unlock()
		if r.ResolveExistingObjectTags != nil && a.roll("resolve", r.Operation, c31Str(r.Key))%3 == 0 {
			_, _ = r.ResolveExistingObjectTags(ctx)
		}
		if r.ResolveExistingSourceObjectTags != nil && a.roll("resolve-src", r.Operation, c31Str(r.SourceKey))%2 == 0 {
			_, _ = r.ResolveExistingSourceObjectTags(ctx)
		}
		a.log.mu.Lock()
		a.log.inAz--
		a.log.mu.Unlock()
	}
	d := a.decideRequest(r)
	a.log.add(c31Event{az: true, hook: "request", op: r.Operation, b: r.Bucket, k: r.Key, sb: r.SourceBucket, sk: r.SourceKey, dec: d})
	if d == "e" {
		return false, c31ErrAuthz
	}
	return d == "1", nil
}

func (a *c31Authz) item(hook string, r *authorization.Request, item string, item2 *string) (bool, error) {
	i2 := ""
	if item2 != nil {
		i2 = *item2
	}
	d := a.decideItem(hook, r.Operation, c31Str(r.Bucket), item, i2)
	a.log.add(c31Event{az: true, hook: hook, op: r.Operation, b: r.Bucket, k: r.Key, sb: r.SourceBucket, sk: r.SourceKey, item: &item, item2: item2, dec: d})
	if d == "e" {
		return false, c31ErrAuthz
	}
	return d == "1", nil
}

// c31AuthzHooks additionally implements authorization.RequestResourceAuthorizer.
type c31AuthzHooks struct{ *c31Authz }

func (a c31AuthzHooks) AuthorizeListBucket(ctx context.Context, r *authorization.Request, bucketName string) (bool, error) {
	return a.item("listBucket", r, bucketName, nil)
}
func (a c31AuthzHooks) AuthorizeListObject(ctx context.Context, r *authorization.Request, key string) (bool, error) {
	return a.item("listObject", r, key, nil)
}
func (a c31AuthzHooks) AuthorizeDeleteObjectEntry(ctx context.Context, r *authorization.Request, key string) (bool, error) {
	return a.item("deleteObjectEntry", r, key, nil)
}
func (a c31AuthzHooks) AuthorizeListMultipartUpload(ctx context.Context, r *authorization.Request, key string, uploadID string) (bool, error) {
	return a.item("listMultipartUpload", r, key, &uploadID)
}
func (a c31AuthzHooks) AuthorizeListPart(ctx context.Context, r *authorization.Request, partNumber int32) (bool, error) {
	return a.item("listPart", r, strconv.Itoa(int(partNumber)), nil)
}

var _ authorization.RequestAuthorizer = (*c31Authz)(nil)
var _ authorization.RequestResourceAuthorizer = c31AuthzHooks{}
