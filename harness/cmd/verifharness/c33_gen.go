//go:build verif

package main

import (
	"fmt"
	"strings"

	"github.com/jdillenkofer/pithos/internal/verifx"
)

// Generators for C33: keys (byte strings, mostly UTF-8), the ways a client may percent-encode
// them in a request-target, bucket-name shapes, methods and sub-resources.

var c33Segments = []string{
	"a", "b", "folder", "sub dir", "key.txt", "ü", "日本", "a+b", "a%b", "100%", "%41", "%2F", ".", "..", "...", ".hidden", "x.y",
	"a=b&c", "~t", "!'()*", "[1]", "q?x", "h#x", "a;b", "a:b", "a@b", "a,b", "$d", "a\\b", "\"q\"", "<t>", "{u}|^`", "\x01\x7f",
	"index.html", "UPPER", "é\xff", strings.Repeat("long", 60),
}

func c33_genKey(r *verifx.Rng) string {
	n := 1
	switch x := r.Intn(10); {
	case x < 4:
		n = 1
	case x < 7:
		n = 2
	case x < 9:
		n = 3
	default:
		n = 4 + r.Intn(3)
	}
	var segs []string
	for i := 0; i < n; i++ {
		s := verifx.Pick(r, c33Segments)
		if r.Chance(1, 12) {
			s = "" // an empty segment: "//"
		}
		segs = append(segs, s)
	}
	k := strings.Join(segs, "/")
	switch x := r.Intn(20); {
	case x < 5:
		k += "/"
	case x < 6:
		k += "//"
	case x < 7:
		k = "/" + k
	case x < 8:
		k += "/."
	}
	if k == "" {
		k = "k"
	}
	return k
}

const c33Upper = "0123456789ABCDEF"
const c33Lower = "0123456789abcdef"

func c33_pct(b byte, hex string) string { return "%" + string(hex[b>>4]) + string(hex[b&15]) }

func c33_isAlnum(b byte) bool {
	return b >= '0' && b <= '9' || b >= 'a' && b <= 'z' || b >= 'A' && b <= 'Z'
}

// c33_mustEscape: bytes net/http would not accept raw in a request line (or that would end the path).
func c33_mustEscape(b byte) bool {
	return b <= 0x20 || b == 0x7f || b == '?' || b == '#' || b == '%'
}

// c33_encode spells key in a request-target; style selects the client convention.
func c33_encode(r *verifx.Rng, key string, style int) string {
	var sb strings.Builder
	for i := 0; i < len(key); i++ {
		b := key[i]
		switch style {
		case 0: // Go's own default (net/url encodePath)
			if c33_isAlnum(b) || strings.IndexByte("$&+,-./:;=@_~", b) >= 0 {
				sb.WriteByte(b)
			} else {
				sb.WriteString(c33_pct(b, c33Upper))
			}
		case 1, 2: // AWS SDK: unreserved and '/' literal, everything else escaped (2: lower-case hex)
			if c33_isAlnum(b) || strings.IndexByte("-_.~/", b) >= 0 {
				sb.WriteByte(b)
			} else if style == 1 {
				sb.WriteString(c33_pct(b, c33Upper))
			} else {
				sb.WriteString(c33_pct(b, c33Lower))
			}
		case 3: // escape everything but alphanumerics — '/' and '.' too
			if c33_isAlnum(b) {
				sb.WriteByte(b)
			} else {
				sb.WriteString(c33_pct(b, c33Upper))
			}
		case 4: // per byte at random; raw wherever the request line tolerates it
			if c33_mustEscape(b) || r.Chance(1, 4) {
				sb.WriteString(c33_pct(b, verifx.Pick(r, []string{c33Upper, c33Lower})))
			} else {
				sb.WriteByte(b)
			}
		case 6: // per byte at random, but '/' and '.' always literal
			if b != '/' && b != '.' && (c33_mustEscape(b) || r.Chance(1, 4)) {
				sb.WriteString(c33_pct(b, verifx.Pick(r, []string{c33Upper, c33Lower})))
			} else {
				sb.WriteByte(b)
			}
		default: // 5: like the SDK but '/' escaped at random
			if c33_isAlnum(b) || strings.IndexByte("-_.~", b) >= 0 || (b == '/' && r.Chance(2, 3)) {
				sb.WriteByte(b)
			} else {
				sb.WriteString(c33_pct(b, c33Upper))
			}
		}
	}
	return sb.String()
}

func c33_bucketName(r *verifx.Rng, caseNo, opNo int) string {
	switch r.Intn(6) {
	case 0:
		return fmt.Sprintf("c%d-%d", caseNo, opNo)
	case 1:
		return fmt.Sprintf("c%d.%d.b", caseNo, opNo)
	case 2:
		return fmt.Sprintf("%dx%d.my-bucket.v2", caseNo, opNo)
	case 3:
		return fmt.Sprintf("s3.c%d-%d", caseNo, opNo) // starts like the endpoint
	case 4:
		return fmt.Sprintf("a.%s.b%dx%d", c33ApiEp, caseNo, opNo) // the endpoint in the middle of the bucket name
	}
	return fmt.Sprintf("localhost.c%d.n%d", caseNo, opNo)
}

var c33ObjOps = [][2]string{
	{"GET", ""}, {"GET", ""}, {"HEAD", ""}, {"PUT", ""}, {"PUT", ""}, {"DELETE", ""}, {"POST", "uploads"},
	{"GET", "tagging"}, {"DELETE", "tagging"}, {"GET", "uploadId=01ARZ3NDEKTSV4RRFFQ69G5FAV"},
	{"DELETE", "uploadId=01ARZ3NDEKTSV4RRFFQ69G5FAV"}, {"PUT", "partNumber=1&uploadId=01ARZ3NDEKTSV4RRFFQ69G5FAV"},
	{"GET", "versionId=null"}, {"OPTIONS", ""}, {"PUT", "tagging"},
}

var c33BktOps = [][2]string{
	{"GET", ""}, {"GET", "list-type=2&prefix=a%2F&delimiter=%2F"}, {"HEAD", ""}, {"GET", "versions"}, {"GET", "uploads"},
	{"GET", "cors"}, {"GET", "website"}, {"GET", "versioning"}, {"GET", "lifecycle"}, {"GET", "notification"},
	{"PUT", ""}, {"DELETE", "cors"}, {"DELETE", "website"}, {"DELETE", ""}, {"OPTIONS", ""}, {"POST", "delete"}, {"PUT", "versioning"},
}

// c33_avoidKnown: three cases out of four stay clear of the two known findings (keys ending in
// '/', encoded slashes/dots), so that a DIFFERENT mismatch or a model divergence in them is never
// overshadowed by a known one in the same case.
func c33_avoidKnown(caseNo int) bool { return caseNo%4 != 0 }

func genC33Case(r *verifx.Rng, caseNo int) c33Case {
	var c c33Case
	avoid := c33_avoidKnown(caseNo)
	nOps := 6 + r.Intn(8)
	for i := 0; i < nOps; i++ {
		b := c33_bucketName(r, caseNo, i)
		if r.Chance(1, 6) {
			o := verifx.Pick(r, c33BktOps)
			op := c33ApiOp{bucket: b, method: o[0], query: o[1]}
			switch o[1] {
			case "delete":
				op.body = "<Delete><Object><Key>k</Key></Object></Delete>"
			case "versioning":
				op.body = "<VersioningConfiguration><Status>Enabled</Status></VersioningConfiguration>"
			}
			c.api = append(c.api, op)
			continue
		}
		key := c33_genKey(r)
		style := verifx.Pick(r, []int{0, 1, 1, 1, 2, 3, 4, 4, 5})
		if avoid {
			key = strings.TrimRight(key, "/")
			if key == "" {
				key = "k"
			}
			style = verifx.Pick(r, []int{0, 1, 1, 2, 6})
		}
		o := verifx.Pick(r, c33ObjOps)
		op := c33ApiOp{bucket: b, key: key, ek: c33_encode(r, key, style), obj: true, method: o[0], query: o[1], seed: r.Chance(2, 3)}
		switch {
		case o[1] == "tagging" && o[0] == "PUT":
			op.body = "<Tagging><TagSet><Tag><Key>a</Key><Value>b</Value></Tag></TagSet></Tagging>"
		case o[0] == "PUT" || o[0] == "POST":
			op.body = "payload"
		}
		c.api = append(c.api, op)
	}
	if r.Chance(1, 4) {
		web := fmt.Sprintf("web%d", caseNo)
		custom := fmt.Sprintf("www.c%d.example.com", caseNo)
		c.siteBuckets = []string{web, custom}
		all := c33SiteMatrix(web, custom)
		for i := 0; i < 40; i++ {
			op := verifx.Pick(r, all)
			if r.Chance(1, 4) {
				op.target = "/" + c33_encode(r, c33_genKey(r), verifx.Pick(r, []int{0, 1, 3, 4}))
			}
			c.site = append(c.site, op)
		}
	}
	return c
}
