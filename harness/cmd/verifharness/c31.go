//go:build verif

package main

import (
	"bytes"
	"context"
	"crypto/sha256"
	"encoding/hex"
	"encoding/json"
	"encoding/xml"
	"fmt"
	"io"
	"net/http"
	"net/http/httptest"
	"net/url"
	"os"
	"path/filepath"
	"sort"
	"strings"

	"github.com/jdillenkofer/pithos/internal/http/server"
	"github.com/jdillenkofer/pithos/internal/storage"
	"github.com/jdillenkofer/pithos/internal/verifx"
)

// C31: every request shape against a recording authorizer and a recording storage.
// One case = a fresh copy of the template store + one authorizer program + a batch of requests.
// The trace format is described at the top of lean/Driver/C31.lean.

func init() { register("c31", runC31) }

const (
	c31API     = "s3.localhost"
	c31Website = "s3-website.localhost"
)

// ---------------------------------------------------------------- template store

type c31Obj struct{ bucket, key string }

type c31Template struct {
	dir      string
	tokens   map[string][]c31Obj // content marker -> objects (or uploads) holding it
	contents map[string][]byte   // content marker -> the full content carrying it
	versions map[c31Obj][]string // object -> version ids, oldest first
	uploads  map[c31Obj]string   // pending upload -> upload id
	partETag map[c31Obj][]string // pending upload -> part etags (part 1, 2)
	sites    [][3]string         // bucket, index suffix, error key ("" = none)
}

func c31Content(r *verifx.Rng, b, k string, n int) (string, []byte) {
	tok := hex.EncodeToString(r.Bytes(12))
	return tok, []byte(fmt.Sprintf("OBJ[%s/%s#%d]<%s>", b, k, n, tok))
}

func c31BuildTemplate(dir string) *c31Template {
	ctx := context.Background()
	t := &c31Template{dir: dir, contents: map[string][]byte{}, tokens: map[string][]c31Obj{}, versions: map[c31Obj][]string{}, uploads: map[c31Obj]string{}, partETag: map[c31Obj][]string{}}
	st := verifx.NewStack(dir, verifx.StackOpts{PartKind: "sql"})
	r := verifx.NewRng(0xC31)
	bn := storage.MustNewBucketName
	ok := storage.MustNewObjectKey
	for _, b := range []string{"b-one", "b-two"} {
		verifx.Check(st.Storage.CreateBucket(ctx, bn(b)))
	}
	en := storage.BucketVersioningStatusEnabled
	verifx.Check(st.Storage.PutBucketVersioningConfiguration(ctx, bn("b-one"), &storage.BucketVersioningConfiguration{Status: &en}))
	put := func(b, k string, n int, opts *storage.PutObjectOptions) {
		tok, body := c31Content(r, b, k, n)
		ct := "text/plain"
		verifx.Must(st.Storage.PutObject(ctx, bn(b), ok(k), &ct, bytes.NewReader(body), nil, opts))
		t.tokens[tok] = append(t.tokens[tok], c31Obj{b, k})
		t.contents[tok] = body
	}
	put("b-one", "k", 1, nil)
	put("b-one", "k", 2, nil)
	for _, k := range []string{"a/b/c/deep", "dir/index.html", "dir/k2", "error.html", "index.html", "m1", "m2", "m3", "secret/x", "z/1", "z/2"} {
		put("b-one", k, 1, nil)
	}
	put("b-one", "tagged", 1, &storage.PutObjectOptions{Tags: map[string]string{"team": "red"}})
	put("b-one", "gone", 1, nil)
	verifx.Must(st.Storage.DeleteObject(ctx, bn("b-one"), ok("gone"), nil)) // delete marker
	for _, k := range []string{"home.html", "k", "x/y"} {
		put("b-two", k, 1, nil)
	}
	mp := func(b, k string) {
		up := verifx.Must(st.Storage.CreateMultipartUpload(ctx, bn(b), ok(k), nil, nil, nil))
		o := c31Obj{b, k}
		t.uploads[o] = up.UploadId.String()
		for p := 1; p <= 2; p++ {
			tok, body := c31Content(r, b, k, p)
			res := verifx.Must(st.Storage.UploadPart(ctx, bn(b), ok(k), up.UploadId, int32(p), bytes.NewReader(body), nil))
			t.tokens[tok] = append(t.tokens[tok], o)
			t.contents[tok] = body
			t.partETag[o] = append(t.partETag[o], res.ETag)
		}
	}
	mp("b-one", "mp/up")
	mp("b-one", "mp/other")
	mp("b-two", "mp/up2")
	errKey := "error.html"
	verifx.Check(st.Storage.PutBucketWebsiteConfiguration(ctx, bn("b-one"), &storage.WebsiteConfiguration{IndexDocumentSuffix: "index.html", ErrorDocumentKey: &errKey}))
	verifx.Check(st.Storage.PutBucketWebsiteConfiguration(ctx, bn("b-two"), &storage.WebsiteConfiguration{IndexDocumentSuffix: "home.html"}))
	t.sites = [][3]string{{"b-one", "index.html", "error.html"}, {"b-two", "home.html", ""}}
	verifx.Check(st.Storage.PutBucketCORSConfiguration(ctx, bn("b-one"), &storage.BucketCORSConfiguration{Rules: []storage.CORSRule{{
		AllowedOrigins: []string{"http://ex.test"}, AllowedMethods: []string{"GET", "PUT", "DELETE", "HEAD", "POST"}, AllowedHeaders: []string{"*"}}}}))
	// version ids
	for _, b := range []string{"b-one", "b-two"} {
		res := verifx.Must(st.Storage.ListObjectVersions(ctx, bn(b), storage.ListObjectVersionsOptions{MaxKeys: 1000}))
		for i := len(res.Versions) - 1; i >= 0; i-- {
			v := res.Versions[i]
			o := c31Obj{b, v.Key.String()}
			t.versions[o] = append(t.versions[o], v.VersionID)
		}
	}
	_ = st.Storage.Stop(ctx)
	_ = st.RawDB.Close()
	return t
}

func c31CopyDir(src, dst string) {
	verifx.Check(os.RemoveAll(dst))
	verifx.Check(os.MkdirAll(dst, 0o755))
	ents := verifx.Must(os.ReadDir(src))
	for _, e := range ents {
		if e.IsDir() {
			c31CopyDir(filepath.Join(src, e.Name()), filepath.Join(dst, e.Name()))
			continue
		}
		data := verifx.Must(os.ReadFile(filepath.Join(src, e.Name())))
		verifx.Check(os.WriteFile(filepath.Join(dst, e.Name()), data, 0o644))
	}
}

// c31Digest: a canonical rendering of everything the S3 API can observe, read through the raw storage.
func c31Digest(st storage.Storage) string {
	ctx := context.Background()
	h := sha256.New()
	bs, err := st.ListBuckets(ctx)
	if err != nil {
		return "err:" + err.Error()
	}
	for _, b := range bs {
		fmt.Fprintf(h, "bucket %s\n", b.Name)
		if v, err := st.GetBucketVersioningConfiguration(ctx, b.Name); err == nil && v.Status != nil {
			fmt.Fprintf(h, " versioning %s\n", *v.Status)
		}
		if w, err := st.GetBucketWebsiteConfiguration(ctx, b.Name); err == nil {
			fmt.Fprintf(h, " website %s\n", c31JSON(w))
		}
		if c, err := st.GetBucketCORSConfiguration(ctx, b.Name); err == nil {
			fmt.Fprintf(h, " cors %s\n", c31JSON(c))
		}
		if l, err := st.GetBucketLifecycleConfiguration(ctx, b.Name); err == nil {
			fmt.Fprintf(h, " lifecycle %s\n", c31JSON(l))
		}
		if n, err := st.GetBucketNotificationConfiguration(ctx, b.Name); err == nil && n != nil {
			fmt.Fprintf(h, " notification %s\n", c31JSON(n))
		}
		vs, err := st.ListObjectVersions(ctx, b.Name, storage.ListObjectVersionsOptions{MaxKeys: 1000})
		if err == nil {
			for _, v := range vs.Versions {
				et := ""
				if v.ETag != nil {
					et = *v.ETag
				}
				fmt.Fprintf(h, " v %s %s %v %v %d %s\n", v.Key, v.VersionID, v.IsDeleteMarker, v.IsLatest, v.Size, et)
				if !v.IsDeleteMarker {
					vid := v.VersionID
					tags, _ := st.GetObjectTagging(ctx, b.Name, v.Key, &storage.ObjectTaggingOptions{VersionID: &vid})
					keys := make([]string, 0, len(tags))
					for k := range tags {
						keys = append(keys, k+"="+tags[k])
					}
					sort.Strings(keys)
					fmt.Fprintf(h, "  tags %v\n", keys)
				}
			}
		}
		us, err := st.ListMultipartUploads(ctx, b.Name, storage.ListMultipartUploadsOptions{MaxUploads: 1000})
		if err == nil {
			for _, u := range us.Uploads {
				fmt.Fprintf(h, " u %s %s\n", u.Key, u.UploadId)
				ps, err := st.ListParts(ctx, b.Name, u.Key, u.UploadId, storage.ListPartsOptions{MaxParts: 1000})
				if err == nil {
					for _, p := range ps.Parts {
						fmt.Fprintf(h, "  p %d %s %d\n", p.PartNumber, p.ETag, p.Size)
					}
				}
			}
		}
	}
	return hex.EncodeToString(h.Sum(nil))
}

func c31JSON(v any) string {
	b, err := json.Marshal(v)
	if err != nil {
		return "json-error:" + err.Error()
	}
	return string(b)
}

// ---------------------------------------------------------------- requests

type c31Req struct {
	method string
	host   string
	path   string     // decoded URL path
	query  [][2]string // in order; value "\x00" = bare flag (no '=')
	header [][2]string
	body   []byte
	bodyK  string
}

// what the trace shows for a value that embeds a random id
func (c *c31Case) canon(s string) string {
	if s == "" {
		return s
	}
	for id, name := range c.ids {
		if strings.Contains(s, id) {
			s = strings.ReplaceAll(s, id, name)
		}
	}
	return s
}

type c31Case struct {
	raw    storage.Storage // the unrecorded storage, for bookkeeping reads only
	t      *c31Template
	ids    map[string]string // random id -> canonical name
	nextU  int
	tokens map[string][]c31Obj
	// marker -> full content (template objects and every body this case has sent)
	contents map[string][]byte
}

func (c *c31Case) nameUpload(id string) string {
	if n, ok := c.ids[id]; ok {
		return n
	}
	c.nextU++
	n := fmt.Sprintf("@u%d", c.nextU)
	c.ids[id] = n
	return n
}

type c31XML struct {
	XMLName  xml.Name
	Buckets  []struct{ Name string } `xml:"Buckets>Bucket"`
	Contents []struct{ Key string }  `xml:"Contents"`
	Prefixes []struct{ Prefix string } `xml:"CommonPrefixes"`
	Versions []struct{ Key string }    `xml:"Version"`
	Markers  []struct{ Key string }    `xml:"DeleteMarker"`
	Uploads  []struct {
		Key      string
		UploadId string
	} `xml:"Upload"`
	Parts   []struct{ PartNumber int } `xml:"Part"`
	Deleted []struct{ Key string }     `xml:"Deleted"`
	Errors  []struct {
		Key  string
		Code string
	} `xml:"Error"`
}

func runC31(args []string) {
	f := verifx.ParseFlags("c31", args, 220, 400)
	out := verifx.NewOut()
	base := filepath.Join(f.Scratch, "c31")
	verifx.Check(os.RemoveAll(base))
	tmpl := c31BuildTemplate(filepath.Join(base, "template"))
	defer os.RemoveAll(base)

	k := 0
	runCase := func(seed uint64, cfg c31Cfg, reqs func(c *c31Case, r *verifx.Rng) []c31Req) {
		mode, hooks, resolver := cfg.mode, cfg.hooks, cfg.resolver
		if !f.Wants(k) {
			k++
			return
		}
		out.Case(k, seed)
		k++
		r := verifx.NewRng(seed)
		dir := filepath.Join(base, "case")
		c31CopyDir(tmpl.dir, dir)
		st := verifx.NewStack(dir, verifx.StackOpts{PartKind: "sql"})
		defer st.Close()
		c := &c31Case{raw: st.Storage, t: tmpl, ids: map[string]string{}, tokens: map[string][]c31Obj{}, contents: map[string][]byte{}}
		for tok, os := range tmpl.tokens {
			c.tokens[tok] = append([]c31Obj(nil), os...)
			c.contents[tok] = tmpl.contents[tok]
		}
		// canonical names of the template's random ids, in a fixed order
		var ups []c31Obj
		for o := range tmpl.uploads {
			ups = append(ups, o)
		}
		sort.Slice(ups, func(i, j int) bool { return ups[i].bucket+"/"+ups[i].key < ups[j].bucket+"/"+ups[j].key })
		for _, o := range ups {
			c.nameUpload(tmpl.uploads[o])
		}
		var vos []c31Obj
		for o := range tmpl.versions {
			vos = append(vos, o)
		}
		sort.Slice(vos, func(i, j int) bool { return vos[i].bucket+"/"+vos[i].key < vos[j].bucket+"/"+vos[j].key })
		nv := 0
		for _, o := range vos {
			for _, v := range tmpl.versions[o] {
				if v != "null" && v != "" {
					nv++
					c.ids[v] = fmt.Sprintf("@v%d", nv)
				}
			}
		}
		log := &c31Log{}
		az := &c31Authz{log: log, mode: mode, seed: seed, pReq: 45 + r.Intn(45), pItem: 35 + r.Intn(50), resolver: resolver}
		if cfg.pReq > 0 {
			az.pReq = cfg.pReq
		}
		if cfg.pItem > 0 {
			az.pItem = cfg.pItem
		}
		rec := c31NewRec(st.Storage, log)
		var handler http.Handler
		if hooks {
			handler = server.SetupServer(nil, "eu-central-1", c31API, c31Website, c31AuthzHooks{az}, rec)
		} else {
			handler = server.SetupServer(nil, "eu-central-1", c31API, c31Website, az, rec)
		}
		hk := 0
		if hooks {
			hk = 1
		}
		out.Line("cfg %s %d", mode, hk)
		before := ""
		if mode == "deny" {
			before = c31Digest(st.Storage)
		}
		for i, rq := range reqs(c, r) {
			c.exec(out, handler, log, az, hooks, i, rq)
		}
		if mode == "deny" {
			if c31Digest(st.Storage) == before {
				out.Line("digest same")
			} else {
				out.Line("digest changed")
			}
		}
		out.End()
	}

	c31Cases(f, tmpl, runCase)
	out.Flush()
}

func (c *c31Case) exec(out *verifx.Out, handler http.Handler, log *c31Log, az *c31Authz, hooks bool, i int, rq c31Req) {
	out.Line("req %d %s %s %s", i, rq.method, verifx.HexS(rq.host), verifx.HexS(rq.path))
	// the website configurations in force when the request arrives (earlier requests may have changed them)
	for _, b := range []string{"b-one", "b-two"} {
		if w, err := c.raw.GetBucketWebsiteConfiguration(context.Background(), storage.MustNewBucketName(b)); err == nil {
			ek := ""
			if w.ErrorDocumentKey != nil {
				ek = *w.ErrorDocumentKey
			}
			out.Line("site %s %s %s", verifx.HexS(b), verifx.HexS(w.IndexDocumentSuffix), verifx.HexS(ek))
		}
	}
	// query
	var rawq []string
	seen := map[string]bool{}
	type kv struct{ k, v string }
	var qs []kv
	for _, q := range rq.query {
		if q[1] == "\x00" {
			rawq = append(rawq, url.QueryEscape(q[0]))
		} else {
			rawq = append(rawq, url.QueryEscape(q[0])+"="+url.QueryEscape(q[1]))
		}
		if !seen[q[0]] {
			seen[q[0]] = true
			v := q[1]
			if v == "\x00" {
				v = ""
			}
			qs = append(qs, kv{q[0], v})
		}
	}
	sort.Slice(qs, func(a, b int) bool { return qs[a].k < qs[b].k })
	for _, q := range qs {
		out.Line("q %s %s", verifx.HexS(q.k), verifx.HexS(c.canon(q.v)))
	}
	hdr := http.Header{}
	var hs []kv
	for _, h := range rq.header {
		if hdr.Get(h[0]) == "" {
			hs = append(hs, kv{strings.ToLower(h[0]), h[1]})
		}
		hdr.Add(h[0], h[1])
	}
	sort.Slice(hs, func(a, b int) bool { return hs[a].k < hs[b].k })
	for _, h := range hs {
		out.Line("h %s %s", verifx.HexS(h.k), verifx.HexS(c.canon(h.v)))
	}
	out.Line("body %s", rq.bodyK)
	u := &url.URL{Scheme: "http", Host: rq.host, Path: rq.path, RawQuery: strings.Join(rawq, "&")}
	var body io.ReadCloser = http.NoBody
	if rq.body != nil {
		body = io.NopCloser(bytes.NewReader(rq.body))
		hdr.Set("Content-Length", fmt.Sprintf("%d", len(rq.body)))
	}
	hr := &http.Request{Method: rq.method, URL: u, Host: rq.host, Header: hdr, Proto: "HTTP/1.1", ProtoMajor: 1, ProtoMinor: 1,
		Body: body, ContentLength: int64(len(rq.body)), RemoteAddr: "192.0.2.1:1234", RequestURI: u.RequestURI()}
	hr = hr.WithContext(context.Background())
	rw := httptest.NewRecorder()
	panicked := false
	func() {
		defer func() {
			if p := recover(); p != nil {
				panicked = true
			}
		}()
		handler.ServeHTTP(rw, hr)
	}()
	evs := log.take()
	var gets []c31Obj
	for _, e := range evs {
		hx := func(p *string) string {
			if p == nil {
				return "-"
			}
			return verifx.HexS(*p)
		}
		if e.az {
			i2 := e.item2
			if e.hook == "listMultipartUpload" && i2 != nil && *i2 != "" {
				n := c.nameUpload(*i2)
				i2 = &n
			}
			out.Line("az %s %s %s %s %s %s %s %s %s", e.hook, e.op, hx(e.b), hx(e.k), hx(e.sb), hx(e.sk), hx(e.item), hx(i2), e.dec)
			continue
		}
		items := "-"
		if len(e.items) > 0 {
			hxs := make([]string, len(e.items))
			for j, it := range e.items {
				hxs[j] = verifx.HexS(it)
			}
			items = strings.Join(hxs, ",")
		}
		b2i := func(b bool) int {
			if b {
				return 1
			}
			return 0
		}
		out.Line("st %s %s %s %s %s %d %d %s", e.method, hx(e.b), hx(e.k), hx(e.sb), hx(e.sk), b2i(e.ver), b2i(e.inAz), items)
		// bookkeeping of who holds which content marker (copies move markers around)
		if e.ok && e.b != nil && e.k != nil {
			dst := c31Obj{*e.b, *e.k}
			switch e.method {
			case "GetObject":
				gets = append(gets, dst)
			case "CopyObject", "UploadPartCopy":
				if e.sb != nil && e.sk != nil {
					src := c31Obj{*e.sb, *e.sk}
					for tok, hs := range c.tokens {
						for _, h := range hs {
							if h == src {
								c.tokens[tok] = append(c.tokens[tok], dst)
								break
							}
						}
					}
				}
			case "PutObject", "UploadPart", "AppendObject":
				if tok := c31TokenOf(rq.body); tok != "" {
					c.tokens[tok] = append(c.tokens[tok], dst)
					c.contents[tok] = rq.body
				}
			}
		}
	}
	if panicked {
		out.Line("panic %d", i)
	}
	out.Line("resp %d", rw.Code)
	respBody := rw.Body.Bytes()
	// object bytes in the response
	var toks []string
	for tok := range c.tokens {
		toks = append(toks, tok)
	}
	sort.Strings(toks)
	isObjectBody := (rw.Code == 200 || rw.Code == 206) && len(respBody) >= 3 && rw.Header().Get("Accept-Ranges") == "bytes"
	holds := func(tok string, o c31Obj) bool {
		for _, h := range c.tokens[tok] {
			if h == o {
				return true
			}
		}
		return false
	}
	for _, tok := range toks {
		holders := c.tokens[tok]
		if bytes.Contains(respBody, []byte(tok)) {
			// the marker itself: name the holder the handler actually read, else any holder
			pick := holders[0]
			for _, g := range gets {
				if holds(tok, g) {
					pick = g
					break
				}
			}
			out.Line("leak %s %s", verifx.HexS(pick.bucket), verifx.HexS(pick.key))
			continue
		}
		// a ranged read returns a slice that may not contain the marker (and short slices occur in
		// many objects): attribute it only to an object the handler read through storage.GetObject
		if isObjectBody && bytes.Contains(c.contents[tok], respBody) {
			for _, g := range gets {
				if holds(tok, g) {
					out.Line("leak %s %s", verifx.HexS(g.bucket), verifx.HexS(g.key))
					break
				}
			}
		}
	}
	// listed items
	if rw.Code == 200 && bytes.HasPrefix(bytes.TrimSpace(respBody), []byte("<")) {
		var x c31XML
		if err := xml.Unmarshal(respBody, &x); err == nil {
			li := func(kind, a, b string) {
				out.Line("li %s %s %s", kind, verifx.HexS(a), verifx.HexS(b))
			}
			would := func(hook, op, bucket, item string) {
				if hooks && (az.mode == "prog" || az.mode == "items") {
					d := az.decideItem(hook, op, bucket, item, "")
					if d == "e" {
						d = "0"
					}
					out.Line("would %s %s - %s", hook, verifx.HexS(item), d)
				}
			}
			pb := c31BucketOfReq(rq)
			switch x.XMLName.Local {
			case "ListAllMyBucketsResult":
				for _, b := range x.Buckets {
					li("bucket", b.Name, "")
				}
			case "ListBucketResult":
				for _, o := range x.Contents {
					li("object", o.Key, "")
				}
				for _, p := range x.Prefixes {
					li("prefix", p.Prefix, "")
				}
			case "ListVersionsResult":
				for _, o := range x.Versions {
					li("version", o.Key, "")
					would("listObject", "ListObjectVersions", pb, o.Key)
				}
				for _, o := range x.Markers {
					li("marker", o.Key, "")
					would("listObject", "ListObjectVersions", pb, o.Key)
				}
				for _, p := range x.Prefixes {
					li("vprefix", p.Prefix, "")
					would("listObject", "ListObjectVersions", pb, p.Prefix)
				}
			case "ListMultipartUploadsResult":
				for _, o := range x.Uploads {
					li("upload", o.Key, c.nameUpload(o.UploadId))
				}
				for _, p := range x.Prefixes {
					li("uprefix", p.Prefix, "")
				}
			case "ListPartsResult":
				for _, p := range x.Parts {
					li("part", fmt.Sprintf("%d", p.PartNumber), "")
				}
			case "DeleteResult":
				for _, d := range x.Deleted {
					li("deleted", d.Key, "")
				}
				for _, e := range x.Errors {
					li("error", e.Key, e.Code)
				}
			}
		}
	}
	out.Line("endreq")
}

// the bucket a path-style / virtual-hosted request addresses (for the offline `would` decisions)
func c31BucketOfReq(rq c31Req) string {
	if strings.HasSuffix(rq.host, "."+c31API) {
		return strings.TrimSuffix(rq.host, "."+c31API)
	}
	p := strings.TrimPrefix(rq.path, "/")
	if i := strings.IndexByte(p, '/'); i >= 0 {
		return p[:i]
	}
	return p
}

// c31TokenOf finds the content marker `NEW[bucket/key]<marker>` the generator puts into every body.
func c31TokenOf(body []byte) string {
	at := bytes.Index(body, []byte("NEW["))
	if at < 0 {
		return ""
	}
	rest := body[at:]
	i := bytes.IndexByte(rest, '<')
	j := bytes.IndexByte(rest, '>')
	if i > 0 && j > i {
		return string(rest[i+1 : j])
	}
	return ""
}
