//go:build verif

package main

import (
	"crypto/ed25519"
	"crypto/mldsa"
	"crypto/sha512"
	"fmt"
	"go/ast"
	"go/token"
	"reflect"
	"sort"
	"strconv"
	"strings"
)

// T1 extractor "auditlog": regenerates lean/Pithos/Gen/AuditLog.lean from
//   internal/auditlog/entry.go                 struct fields, CalculateHash field order per version/kind
//   internal/auditlog/serialization/binary.go  fields written / read per version/kind
//   internal/auditlog/serialization/json.go    (field, json path, omitempty, codec) written / read
// It is a tiny symbolic walker: statements it does not recognise make it fail closed.

func init() { registerExtractor("auditlog", extractAuditLog) }

// fixed sizes the audit code refers to by name (taken from the real packages at compile time)
var alConst = map[string]int{
	"ed25519.SignatureSize":      ed25519.SignatureSize,
	"mldsa.MLDSA87SignatureSize": mldsa.MLDSA87SignatureSize,
	"sha512.Size":                sha512.Size,
}

type alField struct {
	Name  string // canonical: "Version", "Log.Resource.Bucket", "Grounding.MerkleRootHash"
	Width int    // bytes of a fixed-width integer; 0 = variable length (string / []byte)
}

type alEvent struct {
	Field string
	Width int // 0 = uint32 length prefix + bytes; n>0 = n raw bytes; -1 = raw bytes, no length (tail)
}

type alJSON struct {
	Field, Path string
	Omit        bool
	Codec       string // num | str | hex | time
	Wrap        []string // conversions applied (outermost first), e.g. Format, UTC
	Layout      string   // time codec, write side: the layout literal
}

type alTypes struct {
	x       *ExtractCtx
	structs map[string]*ast.StructType // auditlog struct types by name
	named   map[string]string          // named type -> underlying ident (Operation -> string)
	consts  map[string]string          // const name -> literal text
}

func (t *alTypes) load(f *ast.File) {
	for _, d := range f.Decls {
		gd, ok := d.(*ast.GenDecl)
		if !ok {
			continue
		}
		for _, s := range gd.Specs {
			switch s := s.(type) {
			case *ast.TypeSpec:
				switch tt := s.Type.(type) {
				case *ast.StructType:
					t.structs[s.Name.Name] = tt
				case *ast.Ident:
					t.named[s.Name.Name] = tt.Name
				}
			case *ast.ValueSpec:
				for i, n := range s.Names {
					if i < len(s.Values) {
						if bl, ok := s.Values[i].(*ast.BasicLit); ok {
							t.consts[n.Name] = bl.Value
						}
					}
				}
			}
		}
	}
}

// width of a leaf type: (width, isLeaf)
func (t *alTypes) leaf(e ast.Expr) (int, bool, error) {
	switch tt := e.(type) {
	case *ast.Ident:
		n := tt.Name
		if u, ok := t.named[n]; ok {
			n = u
		}
		switch n {
		case "string":
			return 0, true, nil
		case "uint16", "int16":
			return 2, true, nil
		case "int32", "uint32":
			return 4, true, nil
		case "int64", "uint64":
			return 8, true, nil
		}
		if _, ok := t.structs[tt.Name]; ok {
			return 0, false, nil
		}
		return 0, false, fmt.Errorf("unknown field type %s", tt.Name)
	case *ast.ArrayType:
		if id, ok := tt.Elt.(*ast.Ident); ok && id.Name == "byte" && tt.Len == nil {
			return 0, true, nil
		}
	case *ast.SelectorExpr:
		if t.x.Src(tt) == "time.Time" {
			return 8, true, nil // hashed and serialised as UnixNano (int64)
		}
	case *ast.InterfaceType:
		return 0, false, nil
	}
	return 0, false, fmt.Errorf("unsupported field type %s", t.x.Src(e))
}

// leaves lists the leaf fields of struct `name` with dotted paths under `prefix`.
func (t *alTypes) leaves(name, prefix string) ([]alField, error) {
	st, ok := t.structs[name]
	if !ok {
		return nil, fmt.Errorf("struct %s not found", name)
	}
	var out []alField
	for _, f := range st.Fields.List {
		if len(f.Names) == 0 {
			return nil, fmt.Errorf("embedded field in %s", name)
		}
		for _, n := range f.Names {
			w, leaf, err := t.leaf(f.Type)
			if err != nil {
				return nil, fmt.Errorf("%s.%s: %w", name, n.Name, err)
			}
			if leaf {
				out = append(out, alField{prefix + n.Name, w})
				continue
			}
			if id, ok := f.Type.(*ast.Ident); ok {
				sub, err := t.leaves(id.Name, prefix+n.Name+".")
				if err != nil {
					return nil, err
				}
				out = append(out, sub...)
			}
			// interface field (Details): its leaves are listed per details struct
		}
	}
	return out, nil
}

// ---------------------------------------------------------------- symbolic walker (hash + binary)

type alWalker struct {
	x        *ExtractCtx
	t        *alTypes
	version  int
	roots    map[string]string // local identifier -> canonical prefix ("" for the entry, "Log.", "Grounding.")
	fields   map[string]int    // canonical field -> declared width
	fixedLen map[string]int    // field -> length established by a guard / make
	pending  map[string]int    // local variable -> index of the read event waiting for its target
	events   []alEvent
	derived  []string
	verCmp   []int // integer literals compared against e.Version
	stopped  bool
	hashFn   string
	// widths of locals declared with `var x intNN`
	localWidth map[string]int
}

func c27SelectorPath(e ast.Expr) (root string, path []string, ok bool) {
	switch v := e.(type) {
	case *ast.Ident:
		return v.Name, nil, true
	case *ast.SelectorExpr:
		r, p, ok := c27SelectorPath(v.X)
		if !ok {
			return "", nil, false
		}
		return r, append(p, v.Sel.Name), true
	}
	return "", nil, false
}

// rooted finds the unique entry field an expression reads (stripping conversions and method calls).
func (w *alWalker) rooted(e ast.Expr) []string {
	var found []string
	var visit func(e ast.Expr)
	visit = func(e ast.Expr) {
		switch v := e.(type) {
		case *ast.SelectorExpr:
			if root, path, ok := c27SelectorPath(v); ok {
				if pre, isRoot := w.roots[root]; isRoot {
					// longest prefix of path that names a known leaf field
					for n := len(path); n >= 1; n-- {
						name := pre + strings.Join(path[:n], ".")
						if _, ok := w.fields[name]; ok {
							found = append(found, name)
							return
						}
					}
					found = append(found, "?"+w.x.Src(v))
					return
				}
			}
			visit(v.X)
		case *ast.CallExpr:
			visit(v.Fun)
			for _, a := range v.Args {
				visit(a)
			}
		case *ast.UnaryExpr:
			visit(v.X)
		case *ast.StarExpr:
			visit(v.X)
		case *ast.ParenExpr:
			visit(v.X)
		case *ast.BinaryExpr:
			visit(v.X)
			visit(v.Y)
		case *ast.Ident:
			if idx, ok := w.pending[v.Name]; ok {
				found = append(found, fmt.Sprintf("#%d", idx))
			}
		}
	}
	visit(e)
	return found
}

func (w *alWalker) oneField(e ast.Expr) (string, error) {
	f := w.rooted(e)
	if len(f) != 1 || strings.HasPrefix(f[0], "?") || strings.HasPrefix(f[0], "#") {
		return "", fmt.Errorf("cannot resolve the entry field of %q (found %v)", w.x.Src(e), f)
	}
	return f[0], nil
}

func c27CallName(x *ExtractCtx, c *ast.CallExpr) string { return x.Src(c.Fun) }

func (w *alWalker) constInt(e ast.Expr) (int, bool) {
	s := w.x.Src(e)
	if v, ok := alConst[s]; ok {
		return v, true
	}
	if bl, ok := e.(*ast.BasicLit); ok && bl.Kind == token.INT {
		n, err := strconv.Atoi(bl.Value)
		return n, err == nil
	}
	return 0, false
}

// handleCall interprets one I/O call. target is the assignment target of a read (may be nil).
func (w *alWalker) handleCall(c *ast.CallExpr, target ast.Expr) error {
	name := c27CallName(w.x, c)
	addRead := func(width int, tgt ast.Expr) error {
		if tgt == nil {
			return fmt.Errorf("read %s without a target", name)
		}
		if u, ok := tgt.(*ast.UnaryExpr); ok && u.Op == token.AND {
			tgt = u.X
		}
		if id, ok := tgt.(*ast.Ident); ok {
			if _, isRoot := w.roots[id.Name]; !isRoot {
				w.pending[id.Name] = len(w.events)
				w.events = append(w.events, alEvent{"#" + id.Name, width})
				return nil
			}
		}
		f, err := w.oneField(tgt)
		if err != nil {
			return err
		}
		if width > 0 && w.fields[f] != 0 && w.fields[f] != width {
			return fmt.Errorf("width mismatch for %s", f)
		}
		w.events = append(w.events, alEvent{f, width})
		return nil
	}
	switch {
	case name == "binary.Write" && len(c.Args) == 3:
		f, err := w.oneField(c.Args[2])
		if err != nil {
			return err
		}
		if w.fields[f] == 0 {
			return fmt.Errorf("binary.Write of variable-length field %s", f)
		}
		w.events = append(w.events, alEvent{f, w.fields[f]})
	case (name == "writeString" || name == "writeBytes") && len(c.Args) == 2:
		f, err := w.oneField(c.Args[1])
		if err != nil {
			return err
		}
		if w.fields[f] != 0 {
			return fmt.Errorf("%s of fixed-width field %s", name, f)
		}
		w.events = append(w.events, alEvent{f, 0})
	case (name == "buf.Write" || name == "w.Write") && len(c.Args) == 1:
		f, err := w.oneField(c.Args[0])
		if err != nil {
			return err
		}
		if n, ok := w.fixedLen[f]; ok {
			w.events = append(w.events, alEvent{f, n})
		} else {
			w.events = append(w.events, alEvent{f, -1})
		}
	case name == "binary.Read" && len(c.Args) == 3:
		tgt := c.Args[2]
		width := 0
		if u, ok := tgt.(*ast.UnaryExpr); ok {
			if id, ok := u.X.(*ast.Ident); ok {
				if lw, ok := w.localWidth[id.Name]; ok {
					width = lw
				}
			}
		}
		if width == 0 {
			f, err := w.oneField(tgt)
			if err != nil {
				return err
			}
			width = w.fields[f]
		}
		if width == 0 {
			return fmt.Errorf("binary.Read into a variable-length target %s", w.x.Src(tgt))
		}
		return addRead(width, tgt)
	case (name == "readString" || name == "readBytes") && len(c.Args) == 1:
		return addRead(0, target)
	case name == "io.ReadFull" && len(c.Args) == 2:
		f, err := w.oneField(c.Args[1])
		if err != nil {
			return err
		}
		n, ok := w.fixedLen[f]
		if !ok {
			return fmt.Errorf("io.ReadFull into %s without a preceding make([]byte, N)", f)
		}
		w.events = append(w.events, alEvent{f, n})
	default:
		return fmt.Errorf("unrecognised call %s", w.x.Src(c))
	}
	return nil
}

// localWidth: widths of locals declared with `var x intNN`
func (w *alWalker) declLocal(ds *ast.DeclStmt) error {
	gd, ok := ds.Decl.(*ast.GenDecl)
	if !ok || gd.Tok != token.VAR {
		return fmt.Errorf("unsupported declaration %s", w.x.Src(ds))
	}
	for _, s := range gd.Specs {
		vs := s.(*ast.ValueSpec)
		if vs.Type == nil || len(vs.Values) != 0 {
			return fmt.Errorf("unsupported var %s", w.x.Src(ds))
		}
		wd, leaf, err := w.t.leaf(vs.Type)
		if err != nil || !leaf {
			return fmt.Errorf("unsupported var type in %s", w.x.Src(ds))
		}
		for _, n := range vs.Names {
			w.localWidth[n.Name] = wd
		}
	}
	return nil
}

func c27IsErrNotNil(x *ExtractCtx, e ast.Expr) bool { return x.Src(e) == "err != nil" }

// versionCond evaluates `e.Version <op> INT` for the walker's version.
func (w *alWalker) versionCond(e ast.Expr) (bool, bool) {
	b, ok := e.(*ast.BinaryExpr)
	if !ok || w.x.Src(b.X) != "e.Version" {
		return false, false
	}
	n, ok := w.constInt(b.Y)
	if !ok {
		return false, false
	}
	w.verCmp = append(w.verCmp, n)
	v := w.version
	switch b.Op {
	case token.LEQ:
		return v <= n, true
	case token.LSS:
		return v < n, true
	case token.GEQ:
		return v >= n, true
	case token.GTR:
		return v > n, true
	case token.EQL:
		return v == n, true
	case token.NEQ:
		return v != n, true
	}
	return false, false
}

// c27OnlyExits: the block only returns / panics (error path of a guard).
func c27OnlyExits(x *ExtractCtx, b *ast.BlockStmt) bool {
	for _, s := range b.List {
		switch v := s.(type) {
		case *ast.ReturnStmt:
		case *ast.ExprStmt:
			if c, ok := v.X.(*ast.CallExpr); !ok || x.Src(c.Fun) != "panic" {
				return false
			}
		default:
			return false
		}
	}
	return true
}

// constAssignments: every statement assigns a constant to an entry field (legacy-version defaults).
func (w *alWalker) constAssignments(b *ast.BlockStmt) bool {
	for _, s := range b.List {
		a, ok := s.(*ast.AssignStmt)
		if !ok || len(a.Lhs) != 1 || len(a.Rhs) != 1 || a.Tok != token.ASSIGN {
			return false
		}
		f, err := w.oneField(a.Lhs[0])
		if err != nil || len(w.rooted(a.Rhs[0])) != 0 {
			return false
		}
		w.derived = append(w.derived, f)
	}
	return true
}

func (w *alWalker) walk(stmts []ast.Stmt) error {
	for _, s := range stmts {
		if w.stopped {
			return nil
		}
		if err := w.stmt(s); err != nil {
			return err
		}
	}
	return nil
}

func (w *alWalker) stmt(s ast.Stmt) error {
	switch v := s.(type) {
	case *ast.ExprStmt:
		c, ok := v.X.(*ast.CallExpr)
		if !ok {
			return fmt.Errorf("unrecognised statement %s", w.x.Src(s))
		}
		return w.handleCall(c, nil)
	case *ast.DeclStmt:
		return w.declLocal(v)
	case *ast.BranchStmt:
		if v.Tok == token.BREAK && v.Label == nil {
			w.stopped = true
			return nil
		}
		return fmt.Errorf("unsupported branch %s", w.x.Src(s))
	case *ast.ReturnStmt:
		w.stopped = true
		return nil
	case *ast.IfStmt:
		if v.Init != nil {
			a, ok := v.Init.(*ast.AssignStmt)
			if !ok || len(a.Rhs) != 1 || !c27IsErrNotNil(w.x, v.Cond) || !c27OnlyExits(w.x, v.Body) || v.Else != nil {
				return fmt.Errorf("unrecognised if %s", w.x.Src(s))
			}
			c, ok := a.Rhs[0].(*ast.CallExpr)
			if !ok {
				return fmt.Errorf("unrecognised if-init %s", w.x.Src(s))
			}
			var tgt ast.Expr
			if len(a.Lhs) == 2 {
				if id, ok := a.Lhs[0].(*ast.Ident); !ok || id.Name != "_" {
					tgt = a.Lhs[0]
				}
			}
			return w.handleCall(c, tgt)
		}
		if c27IsErrNotNil(w.x, v.Cond) && c27OnlyExits(w.x, v.Body) && v.Else == nil {
			return nil
		}
		if val, ok := w.versionCond(v.Cond); ok {
			if val {
				return w.walk(v.Body.List)
			}
			switch e := v.Else.(type) {
			case nil:
				return nil
			case *ast.BlockStmt:
				return w.walk(e.List)
			case *ast.IfStmt:
				return w.stmt(e)
			}
		}
		// length guard: if len(X) != CONST { exit }
		if b, ok := v.Cond.(*ast.BinaryExpr); ok && b.Op == token.NEQ && v.Else == nil && c27OnlyExits(w.x, v.Body) {
			if c, ok := b.X.(*ast.CallExpr); ok && w.x.Src(c.Fun) == "len" && len(c.Args) == 1 {
				if n, ok := w.constInt(b.Y); ok {
					f, err := w.oneField(c.Args[0])
					if err != nil {
						return err
					}
					w.fixedLen[f] = n
					return nil
				}
			}
		}
		// legacy defaults: if <field cond> { const assignments } else { const assignments }
		if len(w.rooted(v.Cond)) == 1 && w.constAssignments(v.Body) {
			if v.Else == nil {
				return nil
			}
			if eb, ok := v.Else.(*ast.BlockStmt); ok && w.constAssignments(eb) {
				return nil
			}
		}
		return fmt.Errorf("unrecognised if %s", w.x.Src(s))
	case *ast.AssignStmt:
		if len(v.Rhs) != 1 {
			return fmt.Errorf("unrecognised assignment %s", w.x.Src(s))
		}
		rhs := v.Rhs[0]
		// reads: X, err := readString(d.r)
		if c, ok := rhs.(*ast.CallExpr); ok && len(v.Lhs) == 2 && w.x.Src(v.Lhs[1]) == "err" {
			return w.handleCall(c, v.Lhs[0])
		}
		if len(v.Lhs) != 1 {
			return fmt.Errorf("unrecognised assignment %s", w.x.Src(s))
		}
		lhs := v.Lhs[0]
		// new roots: dls := &auditlog.LogDetails{} / e := &auditlog.Entry{} / buf := new(bytes.Buffer) / h := sha512.Sum512(buf.Bytes())
		if id, ok := lhs.(*ast.Ident); ok && v.Tok == token.DEFINE {
			src := w.x.Src(rhs)
			switch src {
			case "&auditlog.LogDetails{}":
				w.roots[id.Name] = "Log."
				return nil
			case "&auditlog.GroundingDetails{}":
				w.roots[id.Name] = "Grounding."
				return nil
			case "&auditlog.Entry{}":
				w.roots[id.Name] = ""
				return nil
			case "new(bytes.Buffer)":
				return nil
			case "sha512.Sum512(buf.Bytes())":
				w.hashFn = src
				return nil
			}
			return fmt.Errorf("unrecognised definition %s", w.x.Src(s))
		}
		// e.Details = dls / e.Details = &auditlog.GenesisDetails{}
		if w.x.Src(lhs) == "e.Details" {
			return nil
		}
		f, err := w.oneField(lhs)
		if err != nil {
			return err
		}
		// T = make([]byte, N)
		if c, ok := rhs.(*ast.CallExpr); ok && w.x.Src(c.Fun) == "make" && len(c.Args) == 2 && w.x.Src(c.Args[0]) == "[]byte" {
			if n, ok := w.constInt(c.Args[1]); ok {
				w.fixedLen[f] = n
				return nil
			}
		}
		// T = conv(local): resolves a pending read
		r := w.rooted(rhs)
		if len(r) == 1 && strings.HasPrefix(r[0], "#") {
			idx, _ := strconv.Atoi(r[0][1:])
			if !strings.HasPrefix(w.events[idx].Field, "#") {
				return fmt.Errorf("local read used twice in %s", w.x.Src(s))
			}
			if w.events[idx].Width > 0 && w.fields[f] != w.events[idx].Width {
				return fmt.Errorf("width mismatch assigning %s", f)
			}
			w.events[idx].Field = f
			return nil
		}
		if len(r) == 0 {
			w.derived = append(w.derived, f)
			return nil
		}
		return fmt.Errorf("unrecognised assignment %s", w.x.Src(s))
	}
	return fmt.Errorf("unrecognised statement %s", w.x.Src(s))
}

// result of walking one function for one version
type alFuncFacts struct {
	pre, tail []alEvent
	kinds     map[string][]alEvent // "genesis" | "log" | "grounding"
	derived   map[string][]string
	hashFn    string
}

var alKindOfType = map[string]string{
	"*GenesisDetails": "genesis", "*LogDetails": "log", "*GroundingDetails": "grounding",
	"*auditlog.GenesisDetails": "genesis", "*auditlog.LogDetails": "log", "*auditlog.GroundingDetails": "grounding",
	"EntryTypeGenesis": "genesis", "EntryTypeLog": "log", "EntryTypeGrounding": "grounding",
	"auditlog.EntryTypeGenesis": "genesis", "auditlog.EntryTypeLog": "log", "auditlog.EntryTypeGrounding": "grounding",
}
var alKindPrefix = map[string]string{"genesis": "Genesis.", "log": "Log.", "grounding": "Grounding."}

func (w *alWalker) fresh() *alWalker {
	n := *w
	n.events, n.derived, n.stopped = nil, nil, false
	n.pending = map[string]int{}
	n.fixedLen = map[string]int{}
	for k, v := range w.fixedLen {
		n.fixedLen[k] = v
	}
	n.roots = map[string]string{}
	for k, v := range w.roots {
		n.roots[k] = v
	}
	return &n
}

func (w *alWalker) finish() ([]alEvent, error) {
	for _, e := range w.events {
		if strings.HasPrefix(e.Field, "#") {
			return nil, fmt.Errorf("value read into local %s is never stored in the entry", e.Field[1:])
		}
	}
	return w.events, nil
}

// c27WalkFunc splits the body at the (type) switch over the details and walks the three sections.
func c27WalkFunc(x *ExtractCtx, t *alTypes, fields map[string]int, fd *ast.FuncDecl, version int, verCmp *[]int) (*alFuncFacts, error) {
	base := &alWalker{x: x, t: t, version: version, roots: map[string]string{"e": ""}, fields: fields,
		fixedLen: map[string]int{}, pending: map[string]int{}, localWidth: map[string]int{}}
	res := &alFuncFacts{kinds: map[string][]alEvent{}, derived: map[string][]string{}}
	swIdx := -1
	for i, s := range fd.Body.List {
		switch s.(type) {
		case *ast.TypeSwitchStmt, *ast.SwitchStmt:
			if swIdx >= 0 {
				return nil, fmt.Errorf("%s: more than one switch", fd.Name.Name)
			}
			swIdx = i
		}
	}
	if swIdx < 0 {
		return nil, fmt.Errorf("%s: no switch over the details", fd.Name.Name)
	}
	pre := base.fresh()
	if err := pre.walk(fd.Body.List[:swIdx]); err != nil {
		return nil, err
	}
	var err error
	if res.pre, err = pre.finish(); err != nil {
		return nil, err
	}
	*verCmp = append(*verCmp, pre.verCmp...)
	// the clauses
	var clauses []*ast.CaseClause
	var bindVar string
	switch sw := fd.Body.List[swIdx].(type) {
	case *ast.TypeSwitchStmt:
		a, ok := sw.Assign.(*ast.AssignStmt)
		if !ok || x.Src(a.Rhs[0]) != "e.Details.(type)" {
			return nil, fmt.Errorf("unrecognised type switch %s", x.Src(sw.Assign))
		}
		bindVar = a.Lhs[0].(*ast.Ident).Name
		for _, c := range sw.Body.List {
			clauses = append(clauses, c.(*ast.CaseClause))
		}
	case *ast.SwitchStmt:
		if sw.Init != nil || x.Src(sw.Tag) != "e.Type" {
			return nil, fmt.Errorf("unrecognised switch %s", x.Src(sw.Tag))
		}
		for _, c := range sw.Body.List {
			clauses = append(clauses, c.(*ast.CaseClause))
		}
	}
	seen := map[string]bool{}
	for _, c := range clauses {
		if len(c.List) != 1 {
			return nil, fmt.Errorf("unrecognised case clause (default or multi-value)")
		}
		kind, ok := alKindOfType[x.Src(c.List[0])]
		if !ok {
			return nil, fmt.Errorf("unknown details kind %s", x.Src(c.List[0]))
		}
		seen[kind] = true
		cw := pre.fresh()
		cw.fixedLen = map[string]int{}
		if bindVar != "" {
			cw.roots[bindVar] = alKindPrefix[kind]
		}
		if err := cw.walk(c.Body); err != nil {
			return nil, fmt.Errorf("%s/%s: %w", fd.Name.Name, kind, err)
		}
		if res.kinds[kind], err = cw.finish(); err != nil {
			return nil, err
		}
		res.derived[kind] = cw.derived
		*verCmp = append(*verCmp, cw.verCmp...)
	}
	for _, k := range []string{"genesis", "log", "grounding"} {
		if !seen[k] {
			return nil, fmt.Errorf("%s: no case for %s", fd.Name.Name, k)
		}
	}
	tw := pre.fresh()
	tw.fixedLen = map[string]int{}
	if err := tw.walk(fd.Body.List[swIdx+1:]); err != nil {
		return nil, err
	}
	if res.tail, err = tw.finish(); err != nil {
		return nil, err
	}
	res.hashFn = tw.hashFn
	return res, nil
}

// ---------------------------------------------------------------- JSON serializer

type alJSONCtx struct {
	x       *ExtractCtx
	structs map[string]*ast.StructType // json* struct types of json.go
	fields  map[string]int
}

// jsonLeaf resolves a dotted Go path inside a json struct to (json path, omitempty).
func (j *alJSONCtx) jsonLeaf(st *ast.StructType, path []string) (string, bool, error) {
	var parts []string
	omit := false
	for i, p := range path {
		var fld *ast.Field
		for _, f := range st.Fields.List {
			for _, n := range f.Names {
				if n.Name == p {
					fld = f
				}
			}
		}
		if fld == nil || fld.Tag == nil {
			return "", false, fmt.Errorf("json struct field %s not found or untagged", strings.Join(path, "."))
		}
		tag := reflect.StructTag(strings.Trim(fld.Tag.Value, "`")).Get("json")
		opts := strings.Split(tag, ",")
		if opts[0] == "" || opts[0] == "-" {
			return "", false, fmt.Errorf("json tag of %s unusable", p)
		}
		parts = append(parts, opts[0])
		omit = false
		for _, o := range opts[1:] {
			if o == "omitempty" {
				omit = true
			} else {
				return "", false, fmt.Errorf("json tag option %q not modelled", o)
			}
		}
		if i < len(path)-1 {
			sub, ok := fld.Type.(*ast.StructType)
			if !ok {
				return "", false, fmt.Errorf("%s is not a nested struct", p)
			}
			st = sub
		}
	}
	return strings.Join(parts, "."), omit, nil
}

// entrySide finds the entry field in an expression rooted at one of roots, plus the wrapper calls.
func (j *alJSONCtx) side(e ast.Expr, roots map[string]string, locals map[string]ast.Expr) (field string, wrappers []string, n int) {
	var visit func(e ast.Expr)
	visit = func(e ast.Expr) {
		switch v := e.(type) {
		case *ast.SelectorExpr:
			if root, path, ok := c27SelectorPath(v); ok {
				if pre, isRoot := roots[root]; isRoot {
					for k := len(path); k >= 1; k-- {
						name := pre + strings.Join(path[:k], ".")
						if _, ok := j.fields[name]; ok {
							field = name
							n++
							for _, m := range path[k:] {
								wrappers = append(wrappers, m)
							}
							return
						}
					}
					n += 100 // rooted but unknown field
					return
				}
			}
			wrappers = append(wrappers, v.Sel.Name)
			visit(v.X)
		case *ast.CallExpr:
			if id, ok := v.Fun.(*ast.Ident); ok {
				wrappers = append(wrappers, id.Name)
			} else {
				visit(v.Fun)
			}
			for _, a := range v.Args {
				visit(a)
			}
		case *ast.UnaryExpr:
			visit(v.X)
		case *ast.ParenExpr:
			visit(v.X)
		case *ast.Ident:
			if le, ok := locals[v.Name]; ok {
				visit(le)
			}
		}
	}
	visit(e)
	return
}

func c27CodecOf(wrappers []string, width int) (string, error) {
	has := func(s string) bool {
		for _, w := range wrappers {
			if w == s {
				return true
			}
		}
		return false
	}
	switch {
	case has("EncodeToString") || has("DecodeString"):
		return "hex", nil
	case has("Format") || has("Parse"):
		return "time", nil
	}
	for _, w := range wrappers {
		switch w {
		case "string", "auditlog", "Operation", "Phase", "AuthType", "OutcomeType", "EntryType":
		default:
			return "", fmt.Errorf("unmodelled conversion %q", w)
		}
	}
	if width > 0 {
		return "num", nil
	}
	return "str", nil
}

// jsonSide finds the json-struct path in an expression rooted at a json variable.
func (j *alJSONCtx) jsonSide(e ast.Expr, jroots map[string]string, locals map[string]ast.Expr) (stName string, path []string, wrappers []string, n int) {
	var visit func(e ast.Expr)
	visit = func(e ast.Expr) {
		switch v := e.(type) {
		case *ast.SelectorExpr:
			if root, p, ok := c27SelectorPath(v); ok {
				if sn, isRoot := jroots[root]; isRoot {
					stName, path = sn, p
					n++
					return
				}
			}
			wrappers = append(wrappers, v.Sel.Name)
			visit(v.X)
		case *ast.CallExpr:
			if id, ok := v.Fun.(*ast.Ident); ok {
				wrappers = append(wrappers, id.Name)
			} else {
				visit(v.Fun)
			}
			for _, a := range v.Args {
				visit(a)
			}
		case *ast.UnaryExpr:
			visit(v.X)
		case *ast.ParenExpr:
			visit(v.X)
		case *ast.Ident:
			if le, ok := locals[v.Name]; ok {
				visit(le)
			}
		}
	}
	visit(e)
	return
}

// writeLit: composite literal of a json struct whose values read entry fields.
func (j *alJSONCtx) writeLit(cl *ast.CompositeLit, stName, pathPrefix string, roots map[string]string, locals map[string]ast.Expr, skip map[string]bool) ([]alJSON, error) {
	st, ok := j.structs[stName]
	if !ok {
		return nil, fmt.Errorf("json struct %s not found", stName)
	}
	var out []alJSON
	for _, el := range cl.Elts {
		kv, ok := el.(*ast.KeyValueExpr)
		if !ok {
			return nil, fmt.Errorf("positional composite literal in %s", stName)
		}
		key := kv.Key.(*ast.Ident).Name
		if skip[key] {
			continue
		}
		jp, omit, err := j.jsonLeaf(st, []string{key})
		if err != nil {
			return nil, err
		}
		f, wr, n := j.side(kv.Value, roots, locals)
		if n != 1 {
			return nil, fmt.Errorf("%s.%s: cannot resolve the entry field of %q", stName, key, j.x.Src(kv.Value))
		}
		codec, err := c27CodecOf(wr, j.fields[f])
		if err != nil {
			return nil, fmt.Errorf("%s.%s: %w", stName, key, err)
		}
		item := alJSON{Field: f, Path: pathPrefix + jp, Omit: omit, Codec: codec, Wrap: wr}
		if codec == "time" {
			ast.Inspect(kv.Value, func(n ast.Node) bool {
				if bl, ok := n.(*ast.BasicLit); ok && bl.Kind == token.STRING {
					item.Layout, _ = strconv.Unquote(bl.Value)
				}
				return true
			})
		}
		out = append(out, item)
	}
	return out, nil
}

// readLit: composite literal of an auditlog struct whose values read json fields (nested literals allowed).
func (j *alJSONCtx) readLit(cl *ast.CompositeLit, fieldPrefix, pathPrefix string, jroots map[string]string, locals map[string]ast.Expr, derived *[]string) ([]alJSON, error) {
	var out []alJSON
	for _, el := range cl.Elts {
		kv, ok := el.(*ast.KeyValueExpr)
		if !ok {
			return nil, fmt.Errorf("positional composite literal")
		}
		key := kv.Key.(*ast.Ident).Name
		if sub, ok := kv.Value.(*ast.CompositeLit); ok {
			r, err := j.readLit(sub, fieldPrefix+key+".", pathPrefix, jroots, locals, derived)
			if err != nil {
				return nil, err
			}
			out = append(out, r...)
			continue
		}
		f := fieldPrefix + key
		if _, ok := j.fields[f]; !ok {
			return nil, fmt.Errorf("unknown entry field %s", f)
		}
		sn, p, wr, n := j.jsonSide(kv.Value, jroots, locals)
		if n == 0 {
			*derived = append(*derived, f)
			continue
		}
		if n != 1 {
			return nil, fmt.Errorf("%s: cannot resolve the json source of %q", f, j.x.Src(kv.Value))
		}
		jp, _, err := j.jsonLeaf(j.structs[sn], p)
		if err != nil {
			return nil, err
		}
		codec, err := c27CodecOf(wr, j.fields[f])
		if err != nil {
			return nil, fmt.Errorf("%s: %w", f, err)
		}
		pp := pathPrefix
		if sn == "jsonEntry" {
			pp = ""
		}
		out = append(out, alJSON{Field: f, Path: pp + jp, Codec: codec, Wrap: wr})
	}
	return out, nil
}

type alJSONFacts struct {
	entryW, entryR []alJSON
	logW, logR     map[int][]alJSON // by version class: 1 (legacy) and 2 (current layout)
	grW, grR       []alJSON
	logDerivedR    map[int][]string
	legacyMax      int
}

// c27CollectLocals gathers `x, _ := f(...)` / `x := expr` definitions of a statement list (flat + nested).
func c27CollectLocals(stmts []ast.Stmt, into map[string]ast.Expr) {
	for _, s := range stmts {
		ast.Inspect(s, func(n ast.Node) bool {
			if a, ok := n.(*ast.AssignStmt); ok && a.Tok == token.DEFINE && len(a.Rhs) == 1 {
				if id, ok := a.Lhs[0].(*ast.Ident); ok && id.Name != "_" && id.Name != "err" {
					if _, isLit := a.Rhs[0].(*ast.CompositeLit); !isLit {
						if u, ok := a.Rhs[0].(*ast.UnaryExpr); !ok || u.Op != token.AND {
							into[id.Name] = a.Rhs[0]
						}
					}
				}
			}
			return true
		})
	}
}

func c27FindLits(n ast.Node, x *ExtractCtx, typeName string) []*ast.CompositeLit {
	var out []*ast.CompositeLit
	ast.Inspect(n, func(n ast.Node) bool {
		if cl, ok := n.(*ast.CompositeLit); ok && cl.Type != nil && x.Src(cl.Type) == typeName {
			out = append(out, cl)
		}
		return true
	})
	return out
}

func c27ExtractJSON(x *ExtractCtx, f *ast.File, fields map[string]int) (*alJSONFacts, error) {
	j := &alJSONCtx{x: x, structs: map[string]*ast.StructType{}, fields: fields}
	for _, d := range f.Decls {
		if gd, ok := d.(*ast.GenDecl); ok {
			for _, s := range gd.Specs {
				if ts, ok := s.(*ast.TypeSpec); ok {
					if st, ok := ts.Type.(*ast.StructType); ok {
						j.structs[ts.Name.Name] = st
					}
				}
			}
		}
	}
	res := &alJSONFacts{logW: map[int][]alJSON{}, logR: map[int][]alJSON{}, logDerivedR: map[int][]string{}, legacyMax: -1}
	enc := FindFunc(f, "JsonSerializer", "Encode")
	dec := FindFunc(f, "JsonDecoder", "Decode")
	if enc == nil || dec == nil {
		return nil, fmt.Errorf("JsonSerializer.Encode / JsonDecoder.Decode not found")
	}
	x.Note("json.Encode", enc)
	x.Note("json.Decode", dec)
	var err error

	// ---- Encode: jsonEntry literal
	lits := c27FindLits(enc, x, "jsonEntry")
	if len(lits) != 1 {
		return nil, fmt.Errorf("expected exactly one jsonEntry literal in Encode, found %d", len(lits))
	}
	if res.entryW, err = j.writeLit(lits[0], "jsonEntry", "", map[string]string{"e": ""}, nil, map[string]bool{"Details": true}); err != nil {
		return nil, err
	}
	// ---- Encode: the type switch
	var ts *ast.TypeSwitchStmt
	ast.Inspect(enc, func(n ast.Node) bool {
		if t, ok := n.(*ast.TypeSwitchStmt); ok {
			ts = t
		}
		return true
	})
	if ts == nil {
		return nil, fmt.Errorf("no type switch in json Encode")
	}
	bind := ts.Assign.(*ast.AssignStmt).Lhs[0].(*ast.Ident).Name
	for _, c := range ts.Body.List {
		cc := c.(*ast.CaseClause)
		if len(cc.List) != 1 {
			return nil, fmt.Errorf("json Encode: unrecognised case clause")
		}
		kind := alKindOfType[x.Src(cc.List[0])]
		switch kind {
		case "genesis":
			if len(cc.Body) != 1 || !strings.Contains(x.Src(cc.Body[0]), "json.Marshal(struct{}{})") {
				return nil, fmt.Errorf("json Encode genesis: unrecognised body")
			}
		case "grounding":
			l := c27FindLits(cc, x, "jsonGroundingDetails")
			if len(l) != 1 {
				return nil, fmt.Errorf("json Encode grounding: expected one jsonGroundingDetails literal")
			}
			if res.grW, err = j.writeLit(l[0], "jsonGroundingDetails", "details.", map[string]string{bind: "Grounding."}, nil, nil); err != nil {
				return nil, err
			}
		case "log":
			// if e.Version <= N { V1 literal } else { payload := jsonLogDetails{...}; payload.X = ... }
			if len(cc.Body) != 1 {
				return nil, fmt.Errorf("json Encode log: expected a single if statement")
			}
			ifs, ok := cc.Body[0].(*ast.IfStmt)
			if !ok {
				return nil, fmt.Errorf("json Encode log: expected if e.Version <= N")
			}
			b, ok := ifs.Cond.(*ast.BinaryExpr)
			if !ok || x.Src(b.X) != "e.Version" || b.Op != token.LEQ {
				return nil, fmt.Errorf("json Encode log: unrecognised version test %s", x.Src(ifs.Cond))
			}
			n, _ := strconv.Atoi(x.Src(b.Y))
			res.legacyMax = n
			roots := map[string]string{bind: "Log."}
			l := c27FindLits(ifs.Body, x, "jsonLogDetailsV1")
			if len(l) != 1 {
				return nil, fmt.Errorf("json Encode log legacy: expected one jsonLogDetailsV1 literal")
			}
			if res.logW[1], err = j.writeLit(l[0], "jsonLogDetailsV1", "details.", roots, nil, nil); err != nil {
				return nil, err
			}
			eb, ok := ifs.Else.(*ast.BlockStmt)
			if !ok {
				return nil, fmt.Errorf("json Encode log: no else block")
			}
			var payload string
			for _, s := range eb.List {
				a, ok := s.(*ast.AssignStmt)
				if !ok || len(a.Lhs) < 1 || len(a.Rhs) != 1 {
					return nil, fmt.Errorf("json Encode log: unrecognised statement %s", x.Src(s))
				}
				if cl, ok := a.Rhs[0].(*ast.CompositeLit); ok && x.Src(cl.Type) == "jsonLogDetails" {
					payload = a.Lhs[0].(*ast.Ident).Name
					w, err := j.writeLit(cl, "jsonLogDetails", "details.", roots, nil, nil)
					if err != nil {
						return nil, err
					}
					res.logW[2] = append(res.logW[2], w...)
					continue
				}
				if c, ok := a.Rhs[0].(*ast.CallExpr); ok && x.Src(c.Fun) == "json.Marshal" && len(c.Args) == 1 && x.Src(c.Args[0]) == payload {
					continue
				}
				root, path, ok := c27SelectorPath(a.Lhs[0])
				if !ok || root != payload || len(a.Lhs) != 1 {
					return nil, fmt.Errorf("json Encode log: unrecognised statement %s", x.Src(s))
				}
				jp, omit, err := j.jsonLeaf(j.structs["jsonLogDetails"], path)
				if err != nil {
					return nil, err
				}
				fl, wr, cnt := j.side(a.Rhs[0], roots, nil)
				if cnt != 1 {
					return nil, fmt.Errorf("json Encode log: cannot resolve %s", x.Src(a.Rhs[0]))
				}
				codec, err := c27CodecOf(wr, fields[fl])
				if err != nil {
					return nil, err
				}
				res.logW[2] = append(res.logW[2], alJSON{Field: fl, Path: "details." + jp, Omit: omit, Codec: codec, Wrap: wr})
			}
		default:
			return nil, fmt.Errorf("json Encode: unknown kind %s", x.Src(cc.List[0]))
		}
	}

	// ---- Decode
	locals := map[string]ast.Expr{}
	c27CollectLocals(dec.Body.List, locals)
	jroots := map[string]string{"je": "jsonEntry"}
	el := c27FindLits(dec, x, "auditlog.Entry")
	if len(el) != 1 {
		return nil, fmt.Errorf("expected exactly one auditlog.Entry literal in Decode")
	}
	var dummy []string
	if res.entryR, err = j.readLit(el[0], "", "", jroots, locals, &dummy); err != nil {
		return nil, err
	}
	if len(dummy) != 0 {
		return nil, fmt.Errorf("json Decode: entry fields %v are not read from the input", dummy)
	}
	var sw *ast.SwitchStmt
	for _, s := range dec.Body.List {
		if t, ok := s.(*ast.SwitchStmt); ok && x.Src(t.Tag) == "e.Type" {
			sw = t
		}
	}
	if sw == nil {
		return nil, fmt.Errorf("no switch e.Type in json Decode")
	}
	for _, c := range sw.Body.List {
		cc := c.(*ast.CaseClause)
		if len(cc.List) != 1 {
			return nil, fmt.Errorf("json Decode: unrecognised case clause")
		}
		kind := alKindOfType[x.Src(cc.List[0])]
		// which json struct does `jd` have in which block
		switch kind {
		case "genesis":
		case "grounding":
			l := c27FindLits(cc, x, "auditlog.GroundingDetails")
			if len(l) != 1 || !strings.Contains(x.Src(cc), "var jd jsonGroundingDetails") {
				return nil, fmt.Errorf("json Decode grounding: unrecognised shape")
			}
			var der []string
			if res.grR, err = j.readLit(l[0], "Grounding.", "details.", map[string]string{"jd": "jsonGroundingDetails"}, locals, &der); err != nil {
				return nil, err
			}
			if len(der) != 0 {
				return nil, fmt.Errorf("json Decode grounding: %v not read from input", der)
			}
		case "log":
			// if e.Version <= N { var jd jsonLogDetailsV1 ... break }; var jd jsonLogDetails ...
			if len(cc.Body) < 2 {
				return nil, fmt.Errorf("json Decode log: unrecognised shape")
			}
			ifs, ok := cc.Body[0].(*ast.IfStmt)
			if !ok || !strings.HasPrefix(x.Src(ifs.Cond), "e.Version <= ") || !strings.Contains(x.Src(ifs.Body), "var jd jsonLogDetailsV1") {
				return nil, fmt.Errorf("json Decode log: expected legacy branch first")
			}
			n, _ := strconv.Atoi(strings.TrimPrefix(x.Src(ifs.Cond), "e.Version <= "))
			if n != res.legacyMax {
				return nil, fmt.Errorf("json Encode/Decode disagree on the legacy version bound (%d vs %d)", res.legacyMax, n)
			}
			if _, ok := ifs.Body.List[len(ifs.Body.List)-1].(*ast.BranchStmt); !ok {
				return nil, fmt.Errorf("json Decode log: legacy branch does not end in break")
			}
			l := c27FindLits(ifs.Body, x, "auditlog.LogDetails")
			if len(l) != 1 {
				return nil, fmt.Errorf("json Decode log legacy: expected one LogDetails literal")
			}
			var der []string
			if res.logR[1], err = j.readLit(l[0], "Log.", "details.", map[string]string{"jd": "jsonLogDetailsV1"}, locals, &der); err != nil {
				return nil, err
			}
			res.logDerivedR[1] = der
			var l2 []*ast.CompositeLit
			sawDecl := false
			for _, s := range cc.Body[1:] {
				if strings.Contains(x.Src(s), "var jd jsonLogDetails") {
					sawDecl = true
				}
				l2 = append(l2, c27FindLits(s, x, "auditlog.LogDetails")...)
			}
			if !sawDecl || len(l2) != 1 {
				return nil, fmt.Errorf("json Decode log: expected `var jd jsonLogDetails` and one LogDetails literal")
			}
			var der2 []string
			if res.logR[2], err = j.readLit(l2[0], "Log.", "details.", map[string]string{"jd": "jsonLogDetails"}, locals, &der2); err != nil {
				return nil, err
			}
			res.logDerivedR[2] = der2
		default:
			return nil, fmt.Errorf("json Decode: unknown kind %s", x.Src(cc.List[0]))
		}
	}
	return res, nil
}

// ---------------------------------------------------------------- emission

func c27LeanEvents(ev []alEvent) (string, error) {
	parts := make([]string, len(ev))
	for i, e := range ev {
		if e.Width < 0 {
			return "", fmt.Errorf("raw write of %s without an established length in the middle of the encoding", e.Field)
		}
		parts[i] = fmt.Sprintf("(%s, %d)", LeanStr(e.Field), e.Width)
	}
	return "[" + strings.Join(parts, ", ") + "]", nil
}

func c27LeanFields(fs []alField) string {
	parts := make([]string, len(fs))
	for i, f := range fs {
		parts[i] = fmt.Sprintf("(%s, %d)", LeanStr(f.Name), f.Width)
	}
	return "[" + strings.Join(parts, ", ") + "]"
}

func c27LeanJSON(js []alJSON) string {
	parts := make([]string, len(js))
	for i, e := range js {
		parts[i] = fmt.Sprintf("(%s, %s, %v, %s)", LeanStr(e.Field), LeanStr(e.Path), e.Omit, LeanStr(e.Codec))
	}
	return "[" + strings.Join(parts, ",\n    ") + "]"
}

func c27EventsEqual(a, b []alEvent) bool {
	if len(a) != len(b) {
		return false
	}
	for i := range a {
		if a[i] != b[i] {
			return false
		}
	}
	return true
}

func extractAuditLog(x *ExtractCtx) error {
	entryF, err := x.ParseFile("internal/auditlog/entry.go")
	if err != nil {
		return err
	}
	t := &alTypes{x: x, structs: map[string]*ast.StructType{}, named: map[string]string{}, consts: map[string]string{}}
	t.load(entryF)
	cur, err := strconv.Atoi(t.consts["CurrentVersion"])
	if err != nil {
		return fmt.Errorf("CurrentVersion: %v", err)
	}
	gbs, err := strconv.Atoi(t.consts["GroundingBlockSize"])
	if err != nil {
		return fmt.Errorf("GroundingBlockSize: %v", err)
	}
	entryFields, err := t.leaves("Entry", "")
	if err != nil {
		return err
	}
	logFields, err := t.leaves("LogDetails", "Log.")
	if err != nil {
		return err
	}
	grFields, err := t.leaves("GroundingDetails", "Grounding.")
	if err != nil {
		return err
	}
	genFields, err := t.leaves("GenesisDetails", "Genesis.")
	if err != nil {
		return err
	}
	if len(genFields) != 0 {
		return fmt.Errorf("GenesisDetails has fields: not modelled")
	}
	fields := map[string]int{}
	for _, l := range [][]alField{entryFields, logFields, grFields} {
		for _, f := range l {
			fields[f.Name] = f.Width
		}
	}
	for _, n := range []string{"Entry", "LogDetails", "ResourceDetails", "ActorDetails", "RequestDetails", "OutcomeDetails", "GroundingDetails"} {
		x.Note("struct "+n, t.structs[n])
	}

	ch := FindFunc(entryF, "Entry", "CalculateHash")
	if ch == nil {
		return fmt.Errorf("Entry.CalculateHash not found")
	}
	x.Note("CalculateHash", ch)
	binF, err := x.ParseFile("internal/auditlog/serialization/binary.go")
	if err != nil {
		return err
	}
	be := FindFunc(binF, "BinarySerializer", "Encode")
	bd := FindFunc(binF, "BinaryDecoder", "Decode")
	if be == nil || bd == nil {
		return fmt.Errorf("BinarySerializer.Encode / BinaryDecoder.Decode not found")
	}
	x.Note("binary.Encode", be)
	x.Note("binary.Decode", bd)
	// the helper functions must be the length-prefixed writers/readers we model
	for _, chk := range []struct {
		f    *ast.File
		name string
		must []string
	}{
		{entryF, "writeBytes", []string{"uint32(len(b))", "binary.Write(w, binary.BigEndian, l)", "w.Write(b)"}},
		{entryF, "writeString", []string{"writeBytes(w, []byte(s))"}},
		{binF, "writeBytes", []string{"uint32(len(b))", "binary.Write(w, binary.BigEndian, l)", "w.Write(b)"}},
		{binF, "writeString", []string{"writeBytes(w, []byte(s))"}},
		{binF, "readBytes", []string{"var l uint32", "binary.Read(r, binary.BigEndian, &l)", "make([]byte, l)", "io.ReadFull(r, buf)"}},
		{binF, "readString", []string{"readBytes(r)", "string(b)"}},
	} {
		fd := FindFunc(chk.f, "", chk.name)
		if fd == nil {
			return fmt.Errorf("helper %s not found", chk.name)
		}
		src := x.Src(fd)
		for _, m := range chk.must {
			if !strings.Contains(src, m) {
				return fmt.Errorf("helper %s no longer contains %q: length-prefix model does not apply", chk.name, m)
			}
		}
		x.Note("helper "+chk.name, fd)
	}

	var verCmp []int
	type perV struct{ hash, bw, br *alFuncFacts }
	vs := make([]perV, cur+2)
	for v := 0; v <= cur+1; v++ {
		if vs[v].hash, err = c27WalkFunc(x, t, fields, ch, v, &verCmp); err != nil {
			return fmt.Errorf("CalculateHash (version %d): %w", v, err)
		}
		if vs[v].bw, err = c27WalkFunc(x, t, fields, be, v, &verCmp); err != nil {
			return fmt.Errorf("binary Encode (version %d): %w", v, err)
		}
		if vs[v].br, err = c27WalkFunc(x, t, fields, bd, v, &verCmp); err != nil {
			return fmt.Errorf("binary Decode (version %d): %w", v, err)
		}
	}
	for _, n := range verCmp {
		if n > cur {
			return fmt.Errorf("a version test compares against %d > CurrentVersion %d", n, cur)
		}
	}
	if vs[cur].hash.hashFn != "sha512.Sum512(buf.Bytes())" {
		return fmt.Errorf("CalculateHash no longer ends in sha512.Sum512(buf.Bytes())")
	}
	// sections that must not depend on the version
	for v := 1; v <= cur+1; v++ {
		for _, pr := range [][2]*alFuncFacts{{vs[0].hash, vs[v].hash}, {vs[0].bw, vs[v].bw}, {vs[0].br, vs[v].br}} {
			if !c27EventsEqual(pr[0].pre, pr[1].pre) || !c27EventsEqual(pr[0].tail, pr[1].tail) ||
				!c27EventsEqual(pr[0].kinds["genesis"], pr[1].kinds["genesis"]) || !c27EventsEqual(pr[0].kinds["grounding"], pr[1].kinds["grounding"]) {
				return fmt.Errorf("a version-dependent section other than the LOG details: not modelled")
			}
		}
	}

	jsonF, err := x.ParseFile("internal/auditlog/serialization/json.go")
	if err != nil {
		return err
	}
	jf, err := c27ExtractJSON(x, jsonF, fields)
	if err != nil {
		return fmt.Errorf("json.go: %w", err)
	}

	// entry type strings
	typeStr := func(c string) (string, error) {
		v, ok := t.consts[c]
		if !ok {
			return "", fmt.Errorf("const %s not found", c)
		}
		return strconv.Unquote(v)
	}
	tg, e1 := typeStr("EntryTypeGenesis")
	tl, e2 := typeStr("EntryTypeLog")
	tgr, e3 := typeStr("EntryTypeGrounding")
	if e1 != nil || e2 != nil || e3 != nil {
		return fmt.Errorf("entry type constants: %v %v %v", e1, e2, e3)
	}

	L := x.Lean
	fmt.Fprintf(L, "-- Tables: (field, width) with width 0 = uint32 big-endian length prefix + bytes, n > 0 = exactly n raw bytes.\n")
	fmt.Fprintf(L, "namespace Pithos.Gen.AuditLog\n\n")
	fmt.Fprintf(L, "def currentVersion : Nat := %d\n", cur)
	fmt.Fprintf(L, "def groundingBlockSize : Nat := %d\n", gbs)
	fmt.Fprintf(L, "def typeGenesis : String := %s\ndef typeLog : String := %s\ndef typeGrounding : String := %s\n\n", LeanStr(tg), LeanStr(tl), LeanStr(tgr))
	fmt.Fprintf(L, "/-- Leaf fields of the Go structs (declared width; 0 = string / []byte; time.Time = 8). -/\n")
	fmt.Fprintf(L, "def entryFields : List (String × Nat) := %s\n", c27LeanFields(entryFields))
	fmt.Fprintf(L, "def logFields : List (String × Nat) := %s\n", c27LeanFields(logFields))
	fmt.Fprintf(L, "def groundingFields : List (String × Nat) := %s\n\n", c27LeanFields(grFields))

	emitSection := func(name string, ev []alEvent) error {
		s, err := c27LeanEvents(ev)
		if err != nil {
			return fmt.Errorf("%s: %w", name, err)
		}
		fmt.Fprintf(L, "def %s : List (String × Nat) := %s\n", name, s)
		return nil
	}
	emitByVersion := func(name string, get func(v int) []alEvent) error {
		fmt.Fprintf(L, "def %s : Nat → List (String × Nat)\n", name)
		for v := 0; v <= cur+1; v++ {
			s, err := c27LeanEvents(get(v))
			if err != nil {
				return fmt.Errorf("%s v%d: %w", name, v, err)
			}
			pat := strconv.Itoa(v)
			if v == cur+1 {
				pat = "_"
			}
			fmt.Fprintf(L, "  | %s => %s\n", pat, s)
		}
		return nil
	}
	// hash: the tail may contain one unbounded raw write as the very last event
	ht := vs[0].hash.tail
	var tailNames []string
	for i, e := range ht {
		if e.Width >= 0 {
			return fmt.Errorf("CalculateHash: unexpected length-delimited write of %s after the details", e.Field)
		}
		if i != len(ht)-1 {
			return fmt.Errorf("CalculateHash: unbounded raw write of %s is not the last write", e.Field)
		}
		tailNames = append(tailNames, e.Field)
	}
	fmt.Fprintf(L, "/-- `Entry.CalculateHash`: what is fed to SHA-512, in order. -/\n")
	if err := emitSection("hashPre", vs[0].hash.pre); err != nil {
		return err
	}
	if err := emitByVersion("hashLog", func(v int) []alEvent { return vs[v].hash.kinds["log"] }); err != nil {
		return err
	}
	if err := emitSection("hashGenesis", vs[0].hash.kinds["genesis"]); err != nil {
		return err
	}
	if err := emitSection("hashGrounding", vs[0].hash.kinds["grounding"]); err != nil {
		return err
	}
	fmt.Fprintf(L, "/-- written raw (no length) at the very end -/\ndef hashTail : List String := %s\n\n", LeanStrList(tailNames))

	fmt.Fprintf(L, "/-- `BinarySerializer.Encode` (W) and `BinaryDecoder.Decode` (R). -/\n")
	for _, side := range []struct {
		sfx string
		get func(v int) *alFuncFacts
	}{{"W", func(v int) *alFuncFacts { return vs[v].bw }}, {"R", func(v int) *alFuncFacts { return vs[v].br }}} {
		g := side.get
		if err := emitSection("binPre"+side.sfx, g(0).pre); err != nil {
			return err
		}
		if err := emitByVersion("binLog"+side.sfx, func(v int) []alEvent { return g(v).kinds["log"] }); err != nil {
			return err
		}
		if err := emitSection("binGenesis"+side.sfx, g(0).kinds["genesis"]); err != nil {
			return err
		}
		if err := emitSection("binGrounding"+side.sfx, g(0).kinds["grounding"]); err != nil {
			return err
		}
		if err := emitSection("binTail"+side.sfx, g(0).tail); err != nil {
			return err
		}
	}
	fmt.Fprintf(L, "/-- LOG fields the binary decoder fills with constants instead of reading them, per version. -/\n")
	fmt.Fprintf(L, "def binLogDerivedR : Nat → List String\n")
	for v := 0; v <= cur+1; v++ {
		d := append([]string{}, vs[v].br.derived["log"]...)
		sort.Strings(d)
		d = c27Dedupe(d)
		pat := strconv.Itoa(v)
		if v == cur+1 {
			pat = "_"
		}
		fmt.Fprintf(L, "  | %s => %s\n", pat, LeanStrList(d))
	}

	fmt.Fprintf(L, "\n/-- `JsonSerializer`: (field, json path, omitempty, codec). Versions ≤ jsonLegacyMax use the legacy LOG layout. -/\n")
	fmt.Fprintf(L, "def jsonLegacyMax : Nat := %d\n", jf.legacyMax)
	fmt.Fprintf(L, "def jsonEntryW : List (String × String × Bool × String) :=\n   %s\n", c27LeanJSON(jf.entryW))
	fmt.Fprintf(L, "def jsonEntryR : List (String × String × Bool × String) :=\n   %s\n", c27LeanJSON(jf.entryR))
	fmt.Fprintf(L, "def jsonLogW : List (String × String × Bool × String) :=\n   %s\n", c27LeanJSON(jf.logW[2]))
	fmt.Fprintf(L, "def jsonLogR : List (String × String × Bool × String) :=\n   %s\n", c27LeanJSON(jf.logR[2]))
	fmt.Fprintf(L, "def jsonLogLegacyW : List (String × String × Bool × String) :=\n   %s\n", c27LeanJSON(jf.logW[1]))
	fmt.Fprintf(L, "def jsonLogLegacyR : List (String × String × Bool × String) :=\n   %s\n", c27LeanJSON(jf.logR[1]))
	fmt.Fprintf(L, "def jsonGroundingW : List (String × String × Bool × String) :=\n   %s\n", c27LeanJSON(jf.grW))
	fmt.Fprintf(L, "def jsonGroundingR : List (String × String × Bool × String) :=\n   %s\n", c27LeanJSON(jf.grR))
	// how the timestamp (a Go time.Time: an instant plus a Location) is written and read
	chSrc, beSrc, bdSrc := x.Src(ch), x.Src(be), x.Src(bd)
	if !strings.Contains(chSrc, "binary.Write(buf, binary.BigEndian, e.Timestamp.UnixNano())") {
		return fmt.Errorf("CalculateHash no longer hashes e.Timestamp.UnixNano()")
	}
	if !strings.Contains(beSrc, "binary.Write(w, binary.BigEndian, e.Timestamp.UnixNano())") {
		return fmt.Errorf("binary Encode no longer writes e.Timestamp.UnixNano()")
	}
	if !strings.Contains(bdSrc, "e.Timestamp = time.Unix(0, ts)") {
		return fmt.Errorf("binary Decode no longer reads the timestamp with time.Unix(0, ts)")
	}
	var tw, tr *alJSON
	for i := range jf.entryW {
		if jf.entryW[i].Field == "Timestamp" {
			tw = &jf.entryW[i]
		}
	}
	for i := range jf.entryR {
		if jf.entryR[i].Field == "Timestamp" {
			tr = &jf.entryR[i]
		}
	}
	if tw == nil || tr == nil || tw.Codec != "time" || tr.Codec != "time" {
		return fmt.Errorf("json: the timestamp is not written/read with the time codec")
	}
	fmt.Fprintf(L, "/-- Timestamp codecs. Hash and binary use the instant (`UnixNano`, zone independent). JSON write: the\nconversions applied to `e.Timestamp` (outermost first) and the layout; JSON read: the parser. -/\n")
	fmt.Fprintf(L, "def hashTime : String := \"UnixNano\"\ndef binTimeW : String := \"UnixNano\"\ndef binTimeR : String := \"Unix(0,ns)\"\n")
	fmt.Fprintf(L, "def jsonTimeWrite : List String := %s\n", LeanStrList(tw.Wrap))
	fmt.Fprintf(L, "def jsonTimeLayout : String := %s\n", LeanStr(tw.Layout))
	fmt.Fprintf(L, "def jsonTimeRead : List String := %s\n", LeanStrList(tr.Wrap))
	fmt.Fprintf(L, "def jsonLogDerivedR : List String := %s\n", LeanStrList(jf.logDerivedR[2]))
	fmt.Fprintf(L, "def jsonLogLegacyDerivedR : List String := %s\n", LeanStrList(jf.logDerivedR[1]))
	fmt.Fprintf(L, "\nend Pithos.Gen.AuditLog\n")
	return nil
}

func c27Dedupe(xs []string) []string {
	var out []string
	for i, s := range xs {
		if i == 0 || s != xs[i-1] {
			out = append(out, s)
		}
	}
	return out
}
