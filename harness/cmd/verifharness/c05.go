//go:build verif

package main

import (
	"bytes"
	"context"
	"encoding/hex"
	"fmt"
	"io"
	"mime"
	"mime/multipart"
	"net/http"
	"net/http/httptest"
	"path/filepath"
	"strconv"
	"strings"

	"github.com/jdillenkofer/pithos/internal/http/server"
	"github.com/jdillenkofer/pithos/internal/http/server/authorization"
	"github.com/jdillenkofer/pithos/internal/storage"
	"github.com/jdillenkofer/pithos/internal/verifx"
)

// C05: range reads. Two observation levels on two stacks:
//   h-lines: GET with a Range header through the real handler chain (server.SetupServer, no
//            credentials = authentication disabled, allow-all authorizer), in-process via ServeHTTP;
//   s-lines: storage.GetObject with []ByteRange, every reader read to EOF.
// Stacks: "fs" (filesystem part store: *os.File, SkipNBytes seeks) and "sql" (chunk reader in
// SQLite, SkipNBytes discards).
//
// Trace of one case:
//   obj <fs|sql> <nparts> <hex part>...
//   h <hdr hex> <status> plain <Content-Range hex|-> <Content-Length|-> <body hex|->
//   h <hdr hex> <status> multi <Content-Length|-> <boundary hex> <raw body hex> <Content-Range hex|-> <n|E> (<part Content-Range hex> <part body hex>)*
//   h <hdr hex> panic
//   s <n> <start:end>... | ok <hex>...        (":" separated, "_" = nil pointer)
//   s <n> <start:end>... | err <InvalidRange|other>
//   s <n> <start:end>... | rerr               (a reader failed or panicked)

type c05AllowAll struct{}

func (c05AllowAll) AuthorizeRequest(ctx context.Context, request *authorization.Request) (bool, error) {
	return true, nil
}

type c05Env struct {
	kind    string
	st      *verifx.Stack
	handler http.Handler
	bucket  storage.BucketName
	objs    map[string]storage.ObjectKey
}

func newC05Env(scratch, kind string) *c05Env {
	// "fs" / "sql": plain stores; anything else is a stack alias of the storage-history harness
	// (s3hist_stacks_more.go), e.g. "zstd" = compression directly over the filesystem store (small
	// parts are stored uncompressed behind a header: a seekable reader positioned past it),
	// "tink" = seekable decrypting reader, "gzipfs", "zstdsql".
	var st *verifx.Stack
	if kind == "fs" || kind == "sql" {
		st = verifx.NewStack(filepath.Join(scratch, "c05-"+kind), verifx.StackOpts{PartKind: kind})
	} else {
		st = newS3hStack(filepath.Join(scratch, "c05-"+kind), kind)
	}
	e := &c05Env{kind: kind, st: st, bucket: storage.MustNewBucketName("c05"), objs: map[string]storage.ObjectKey{}}
	verifx.Check(st.Storage.CreateBucket(context.Background(), e.bucket))
	e.handler = server.SetupServer(nil, "us-east-1", "localhost", "website.localhost", c05AllowAll{}, st.Storage)
	return e
}

// ensure stores an object consisting of exactly these parts (one part: PutObject when viaPut,
// otherwise a multipart upload with one UploadPart per part) and returns its key.
func (e *c05Env) ensure(parts [][]byte, viaPut bool) storage.ObjectKey {
	sig := fmt.Sprint(viaPut)
	for _, p := range parts {
		sig += "," + hex.EncodeToString(p)
	}
	if k, ok := e.objs[sig]; ok {
		return k
	}
	ctx := context.Background()
	key := storage.MustNewObjectKey("o" + strconv.Itoa(len(e.objs)))
	if viaPut && len(parts) == 1 {
		verifx.Must(e.st.Storage.PutObject(ctx, e.bucket, key, nil, bytes.NewReader(parts[0]), nil, nil))
	} else {
		up := verifx.Must(e.st.Storage.CreateMultipartUpload(ctx, e.bucket, key, nil, nil, nil))
		for i, p := range parts {
			verifx.Must(e.st.Storage.UploadPart(ctx, e.bucket, key, up.UploadId, int32(i+1), bytes.NewReader(p), nil))
		}
		verifx.Must(e.st.Storage.CompleteMultipartUpload(ctx, e.bucket, key, up.UploadId, nil, nil))
	}
	e.objs[sig] = key
	return key
}

func c05HexOpt(present bool, s string) string {
	if !present {
		return "-"
	}
	if s == "" {
		return "00" // present but empty: never produced by the handler; keep it distinguishable
	}
	return verifx.HexS(s)
}

// httpGet performs one GET and renders the observation line.
func (e *c05Env) httpGet(key storage.ObjectKey, hdr string) (line string) {
	prefix := "h " + verifx.HexS(hdr) + " "
	defer func() {
		if r := recover(); r != nil {
			line = prefix + "panic"
		}
	}()
	req := httptest.NewRequest("GET", "http://localhost/"+e.bucket.String()+"/"+key.String(), nil)
	if hdr != "" {
		req.Header["Range"] = []string{hdr}
	}
	rec := httptest.NewRecorder()
	e.handler.ServeHTTP(rec, req)
	res := rec.Result()
	body := rec.Body.Bytes()
	_, hasCR := res.Header["Content-Range"]
	cr := c05HexOpt(hasCR, res.Header.Get("Content-Range"))
	cl := "-"
	if v, ok := res.Header["Content-Length"]; ok && len(v) > 0 {
		cl = strings.ReplaceAll(v[0], " ", "_")
		if cl == "" {
			cl = "?"
		}
	}
	mt, params, _ := mime.ParseMediaType(res.Header.Get("Content-Type"))
	if mt == "multipart/byteranges" {
		boundary := params["boundary"]
		var sb strings.Builder
		n := 0
		mr := multipart.NewReader(bytes.NewReader(body), boundary)
		bad := false
		for {
			p, err := mr.NextRawPart()
			if err == io.EOF {
				break
			}
			if err != nil {
				bad = true
				break
			}
			pb, err := io.ReadAll(p)
			if err != nil {
				bad = true
				break
			}
			_, has := p.Header["Content-Range"]
			sb.WriteString(" " + c05HexOpt(has, p.Header.Get("Content-Range")) + " " + verifx.Hex(pb))
			n++
		}
		ns := strconv.Itoa(n)
		if bad {
			ns = "E"
			sb.Reset()
		}
		// the boundary is a fresh ULID: print the raw body with a canonical boundary of the same length
		canon := strings.Repeat("B", len(boundary))
		raw := body
		if boundary != "" {
			raw = bytes.ReplaceAll(body, []byte(boundary), []byte(canon))
		}
		return fmt.Sprintf("%s%d multi %s %s %s %s %s%s", prefix, rec.Code, cl, verifx.HexS(canon), verifx.Hex(raw), cr, ns, sb.String())
	}
	bodyTok := "-"
	if rec.Code < 300 {
		bodyTok = verifx.Hex(body)
	}
	return fmt.Sprintf("%s%d plain %s %s %s", prefix, rec.Code, cr, cl, bodyTok)
}

type c05BR struct{ s, e *int64 }

func c05Ptr(v int64) *int64 { return &v }

func (b c05BR) String() string {
	f := func(p *int64) string {
		if p == nil {
			return "_"
		}
		return strconv.FormatInt(*p, 10)
	}
	return f(b.s) + ":" + f(b.e)
}

// storageGet calls GetObject with the ranges and reads every reader to EOF.
func (e *c05Env) storageGet(key storage.ObjectKey, brs []c05BR) (line string) {
	var sb strings.Builder
	fmt.Fprintf(&sb, "s %d", len(brs))
	ranges := make([]storage.ByteRange, len(brs))
	for i, b := range brs {
		sb.WriteString(" " + b.String())
		ranges[i] = storage.ByteRange{Start: b.s, End: b.e}
	}
	sb.WriteString(" | ")
	prefix := sb.String()
	defer func() {
		if r := recover(); r != nil {
			line = prefix + "rerr"
		}
	}()
	var arg []storage.ByteRange
	if len(ranges) > 0 {
		arg = ranges
	}
	_, readers, err := e.st.Storage.GetObject(context.Background(), e.bucket, key, arg, nil)
	if err != nil {
		if err == storage.ErrInvalidRange {
			return prefix + "err InvalidRange"
		}
		return prefix + "err other"
	}
	out := "ok"
	failed := false
	for _, r := range readers {
		b, rerr := io.ReadAll(r)
		if rerr != nil {
			failed = true
		}
		out += " " + verifx.Hex(b)
	}
	for _, r := range readers {
		_ = r.Close()
	}
	if failed {
		return prefix + "rerr"
	}
	return prefix + out
}

// ---------------------------------------------------------------- case description

type c05Req struct {
	hdr   string  // HTTP request when brs == nil
	brs   []c05BR // storage request when isSto
	isSto bool
}

type c05Case struct {
	kind   string
	parts  [][]byte
	viaPut bool
	reqs   []c05Req
}

func c05H(hs ...string) []c05Req {
	out := make([]c05Req, len(hs))
	for i, h := range hs {
		out[i] = c05Req{hdr: h}
	}
	return out
}

func c05S(brs ...c05BR) c05Req { return c05Req{brs: brs, isSto: true} }

func c05R(s, e int64) c05BR { return c05BR{c05Ptr(s), c05Ptr(e)} }
func c05From(s int64) c05BR { return c05BR{c05Ptr(s), nil} }
func c05Suf(n int64) c05BR  { return c05BR{nil, c05Ptr(n)} }

// c05Content: byte i of a small deterministic object is i+1, so a slice shows its position.
func c05Content(n int) []byte {
	b := make([]byte, n)
	for i := range b {
		b[i] = byte((i + 1) % 251)
	}
	return b
}

func c05Split(content []byte, sizes ...int) [][]byte {
	var parts [][]byte
	off := 0
	for _, s := range sizes {
		parts = append(parts, content[off:off+s])
		off += s
	}
	if off != len(content) {
		parts = append(parts, content[off:])
	}
	return parts
}

const (
	c05Max   = "9223372036854775807"  // 2^63-1
	c05MaxP1 = "9223372036854775808"  // 2^63
	c05U64   = "18446744073709551615" // 2^64-1
	c05Big   = "99999999999999999999" // 20 digits
)

var c05Extremes = []string{c05Max, c05MaxP1, "9223372036854775806", c05U64, "18446744073709551616", c05Big,
	"000000000000000000000000000003", "00", "340282366920938463463374607431768211456"}

func c05Directed() []c05Case {
	ten := c05Content(10)
	fifteen := c05Content(15)
	var cs []c05Case
	extreme := c05H(
		"bytes=0-"+c05Max,        // known: end+1 wraps
		"bytes=0-1,500-600",      // known: one unsatisfiable member
		"bytes=0-"+c05Big,        // known: numeral exceeds int64
		"bytes=-"+c05Big,         // known: numeral exceeds int64 (suffix)
		"bytes=0-"+c05MaxP1,      // 2^63
		"bytes=3-9223372036854775806",
		"bytes="+c05Max+"-",      // unsatisfiable
		"bytes="+c05Big+"-",      // unsatisfiable, unparsable
		"bytes=-"+c05Max,
		"bytes=0-1,2-3", "bytes=0-1, 2-3", "bytes=0-1 ,\t2-3 , -1", "bytes=9-", "bytes=10-", "bytes=-0", "bytes=-3",
		"bytes=5-2", "bytes=0-0", "bytes=9-9", "bytes=10-10", "bytes=0-9", "bytes=0-10", "bytes=-10", "bytes=-11",
		"bytes=00000000000000000000001-0000000000000000000003",
		"bytes=20-30,40-", "bytes=-0,12-",
		// not valid syntax (tied, not judged)
		"bytes= 0-1", "bytes=0-1 ", "Bytes=0-1", "bytes=0-1,,2-3", "bytes=,0-1", "bytes=+1-2", "bytes=1--2", "bytes=1-+2",
		"bytes=", "bytes", "=", "items=0-1", "bytes=a-b", "bytes=-", "bytes=0-1,-", "bytes=0 -1", "bytes=0- 1", "bytes==0-1",
		"bytes=0-1=", "bytes=0x1-2", "bytes=1_0-2", "bytes=--1", "bytes=-+1", "bytes=-"+c05MaxP1+"x", "bytes=1-2-3",
		"", // no Range header: the 200 path (tied only)
	)
	for _, kind := range []string{"fs", "sql"} {
		cs = append(cs, c05Case{kind: kind, parts: [][]byte{ten}, viaPut: true, reqs: extreme})
		cs = append(cs, c05Case{kind: kind, parts: c05Split(fifteen, 5, 5, 5), reqs: append(c05H(
			"bytes=4-5", "bytes=4-10", "bytes=5-9", "bytes=0-14", "bytes=0-15", "bytes=14-", "bytes=15-", "bytes=-6", "bytes=-15",
			"bytes=-16", "bytes=4-5,9-10,-1", "bytes=10-,0-4", "bytes=5-5,5-5", "bytes=0-4,5-9,10-14", "bytes=3-11,-11,11-", "",
		),
			c05S(c05R(0, 5)), c05S(c05R(4, 11)), c05S(c05Suf(6)), c05S(c05From(5)), c05S(c05R(-1, 3)), c05S(c05R(3, 3)),
			c05S(c05R(3, 2)), c05S(c05R(0, 100)), c05S(c05Suf(0)), c05S(c05Suf(-1)), c05S(c05BR{}), c05S(),
			c05S(c05R(14, 9223372036854775807)), c05S(c05R(0, -9223372036854775808)), c05S(c05R(15, 16)), c05S(c05From(15)),
			c05S(c05From(-1)), c05S(c05Suf(9223372036854775807)), c05S(c05R(4, 6), c05R(9, 11), c05Suf(1)),
			c05S(c05R(0, 2), c05R(500, 601)), c05S(c05BR{}, c05R(1, 2)),
		)})
		cs = append(cs, c05Case{kind: kind, parts: [][]byte{{}}, viaPut: true, reqs: append(c05H(
			"bytes=0-0", "bytes=0-", "bytes=-1", "bytes=-0", "bytes=0-0,-1", "bytes=0-"+c05Max, "",
		), c05S(c05BR{}), c05S(), c05S(c05R(0, 1)), c05S(c05Suf(1)), c05S(c05From(0)))})
		big := verifx.NewRng(0xC05).Bytes(357)
		cs = append(cs, c05Case{kind: kind, parts: c05Split(big, 100, 57, 200), reqs: append(c05H(
			"bytes=99-100", "bytes=99-157", "bytes=100-156", "bytes=0-356", "bytes=50-300", "bytes=-201", "bytes=-200", "bytes=157-",
			"bytes=156-157,0-0,356-", "bytes=1-355", "bytes=357-", "bytes=0-"+c05Max, "bytes=0-1,357-",
		), c05S(c05R(99, 158)), c05S(c05R(1, 356), c05Suf(201), c05From(156)))})
	}
	// a zero-length part in the middle (filesystem store only: the SQL part store keeps no chunk
	// for empty content, which is C15's business)
	seven := c05Content(7)
	cs = append(cs, c05Case{kind: "fs", parts: [][]byte{seven[:3], {}, seven[3:]}, reqs: append(c05H(
		"bytes=2-3", "bytes=3-3", "bytes=0-6", "bytes=-4", "bytes=-5", "bytes=2-2,3-",
	), c05S(c05R(2, 4)), c05S(c05R(3, 4)), c05S(c05From(3)))})
	return cs
}

// ---------------------------------------------------------------- generators

func c05Num(r *verifx.Rng, hi int) string {
	switch {
	case r.Chance(1, 12):
		return verifx.Pick(r, c05Extremes)
	case r.Chance(1, 12):
		return strings.Repeat("0", 1+r.Intn(22)) + strconv.Itoa(r.Intn(hi+1))
	}
	return strconv.Itoa(r.Intn(hi + 1))
}

// c05Elem renders one (mostly valid) range-spec around an object of the given size.
func c05Elem(r *verifx.Rng, size int, satisfiable bool) string {
	hi := size + 3
	if satisfiable && size > 0 {
		switch r.Intn(3) {
		case 0:
			a := r.Intn(size)
			b := a + r.Intn(size+3-a)
			bs := strconv.Itoa(b)
			if r.Chance(1, 8) {
				bs = verifx.Pick(r, c05Extremes[:6])
			}
			return strconv.Itoa(a) + "-" + bs
		case 1:
			return strconv.Itoa(r.Intn(size)) + "-"
		default:
			n := 1 + r.Intn(size+2)
			if r.Chance(1, 10) {
				return "-" + verifx.Pick(r, c05Extremes[:6])
			}
			return "-" + strconv.Itoa(n)
		}
	}
	switch r.Intn(4) {
	case 0:
		a := size + r.Intn(4)
		return strconv.Itoa(a) + "-" + strconv.Itoa(a+r.Intn(3))
	case 1:
		return strconv.Itoa(size+r.Intn(4)) + "-"
	case 2:
		return "-0"
	default:
		return c05Num(r, hi) + "-" + c05Num(r, hi)
	}
}

func c05Sep(r *verifx.Rng) string {
	switch r.Intn(6) {
	case 0:
		return ", "
	case 1:
		return " ,"
	case 2:
		return " ,\t "
	}
	return ","
}

func c05Header(r *verifx.Rng, size int) string {
	switch {
	case r.Chance(55, 100): // single
		return "bytes=" + c05Elem(r, size, r.Chance(5, 6))
	default:
		n := 2 + r.Intn(3)
		allSat := r.Chance(1, 2)
		var sb strings.Builder
		sb.WriteString("bytes=")
		for i := 0; i < n; i++ {
			if i > 0 {
				sb.WriteString(c05Sep(r))
			}
			sb.WriteString(c05Elem(r, size, allSat || r.Chance(2, 3)))
		}
		return sb.String()
	}
}

const c05Alphabet = "0123456789-,= \tbytesB+x_"

// c05Malformed mutates a valid header (ASCII only).
func c05Malformed(r *verifx.Rng, size int) string {
	if r.Chance(1, 5) {
		n := r.Intn(14)
		b := make([]byte, n)
		for i := range b {
			b[i] = c05Alphabet[r.Intn(len(c05Alphabet))]
		}
		if r.Bool() {
			return "bytes=" + string(b)
		}
		return string(b)
	}
	h := []byte(c05Header(r, size))
	for m := 1 + r.Intn(2); m > 0; m-- {
		pos := r.Intn(len(h) + 1)
		switch r.Intn(3) {
		case 0:
			c := c05Alphabet[r.Intn(len(c05Alphabet))]
			h = append(h[:pos], append([]byte{c}, h[pos:]...)...)
		case 1:
			if pos < len(h) {
				h = append(h[:pos], h[pos+1:]...)
			}
		default:
			if pos < len(h) {
				h[pos] = c05Alphabet[r.Intn(len(c05Alphabet))]
			}
		}
	}
	return string(h)
}

var c05ExtremeInts = []int64{9223372036854775807, -9223372036854775808, 9223372036854775806, -1, 0}

func c05RandBR(r *verifx.Rng, size int) c05BR {
	v := func() *int64 {
		switch {
		case r.Chance(1, 6):
			return nil
		case r.Chance(1, 10):
			return c05Ptr(verifx.Pick(r, c05ExtremeInts))
		case r.Chance(1, 10):
			return c05Ptr(int64(-1 - r.Intn(3)))
		}
		return c05Ptr(int64(r.Intn(size + 3)))
	}
	if r.Chance(2, 3) && size > 0 { // valid
		switch r.Intn(3) {
		case 0:
			a := r.Intn(size)
			return c05R(int64(a), int64(a+1+r.Intn(size+2-a)))
		case 1:
			return c05From(int64(r.Intn(size)))
		default:
			return c05Suf(int64(1 + r.Intn(size+2)))
		}
	}
	return c05BR{v(), v()}
}

func c05RandomParts(r *verifx.Rng, fsKind bool) [][]byte {
	if r.Chance(1, 8) { // larger object, random bytes
		n := 2 + r.Intn(3)
		var parts [][]byte
		for i := 0; i < n; i++ {
			parts = append(parts, r.Bytes(20+r.Intn(280)))
		}
		return parts
	}
	size := r.Intn(16)
	content := c05Content(size)
	np := 1 + r.Intn(3)
	if np == 1 || size == 0 {
		return [][]byte{content}
	}
	cut := []int{r.Intn(size + 1), r.Intn(size + 1)}
	if cut[0] > cut[1] {
		cut[0], cut[1] = cut[1], cut[0]
	}
	var parts [][]byte
	if np == 2 {
		parts = [][]byte{content[:cut[0]], content[cut[0]:]}
	} else {
		parts = [][]byte{content[:cut[0]], content[cut[0]:cut[1]], content[cut[1]:]}
	}
	// zero-length parts only on the filesystem stack (see c05Directed)
	var keep [][]byte
	for _, p := range parts {
		if len(p) > 0 || (fsKind && r.Chance(1, 3)) {
			keep = append(keep, p)
		}
	}
	if len(keep) == 0 {
		keep = [][]byte{{}}
	}
	return keep
}

func c05Random(r *verifx.Rng) c05Case {
	c := c05Case{kind: verifx.Pick(r, []string{"fs", "fs", "fs", "sql", "sql", "sql", "zstd", "tink", "gzipfs", "zstdsql"})}
	c.parts = c05RandomParts(r, c.kind == "fs")
	c.viaPut = len(c.parts) == 1 && r.Bool()
	size := 0
	for _, p := range c.parts {
		size += len(p)
	}
	n := 6 + r.Intn(5)
	for i := 0; i < n; i++ {
		switch {
		case r.Chance(1, 4):
			m := 1
			if r.Chance(1, 3) {
				m = 2 + r.Intn(2)
			}
			var brs []c05BR
			for j := 0; j < m; j++ {
				brs = append(brs, c05RandBR(r, size))
			}
			c.reqs = append(c.reqs, c05S(brs...))
		case r.Chance(1, 6):
			c.reqs = append(c.reqs, c05Req{hdr: c05Malformed(r, size)})
		default:
			c.reqs = append(c.reqs, c05Req{hdr: c05Header(r, size)})
		}
	}
	return c
}

// c05Singles lists every single range a-b (a ≤ b), a-, -n with positions up to size+1, as
// (header element, equivalent storage range).
func c05Singles(size int) (hs []string, brs []c05BR) {
	for a := 0; a <= size+1; a++ {
		for b := a; b <= size+1; b++ {
			hs = append(hs, fmt.Sprintf("%d-%d", a, b))
			brs = append(brs, c05R(int64(a), int64(b+1)))
		}
		hs = append(hs, fmt.Sprintf("%d-", a))
		brs = append(brs, c05From(int64(a)))
		hs = append(hs, fmt.Sprintf("-%d", a))
		brs = append(brs, c05Suf(int64(a)))
	}
	return
}

func c05Exhaustive() []c05Case {
	var cs []c05Case
	chunk := func(kind string, parts [][]byte, reqs []c05Req) {
		for len(reqs) > 0 {
			n := min(len(reqs), 64)
			cs = append(cs, c05Case{kind: kind, parts: parts, reqs: reqs[:n]})
			reqs = reqs[n:]
		}
	}
	for _, kind := range []string{"fs", "sql"} {
		for size := 0; size <= 15; size++ {
			content := c05Content(size)
			splits := [][][]byte{{content}}
			if size >= 2 {
				splits = append(splits, c05Split(content, size/2))
			}
			if size >= 3 {
				splits = append(splits, c05Split(content, size/3, size/3))
			}
			hs, brs := c05Singles(size)
			for _, parts := range splits {
				var reqs []c05Req
				for i := range hs {
					reqs = append(reqs, c05Req{hdr: "bytes=" + hs[i]}, c05S(brs[i]))
				}
				chunk(kind, parts, reqs)
			}
		}
		// all ordered pairs of single ranges for a few sizes
		for _, sz := range []struct {
			size  int
			split []int
		}{{1, nil}, {4, []int{2}}, {7, []int{2, 3}}} {
			content := c05Content(sz.size)
			parts := c05Split(content, sz.split...)
			hs, brs := c05Singles(sz.size)
			var reqs []c05Req
			for i := range hs {
				for j := range hs {
					reqs = append(reqs, c05Req{hdr: "bytes=" + hs[i] + "," + hs[j]})
					if (i+j)%7 == 0 {
						reqs = append(reqs, c05S(brs[i], brs[j]))
					}
				}
			}
			chunk(kind, parts, reqs)
		}
	}
	return cs
}

func init() { register("c05", runC05) }

func runC05(args []string) {
	f := verifx.ParseFlags("c05", args, 500, 4000)
	out := verifx.NewOut()
	envs := map[string]*c05Env{}
	env := func(kind string) *c05Env {
		if e, ok := envs[kind]; ok {
			return e
		}
		e := newC05Env(f.Scratch, kind)
		envs[kind] = e
		return e
	}
	defer func() {
		for _, e := range envs {
			e.st.Close()
		}
	}()

	k := 0
	emit := func(c c05Case, seed uint64) {
		if !f.Wants(k) {
			k++
			return
		}
		out.Case(k, seed)
		k++
		e := env(c.kind)
		key := e.ensure(c.parts, c.viaPut)
		var sb strings.Builder
		for _, p := range c.parts {
			sb.WriteString(" " + verifx.Hex(p))
		}
		out.Line("obj %s %d%s", c.kind, len(c.parts), sb.String())
		for _, rq := range c.reqs {
			if rq.isSto {
				out.Line("%s", e.storageGet(key, rq.brs))
			} else {
				out.Line("%s", e.httpGet(key, rq.hdr))
			}
		}
		out.End()
	}

	for i, c := range c05Directed() {
		emit(c, uint64(i))
	}
	if f.Tier == "thorough" {
		for i, c := range c05Exhaustive() {
			emit(c, uint64(i))
		}
	}
	for c := 0; c < f.Cases; c++ {
		seed := verifx.CaseSeed(f.Seed, k)
		if !f.Wants(k) {
			k++
			continue
		}
		emit(c05Random(verifx.NewRng(seed)), seed)
	}
	out.Flush()
}
