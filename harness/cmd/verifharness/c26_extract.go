//go:build verif

package main

import (
	"fmt"
	"go/ast"
	"go/token"
	"strings"
)

// T1 extractor "auditoverrides": regenerates lean/Pithos/Gen/AuditOverrides.lean from
//   internal/storage/storage.go                     the methods of storage.Storage (embedded interfaces)
//   internal/lifecycle/lifecycle.go                 lifecycle.Manager (Start/Stop: not storage calls)
//   internal/storage/middlewares/audit/audit.go     which methods AuditLogMiddleware overrides, whether each
//                                                   logs START before and COMPLETE after the inner call,
//                                                   and what happens inside the mu.Lock() region of log()
// Fails closed on shapes it does not recognise.

func init() { registerExtractor("auditoverrides", extractAuditOverrides) }

func c26InterfaceDecls(f *ast.File) map[string]*ast.InterfaceType {
	out := map[string]*ast.InterfaceType{}
	for _, d := range f.Decls {
		if gd, ok := d.(*ast.GenDecl); ok {
			for _, s := range gd.Specs {
				if ts, ok := s.(*ast.TypeSpec); ok {
					if it, ok := ts.Type.(*ast.InterfaceType); ok {
						out[ts.Name.Name] = it
					}
				}
			}
		}
	}
	return out
}

func c26IfaceMethods(it *ast.InterfaceType) ([]string, []ast.Expr, error) {
	var ms []string
	var embedded []ast.Expr
	for _, m := range it.Methods.List {
		if len(m.Names) == 0 {
			embedded = append(embedded, m.Type)
			continue
		}
		if _, ok := m.Type.(*ast.FuncType); !ok {
			return nil, nil, fmt.Errorf("unsupported interface element")
		}
		for _, n := range m.Names {
			ms = append(ms, n.Name)
		}
	}
	return ms, embedded, nil
}

type c26OvFact struct {
	Method   string
	Op       string // auditlog.OpXxx constant name
	Shape    string // "run" | "explicit"
	Start    bool   // a START entry is logged before the inner call
	Complete bool   // a COMPLETE entry carrying the inner call's error is logged after it
	Inner    string // the method called on m.Next
}

// c26IsLogCall recognises m.log(ctx, auditlog.OpX, auditlog.Phase<P>, resource, err, status, dur).
func c26IsLogCall(x *ExtractCtx, s ast.Stmt) (op, phase, errArg string, ok bool) {
	es, isExpr := s.(*ast.ExprStmt)
	if !isExpr {
		return
	}
	c, isCall := es.X.(*ast.CallExpr)
	if !isCall || x.Src(c.Fun) != "m.log" || len(c.Args) != 7 {
		return
	}
	return x.Src(c.Args[1]), x.Src(c.Args[2]), x.Src(c.Args[4]), true
}

// nextCall finds the single call m.Next.<X>(...) in a node.
func c26NextCalls(x *ExtractCtx, n ast.Node) []string {
	var out []string
	ast.Inspect(n, func(n ast.Node) bool {
		if c, ok := n.(*ast.CallExpr); ok {
			if sel, ok := c.Fun.(*ast.SelectorExpr); ok && x.Src(sel.X) == "m.Next" {
				out = append(out, sel.Sel.Name)
			}
		}
		return true
	})
	return out
}

func extractAuditOverrides(x *ExtractCtx) error {
	stF, err := x.ParseFile("internal/storage/storage.go")
	if err != nil {
		return err
	}
	decls := c26InterfaceDecls(stF)
	st, ok := decls["Storage"]
	if !ok {
		return fmt.Errorf("type Storage interface not found")
	}
	x.Note("interface Storage", st)
	own, embedded, err := c26IfaceMethods(st)
	if err != nil {
		return err
	}
	storageMethods := append([]string{}, own...)
	var lifecycleMethods []string
	for _, e := range embedded {
		switch t := e.(type) {
		case *ast.Ident:
			it, ok := decls[t.Name]
			if !ok {
				return fmt.Errorf("embedded interface %s not declared in storage.go", t.Name)
			}
			ms, emb2, err := c26IfaceMethods(it)
			if err != nil || len(emb2) != 0 {
				return fmt.Errorf("interface %s: nested embedding / unsupported element", t.Name)
			}
			x.Note("interface "+t.Name, it)
			storageMethods = append(storageMethods, ms...)
		case *ast.SelectorExpr:
			if x.Src(t) != "lifecycle.Manager" {
				return fmt.Errorf("unknown embedded interface %s", x.Src(t))
			}
			lf, err := x.ParseFile("internal/lifecycle/lifecycle.go")
			if err != nil {
				return err
			}
			it, ok := c26InterfaceDecls(lf)["Manager"]
			if !ok {
				return fmt.Errorf("lifecycle.Manager not found")
			}
			ms, emb2, err := c26IfaceMethods(it)
			if err != nil || len(emb2) != 0 {
				return fmt.Errorf("lifecycle.Manager: unsupported shape")
			}
			x.Note("interface lifecycle.Manager", it)
			lifecycleMethods = ms
		default:
			return fmt.Errorf("unsupported embedded element %s", x.Src(e))
		}
	}
	isStorage := map[string]bool{}
	for _, m := range storageMethods {
		isStorage[m] = true
	}

	auF, err := x.ParseFile("internal/storage/middlewares/audit/audit.go")
	if err != nil {
		return err
	}
	// ---- run(): START, fn, COMPLETE(err)
	run := FindFunc(auF, "AuditLogMiddleware", "run")
	if run == nil {
		return fmt.Errorf("AuditLogMiddleware.run not found")
	}
	x.Note("run", run)
	runOK := false
	{
		b := run.Body.List
		// start := time.Now(); m.log(.. op, PhaseStart ..); err := fn(ctx); m.log(.. op, PhaseComplete, resource, err ..); return err
		if len(b) == 5 {
			op1, ph1, _, ok1 := c26IsLogCall(x, b[1])
			a, okA := b[2].(*ast.AssignStmt)
			op2, ph2, e2, ok2 := c26IsLogCall(x, b[3])
			r, okR := b[4].(*ast.ReturnStmt)
			if ok1 && ok2 && okA && okR && op1 == "op" && op2 == "op" && ph1 == "auditlog.PhaseStart" && ph2 == "auditlog.PhaseComplete" &&
				x.Src(a) == "err := fn(ctx)" && e2 == "err" && len(r.Results) == 1 && x.Src(r.Results[0]) == "err" &&
				strings.HasPrefix(x.Src(b[0]), "start := time.Now()") {
				runOK = true
			}
		}
	}
	if !runOK {
		return fmt.Errorf("AuditLogMiddleware.run no longer has the shape START; err := fn(ctx); COMPLETE(err); return err")
	}

	// ---- the overrides
	var facts []c26OvFact
	var otherMethods []string
	for _, d := range auF.Decls {
		fd, ok := d.(*ast.FuncDecl)
		if !ok || fd.Recv == nil || len(fd.Recv.List) != 1 {
			continue
		}
		rt := fd.Recv.List[0].Type
		if se, ok := rt.(*ast.StarExpr); ok {
			rt = se.X
		}
		if id, ok := rt.(*ast.Ident); !ok || id.Name != "AuditLogMiddleware" {
			continue
		}
		name := fd.Name.Name
		if !isStorage[name] {
			otherMethods = append(otherMethods, name)
			continue
		}
		x.Note("override "+name, fd)
		fact := c26OvFact{Method: name}
		nexts := c26NextCalls(x, fd.Body)
		if len(nexts) != 1 {
			return fmt.Errorf("%s: expected exactly one call on m.Next, found %v", name, nexts)
		}
		fact.Inner = nexts[0]
		// shape "run": a call m.run(ctx, auditlog.OpX, resource, func(ctx) error {... m.Next.X ...})
		var runCall *ast.CallExpr
		ast.Inspect(fd.Body, func(n ast.Node) bool {
			if c, ok := n.(*ast.CallExpr); ok && x.Src(c.Fun) == "m.run" {
				runCall = c
			}
			return true
		})
		if runCall != nil {
			if len(runCall.Args) != 4 {
				return fmt.Errorf("%s: m.run with %d arguments", name, len(runCall.Args))
			}
			fl, ok := runCall.Args[3].(*ast.FuncLit)
			if !ok || len(c26NextCalls(x, fl)) != 1 {
				return fmt.Errorf("%s: the inner call is not inside the function passed to m.run", name)
			}
			// the closure must return the inner call's error
			last := fl.Body.List[len(fl.Body.List)-1]
			ret, ok := last.(*ast.ReturnStmt)
			if !ok || len(ret.Results) != 1 {
				return fmt.Errorf("%s: closure does not end in a single-value return", name)
			}
			rs := x.Src(ret.Results[0])
			if rs != "err" && !strings.HasPrefix(rs, "m.Next.") {
				return fmt.Errorf("%s: closure returns %q, not the inner call's error", name, rs)
			}
			// the method itself must return run's result
			outer := fd.Body.List[len(fd.Body.List)-1]
			oret, ok := outer.(*ast.ReturnStmt)
			if !ok {
				return fmt.Errorf("%s: does not end in a return", name)
			}
			lastRes := x.Src(oret.Results[len(oret.Results)-1])
			if lastRes != "err" && !strings.HasPrefix(lastRes, "m.run(") {
				return fmt.Errorf("%s: returns %q instead of run's error", name, lastRes)
			}
			fact.Shape, fact.Op, fact.Start, fact.Complete = "run", x.Src(runCall.Args[1]), true, true
			facts = append(facts, fact)
			continue
		}
		// shape "explicit": m.log(START) ... := m.Next.X(...) ... m.log(COMPLETE, .., err, ..) ... return
		fact.Shape = "explicit"
		seenNext := false
		for _, s := range fd.Body.List {
			if op, ph, errArg, ok := c26IsLogCall(x, s); ok {
				if fact.Op == "" {
					fact.Op = op
				} else if fact.Op != op {
					return fmt.Errorf("%s: START and COMPLETE use different operations", name)
				}
				switch ph {
				case "auditlog.PhaseStart":
					if !seenNext {
						fact.Start = true
					}
				case "auditlog.PhaseComplete":
					if seenNext && errArg == "err" {
						fact.Complete = true
					}
				default:
					return fmt.Errorf("%s: unknown phase %s", name, ph)
				}
				continue
			}
			if len(c26NextCalls(x, s)) == 1 {
				a, ok := s.(*ast.AssignStmt)
				if !ok || x.Src(a.Lhs[len(a.Lhs)-1]) != "err" {
					return fmt.Errorf("%s: the inner call's error is not assigned to err", name)
				}
				seenNext = true
			}
		}
		if fact.Op == "" {
			// overrides a storage method without logging at all
			fact.Shape = "unlogged"
		}
		facts = append(facts, fact)
	}

	// ---- the critical section of log() and emitGrounding()
	region := func(fn string) ([]string, error) {
		fd := FindFunc(auF, "AuditLogMiddleware", fn)
		if fd == nil {
			return nil, fmt.Errorf("AuditLogMiddleware.%s not found", fn)
		}
		x.Note(fn, fd)
		var steps []string
		locked := fn != "log" // emitGrounding is only called with mu held
		var walk func(stmts []ast.Stmt) error
		walk = func(stmts []ast.Stmt) error {
			for _, s := range stmts {
				src := x.Src(s)
				switch {
				case src == "m.mu.Lock()":
					if locked {
						return fmt.Errorf("%s: second Lock", fn)
					}
					locked = true
					steps = append(steps, "lock")
				case src == "defer m.mu.Unlock()":
					steps = append(steps, "defer-unlock")
				case src == "m.mu.Unlock()":
					steps = append(steps, "unlock")
					locked = false
				case !locked:
					// building the entry before taking the lock: irrelevant for the chain
				case src == "entry.PreviousHash = m.lastHash":
					steps = append(steps, "prev:=lastHash")
				case src == "_ = entry.Sign(m.signer)" || src == "_ = grounding.Sign(m.signer)":
					steps = append(steps, "sign")
				case src == "m.lastHash = entry.Hash" || src == "m.lastHash = grounding.Hash":
					steps = append(steps, "lastHash:=hash")
				case src == "m.hashBuffer = append(m.hashBuffer, entry.Hash)":
					steps = append(steps, "buffer+=hash")
				case src == "m.hashBuffer = m.hashBuffer[:0]":
					steps = append(steps, "buffer:=empty")
				case src == "root := auditlog.CalculateMerkleRoot(m.hashBuffer)":
					steps = append(steps, "root:=merkle(buffer)")
				case src == "sigEd, _ := m.signer.Sign(root)":
					steps = append(steps, "sigEd:=sign(root)")
				case src == "sigMl, _ := m.mlDsaSigner.Sign(root)":
					steps = append(steps, "sigMl:=sign(root)")
				case strings.HasPrefix(src, "grounding := &auditlog.Entry{"):
					ns := strings.Join(strings.Fields(src), " ")
					if !strings.Contains(ns, "PreviousHash: m.lastHash") || !strings.Contains(ns, "MerkleRootHash: root") ||
						!strings.Contains(ns, "SignatureEd25519: sigEd") || !strings.Contains(ns, "SignatureMlDsa87: sigMl") ||
						!strings.Contains(ns, "Type: auditlog.EntryTypeGrounding") {
						return fmt.Errorf("%s: grounding entry literal changed shape", fn)
					}
					steps = append(steps, "grounding{prev:=lastHash,root,sigEd,sigMl}")
				default:
					ifs, ok := s.(*ast.IfStmt)
					if !ok {
						return fmt.Errorf("%s: unrecognised statement in the critical section: %s", fn, src)
					}
					switch {
					case ifs.Init != nil && (x.Src(ifs.Init) == "err := m.sink.WriteEntry(entry)" || x.Src(ifs.Init) == "err := m.sink.WriteEntry(grounding)") && x.Src(ifs.Cond) == "err == nil" && ifs.Else == nil:
						steps = append(steps, "write{")
						if err := walk(ifs.Body.List); err != nil {
							return err
						}
						steps = append(steps, "}")
					case ifs.Init == nil && x.Src(ifs.Cond) == "len(m.hashBuffer) >= auditlog.GroundingBlockSize" && ifs.Else == nil && strings.Join(strings.Fields(x.Src(ifs.Body)), " ") == "{ m.emitGrounding() }":
						steps = append(steps, "if-full:emitGrounding")
					default:
						return fmt.Errorf("%s: unrecognised if in the critical section: %s", fn, src)
					}
				}
			}
			return nil
		}
		if err := walk(fd.Body.List); err != nil {
			return nil, err
		}
		return steps, nil
	}
	logSteps, err := region("log")
	if err != nil {
		return err
	}
	grSteps, err := region("emitGrounding")
	if err != nil {
		return err
	}
	// log() must build a LOG entry of the current version from its arguments
	logFd := FindFunc(auF, "AuditLogMiddleware", "log")
	ls := strings.Join(strings.Fields(x.Src(logFd)), " ")
	for _, must := range []string{"Version: auditlog.CurrentVersion", "Type: auditlog.EntryTypeLog", "Operation: op", "Phase: phase",
		"Bucket: resource.bucket", "SourceKey: resource.sourceKey", "RequestID: requestID", "Error: errMsg", "StatusCode: statusCode"} {
		if !strings.Contains(ls, must) {
			return fmt.Errorf("log(): entry literal no longer contains %q", must)
		}
	}

	// the Operation constants' string values (what is actually written to the log)
	enF, err := x.ParseFile("internal/auditlog/entry.go")
	if err != nil {
		return err
	}
	opValue := map[string]string{}
	for _, d := range enF.Decls {
		if gd, ok := d.(*ast.GenDecl); ok && gd.Tok == token.CONST {
			for _, sp := range gd.Specs {
				vs := sp.(*ast.ValueSpec)
				if id, ok := vs.Type.(*ast.Ident); ok && id.Name == "Operation" && len(vs.Names) == 1 && len(vs.Values) == 1 {
					if bl, ok := vs.Values[0].(*ast.BasicLit); ok && bl.Kind == token.STRING {
						opValue["auditlog."+vs.Names[0].Name] = strings.Trim(bl.Value, "\"")
					}
				}
			}
		}
	}
	for i := range facts {
		if facts[i].Op == "" {
			continue
		}
		v, ok := opValue[facts[i].Op]
		if !ok {
			return fmt.Errorf("%s: operation constant %s not found in entry.go", facts[i].Method, facts[i].Op)
		}
		facts[i].Op = v
	}

	L := x.Lean
	fmt.Fprintf(L, "namespace Pithos.Gen.AuditOverrides\n\n")
	fmt.Fprintf(L, "/-- Methods of the interfaces embedded in `storage.Storage` that are declared in storage.go (the storage calls). -/\n")
	fmt.Fprintf(L, "def storageMethods : List String := %s\n", LeanStrList(storageMethods))
	fmt.Fprintf(L, "/-- `lifecycle.Manager` (Start/Stop): part of the interface, not storage calls. -/\n")
	fmt.Fprintf(L, "def lifecycleMethods : List String := %s\n", LeanStrList(lifecycleMethods))
	fmt.Fprintf(L, "/-- Methods `AuditLogMiddleware` defines itself (everything else is promoted from `DelegatingStorage`). -/\n")
	var ov []string
	var rows []string
	for _, f := range facts {
		ov = append(ov, f.Method)
		rows = append(rows, fmt.Sprintf("(%s, %s, %s, %v, %v, %s)", LeanStr(f.Method), LeanStr(f.Op), LeanStr(f.Shape), f.Start, f.Complete, LeanStr(f.Inner)))
	}
	fmt.Fprintf(L, "def auditOverrides : List String := %s\n", LeanStrList(ov))
	fmt.Fprintf(L, "/-- (method, operation constant, shape, START before the inner call, COMPLETE(err) after it, inner method called) -/\n")
	fmt.Fprintf(L, "def overrideFacts : List (String × String × String × Bool × Bool × String) :=\n  [%s]\n", strings.Join(rows, ",\n   "))
	fmt.Fprintf(L, "def otherMethods : List String := %s\n", LeanStrList(otherMethods))
	fmt.Fprintf(L, "/-- `run`: START; err := fn(ctx); COMPLETE(err); return err -/\ndef runBrackets : Bool := %v\n", runOK)
	fmt.Fprintf(L, "/-- What `log` does from `mu.Lock()` on, and `emitGrounding` (called with `mu` held), in order. -/\n")
	fmt.Fprintf(L, "def logCritical : List String := %s\n", LeanStrList(logSteps))
	fmt.Fprintf(L, "def groundingCritical : List String := %s\n", LeanStrList(grSteps))
	fmt.Fprintf(L, "\nend Pithos.Gen.AuditOverrides\n")
	return nil
}
