//go:build verif

package main

import (
	"fmt"
	"net/url"
	"strings"
	"time"

	"github.com/jdillenkofer/pithos/internal/verifx"
)

// C28: every case is one request signed by the real AWS SDK signer (accepted by the middleware)
// followed by the mutation catalogue applied to its wire form. The harness only *applies*
// mutations; whether a mutation touches a component the property lists is decided in Lean
// (`changesSignedComponent` on the base and the mutant as the server received them).

func init() { register("c28", runC28) }

type c28Mut struct {
	name string
	w    *verifx.Wire
}

// authFields splits the Authorization header (header-signed requests).
func authFields(w *verifx.Wire) (alg, cred, sh, sig string, ok bool) {
	_, a := w.Get("Authorization")
	if a == "" {
		return
	}
	alg, rest, found := strings.Cut(a, " ")
	if !found {
		return
	}
	parts := strings.Split(rest, ", ")
	if len(parts) != 3 {
		return
	}
	cred = strings.TrimPrefix(parts[0], "Credential=")
	sh = strings.TrimPrefix(parts[1], "SignedHeaders=")
	sig = strings.TrimPrefix(parts[2], "Signature=")
	return alg, cred, sh, sig, true
}

func setAuth(w *verifx.Wire, alg, cred, sh, sig string) {
	w.Set("Authorization", alg+" Credential="+cred+", SignedHeaders="+sh+", Signature="+sig)
}

// rawQuery helpers: the raw query as a list of raw "k=v" (or "k") items.
func splitRawQuery(w *verifx.Wire) (path string, items []string) {
	p, q, has := w.SplitTarget()
	if !has || q == "" {
		return p, nil
	}
	return p, strings.Split(q, "&")
}

func setRawQuery(w *verifx.Wire, path string, items []string) {
	if len(items) == 0 {
		w.Target = path
	} else {
		w.Target = path + "?" + strings.Join(items, "&")
	}
}

func otherUnreserved(c byte) byte {
	if c == 'q' {
		return 'r'
	}
	return 'q'
}

func isUnres(c byte) bool {
	return c >= 'A' && c <= 'Z' || c >= 'a' && c <= 'z' || c >= '0' && c <= '9' || c == '-' || c == '.' || c == '_' || c == '~'
}

// plainPositions: indices of unreserved bytes that are not the two hex digits of a %XX escape.
func plainPositions(s string) []int {
	var out []int
	for i := 0; i < len(s); i++ {
		if s[i] == '%' && i+2 < len(s) {
			i += 2
			continue
		}
		if isUnres(s[i]) {
			out = append(out, i)
		}
	}
	return out
}

func replaceItemParam(items []string, name string, f func(val string) string) ([]string, bool) {
	out := append([]string(nil), items...)
	for i, it := range out {
		k, v, _ := strings.Cut(it, "=")
		if k == name {
			out[i] = k + "=" + f(v)
			return out, true
		}
	}
	return out, false
}

// c28Mutations builds the catalogue for one signed request.
func c28Mutations(r *verifx.Rng, base *verifx.Wire, spec *verifx.SigSpec) []c28Mut {
	var ms []c28Mut
	add := func(name string, f func(w *verifx.Wire) bool) {
		w := base.Clone()
		if f(w) {
			ms = append(ms, c28Mut{name, w})
		}
	}
	presigned := spec.IsPresigned()

	// ---- method
	add("method-swap", func(w *verifx.Wire) bool {
		if w.Method == "GET" {
			w.Method = "DELETE"
		} else {
			w.Method = "GET"
		}
		return true
	})
	add("method-byte", func(w *verifx.Wire) bool { w.Method = w.Method[:len(w.Method)-1] + "X"; return true })

	// ---- path
	add("path-byte", func(w *verifx.Wire) bool {
		p, items := splitRawQuery(w)
		pos := plainPositions(p)
		if len(pos) == 0 {
			return false
		}
		i := pos[r.Intn(len(pos))]
		b := []byte(p)
		b[i] = otherUnreserved(b[i])
		setRawQuery(w, string(b), items)
		return true
	})
	add("path-append", func(w *verifx.Wire) bool { p, it := splitRawQuery(w); setRawQuery(w, p+"x", it); return true })
	add("path-insert-slash", func(w *verifx.Wire) bool {
		p, it := splitRawQuery(w)
		pos := plainPositions(p)
		if len(pos) == 0 {
			return false
		}
		i := pos[r.Intn(len(pos))]
		setRawQuery(w, p[:i]+"/"+p[i:], it)
		return true
	})
	add("path-truncate", func(w *verifx.Wire) bool {
		p, it := splitRawQuery(w)
		pos := plainPositions(p)
		if len(pos) == 0 || pos[len(pos)-1] != len(p)-1 || len(p) < 3 {
			return false
		}
		setRawQuery(w, p[:len(p)-1], it)
		return true
	})
	add("path-hexcase", func(w *verifx.Wire) bool { // same decoded path: not a change of the canonical path
		p, it := splitRawQuery(w)
		for i := 0; i+2 < len(p); i++ {
			if p[i] == '%' {
				for j := i + 1; j <= i+2; j++ {
					if p[j] >= 'A' && p[j] <= 'F' {
						b := []byte(p)
						b[j] += 32
						setRawQuery(w, string(b), it)
						return true
					}
				}
			}
		}
		return false
	})
	add("path-escape-unreserved", func(w *verifx.Wire) bool { // 'a' written as %61: same path
		p, it := splitRawQuery(w)
		pos := plainPositions(p)
		if len(pos) == 0 {
			return false
		}
		i := pos[r.Intn(len(pos))]
		setRawQuery(w, p[:i]+fmt.Sprintf("%%%02X", p[i])+p[i+1:], it)
		return true
	})

	// ---- query parameters (every parameter gets its own mutants, at most 6 parameters)
	_, items := splitRawQuery(base)
	for idx, it := range items {
		if idx >= 8 {
			break
		}
		idx := idx
		k, _, _ := strings.Cut(it, "=")
		tag := fmt.Sprintf("%d", idx)
		if strings.HasPrefix(k, "X-Amz-") {
			tag = k
		}
		add("q-value-"+tag, func(w *verifx.Wire) bool {
			p, its := splitRawQuery(w)
			kk, v, _ := strings.Cut(its[idx], "=")
			pos := plainPositions(v)
			if len(pos) > 0 {
				i := pos[r.Intn(len(pos))]
				b := []byte(v)
				b[i] = otherUnreserved(b[i])
				v = string(b)
			} else {
				v += "x"
			}
			its[idx] = kk + "=" + v
			setRawQuery(w, p, its)
			return true
		})
		add("q-key-"+tag, func(w *verifx.Wire) bool {
			p, its := splitRawQuery(w)
			kk, v, hasEq := strings.Cut(its[idx], "=")
			kk += "x"
			if hasEq {
				its[idx] = kk + "=" + v
			} else {
				its[idx] = kk
			}
			setRawQuery(w, p, its)
			return true
		})
		add("q-remove-"+tag, func(w *verifx.Wire) bool {
			p, its := splitRawQuery(w)
			its = append(its[:idx:idx], its[idx+1:]...)
			setRawQuery(w, p, its)
			return true
		})
		add("q-dup-"+tag, func(w *verifx.Wire) bool {
			p, its := splitRawQuery(w)
			its = append(its, its[idx])
			setRawQuery(w, p, its)
			return true
		})
	}
	add("q-add", func(w *verifx.Wire) bool { p, its := splitRawQuery(w); setRawQuery(w, p, append(its, "acl=")); return true })
	add("q-reorder", func(w *verifx.Wire) bool { // same multiset: not a change
		p, its := splitRawQuery(w)
		if len(its) < 2 {
			return false
		}
		for i, j := 0, len(its)-1; i < j; i, j = i+1, j-1 {
			its[i], its[j] = its[j], its[i]
		}
		setRawQuery(w, p, its)
		return true
	})
	add("q-swap-values", func(w *verifx.Wire) bool {
		p, its := splitRawQuery(w)
		for i := 0; i < len(its); i++ {
			for j := i + 1; j < len(its); j++ {
				ki, vi, _ := strings.Cut(its[i], "=")
				kj, vj, _ := strings.Cut(its[j], "=")
				if ki != kj && vi != vj && !strings.HasPrefix(ki, "X-Amz-") && !strings.HasPrefix(kj, "X-Amz-") {
					its[i], its[j] = ki+"="+vj, kj+"="+vi
					setRawQuery(w, p, its)
					return true
				}
			}
		}
		return false
	})
	add("q-space-as-plus", func(w *verifx.Wire) bool { // another spelling of the same value
		p, its := splitRawQuery(w)
		for i := range its {
			if strings.Contains(its[i], "%20") {
				its[i] = strings.Replace(its[i], "%20", "+", 1)
				setRawQuery(w, p, its)
				return true
			}
		}
		return false
	})

	// ---- signed headers
	var signedNames []string
	if presigned {
		u, err := url.ParseQuery(strings.Join(items, "&"))
		if err == nil {
			signedNames = strings.Split(u.Get("X-Amz-SignedHeaders"), ";")
		}
	} else if _, _, sh, _, ok := authFields(base); ok {
		signedNames = strings.Split(sh, ";")
	}
	for _, name := range signedNames {
		name := name
		if name == "host" {
			continue
		}
		if i, _ := base.Get(name); i < 0 {
			continue
		}
		if name == "content-length" {
			continue // changed together with the body (body-append / body-truncate): a bare change would stall the connection
		}
		add("h-value-"+name, func(w *verifx.Wire) bool {
			i, v := w.Get(name)
			w.Headers[i][1] = v + "x"
			return true
		})
		{
			add("h-remove-"+name, func(w *verifx.Wire) bool { w.Del(name); return true })
			add("h-dup-"+name, func(w *verifx.Wire) bool {
				w.Headers = append(w.Headers, [2]string{name, "injected"})
				return true
			})
			add("h-case-"+name, func(w *verifx.Wire) bool { // header names are case-insensitive: not a change
				i, _ := w.Get(name)
				w.Headers[i][0] = strings.ToUpper(w.Headers[i][0])
				return true
			})
			add("h-trailing-space-"+name, func(w *verifx.Wire) bool { // not a change
				i, v := w.Get(name)
				w.Headers[i][1] = v + "  "
				return true
			})
		}
	}
	add("host-change", func(w *verifx.Wire) bool { i, v := w.Get("Host"); w.Headers[i][1] = "x" + v; return true })
	add("add-unsigned-amz-meta", func(w *verifx.Wire) bool {
		if i, _ := w.Get("X-Amz-Meta-Injected"); i >= 0 {
			return false
		}
		w.Headers = append(w.Headers, [2]string{"X-Amz-Meta-Injected", "1"})
		return true
	})
	add("add-unsigned-amz-acl", func(w *verifx.Wire) bool {
		if i, _ := w.Get("x-amz-acl"); i >= 0 {
			return false
		}
		w.Headers = append(w.Headers, [2]string{"x-amz-acl", "public-read-write"})
		return true
	})
	add("add-unsigned-content-md5", func(w *verifx.Wire) bool {
		if i, _ := w.Get("Content-MD5"); i >= 0 {
			return false
		}
		w.Headers = append(w.Headers, [2]string{"Content-MD5", "1B2M2Y8AsgTpgAmY7PhCfg=="})
		return true
	})
	add("add-unsigned-plain", func(w *verifx.Wire) bool { // an unsigned, non-sensitive header: outside the property
		w.Headers = append(w.Headers, [2]string{"X-Custom-Unsigned", "1"})
		return true
	})
	add("user-agent-change", func(w *verifx.Wire) bool { // never signed by the SDK
		i, v := w.Get("User-Agent")
		if i < 0 {
			return false
		}
		w.Headers[i][1] = v + "x"
		return true
	})

	// ---- body
	if !verifx.IsStreaming(spec.Mode) && len(base.HandlerBody()) == 0 {
		// a body smuggled into a bodyless request with Transfer-Encoding: chunked: there is no
		// (signed) Content-Length to contradict
		add("body-add-te-chunked", func(w *verifx.Wire) bool {
			if _, v := w.Get("Content-Length"); v != "" && v != "0" {
				return false
			}
			w.Del("Content-Length")
			w.Headers = append(w.Headers, [2]string{"Transfer-Encoding", "chunked"})
			w.Decoded = []byte("injected body")
			w.Body = verifx.TEFrame(w.Decoded)
			return true
		})
	}
	if len(base.Body) > 0 {
		if base.Decoded != nil {
			// base sent with Transfer-Encoding: chunked: mutate what the handler reads, re-frame
			add("body-flip", func(w *verifx.Wire) bool {
				w.Decoded[r.Intn(len(w.Decoded))] ^= 0x01
				w.Body = verifx.TEFrame(w.Decoded)
				return true
			})
			add("body-append", func(w *verifx.Wire) bool { w.Decoded = append(w.Decoded, 'x'); w.Body = verifx.TEFrame(w.Decoded); return true })
			add("body-truncate", func(w *verifx.Wire) bool {
				w.Decoded = w.Decoded[:len(w.Decoded)-1]
				w.Body = verifx.TEFrame(w.Decoded)
				return true
			})
		} else if !verifx.IsStreaming(spec.Mode) {
			add("body-flip", func(w *verifx.Wire) bool { w.Body[r.Intn(len(w.Body))] ^= 0x01; return true })
			add("body-append", func(w *verifx.Wire) bool { w.Body = append(w.Body, 'x'); w.FixContentLength(); return true })
			add("body-truncate", func(w *verifx.Wire) bool { w.Body = w.Body[:len(w.Body)-1]; w.FixContentLength(); return true })
			add("body-te-chunked-same", func(w *verifx.Wire) bool { // same payload, other transfer coding: Content-Length (signed when > 0) disappears
				w.Decoded = append([]byte{}, w.Body...)
				w.Del("Content-Length")
				w.Headers = append(w.Headers, [2]string{"Transfer-Encoding", "chunked"})
				w.Body = verifx.TEFrame(w.Decoded)
				return true
			})
		} else {
			add("chunk-data-flip", func(w *verifx.Wire) bool {
				// first data byte of the first chunk: right after the first CRLF
				i := strings.Index(string(w.Body), "\r\n")
				if i < 0 || i+2 >= len(w.Body) || len(spec.Body) == 0 {
					return false
				}
				w.Body[i+2] ^= 0x01
				return true
			})
			add("chunk-sig-flip", func(w *verifx.Wire) bool {
				i := strings.Index(string(w.Body), ";chunk-signature=")
				if i < 0 {
					return false
				}
				j := i + len(";chunk-signature=") + r.Intn(64)
				w.Body = []byte(verifx.FlipHex(string(w.Body), j))
				return true
			})
			add("final-chunk-sig-flip", func(w *verifx.Wire) bool {
				i := strings.LastIndex(string(w.Body), ";chunk-signature=")
				if i < 0 {
					return false
				}
				j := i + len(";chunk-signature=") + r.Intn(64)
				w.Body = []byte(verifx.FlipHex(string(w.Body), j))
				return true
			})
			add("trailer-sig-name", func(w *verifx.Wire) bool { // the signature line renamed: the trailer is no longer authenticated
				i := strings.Index(string(w.Body), "x-amz-trailer-signature:")
				if i < 0 {
					return false
				}
				w.Body[i+len("x-amz-trailer-signatur")] = 'q'
				return true
			})
			add("trailer-sig-flip", func(w *verifx.Wire) bool {
				i := strings.Index(string(w.Body), "x-amz-trailer-signature:")
				if i < 0 {
					return false
				}
				j := i + len("x-amz-trailer-signature:") + r.Intn(64)
				w.Body = []byte(verifx.FlipHex(string(w.Body), j))
				return true
			})
		}
	}

	// ---- date, credential, signature, algorithm, SignedHeaders
	if presigned {
		qmut := func(name, param string, f func(string) string) {
			add(name, func(w *verifx.Wire) bool {
				p, its := splitRawQuery(w)
				its2, ok := replaceItemParam(its, param, f)
				if !ok {
					return false
				}
				setRawQuery(w, p, its2)
				return true
			})
		}
		qmut("date-digit", "X-Amz-Date", func(v string) string { return verifx.FlipHex(v, 14) })
		qmut("expires-change", "X-Amz-Expires", func(v string) string { return v + "0" })
		qmut("expires-plus", "X-Amz-Expires", func(v string) string { return "%2B" + v }) // "+900": same number, other text
		qmut("cred-ak-other", "X-Amz-Credential", func(v string) string { return swapAK(v, spec.Cred.AK) })
		qmut("cred-ak-unknown", "X-Amz-Credential", func(v string) string { return "AKIAUNKNOWN" + v[strings.Index(v, "%2F"):] })
		qmut("cred-region", "X-Amz-Credential", func(v string) string { return strings.Replace(v, verifx.SigRegion, "us-east-1", 1) })
		qmut("cred-service", "X-Amz-Credential", func(v string) string { return strings.Replace(v, "%2Fs3%2F", "%2Fec2%2F", 1) })
		qmut("cred-terminator", "X-Amz-Credential", func(v string) string { return strings.Replace(v, "aws4_request", "aws4_requesT", 1) })
		qmut("cred-date", "X-Amz-Credential", func(v string) string { i := strings.Index(v, "%2F"); return v[:i+3] + verifx.FlipHex(v[i+3:], 7) })
		qmut("sig-flip", "X-Amz-Signature", func(v string) string { return verifx.FlipHex(v, r.Intn(len(v))) })
		qmut("sig-upper", "X-Amz-Signature", func(v string) string { return strings.ToUpper(v) })
		qmut("sig-truncate", "X-Amz-Signature", func(v string) string { return v[:len(v)-1] })
		qmut("alg-other", "X-Amz-Algorithm", func(v string) string { return "AWS4-HMAC-SHA512" })
		qmut("alg-v4a", "X-Amz-Algorithm", func(v string) string { return "AWS4-ECDSA-P256-SHA256" })
		qmut("sh-add-absent", "X-Amz-SignedHeaders", func(v string) string { return v + "%3Bx-not-there" })
		qmut("sh-add-present", "X-Amz-SignedHeaders", func(v string) string { return v + "%3Buser-agent" })
		qmut("sh-remove-host", "X-Amz-SignedHeaders", func(v string) string { return strings.Replace(v, "host", "hos", 1) })
	} else if alg, cred, sh, sig, ok := authFields(base); ok {
		amut := func(name string, f func() (string, string, string, string)) {
			add(name, func(w *verifx.Wire) bool { a, c, s, g := f(); setAuth(w, a, c, s, g); return true })
		}
		add("date-digit", func(w *verifx.Wire) bool {
			i, v := w.Get("X-Amz-Date")
			if i < 0 {
				return false
			}
			w.Headers[i][1] = verifx.FlipHex(v, 14)
			return true
		})
		amut("cred-ak-other", func() (string, string, string, string) { return alg, swapAK(cred, spec.Cred.AK), sh, sig })
		amut("cred-ak-unknown", func() (string, string, string, string) {
			return alg, "AKIAUNKNOWN" + cred[strings.Index(cred, "/"):], sh, sig
		})
		amut("cred-region", func() (string, string, string, string) {
			return alg, strings.Replace(cred, verifx.SigRegion, "us-east-1", 1), sh, sig
		})
		amut("cred-service", func() (string, string, string, string) { return alg, strings.Replace(cred, "/s3/", "/ec2/", 1), sh, sig })
		amut("cred-terminator", func() (string, string, string, string) {
			return alg, strings.Replace(cred, "aws4_request", "aws4_requesT", 1), sh, sig
		})
		amut("cred-date", func() (string, string, string, string) {
			i := strings.Index(cred, "/")
			return alg, cred[:i+1] + verifx.FlipHex(cred[i+1:], 7), sh, sig
		})
		amut("sig-flip", func() (string, string, string, string) { return alg, cred, sh, verifx.FlipHex(sig, r.Intn(len(sig))) })
		amut("sig-upper", func() (string, string, string, string) { return alg, cred, sh, strings.ToUpper(sig) })
		amut("sig-truncate", func() (string, string, string, string) { return alg, cred, sh, sig[:len(sig)-1] })
		amut("alg-other", func() (string, string, string, string) { return "AWS4-HMAC-SHA512", cred, sh, sig })
		amut("alg-v4a", func() (string, string, string, string) { return "AWS4-ECDSA-P256-SHA256", cred, sh, sig })
		amut("sh-add-absent", func() (string, string, string, string) { return alg, cred, sh + ";x-not-there", sig })
		amut("sh-add-present", func() (string, string, string, string) { return alg, cred, sh + ";user-agent", sig })
		amut("sh-reorder", func() (string, string, string, string) { // same set of signed headers
			p := strings.Split(sh, ";")
			for i, j := 0, len(p)-1; i < j; i, j = i+1, j-1 {
				p[i], p[j] = p[j], p[i]
			}
			return alg, cred, strings.Join(p, ";"), sig
		})
		amut("sh-remove-host", func() (string, string, string, string) { return alg, cred, strings.Replace(sh, "host", "hos", 1), sig })
		amut("sh-remove-last", func() (string, string, string, string) {
			i := strings.LastIndex(sh, ";")
			if i < 0 {
				return alg, cred, "", sig
			}
			return alg, cred, sh[:i], sig
		})
		add("strip-authorization", func(w *verifx.Wire) bool { w.Del("Authorization"); return true })
	}
	return ms
}

func swapAK(cred, cur string) string {
	other := verifx.SigCreds[0].AK
	if cur == other {
		other = verifx.SigCreds[1].AK
	}
	return strings.Replace(cred, cur, other, 1)
}

func runC28(args []string) {
	f := verifx.ParseFlags("c28", args, 500, 2500)
	out := verifx.NewOut()
	l := verifx.SigLoop()
	defer l.Close()

	k := 0
	emit := func(seed uint64, spec *verifx.SigSpec) {
		if !f.Wants(k) {
			k++
			return
		}
		out.Case(k, seed)
		k++
		verifx.SigCfgLine(out)
		r := verifx.NewRng(seed ^ 0xC28)
		sg, err := spec.Build()
		if err != nil {
			out.Line("req base-unsignable %s 0 - - 0", spec.Label())
			out.Line("noview")
			out.Line("obs 0 0 0 - 0 -")
			out.Line("endreq")
			out.End()
			return
		}
		verifx.SendWire(out, l, "base", spec.Label(), sg.Wire, spec.Cred.AK, spec.Body, true)
		for _, m := range c28Mutations(r, sg.Wire, spec) {
			verifx.SendWire(out, l, m.name, spec.Label(), m.w, spec.Cred.AK, spec.Body, false)
		}
		// validly signed requests whose timestamp lies outside (or just inside) the window
		type shift struct {
			name string
			d    time.Duration
			exp  int
		}
		shifts := []shift{{"resign-old-30m", -30 * time.Minute, 0}, {"resign-future-30m", 30 * time.Minute, 0},
			{"resign-old-8m", -8 * time.Minute, 0}, {"resign-future-10m", 10 * time.Minute, 0}}
		if spec.IsPresigned() {
			shifts = []shift{{"resign-expired", -10 * time.Minute, 300}, {"resign-future-30m", 30 * time.Minute, 900},
				{"resign-old-but-valid", -2 * time.Hour, 86400}}
		}
		for _, sh := range shifts {
			s2 := *spec
			s2.SignTime = time.Now().Add(sh.d)
			if sh.exp != 0 {
				s2.Expires = sh.exp
			}
			if sg2, err := s2.Build(); err == nil {
				verifx.SendWire(out, l, sh.name, spec.Label(), sg2.Wire, spec.Cred.AK, spec.Body, false)
			}
		}
		out.End()
	}

	now := time.Now()
	// directed: one base per payload mode with query, metadata and body, so that every entry of the
	// catalogue applies at least once
	for i, m := range []string{verifx.ModeHash, verifx.ModeUnsigned, verifx.ModePresign, verifx.ModeStream, verifx.ModeStreamTrailer, verifx.ModeStreamUnsignedTrailer, verifx.ModeStreamUnsigned} {
		s := &verifx.SigSpec{Method: "PUT", Host: "s3.verif.test:9000", Bucket: "bucket-1", Key: "dir/a b+c%ä.txt", Mode: m,
			Query:  [][2]string{{"prefix", "p q"}, {"versionId", "v1"}, {"tag", "1"}, {"tag", "0"}},
			Header: [][2]string{{"Content-Type", "text/plain"}, {"x-amz-meta-a", "one two"}, {"x-amz-storage-class", "STANDARD"}, {"Content-MD5", "1B2M2Y8AsgTpgAmY7PhCfg=="}, {"User-Agent", "verif/1"}},
			Body:   []byte("hello, mutation catalogue"), Chunks: []int{7, 9}, Trailer: "x-amz-checksum-crc32", Expires: 900,
			Cred: verifx.SigCreds[i%2], Region: verifx.SigRegion, SignTime: now}
		emit(uint64(i), s)
	}
	// the query-string carrier crossed with every other payload mode (chunk chains seeded by X-Amz-Signature)
	for i, m := range []string{verifx.ModeHash, verifx.ModeUnsigned, verifx.ModeStream, verifx.ModeStreamTrailer, verifx.ModeStreamUnsignedTrailer, verifx.ModeStreamUnsigned} {
		s := &verifx.SigSpec{Method: "PUT", Host: "s3.verif.test:9000", Bucket: "bucket-1", Key: "dir/presigned " + m, Mode: m, Presign: true,
			Query:  [][2]string{{"versionId", "v1"}},
			Header: [][2]string{{"Content-Type", "text/plain"}, {"x-amz-meta-a", "one two"}},
			Body:   []byte("hello, presigned mutation catalogue"), Chunks: []int{7, 9}, Trailer: "x-amz-checksum-crc32c", Expires: 900,
			Cred: verifx.SigCreds[i%2], Region: verifx.SigRegion, SignTime: now}
		emit(uint64(100+i), s)
	}
	for c := 0; c < f.Cases; c++ {
		seed := verifx.CaseSeed(f.Seed, k)
		r := verifx.NewRng(seed)
		emit(seed, verifx.GenSpec(r, verifx.SigProfile{}, time.Now()))
	}
	out.Flush()
}
