//go:build verif

package main

import (
	"fmt"
	"strings"

	"github.com/jdillenkofer/pithos/internal/verifx"
)

// Generator of mostly-valid storage histories over two buckets and three keys, with bodies from
// a small pool (identical contents trigger part deduplication; copies share parts).

type s3hGen struct {
	r    *verifx.Rng
	c    *s3hCase
	mode string
	nput int
	mpus []s3hUp // uploads created so far (ordinal = index)
	// withPartCopy enables "op uppc" (UploadPartCopy) lines; only harnesses whose driver parses them
	// (S3Driver.parseXOp) switch it on, so other users of this generator see the same op alphabet as before.
	withPartCopy bool
}

type s3hUp struct {
	b, k  string
	parts []int
	done  bool
}

var s3hKeys = []string{"k0", "k1", "dir/k2"}

func (g *s3hGen) body() []byte {
	r := g.r
	n := 8
	if g.withPartCopy { // the s3h harness itself: also bodies above the compression threshold
		n = 10
	}
	switch r.Intn(n) {
	case 8:
		// compressible, above the compression middleware's 1 KiB threshold, not a multiple of 32 KiB
		return bytesRepeat(byte('a'+r.Intn(4)), 1500+r.Intn(7000))
	case 9:
		if r.Chance(1, 3) {
			return bytesRepeat('y', 33000+r.Intn(9000))
		}
		return r.Bytes(1024 + r.Intn(3000))
	case 0:
		return nil
	case 1:
		return []byte("a")
	case 2:
		return []byte("hello world")
	case 3:
		return []byte("hello world") // duplicate content on purpose
	case 4:
		return bytesRepeat(byte('A'+r.Intn(3)), 1+r.Intn(40))
	case 5:
		return r.Bytes(1 + r.Intn(64))
	case 6:
		return bytesRepeat('z', 300+r.Intn(900))
	default:
		return r.Bytes(100 + r.Intn(4000))
	}
}

func bytesRepeat(b byte, n int) []byte {
	out := make([]byte, n)
	for i := range out {
		out[i] = b
	}
	return out
}

func (g *s3hGen) bk() string {
	if g.r.Chance(4, 5) {
		return "b0"
	}
	return "b1"
}
func (g *s3hGen) key() string { return verifx.Pick(g.r, s3hKeys) }

func (g *s3hGen) vidArg() string {
	r := g.r
	n := len(g.c.vids)
	switch {
	case r.Chance(1, 2):
		return "~"
	case r.Chance(1, 3):
		return "null"
	case n > 0:
		if r.Chance(1, 12) {
			return fmt.Sprintf("v%d", n+3) // never issued
		}
		return fmt.Sprintf("v%d", r.Intn(n))
	}
	return "~"
}

func (g *s3hGen) imArg(b, k string) string {
	r := g.r
	switch r.Intn(10) {
	case 0:
		return "*"
	case 1:
		return "bogus"
	case 2, 3:
		if e, ok := g.c.lastEtag[b+"/"+k]; ok {
			return e
		}
		return "bogus"
	case 4:
		if len(g.c.allEtags) > 0 {
			return verifx.Pick(r, g.c.allEtags)
		}
	}
	return "~"
}

func (g *s3hGen) next() string {
	r := g.r
	if g.nput == 0 && len(g.c.made) == 0 {
		g.c.made["b0"] = true
		return "op mkb b0"
	}
	// weights by mode
	w := map[string]int{"put": 18, "get": 10, "head": 6, "del": 10, "cp": 7, "app": 7, "mpu": 4, "upp": 7, "uppc": 4, "cmpl": 5, "abort": 1,
		"ver": 3, "mkb": 2, "rmb": 1, "gtag": 2, "ptag": 3, "dtag": 1, "trans": 3, "ls": 2, "lsv": 3, "lsb": 1}
	switch g.mode {
	case "versioning":
		w["ver"], w["del"], w["lsv"], w["get"] = 7, 16, 5, 12
	case "meta":
		w["cp"], w["ptag"], w["gtag"], w["head"], w["trans"], w["app"], w["ver"] = 14, 6, 4, 12, 5, 10, 5
	case "append":
		w["app"], w["ver"] = 22, 5
	case "transition", "routing": // "routing" = "transition" plus the routing histories on the "route" stack (s3hist_routing.go)
		w["trans"], w["cp"] = 12, 10
	}
	if !g.withPartCopy {
		w["uppc"] = 0
	}
	names := []string{"put", "get", "head", "del", "cp", "app", "mpu", "upp", "uppc", "cmpl", "abort", "ver", "mkb", "rmb", "gtag", "ptag", "dtag", "trans", "ls", "lsv", "lsb"}
	tot := 0
	for _, n := range names {
		tot += w[n]
	}
	x := r.Intn(tot)
	name := ""
	for _, n := range names {
		if x < w[n] {
			name = n
			break
		}
		x -= w[n]
	}
	b, k := g.bk(), g.key()
	switch name {
	case "mkb":
		g.c.made[b] = true
		return "op mkb " + b
	case "rmb":
		return "op rmb " + b
	case "ver":
		return "op ver " + b + " " + verifx.Pick(r, []string{"E", "E", "S"})
	case "put":
		g.nput++
		inm := 0
		im := "~"
		if r.Chance(1, 8) {
			inm = 1
		} else if r.Chance(1, 6) {
			im = g.imArg(b, k)
		}
		return fmt.Sprintf("op put %s %s %s %s inm=%d im=%s", b, k, verifx.Hex(g.body()), genOpts(r).line(), inm, im)
	case "get", "head":
		return fmt.Sprintf("op %s %s %s vid=%s", name, b, k, g.vidArg())
	case "del":
		im := "~"
		if r.Chance(1, 6) {
			im = g.imArg(b, k)
		}
		return fmt.Sprintf("op del %s %s vid=%s im=%s", b, k, g.vidArg(), im)
	case "cp":
		db, dk := g.bk(), g.key()
		return fmt.Sprintf("op cp %s %s %s %s svid=%s mdir=%s tdir=%s %s", b, k, db, dk, g.vidArg(),
			verifx.Pick(r, []string{"C", "R"}), verifx.Pick(r, []string{"C", "R"}), genOpts(r).line())
	case "app":
		off := "~"
		if r.Chance(1, 2) {
			if sz, ok := g.c.lastSize[b+"/"+k]; ok && r.Chance(3, 4) {
				off = fmt.Sprint(sz)
			} else {
				off = fmt.Sprint(r.Intn(3))
			}
		}
		return fmt.Sprintf("op app %s %s %s off=%s", b, k, verifx.Hex(g.body()), off)
	case "mpu":
		g.mpus = append(g.mpus, s3hUp{b: b, k: k})
		return fmt.Sprintf("op mpu %s %s %s", b, k, genOpts(r).line())
	case "upp", "uppc", "cmpl", "abort":
		if len(g.mpus) == 0 {
			g.mpus = append(g.mpus, s3hUp{b: b, k: k})
			return fmt.Sprintf("op mpu %s %s %s", b, k, genOpts(r).line())
		}
		i := r.Intn(len(g.mpus))
		if r.Chance(3, 4) { // prefer an open upload
			for j := len(g.mpus) - 1; j >= 0; j-- {
				if !g.mpus[j].done {
					i = j
					break
				}
			}
		}
		u := &g.mpus[i]
		ub, uk := u.b, u.k
		if r.Chance(1, 15) {
			uk = g.key() // wrong key for this upload id
		}
		switch name {
		case "uppc":
			// server-side part copy: whole source, a head, an inner slice, or a TAIL that ends at the
			// source's end while starting inside it (the wholly-covered-part shortcut must not fire)
			n := len(u.parts) + 1
			u.parts = append(u.parts, n)
			sb, sk := g.bk(), g.key()
			rng := "~"
			if sz, ok := g.c.lastSize[sb+"/"+sk]; ok && sz >= 2 && r.Chance(3, 4) {
				switch r.Intn(3) {
				case 0:
					rng = fmt.Sprintf("%d-%d", 1+r.Intn(int(sz-1)), sz) // tail
				case 1:
					rng = fmt.Sprintf("0-%d", 1+r.Intn(int(sz-1))) // head
				default:
					a := r.Intn(int(sz - 1))
					rng = fmt.Sprintf("%d-%d", a, a+1+r.Intn(int(sz)-a-1+1))
				}
			}
			return fmt.Sprintf("op uppc %s %s %s %s %d %d range=%s", sb, sk, ub, uk, i, n, rng)
		case "upp":
			n := len(u.parts) + 1
			if r.Chance(1, 6) && len(u.parts) > 0 {
				n = 1 + r.Intn(len(u.parts)) // replace an existing part
			} else if r.Chance(1, 12) {
				n = len(u.parts) + 2 // leaves a gap
			}
			if n == len(u.parts)+1 {
				u.parts = append(u.parts, n)
			}
			return fmt.Sprintf("op upp %s %s %d %d %s", ub, uk, i, n, verifx.Hex(g.body()))
		case "cmpl":
			parts := "~"
			if r.Chance(1, 2) && len(u.parts) > 0 {
				ps := []string{}
				for _, p := range u.parts {
					ps = append(ps, fmt.Sprint(p))
				}
				if r.Chance(1, 6) && len(ps) > 1 {
					ps[0], ps[1] = ps[1], ps[0]
				} else if r.Chance(1, 6) {
					ps = append(ps, fmt.Sprint(len(u.parts)+5))
				}
				parts = strings.Join(ps, ",")
			}
			inm := 0
			im := "~"
			if r.Chance(1, 8) {
				inm = 1
			} else if r.Chance(1, 8) {
				im = g.imArg(ub, uk)
			}
			u.done = true
			return fmt.Sprintf("op cmpl %s %s %d parts=%s inm=%d im=%s", ub, uk, i, parts, inm, im)
		default:
			u.done = true
			return fmt.Sprintf("op abort %s %s %d", ub, uk, i)
		}
	case "gtag", "dtag":
		return fmt.Sprintf("op %s %s %s vid=%s", name, b, k, g.vidArg())
	case "ptag":
		o := genOpts(r)
		return fmt.Sprintf("op ptag %s %s vid=%s tags=%s", b, k, g.vidArg(), pairsS(o.tags))
	case "trans":
		return fmt.Sprintf("op trans %s %s %s vid=%s", b, k, verifx.Pick(r, []string{"STANDARD", "STANDARD_IA", "GLACIER", "DEEP_ARCHIVE"}), g.vidArg())
	case "ls":
		return "op ls " + b
	case "lsv":
		return "op lsv " + b
	}
	return "op lsb"
}

// sweep reads everything back at the end of a history: listings, every key, every version id.
func (g *s3hGen) sweep() []string {
	out := []string{"op lsb"}
	for _, b := range []string{"b0", "b1"} {
		out = append(out, "op ls "+b, "op lsv "+b)
		for _, k := range s3hKeys {
			out = append(out, fmt.Sprintf("op get %s %s vid=~", b, k), fmt.Sprintf("op gtag %s %s vid=~", b, k))
			out = append(out, fmt.Sprintf("op get %s %s vid=null", b, k))
		}
	}
	for i := 0; i < len(g.c.vids); i++ {
		for _, k := range s3hKeys {
			out = append(out, fmt.Sprintf("op get b0 %s vid=v%d", k, i))
		}
	}
	return out
}

// s3hDirected: hand-written histories that run first (the corpus): the witnesses of every
// deviation between the code and the reference model found so far, and past failures.
func s3hDirected() [][]string {
	h := verifx.HexS
	return [][]string{
		{ // empty object
			"op mkb b0", "op put b0 k0 - ct=~ md=~ tags=~ cls=~ inm=0 im=~", "op get b0 k0 vid=~", "op head b0 k0 vid=~", "op ls b0",
		},
		{ // C02: promotion by created_at after an in-place null overwrite
			"op mkb b0", "op put b0 k0 " + h("n0") + " ct=~ md=~ tags=~ cls=~ inm=0 im=~", "op ver b0 E",
			"op put b0 k0 " + h("v1") + " ct=~ md=~ tags=~ cls=~ inm=0 im=~", "op ver b0 S",
			"op put b0 k0 " + h("n1") + " ct=~ md=~ tags=~ cls=~ inm=0 im=~", "op ver b0 E",
			"op put b0 k0 " + h("v2") + " ct=~ md=~ tags=~ cls=~ inm=0 im=~", "op del b0 k0 vid=v1 im=~",
			"op get b0 k0 vid=~", "op lsv b0",
		},
		{ // C02: upload initiated early, completed late, then the newest version is deleted
			"op mkb b0", "op ver b0 E", "op mpu b0 k0 ct=~ md=~ tags=~ cls=~", "op upp b0 k0 0 1 " + h("mp"),
			"op put b0 k0 " + h("v1") + " ct=~ md=~ tags=~ cls=~ inm=0 im=~", "op cmpl b0 k0 0 parts=~ inm=0 im=~",
			"op put b0 k0 " + h("v3") + " ct=~ md=~ tags=~ cls=~ inm=0 im=~", "op del b0 k0 vid=v2 im=~", "op get b0 k0 vid=~", "op lsv b0",
		},
		{ // C12/C13: append in a suspended bucket whose current version is a ULID version
			"op mkb b0", "op ver b0 E", "op put b0 k0 " + h("X1") + " ct=~ md=~ tags=~ cls=~ inm=0 im=~", "op ver b0 S",
			"op get b0 k0 vid=v0", "op app b0 k0 " + h("tail") + " off=~", "op get b0 k0 vid=v0", "op get b0 k0 vid=~", "op get b0 k0 vid=null", "op lsv b0",
		},
		{ // C13: Last-Modified of an existing version after later writes / tagging / transition
			"op mkb b0", "op ver b0 E", "op put b0 k0 " + h("one") + " ct=~ md=~ tags=~ cls=~ inm=0 im=~", "op head b0 k0 vid=v0",
			"op put b0 k0 " + h("two") + " ct=~ md=~ tags=~ cls=~ inm=0 im=~", "op head b0 k0 vid=v0",
			"op ptag b0 k0 vid=v0 tags=" + h("t") + ":" + h("v"), "op head b0 k0 vid=v0", "op trans b0 k0 GLACIER vid=v0", "op head b0 k0 vid=v0",
		},
		{ // C11: append in an Enabled bucket and metadata preservation
			"op mkb b0", "op ver b0 E",
			"op put b0 k0 " + h("base") + " ct=" + h("text/plain") + " md=" + h("!cc") + ":" + h("no-cache") + "," + h("a") + ":" + h("1") + " tags=" + h("t") + ":" + h("v") + " cls=" + h("STANDARD_IA") + " inm=0 im=~",
			"op app b0 k0 " + h("+more") + " off=4", "op head b0 k0 vid=~", "op gtag b0 k0 vid=~",
		},
		{ // C11: append in a SUSPENDED bucket over a ULID version carrying metadata, tags and a class:
			// the new null version keeps them (the write goes through the put path)
			"op mkb b0", "op ver b0 E",
			"op put b0 k0 " + h("base") + " ct=" + h("text/plain") + " md=" + h("!cc") + ":" + h("no-cache") + "," + h("a") + ":" + h("1") + " tags=" + h("t") + ":" + h("v") + " cls=" + h("GLACIER") + " inm=0 im=~",
			"op ver b0 S", "op app b0 k0 " + h("+more") + " off=4", "op head b0 k0 vid=~", "op gtag b0 k0 vid=~", "op head b0 k0 vid=v0", "op lsv b0",
		},
		{ // C11: CopyObject with tagging directive REPLACE and an EMPTY tag set leaves the copy untagged;
			// metadata directive REPLACE with empty metadata leaves it without user metadata
			"op mkb b0",
			"op put b0 k0 " + h("src") + " ct=" + h("text/plain") + " md=" + h("a") + ":" + h("1") + " tags=" + h("t") + ":" + h("v") + " cls=~ inm=0 im=~",
			"op cp b0 k0 b0 k1 svid=~ mdir=C tdir=R ct=~ md=~ tags=~ cls=~", "op gtag b0 k1 vid=~", "op head b0 k1 vid=~",
			"op cp b0 k0 b0 dir/k2 svid=~ mdir=R tdir=C ct=~ md=~ tags=~ cls=~", "op gtag b0 dir/k2 vid=~", "op head b0 dir/k2 vid=~",
		},
		{ // delete marker then append in a suspended bucket
			"op mkb b0", "op ver b0 E", "op put b0 k0 " + h("v") + " ct=~ md=~ tags=~ cls=~ inm=0 im=~", "op del b0 k0 vid=~ im=~", "op ver b0 S",
			"op app b0 k0 " + h("new") + " off=0", "op lsv b0", "op get b0 k0 vid=~", "op get b0 k0 vid=null",
		},
		{ // C13/C12: a null version lies UNDER the current ULID version of a suspended bucket; then append
			"op mkb b0", "op put b0 k0 " + h("null-0") + " ct=~ md=~ tags=~ cls=~ inm=0 im=~", "op ver b0 E",
			"op put b0 k0 " + h("V") + " ct=~ md=~ tags=~ cls=~ inm=0 im=~", "op get b0 k0 vid=v0", "op ver b0 S",
			"op app b0 k0 " + h("+tail") + " off=~", "op get b0 k0 vid=v0", "op get b0 k0 vid=null", "op get b0 k0 vid=~", "op lsv b0",
		},
		{ // C13: the null version of an ENABLED bucket must not be rewritten by an append
			"op mkb b0", "op put b0 k0 " + h("null-0") + " ct=~ md=~ tags=~ cls=~ inm=0 im=~", "op ver b0 E", "op get b0 k0 vid=null",
			"op app b0 k0 " + h("+tail") + " off=~", "op get b0 k0 vid=null", "op get b0 k0 vid=~", "op lsv b0",
		},
		{ // bucket deletion: only when no objects, versions, or pending uploads
			"op mkb b0", "op mpu b0 k0 ct=~ md=~ tags=~ cls=~", "op rmb b0", "op abort b0 k0 0", "op rmb b0", "op lsb",
			"op mkb b1", "op ver b1 E", "op put b1 k0 " + h("x") + " ct=~ md=~ tags=~ cls=~ inm=0 im=~", "op del b1 k0 vid=~ im=~", "op rmb b1",
			"op del b1 k0 vid=v0 im=~", "op rmb b1", "op del b1 k0 vid=v1 im=~", "op rmb b1", "op lsb",
		},
	}
}
