//go:build verif

package main

import (
	"context"
	"database/sql"
	"errors"
	"fmt"
	"io"
	"os"
	"path/filepath"
	"runtime"
	"sort"
	"strings"
	"sync"
	"sync/atomic"
	"time"

	"github.com/jdillenkofer/pithos/internal/storage"
	"github.com/jdillenkofer/pithos/internal/storage/database"
	repositoryfactory "github.com/jdillenkofer/pithos/internal/storage/database/repository"
	"github.com/jdillenkofer/pithos/internal/storage/database/repository/storageoutboxentry"
	"github.com/jdillenkofer/pithos/internal/storage/middlewares/delegator"
	outboxst "github.com/jdillenkofer/pithos/internal/storage/outbox"
	"github.com/jdillenkofer/pithos/internal/verifx"
	"github.com/oklog/ulid/v2"
	"github.com/prometheus/client_golang/prometheus"
)

// C21, lease mode: TWO outbox storage instances (two replicas, or an old instance still unwinding)
// share one outbox table and one inner storage. Replays are slow (the worker is parked inside its
// inner call), heartbeats fire, the clock advances, the other worker keeps trying to claim. As long
// as every holder's heartbeat is on time the two workers must behave like one: the entries are
// replayed once each, in acceptance order, and the drained inner storage is the sequential result.
// The machinery is the one of C18 (c18_doubles.go) transposed to the storage outbox:
//
//	c21LDB    database double per instance: parks the worker before the BeginTx of its claim /
//	          finalize / release transaction (origin recognised from the call stack), lets a heartbeat
//	          transaction through only when the schedule asks for an `ext` step, reports the end of the
//	          step from commit/rollback hooks;
//	c21LRepo  repository double per instance: records what the transaction did and replaces the
//	          wall-clock `now`/`claimUntil` arguments by the harness clock;
//	c21LGate  inner storage wrapper: the four replayed methods park when called by a worker.
//
// Trace of a lease-mode case (first line `cfg mode=lease lease=<L>`):
//
//	op … / queued <n> … / res …          writes issued through instance 0 (all of them queue)
//	claim <w> none|busy|ok <n> <version>
//	replay <w> <n> <Method> <bucket> <key> ok|err      the worker's inner call was performed
//	fin <w> deleted|skipped | rel <w> released|noop | ext <w> ok|lost | tick <d>
//	dump + op/res pairs                   the inner storage read directly once both workers are idle

var errC21Crashed = errors.New("c21: instance stopped")
var errC21HeartbeatSuppressed = errors.New("c21: heartbeat transaction failed (injected)")

type c21LWorkerKey struct{}

type c21LDone struct {
	kind       string
	rolledBack bool
	err        error
}

type c21LWorker struct {
	cs   *c21LCase
	slot int

	store storage.Storage

	arrive chan string
	resume chan struct{}
	done   chan c21LDone
	dead   chan struct{}

	crashed   atomic.Bool
	hbPermits atomic.Int32
	pokeMode  atomic.Bool

	mu          sync.Mutex
	claimFound  bool
	claimOK     bool
	claimID     string
	claimVer    int64
	finDeleted  bool
	relReleased bool
	extExtended bool
	curMethod   string
	curBucket   string
	curKey      string
	unknown     []string
}

func (w *c21LWorker) gate(kind string) error {
	select {
	case w.arrive <- kind:
	case <-w.dead:
		return errC21Crashed
	}
	select {
	case <-w.resume:
		return nil
	case <-w.dead:
		return errC21Crashed
	}
}

func (w *c21LWorker) signal(d c21LDone) {
	select {
	case w.done <- d:
	case <-w.dead:
	}
}

// ---------------------------------------------------------------- database double

type c21LDB struct {
	database.Database
	w *c21LWorker
}

func c21LTxOrigin() string {
	pcs := make([]uintptr, 32)
	n := runtime.Callers(3, pcs)
	frames := runtime.CallersFrames(pcs[:n])
	for {
		fr, more := frames.Next()
		fn := fr.Function
		if strings.Contains(fn, "/storage/outbox.") {
			switch {
			case strings.Contains(fn, "claimNextOutboxEntry"):
				return "claim"
			case strings.Contains(fn, "finalizeStorageOutboxEntry"):
				return "finalize"
			case strings.Contains(fn, "releaseStorageOutboxEntry"):
				return "release"
			case strings.Contains(fn, "startStorageOutboxHeartbeat"):
				return "heartbeat"
			}
		}
		if !more {
			break
		}
	}
	return "other"
}

func (d *c21LDB) BeginTx(ctx context.Context, opts *sql.TxOptions) (*database.TxController, error) {
	w := d.w
	if w.crashed.Load() {
		return nil, errC21Crashed
	}
	origin := c21LTxOrigin()
	gated := false
	switch origin {
	case "claim", "finalize", "release":
		if err := w.gate(origin); err != nil {
			return nil, err
		}
		gated = true
	case "heartbeat":
		for {
			p := w.hbPermits.Load()
			if p <= 0 {
				return nil, errC21HeartbeatSuppressed
			}
			if w.hbPermits.CompareAndSwap(p, p-1) {
				break
			}
		}
		gated = true
		origin = "extend"
	}
	tx, err := d.Database.BeginTx(ctx, opts)
	if err != nil {
		if gated {
			w.signal(c21LDone{kind: origin, rolledBack: true})
		}
		return nil, err
	}
	if gated {
		kind := origin
		tx.OnAfterCommit(func(context.Context) error { w.signal(c21LDone{kind: kind}); return nil })
		tx.OnRollback(func(context.Context) error { w.signal(c21LDone{kind: kind, rolledBack: true}); return nil })
	}
	return tx, nil
}

// ---------------------------------------------------------------- repository double

type c21LRepo struct {
	storageoutboxentry.Repository
	w *c21LWorker
}

func (r *c21LRepo) now() time.Time { return r.w.cs.logical(r.w.cs.clock.Load()) }
func (r *c21LRepo) until() time.Time {
	return r.w.cs.logical(r.w.cs.clock.Load() + r.w.cs.lease)
}

func (r *c21LRepo) SaveStorageOutboxEntry(ctx context.Context, tx *sql.Tx, outboxId string, e *storageoutboxentry.Entity) error {
	if r.w.pokeMode.Load() {
		return nil // wake-up only
	}
	c21NextMilli(&r.w.cs.lastMs)
	err := r.Repository.SaveStorageOutboxEntry(ctx, tx, outboxId, e)
	if err == nil && e.Id != nil {
		cs := r.w.cs
		if _, ok := cs.entries[e.Id.String()]; !ok {
			n := len(cs.entries)
			cs.entries[e.Id.String()] = n
			cs.pending++
			cs.out.Line("queued %d %s %s %s", n, e.Operation, c21B(e.Bucket), c21KeyTok(e.Key))
		}
	}
	return err
}

func (r *c21LRepo) ClaimFirstStorageOutboxEntry(ctx context.Context, tx *sql.Tx, outboxId string, owner string, _ time.Time, _ time.Time) (*storageoutboxentry.Entity, bool, error) {
	if r.w.crashed.Load() {
		return nil, false, errC21Crashed
	}
	e, claimed, err := r.Repository.ClaimFirstStorageOutboxEntry(ctx, tx, outboxId, owner, r.now(), r.until())
	w := r.w
	w.mu.Lock()
	w.claimFound, w.claimOK, w.claimID, w.claimVer = false, claimed, "", 0
	if err == nil {
		if e != nil {
			w.claimFound, w.claimID, w.claimVer = true, e.Id.String(), e.Version
		} else {
			cnt, cerr := r.Repository.Count(ctx, tx, outboxId)
			w.claimFound = cerr == nil && cnt > 0
		}
	}
	w.mu.Unlock()
	return e, claimed, err
}

func (r *c21LRepo) DeleteStorageOutboxEntryByClaimOwner(ctx context.Context, tx *sql.Tx, outboxId string, id ulid.ULID, owner string) (bool, error) {
	ok, err := r.Repository.DeleteStorageOutboxEntryByClaimOwner(ctx, tx, outboxId, id, owner)
	r.w.mu.Lock()
	r.w.finDeleted = ok && err == nil
	r.w.mu.Unlock()
	return ok, err
}

func (r *c21LRepo) ReleaseStorageOutboxEntryClaim(ctx context.Context, tx *sql.Tx, outboxId string, id ulid.ULID, owner string, _ time.Time) (bool, error) {
	ok, err := r.Repository.ReleaseStorageOutboxEntryClaim(ctx, tx, outboxId, id, owner, r.now())
	r.w.mu.Lock()
	r.w.relReleased = ok && err == nil
	r.w.mu.Unlock()
	return ok, err
}

func (r *c21LRepo) ExtendStorageOutboxEntryClaim(ctx context.Context, tx *sql.Tx, outboxId string, id ulid.ULID, owner string, _ time.Time, _ time.Time) (bool, error) {
	ok, err := r.Repository.ExtendStorageOutboxEntryClaim(ctx, tx, outboxId, id, owner, r.now(), r.until())
	r.w.mu.Lock()
	r.w.extExtended = ok && err == nil
	r.w.mu.Unlock()
	return ok, err
}

// ---------------------------------------------------------------- inner storage wrapper

type c21LGate struct {
	delegator.DelegatingStorage
	cs *c21LCase
}

func (g *c21LGate) Start(context.Context) error { return nil }
func (g *c21LGate) Stop(context.Context) error  { return nil }

func c21LWorkerOf(ctx context.Context) *c21LWorker {
	w, _ := ctx.Value(c21LWorkerKey{}).(*c21LWorker)
	return w
}

func (g *c21LGate) replay(ctx context.Context, method string, b storage.BucketName, key string, call func() error) error {
	w := c21LWorkerOf(ctx)
	if w == nil || c21IsClient(ctx) {
		return call()
	}
	w.mu.Lock()
	w.curMethod, w.curBucket, w.curKey = method, c21B(b), key
	w.mu.Unlock()
	if err := w.gate("replay"); err != nil {
		return err
	}
	err := call()
	w.signal(c21LDone{kind: "replay", err: err})
	return err
}

func (g *c21LGate) CreateBucket(ctx context.Context, b storage.BucketName) error {
	return g.replay(ctx, "CreateBucket", b, "", func() error { return g.Next.CreateBucket(ctx, b) })
}
func (g *c21LGate) DeleteBucket(ctx context.Context, b storage.BucketName) error {
	return g.replay(ctx, "DeleteBucket", b, "", func() error { return g.Next.DeleteBucket(ctx, b) })
}
func (g *c21LGate) PutObject(ctx context.Context, b storage.BucketName, k storage.ObjectKey, ct *string, r io.Reader, ci *storage.ChecksumInput, o *storage.PutObjectOptions) (*storage.PutObjectResult, error) {
	var res *storage.PutObjectResult
	err := g.replay(ctx, "PutObject", b, k.String(), func() error {
		var e error
		res, e = g.Next.PutObject(ctx, b, k, ct, r, ci, o)
		return e
	})
	return res, err
}
func (g *c21LGate) DeleteObject(ctx context.Context, b storage.BucketName, k storage.ObjectKey, o *storage.DeleteObjectOptions) (*storage.DeleteObjectResult, error) {
	var res *storage.DeleteObjectResult
	err := g.replay(ctx, "DeleteObject", b, k.String(), func() error {
		var e error
		res, e = g.Next.DeleteObject(ctx, b, k, o)
		return e
	})
	return res, err
}

// ---------------------------------------------------------------- the case

type c21LCase struct {
	out      *verifx.Out
	s3       *s3hCase
	rawS3    *s3hCase
	raw      storage.Storage
	obDB     database.Database
	rawRepo  storageoutboxentry.Repository
	outboxID string
	clock    atomic.Int64
	lease    int64
	base     time.Time
	workers  [2]*c21LWorker
	parked   [2]string
	asleep   [2]bool
	entries  map[string]int
	pending  int
	lastMs   int64
	failed   bool
	rng      *verifx.Rng
}

func (cs *c21LCase) logical(units int64) time.Time { return cs.base.Add(time.Duration(units) * time.Second) }

func (cs *c21LCase) unexpected(format string, a ...any) {
	cs.out.Line("unexpected %s", strings.ReplaceAll(fmt.Sprintf(format, a...), " ", "-"))
	cs.failed = true
}

func (cs *c21LCase) startWorker(slot int, gate storage.Storage) {
	w := &c21LWorker{cs: cs, slot: slot, arrive: make(chan string), resume: make(chan struct{}), done: make(chan c21LDone, 8), dead: make(chan struct{})}
	db := &c21LDB{Database: cs.obDB, w: w}
	repo := &c21LRepo{Repository: cs.rawRepo, w: w}
	// real lease 60 ms: only paces the heartbeat ticker (20 ms); expiry is decided by the harness clock
	w.store = verifx.Must(outboxst.NewStorage(db, cs.outboxID, gate, repo, prometheus.NewRegistry(), 60*time.Millisecond))
	verifx.Check(w.store.Start(context.WithValue(context.Background(), c21LWorkerKey{}, w)))
	cs.workers[slot] = w
}

func (cs *c21LCase) kill(slot int) {
	w := cs.workers[slot]
	if w == nil || w.crashed.Load() {
		return
	}
	w.crashed.Store(true)
	close(w.dead)
	ctx, cancel := context.WithTimeout(context.Background(), 10*time.Second)
	_ = w.store.Stop(ctx)
	cancel()
}

func (cs *c21LCase) awaitArrival(slot int, d time.Duration) bool {
	if cs.parked[slot] != "" {
		return true
	}
	select {
	case k := <-cs.workers[slot].arrive:
		cs.parked[slot] = k
		return true
	case <-time.After(d):
		return false
	}
}

func (cs *c21LCase) poke(slot int) {
	w := cs.workers[slot]
	w.pokeMode.Store(true)
	_ = w.store.CreateBucket(cs.s3.ctx, storage.MustNewBucketName("bkt-poke"))
	w.pokeMode.Store(false)
}

func (cs *c21LCase) awaitDone(slot int, kind string) (c21LDone, bool) {
	select {
	case d := <-cs.workers[slot].done:
		if d.kind != kind {
			cs.unexpected("worker %d finished step %s while %s was scheduled", slot, d.kind, kind)
			return d, false
		}
		return d, true
	case <-time.After(30 * time.Second):
		cs.unexpected("worker %d did not finish step %s", slot, kind)
		return c21LDone{}, false
	}
}

func (cs *c21LCase) phase(slot int) string {
	if cs.asleep[slot] {
		return "asleep"
	}
	switch cs.parked[slot] {
	case "replay":
		return "ready"
	case "finalize":
		return "written"
	case "release":
		return "failed"
	}
	return "idle"
}

func (cs *c21LCase) expectNext(slot int) {
	cs.parked[slot] = ""
	if !cs.awaitArrival(slot, 30*time.Second) {
		cs.unexpected("worker %d did not reach its next step", slot)
	}
}

// step performs one scheduled worker step: claim | replay | fin | rel | ext.
func (cs *c21LCase) step(kind string, slot int) bool {
	if cs.failed {
		return false
	}
	w := cs.workers[slot]
	if kind == "ext" {
		if cs.phase(slot) != "ready" {
			cs.unexpected("extend scheduled for worker %d in phase %s", slot, cs.phase(slot))
			return false
		}
		w.hbPermits.Add(1)
		d, ok := cs.awaitDone(slot, "extend")
		if !ok || d.rolledBack {
			if ok {
				cs.unexpected("heartbeat transaction of worker %d rolled back", slot)
			}
			return false
		}
		w.mu.Lock()
		ext := w.extExtended
		w.mu.Unlock()
		cs.out.Line("ext %d %s", slot, map[bool]string{true: "ok", false: "lost"}[ext])
		return true
	}
	gateOf := map[string]string{"claim": "claim", "replay": "replay", "fin": "finalize", "rel": "release"}
	gate := gateOf[kind]
	if cs.parked[slot] == "" {
		if kind != "claim" {
			cs.unexpected("step %s scheduled for worker %d which is not parked", kind, slot)
			return false
		}
		if !cs.awaitArrival(slot, 20*time.Millisecond) {
			cs.poke(slot)
			if !cs.awaitArrival(slot, 30*time.Second) {
				cs.unexpected("worker %d never attempted a claim", slot)
				return false
			}
		}
	}
	if cs.parked[slot] != gate {
		cs.unexpected("worker %d is at %s, schedule wants %s", slot, cs.parked[slot], kind)
		return false
	}
	w.resume <- struct{}{}
	d, ok := cs.awaitDone(slot, gate)
	if !ok {
		return false
	}
	if d.rolledBack {
		cs.unexpected("transaction of step %s of worker %d rolled back", kind, slot)
		return false
	}
	w.mu.Lock()
	claimOK, claimFound, claimID, claimVer := w.claimOK, w.claimFound, w.claimID, w.claimVer
	finDeleted, relReleased := w.finDeleted, w.relReleased
	method, bucket, key := w.curMethod, w.curBucket, w.curKey
	w.mu.Unlock()
	switch kind {
	case "claim":
		switch {
		case claimOK:
			n, known := cs.entries[claimID]
			if !known {
				n = -1
			}
			cs.out.Line("claim %d ok %d %d", slot, n, claimVer)
			cs.expectNext(slot)
		case claimFound:
			cs.out.Line("claim %d busy", slot)
			cs.parked[slot] = ""
		default:
			cs.out.Line("claim %d none", slot)
			cs.parked[slot] = ""
		}
	case "replay":
		n, known := cs.entries[claimID]
		if !known {
			n = -1
		}
		res := "ok"
		if d.err != nil {
			res = "err"
		}
		cs.out.Line("replay %d %d %s %s %s %s", slot, n, method, bucket, c21KeyTok(key), res)
		cs.expectNext(slot)
	case "fin":
		if finDeleted {
			cs.pending--
			cs.out.Line("fin %d deleted", slot)
			cs.expectNext(slot)
		} else {
			cs.out.Line("fin %d skipped", slot)
			cs.parked[slot] = ""
		}
	case "rel":
		cs.out.Line("rel %d %s", slot, map[bool]string{true: "released", false: "noop"}[relReleased])
		cs.parked[slot] = ""
		cs.asleep[slot] = true
	}
	return !cs.failed
}

func (cs *c21LCase) tick(d int64) {
	cs.clock.Add(d)
	cs.out.Line("tick %d", d)
}

func c21LNext(phase string) string {
	switch phase {
	case "idle":
		return "claim"
	case "ready":
		return "replay"
	case "written":
		return "fin"
	case "failed":
		return "rel"
	}
	return ""
}

// finish lets one worker run until it is idle again (its current entry finalized or skipped).
func (cs *c21LCase) finish(slot int) {
	for i := 0; i < 8 && !cs.failed; i++ {
		ph := cs.phase(slot)
		if ph == "idle" || ph == "asleep" {
			return
		}
		next := c21LNext(ph)
		cs.step(next, slot)
		if next == "fin" || next == "rel" {
			return
		}
	}
}

// drainWith lets the given worker empty the table (the other one stays where it is).
func (cs *c21LCase) drainWith(slot int) {
	for round := 0; round < 64 && !cs.failed; round++ {
		if cs.phase(slot) == "asleep" {
			return
		}
		if cs.phase(slot) == "idle" {
			before := cs.pending
			if !cs.step("claim", slot) {
				return
			}
			if cs.phase(slot) == "idle" { // none or busy
				_ = before
				return
			}
		}
		cs.finish(slot)
	}
}

// scenario: writes queue up; a holder replays slowly under a heartbeat that is always on time while
// the clock advances by more than a lease and the other worker keeps trying to claim; then the table
// is emptied. If the other worker ever gets the entry although the heartbeats were on time, it is
// allowed to run ahead (finish the entry and everything behind it) before the slow holder's call
// lands — that is what a second replica would do.
func (cs *c21LCase) scenario(directed int) {
	r := cs.rng
	h := verifx.HexS
	put := func(k, body string) string {
		return fmt.Sprintf("op put b0 %s %s ct=~ md=~ tags=~ cls=~ inm=0 im=~", k, h(body))
	}
	cs.s3.exec("op mkb b0")
	cs.drainWith(0)
	// the writes: at least two entries for one key so that order matters
	var lines []string
	switch directed {
	case 0:
		lines = []string{put("k0", "older"), put("k0", "newer")}
	case 1:
		lines = []string{put("k0", "to be deleted"), "op del b0 k0 vid=~ im=~", put("k1", "other")}
	default:
		n := 2 + r.Intn(3)
		for i := 0; i < n; i++ {
			k := verifx.Pick(r, []string{"k0", "k0", "k1"})
			if i > 0 && r.Chance(1, 4) {
				lines = append(lines, fmt.Sprintf("op del b0 %s vid=~ im=~", k))
			} else {
				lines = append(lines, put(k, fmt.Sprintf("body-%d-%d", i, r.Intn(1000))))
			}
		}
	}
	for _, l := range lines {
		cs.s3.exec(l)
	}
	holder := 0
	if directed < 0 && r.Chance(1, 2) {
		holder = 1
	}
	other := 1 - holder
	for cs.pending > 0 && !cs.failed {
		if !cs.step("claim", holder) || cs.phase(holder) != "ready" {
			break
		}
		// slow replay: the clock runs for more than a lease, the heartbeat is always on time
		rounds := 4 + r.Intn(3)
		stolen := false
		for i := 0; i < rounds && !cs.failed && !stolen; i++ {
			cs.tick(int64(2 + r.Intn(3))) // 2..4 < lease/2
			if r.Chance(1, 3) {
				cs.step("claim", other)
				stolen = cs.phase(other) != "idle"
			}
			if !stolen {
				cs.step("ext", holder)
				cs.step("claim", other)
				stolen = cs.phase(other) != "idle"
			}
		}
		if stolen {
			// the other worker holds the entry too: it runs ahead through the whole table
			cs.finish(other)
			cs.drainWith(other)
			cs.finish(holder)
			continue
		}
		cs.finish(holder)
		if r.Chance(1, 2) {
			holder, other = other, holder // the next entry is replayed by the other instance
			// the previous holder is parked at its next claim; let it see what is there later
		}
	}
	// whoever is still parked at a claim sees the empty table
	for slot := range cs.workers {
		if cs.parked[slot] == "claim" && !cs.failed {
			cs.step("claim", slot)
		}
	}
}

func (cs *c21LCase) dump() {
	if cs.failed {
		return
	}
	for slot := range cs.workers {
		if ph := cs.phase(slot); ph != "idle" && ph != "asleep" {
			cs.unexpected("worker %d still busy at the end", slot)
			return
		}
	}
	c21LearnVids(cs.raw, cs.s3.vids)
	cs.out.Line("dump")
	c21DumpInner(cs.raw, cs.rawS3, cs.s3)
}

// c21LearnVids / c21DumpInner: shared with the single-worker mode (c21.go).
func c21LearnVids(raw storage.Storage, vids map[string]int) {
	var fresh []string
	for _, b := range []string{"b0", "b1"} {
		res, err := raw.ListObjectVersions(context.Background(), storage.MustNewBucketName("bkt-"+b), storage.ListObjectVersionsOptions{MaxKeys: 100000})
		if err != nil {
			continue
		}
		for _, v := range res.Versions {
			if v.VersionID != "null" {
				if _, ok := vids[v.VersionID]; !ok {
					fresh = append(fresh, v.VersionID)
				}
			}
		}
	}
	sort.Strings(fresh)
	for _, v := range fresh {
		if _, ok := vids[v]; !ok {
			vids[v] = len(vids)
		}
	}
}

func c21DumpInner(raw storage.Storage, rawS3, s3 *s3hCase) {
	rawS3.exec("op lsb")
	for _, b := range []string{"b0", "b1"} {
		bn := storage.MustNewBucketName("bkt-" + b)
		if _, err := raw.HeadBucket(context.Background(), bn); err != nil {
			continue
		}
		rawS3.exec("op lsv " + b)
		rawS3.exec("op ls " + b)
		res, err := raw.ListObjectVersions(context.Background(), bn, storage.ListObjectVersionsOptions{MaxKeys: 100000})
		if err != nil {
			continue
		}
		for _, v := range res.Versions {
			if v.IsDeleteMarker {
				continue
			}
			vid := v.VersionID
			rawS3.exec(fmt.Sprintf("op get %s %s vid=%s", b, v.Key.String(), s3.vidOut(&vid)))
		}
	}
}

// runLeaseCase runs one lease-mode case on the lane's databases. directed < 0: generated.
func (l *c21Lane) runLeaseCase(k int, seed uint64, directed int) []byte {
	l.ensure()
	path := filepath.Join(l.dir, fmt.Sprintf("case-%d.txt", k))
	out, file := c21NewOut(path)
	cs := &c21LCase{out: out, raw: l.stack.Storage, obDB: l.obDB, outboxID: fmt.Sprintf("c21-%d", k), lease: 10,
		base: time.Date(2030, 1, 1, 0, 0, 0, 0, time.UTC), entries: map[string]int{}, rng: verifx.NewRng(seed)}
	cs.rawRepo = verifx.Must(repositoryfactory.NewStorageOutboxEntryRepository(l.obDB))
	gate := &c21LGate{DelegatingStorage: delegator.Wrap(l.stack.Storage), cs: cs}
	for slot := 0; slot < 2; slot++ {
		cs.startWorker(slot, gate)
	}
	vids := map[string]int{}
	mk := func(st storage.Storage, ctx context.Context) *s3hCase {
		return &s3hCase{ctx: ctx, st: st, out: out, vids: vids, bnams: nil, lastEtag: map[string]string{},
			lastSize: map[string]int64{}, made: map[string]bool{}}
	}
	cs.s3 = mk(cs.workers[0].store, context.WithValue(context.Background(), c21ClientKey{}, true))
	cs.rawS3 = mk(l.stack.Storage, context.Background())
	out.Line("cfg mode=lease lease=%d", cs.lease)
	func() {
		defer func() {
			if r := recover(); r != nil {
				out.Line("res panic %s", verifx.HexS(fmt.Sprint(r)))
				cs.failed = true
			}
		}()
		cs.scenario(directed)
		cs.dump()
	}()
	for slot := range cs.workers {
		cs.kill(slot)
	}
	out.Flush()
	_ = file.Close()
	data, _ := os.ReadFile(path)
	_ = os.Remove(path)
	l.wipe()
	return data
}
