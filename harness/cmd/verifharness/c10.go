//go:build verif

package main

import (
	"context"
	"crypto/sha256"
	"database/sql"
	"encoding/hex"
	"encoding/json"
	"flag"
	"fmt"
	"io"
	"os"
	"os/exec"
	"path/filepath"
	"sort"
	"strings"
	"sync"
	"syscall"

	"github.com/jdillenkofer/pithos/internal/storage"
	"github.com/jdillenkofer/pithos/internal/storage/database"
	"github.com/jdillenkofer/pithos/internal/storage/database/sqlite"
	"github.com/jdillenkofer/pithos/internal/storage/metadatapart"
	"github.com/jdillenkofer/pithos/internal/storage/metadatapart/metadatastore"
	"github.com/jdillenkofer/pithos/internal/storage/metadatapart/partstore"
	"github.com/jdillenkofer/pithos/internal/verifx"
)

// C10 — operations are all-or-nothing across process crashes (T4, crash half).
//
// One case = a prepared state (a short history run in-process on SQLite + two filesystem part
// stores, then closed) and one target operation. The target operation is executed by a CHILD
// process (`verifharness c10child`) on a copy of the prepared state, once without a kill (to learn
// the points it reaches and the state it produces) and once per reached point with a SIGKILL at
// that point. After every kill the parent lists the part directories as left behind, reopens
// database + part stores with a fresh stack (Start of the part stores included), lists again,
// reads everything through the storage API and finally completes every pending upload and reads
// the result. Protocol: lean/Driver/C10.lean.

func init() {
	register("c10", runC10)
	register("c10child", c10ChildMain)
}

// ---------------------------------------------------------------- stack

type c10Store struct {
	partstore.PartStore
	name string
}

func (s *c10Store) Capabilities() partstore.Capabilities { return partstore.CapabilitiesOf(s.PartStore) }

type c10Stack struct {
	dir  string
	raw  database.Database
	ms   metadatastore.MetadataStore
	st   storage.Storage
	dirs map[string]string
}

func c10Dirs(dir string) map[string]string {
	return map[string]string{"d": filepath.Join(dir, "parts"), "c": filepath.Join(dir, "parts-cold")}
}

// c10OpenStack opens (or creates) database + the two filesystem part stores under dir and starts
// the part stores the way a process start does (Start is where a start-up recovery would run).
// The storage's own Start is not used: it would launch the background GC loop.
func c10OpenStack(dir string) *c10Stack {
	verifx.Check(os.MkdirAll(dir, 0o755))
	raw := verifx.Must(sqlite.OpenDatabase(filepath.Join(dir, "pithos.db")))
	dirs := c10Dirs(dir)
	def := &c10Store{PartStore: verifx.NewBasePartStore(raw, "fs", dirs["d"]), name: "d"}
	cold := &c10Store{PartStore: verifx.NewBasePartStore(raw, "fs", dirs["c"]), name: "c"}
	verifx.Check(def.Start(context.Background()))
	verifx.Check(cold.Start(context.Background()))
	ms := verifx.NewMeta(raw)
	st := verifx.Must(metadatapart.NewStorageWithNamedPartStores(raw, ms, def, map[string]partstore.PartStore{"cold": cold},
		map[string]string{"GLACIER": "cold", "DEEP_ARCHIVE": "cold"}))
	return &c10Stack{dir: dir, raw: raw, ms: ms, st: st, dirs: dirs}
}

func (s *c10Stack) close() { _ = s.raw.Close() }

// ---------------------------------------------------------------- child: run one op, maybe die

type c10State struct {
	Uids []string       `json:"uids"`
	Vids map[string]int `json:"vids"`
}

type c10ChildPlan struct {
	mu     sync.Mutex
	armed  bool
	kill   string // "name:index:occ" or ""
	seen   map[string]int
	points []string
	calls  []string
	psN    int
}

var c10P = &c10ChildPlan{seen: map[string]int{}}

func (p *c10ChildPlan) point(name string, index int) {
	p.mu.Lock()
	defer p.mu.Unlock()
	if !p.armed {
		return
	}
	key := fmt.Sprintf("%s:%d", name, index)
	occ := p.seen[key]
	p.seen[key] = occ + 1
	id := fmt.Sprintf("%s:%d", key, occ)
	p.points = append(p.points, id)
	if id == p.kill {
		// process kill, not power loss: everything written so far is in the OS
		_ = syscall.Kill(os.Getpid(), syscall.SIGKILL)
		select {}
	}
}

func c10VerifPoint(ctx context.Context, name string, index int) error {
	if tx, ok := database.TxControllerFromContext(ctx); ok && tx.ReadOnly() {
		return nil
	}
	c10P.point(name, index)
	return nil
}

func (s *c10Store) PutPart(ctx context.Context, tx database.Tx, id partstore.PartId, r io.Reader) error {
	c10P.mu.Lock()
	n := c10P.psN
	c10P.psN++
	c10P.mu.Unlock()
	c10P.point("ps.before", n)
	h := sha256.New()
	err := s.PartStore.PutPart(ctx, tx, id, io.TeeReader(r, h))
	if err == nil {
		c10P.mu.Lock()
		if c10P.armed {
			c10P.calls = append(c10P.calls, fmt.Sprintf("put:%s:%s:%s", s.name, hex.EncodeToString(id.Bytes()), hex.EncodeToString(h.Sum(nil)[:6])))
		}
		c10P.mu.Unlock()
	}
	c10P.point("ps.after", n)
	return err
}

func (s *c10Store) DeletePart(ctx context.Context, tx database.Tx, id partstore.PartId) error {
	c10P.mu.Lock()
	n := c10P.psN
	c10P.psN++
	c10P.mu.Unlock()
	c10P.point("ps.before", n)
	err := s.PartStore.DeletePart(ctx, tx, id)
	if err == nil {
		c10P.mu.Lock()
		if c10P.armed {
			c10P.calls = append(c10P.calls, fmt.Sprintf("del:%s:%s", s.name, hex.EncodeToString(id.Bytes())))
		}
		c10P.mu.Unlock()
	}
	c10P.point("ps.after", n)
	return err
}

func c10ChildMain(args []string) {
	fs := flag.NewFlagSet("c10child", flag.ExitOnError)
	dir := fs.String("dir", "", "state directory")
	line := fs.String("line", "", "op line")
	kill := fs.String("kill", "", "name:index:occurrence")
	_ = fs.Parse(args)
	var stt c10State
	b, err := os.ReadFile(filepath.Join(*dir, "state.json"))
	verifx.Check(err)
	verifx.Check(json.Unmarshal(b, &stt))
	stk := c10OpenStack(*dir)
	cap := c10NewCapture(filepath.Join(*dir, "child.cap"))
	c := &s3hCase{ctx: context.Background(), st: stk.st, out: cap.out, vids: stt.Vids, bnams: []string{"b0", "b1"},
		lastEtag: map[string]string{}, lastSize: map[string]int64{}, made: map[string]bool{}}
	for _, u := range stt.Uids {
		c.uids = append(c.uids, storage.MustNewUploadId(u))
	}
	database.SetVerifPointFunc(c10VerifPoint)
	c10P.mu.Lock()
	c10P.armed, c10P.kill = true, *kill
	c10P.mu.Unlock()
	res := c10Exec(c, cap, *line)
	c10P.mu.Lock()
	c10P.armed = false
	c10P.mu.Unlock()
	database.SetVerifPointFunc(nil)
	stk.close()
	rep := map[string]any{"res": res, "points": c10P.points, "calls": c10P.calls}
	jb, _ := json.Marshal(rep)
	verifx.Check(os.WriteFile(filepath.Join(*dir, "child.json"), jb, 0o644))
}

// ---------------------------------------------------------------- shared-executor plumbing (as in c03.go)

type c10Capture struct {
	f   *os.File
	out *verifx.Out
}

func c10NewCapture(path string) *c10Capture {
	f := verifx.Must(os.Create(path))
	saved := os.Stdout
	os.Stdout = f
	out := verifx.NewOut()
	os.Stdout = saved
	return &c10Capture{f: f, out: out}
}

func (c *c10Capture) take() []string {
	c.out.Flush()
	_, _ = c.f.Seek(0, io.SeekStart)
	b, _ := io.ReadAll(c.f)
	_ = c.f.Truncate(0)
	_, _ = c.f.Seek(0, io.SeekStart)
	s := strings.TrimRight(string(b), "\n")
	if s == "" {
		return nil
	}
	return strings.Split(s, "\n")
}

func c10Exec(c *s3hCase, cap *c10Capture, line string) (res string) {
	defer func() {
		if r := recover(); r != nil {
			cap.take()
			res = "res panic " + verifx.HexS(fmt.Sprint(r))
		}
	}()
	t := strings.Fields(line)
	B := func(i int) storage.BucketName { return storage.MustNewBucketName("bkt-" + t[i]) }
	K := func(i int) storage.ObjectKey { return storage.MustNewObjectKey(t[i]) }
	var err error
	switch t[1] {
	case "dels":
		entries := []storage.DeleteObjectsInputEntry{}
		for _, k := range t[3:] {
			entries = append(entries, storage.DeleteObjectsInputEntry{Key: storage.MustNewObjectKey(k)})
		}
		_, err = c.st.DeleteObjects(c.ctx, B(2), entries)
		c.learnVids() // delete markers get version ids
		cap.take()
	case "uppcp":
		_, err = c.st.UploadPartCopy(c.ctx, B(2), K(3), B(4), K(5), c.uid(t[6]), atoi32(t[7]), nil)
	default:
		c.exec(line)
		for _, l := range cap.take() {
			if strings.HasPrefix(l, "res ") {
				return l
			}
		}
		return "res missing"
	}
	if err != nil {
		k := errKind(err)
		if k == "Other" {
			return "res err Other " + verifx.HexS(err.Error())
		}
		return "res err " + k
	}
	return "res ok"
}

// ---------------------------------------------------------------- canonical names relative to the prepared state

// c10Names maps raw ids/timestamps of the prepared state to ordinals; anything created later is
// "new" (several new ids of one kind are numbered in sorted = creation order per listing).
type c10Names struct {
	known  map[string]string
	frozen bool
}

func (n *c10Names) learn(kind string, raws []string) {
	if n.frozen {
		return
	}
	sort.Strings(raws)
	for _, r := range raws {
		k := kind + "\x00" + r
		if _, ok := n.known[k]; !ok {
			c := 0
			for kk := range n.known {
				if strings.HasPrefix(kk, kind+"\x00") {
					c++
				}
			}
			n.known[k] = fmt.Sprintf("%s%d", kind, c)
		}
	}
}

func (n *c10Names) of(kind, raw string) (string, bool) {
	v, ok := n.known[kind+"\x00"+raw]
	return v, ok
}

// renderNew names the unknown ids among raws: new0, new1 … in sorted order.
func (n *c10Names) table(kind string, raws []string) map[string]string {
	out := map[string]string{}
	unk := []string{}
	for _, r := range raws {
		if v, ok := n.of(kind, r); ok {
			out[r] = v
		} else {
			unk = append(unk, r)
		}
	}
	sort.Strings(unk)
	j := 0
	for _, r := range unk {
		if _, ok := out[r]; !ok {
			out[r] = fmt.Sprintf("%snew%d", kind, j)
			j++
		}
	}
	return out
}

func c10Hash(b []byte) string {
	h := sha256.Sum256(b)
	return hex.EncodeToString(h[:6])
}

// c10DirListing: "<store>/<part>=<hash>", backups "….bk=<hash>", temp files "….tmp=<hash>".
func c10DirListing(dirs map[string]string, nm *c10Names) string {
	type ent struct{ letter, name, id, kind string }
	ents := []ent{}
	ids := []string{}
	for _, letter := range []string{"d", "c"} {
		des, err := os.ReadDir(dirs[letter])
		if err != nil {
			continue
		}
		for _, e := range des {
			name := e.Name()
			switch {
			case len(name) == 32:
				ents = append(ents, ent{letter, name, name, ""})
				ids = append(ids, name)
			case len(name) > 42 && name[32:42] == ".txbackup.":
				ents = append(ents, ent{letter, name, name[:32], ".bk"})
				ids = append(ids, name[:32])
			case len(name) > 34 && name[0] == '.' && strings.HasSuffix(name, ".tmp"):
				ents = append(ents, ent{letter, name, name[1:33], ".tmp"})
				ids = append(ids, name[1:33])
			default:
				ents = append(ents, ent{letter, name, "", "?"})
			}
		}
	}
	nm.learn("p", append([]string{}, ids...))
	tab := nm.table("p", ids)
	items := []string{}
	for _, e := range ents {
		if e.kind == "?" {
			items = append(items, fmt.Sprintf("%s/?%s", e.letter, verifx.HexS(e.name)))
			continue
		}
		content, _ := os.ReadFile(filepath.Join(dirs[e.letter], e.name))
		items = append(items, fmt.Sprintf("%s/%s%s=%s", e.letter, tab[e.id], e.kind, c10Hash(content)))
	}
	sort.Strings(items)
	return joinOr(items)
}

// c10Refs lists the part ids the database references (parts table), canonical names.
func c10Refs(stk *c10Stack, nm *c10Names, tab map[string]string) string {
	ctx := context.Background()
	items := []string{}
	err := database.WithTx(ctx, stk.raw, &sql.TxOptions{ReadOnly: true}, func(ctx context.Context, tx database.Tx) error {
		counts, err := stk.ms.GetInUsePartIdCounts(ctx, tx.SqlTx())
		if err != nil {
			return err
		}
		for id := range counts {
			hx := hex.EncodeToString(id.Bytes())
			if v, ok := nm.of("p", hx); ok {
				items = append(items, v)
			} else if v, ok := tab[hx]; ok {
				items = append(items, v)
			} else {
				items = append(items, "p?"+hx)
			}
		}
		return nil
	})
	if err != nil {
		return "err"
	}
	sort.Strings(items)
	return joinOr(items)
}

// ---------------------------------------------------------------- API snapshot (names relative to the prepared state)

func c10ErrTok(err error) string {
	k := errKind(err)
	if k == "Other" {
		return "Other:" + verifx.HexS(err.Error())
	}
	return k
}

func c10Snapshot(ctx context.Context, st storage.Storage, nm *c10Names) []string {
	lines := []string{}
	add := func(f string, a ...any) { lines = append(lines, fmt.Sprintf(f, a...)) }
	buckets, err := st.ListBuckets(ctx)
	if err != nil {
		return []string{"LSB err:" + c10ErrTok(err)}
	}
	// pass 1: collect raw ids and times, so that new ones can be numbered in creation order
	vids, uids, times := []string{}, []string{}, []string{}
	type verRec struct {
		b   storage.Bucket
		v   storage.ObjectVersion
		idx int
	}
	type upRec struct {
		b storage.Bucket
		u storage.Upload
	}
	vers := []verRec{}
	ups := []upRec{}
	objs := map[string][]storage.Object{}
	tstr := func(t int64) string { return fmt.Sprint(t) }
	for _, b := range buckets {
		os_, err := storage.ListAllObjectsOfBucket(ctx, st, b.Name)
		if err != nil {
			add("L %s err:%s", b.Name.String(), c10ErrTok(err))
		}
		objs[b.Name.String()] = os_
		for _, o := range os_ {
			times = append(times, tstr(o.LastModified.UnixNano()))
		}
		vr, err := st.ListObjectVersions(ctx, b.Name, storage.ListObjectVersionsOptions{MaxKeys: 100000})
		if err != nil {
			add("V %s err:%s", b.Name.String(), c10ErrTok(err))
		} else {
			for i, v := range vr.Versions {
				vers = append(vers, verRec{b, v, i})
				if v.VersionID != "null" {
					vids = append(vids, v.VersionID)
				}
				times = append(times, tstr(v.LastModified.UnixNano()))
			}
		}
		ur, err := st.ListMultipartUploads(ctx, b.Name, storage.ListMultipartUploadsOptions{MaxUploads: 1000})
		if err != nil {
			add("U %s err:%s", b.Name.String(), c10ErrTok(err))
		} else {
			for _, u := range ur.Uploads {
				ups = append(ups, upRec{b, u})
				uids = append(uids, u.UploadId.String())
				times = append(times, tstr(u.Initiated.UnixNano()))
			}
		}
	}
	nm.learn("v", append([]string{}, vids...))
	nm.learn("u", append([]string{}, uids...))
	nm.learn("t", append([]string{}, times...))
	vt, ut := nm.table("v", vids), nm.table("u", uids)
	tm := func(t int64) string {
		if v, ok := nm.of("t", tstr(t)); ok {
			return v
		}
		return "tnew"
	}
	for _, b := range buckets {
		bn := b.Name.String()
		vc, err := st.GetBucketVersioningConfiguration(ctx, b.Name)
		vs := "~"
		if err != nil {
			vs = "err:" + c10ErrTok(err)
		} else if vc != nil && vc.Status != nil {
			vs = string(*vc.Status)
		}
		add("B %s ver=%s", bn, vs)
		for _, o := range objs[bn] {
			add("L %s %s size=%d etag=%s cls=%s lm=%s", bn, verifx.HexS(o.Key.String()), o.Size, o.ETag, optS(o.StorageClass), tm(o.LastModified.UnixNano()))
		}
	}
	for _, r := range vers {
		bn, v := r.b.Name.String(), r.v
		vid := v.VersionID
		if vid != "null" {
			vid = vt[vid]
		}
		et := "~"
		if v.ETag != nil {
			et = *v.ETag
		}
		add("V %s #%03d %s %s latest=%d dm=%d size=%d etag=%s cls=%s lm=%s", bn, r.idx, verifx.HexS(v.Key.String()), vid, b2i(v.IsLatest), b2i(v.IsDeleteMarker),
			v.Size, et, optS(v.StorageClass), tm(v.LastModified.UnixNano()))
		if v.IsDeleteMarker {
			continue
		}
		raw := v.VersionID
		obj, rs, err := st.GetObject(ctx, r.b.Name, v.Key, nil, &storage.GetObjectOptions{VersionID: &raw})
		if err != nil {
			add("O %s %s %s err:%s", bn, verifx.HexS(v.Key.String()), vid, c10ErrTok(err))
		} else {
			body, rerr := readAllClose(rs)
			bs := fmt.Sprintf("%s/%d", c10Hash(body), len(body))
			if rerr != nil {
				bs = "READFAIL"
			}
			add("O %s %s %s body=%s size=%d ct=%s md=%s tags=%s cls=%s etag=%s lm=%s listsize=%d listetag=%s", bn, verifx.HexS(v.Key.String()), vid, bs, obj.Size,
				optS(obj.ContentType), pairsS(metaPairs(obj.Metadata)), pairsS(obj.Tags), optS(obj.StorageClass), obj.ETag, tm(obj.LastModified.UnixNano()), v.Size, et)
		}
	}
	for _, r := range ups {
		bn, u := r.b.Name.String(), r.u
		un := ut[u.UploadId.String()]
		add("U %s %s %s init=%s cls=%s", bn, verifx.HexS(u.Key.String()), un, tm(u.Initiated.UnixNano()), optS(u.StorageClass))
		ps, err := st.ListParts(ctx, r.b.Name, u.Key, u.UploadId, storage.ListPartsOptions{MaxParts: 10000})
		if err != nil {
			add("P %s %s err:%s", bn, un, c10ErrTok(err))
			continue
		}
		for _, p := range ps.Parts {
			add("P %s %s n=%d etag=%s size=%d lm=%s", bn, un, p.PartNumber, p.ETag, p.Size, tm(p.LastModified.UnixNano()))
		}
	}
	sort.Strings(lines)
	// completion probe (mutates the state; nothing is read afterwards): are the parts of every
	// pending upload still there?
	for _, r := range ups {
		un := ut[r.u.UploadId.String()]
		res, err := st.CompleteMultipartUpload(ctx, r.b.Name, r.u.Key, r.u.UploadId, nil, nil)
		if err != nil {
			lines = append(lines, fmt.Sprintf("X %s %s %s complete=err:%s", r.b.Name.String(), verifx.HexS(r.u.Key.String()), un, c10ErrTok(err)))
			continue
		}
		var o *storage.GetObjectOptions
		if res.VersionID != nil {
			o = &storage.GetObjectOptions{VersionID: res.VersionID}
		}
		obj, rs, err := st.GetObject(ctx, r.b.Name, r.u.Key, nil, o)
		if err != nil {
			lines = append(lines, fmt.Sprintf("X %s %s %s complete=ok get=err:%s", r.b.Name.String(), verifx.HexS(r.u.Key.String()), un, c10ErrTok(err)))
			continue
		}
		body, rerr := readAllClose(rs)
		bs := fmt.Sprintf("%s/%d", c10Hash(body), len(body))
		if rerr != nil {
			bs = "READFAIL"
		}
		lines = append(lines, fmt.Sprintf("X %s %s %s complete=ok body=%s size=%d etag=%s", r.b.Name.String(), verifx.HexS(r.u.Key.String()), un, bs, obj.Size, res.ETag))
	}
	return lines
}

// ---------------------------------------------------------------- parent

func c10CopyDir(src, dst string) {
	verifx.Check(filepath.Walk(src, func(p string, info os.FileInfo, err error) error {
		if err != nil {
			return err
		}
		rel, _ := filepath.Rel(src, p)
		t := filepath.Join(dst, rel)
		if info.IsDir() {
			return os.MkdirAll(t, 0o755)
		}
		b, err := os.ReadFile(p)
		if err != nil {
			return err
		}
		return os.WriteFile(t, b, 0o644)
	}))
}

type c10Case struct {
	name   string
	setup  []string
	target string
}

func c10Directed() []c10Case {
	h := verifx.HexS
	po := " ct=~ md=~ tags=~ cls=~ inm=0 im=~"
	mo := " ct=~ md=~ tags=~ cls=~"
	base := []string{"op mkb b0", "op put b0 k0 " + h("the-old-content-of-k0") + po, "op put b0 k1 " + h("k1-content") + po}
	return []c10Case{
		{"put-new", base, "op put b0 dir/k2 " + h("brand-new") + po},
		{"overwrite", base, "op put b0 k0 " + h("the-new-content") + po},
		{"delete", base, "op del b0 k0 vid=~ im=~"},
		{"copy-over", base, "op cp b0 k1 b0 k0 svid=~ mdir=C tdir=C" + mo},
		{"complete-over", append(append([]string{}, base...), "op mpu b0 k0"+mo, "op upp b0 k0 0 1 "+h("part-1;"), "op upp b0 k0 0 2 "+h("part-2.")),
			"op cmpl b0 k0 0 parts=~ inm=0 im=~"},
		{"abort", append(append([]string{}, base...), "op mpu b0 k1"+mo, "op upp b0 k1 0 1 "+h("pending-part-1"), "op upp b0 k1 0 2 "+h("pending-part-2")),
			"op abort b0 k1 0"},
		{"transition", base, "op trans b0 k0 GLACIER vid=~"},
		{"put-dedup", base, "op put b0 dir/k2 " + h("k1-content") + po},
		{"append", base, "op app b0 k0 " + h("+tail") + " off=~"},
		{"replace-upload-part", append(append([]string{}, base...), "op mpu b0 k1"+mo, "op upp b0 k1 0 1 "+h("first-try")),
			"op upp b0 k1 0 1 " + h("second-try")},
		{"delete-version", []string{"op mkb b0", "op ver b0 E", "op put b0 k0 " + h("v-zero") + po, "op put b0 k0 " + h("v-one") + po}, "op del b0 k0 vid=v0 im=~"},
		{"delete-marker", []string{"op mkb b0", "op ver b0 E", "op put b0 k0 " + h("v-zero") + po}, "op del b0 k0 vid=~ im=~"},
		{"delete-objects", base, "op dels b0 k0 k1"},
		{"copy-cross-store", append(append([]string{}, base...), "op put b0 dir/k2 "+h("cold-one")+" ct=~ md=~ tags=~ cls="+h("GLACIER")+" inm=0 im=~"),
			"op cp b0 dir/k2 b0 k0 svid=~ mdir=C tdir=C" + mo},
	}
}

var c10MutatingKinds = map[string]bool{"put": true, "del": true, "cp": true, "cmpl": true, "abort": true, "trans": true, "app": true, "upp": true}

func runC10(args []string) {
	f := verifx.ParseFlags("c10", args, 4, 30)
	out := verifx.NewOut()
	ctx := context.Background()
	self := os.Args[0]
	directed := c10Directed()
	total := len(directed) + f.Cases
	for k := 0; k < total; k++ {
		if !f.Wants(k) {
			continue
		}
		seed := verifx.CaseSeed(f.Seed, k)
		root := filepath.Join(f.Scratch, fmt.Sprintf("c10-%d", k))
		_ = os.RemoveAll(root)
		base := filepath.Join(root, "base")
		out.Case(k, seed)

		// ---- prepare the state in-process
		stk := c10OpenStack(base)
		cap := c10NewCapture(filepath.Join(root, "parent.cap"))
		c := &s3hCase{ctx: ctx, st: stk.st, out: cap.out, vids: map[string]int{}, bnams: []string{"b0", "b1"},
			lastEtag: map[string]string{}, lastSize: map[string]int64{}, made: map[string]bool{}}
		var cs c10Case
		if k < len(directed) {
			cs = directed[k]
			for _, l := range cs.setup {
				c10Exec(c, cap, l)
			}
		} else {
			r := verifx.NewRng(seed)
			g := &s3hGen{r: r, c: c, mode: verifx.Pick(r, []string{"mixed", "mixed", "versioning", "transition"})}
			n := 6 + r.Intn(14)
			for i := 0; i < n; i++ {
				l := g.next()
				cs.setup = append(cs.setup, l)
				c10Exec(c, cap, l)
			}
			for tries := 0; tries < 200; tries++ {
				l := g.next()
				if c10MutatingKinds[strings.Fields(l)[1]] {
					cs.target = l
					break
				}
			}
			if cs.target == "" {
				cs.target = "op put b0 k0 " + verifx.HexS("fallback") + " ct=~ md=~ tags=~ cls=~ inm=0 im=~"
			}
			cs.name = "gen-" + strings.Fields(cs.target)[1]
		}
		stt := c10State{Vids: c.vids}
		for _, u := range c.uids {
			stt.Uids = append(stt.Uids, u.String())
		}
		if stt.Vids == nil {
			stt.Vids = map[string]int{}
		}
		jb, _ := json.Marshal(stt)
		stk.close()
		_ = os.Remove(filepath.Join(root, "parent.cap"))
		verifx.Check(os.WriteFile(filepath.Join(base, "state.json"), jb, 0o644))
		out.Line("cfg name=%s setup=%d recovery=%d", cs.name, len(cs.setup), c10RecoveryProbe(filepath.Join(root, "probe")))
		for _, l := range cs.setup {
			out.Line("setup %s", l)
		}
		out.Line("%s", cs.target)

		nm := &c10Names{known: map[string]string{}}
		work := filepath.Join(root, "w")

		// observe opens a copy after a (possibly killed) child run and reports what is there
		observe := func(emit func(string, ...any), work, tag string, rawDirFirst bool) {
			if rawDirFirst {
				emit("%s rawdir %s", tag, c10DirListing(c10Dirs(work), nm))
			}
			s2 := c10OpenStack(work)
			emit("%s dir %s", tag, c10DirListing(s2.dirs, nm))
			emit("%s refs %s", tag, c10Refs(s2, nm, c10PartTable(s2.dirs, nm)))
			for _, l := range c10Snapshot(ctx, s2.st, nm) {
				emit("%s s %s", tag, strings.ReplaceAll(l, " ", "|"))
			}
			s2.close()
		}
		direct := func(f string, a ...any) { out.Line(f, a...) }

		// ---- the prepared state itself
		_ = os.RemoveAll(work)
		c10CopyDir(base, work)
		observe(direct, work, "pre", false)
		nm.frozen = true

		// ---- the unkilled run: which points, which calls, which final state
		_ = os.RemoveAll(work)
		c10CopyDir(base, work)
		rep := c10RunChild(self, work, cs.target, "")
		if rep == nil {
			out.Line("count failed")
			out.End()
			_ = os.RemoveAll(root)
			continue
		}
		out.Line("%s", rep.Res)
		out.Line("calls %s", c10CanonCalls(rep.Calls, c10Dirs(work), nm))
		out.Line("points %s", joinOr(rep.Points))
		observe(direct, work, "post", false)

		// ---- one killed run per reached point (independent copies: run a few at a time)
		results := make([][]string, len(rep.Points))
		var wg sync.WaitGroup
		sem := make(chan struct{}, 4)
		for pi, p := range rep.Points {
			wg.Add(1)
			go func(pi int, p string) {
				defer wg.Done()
				sem <- struct{}{}
				defer func() { <-sem }()
				var lines []string
				emit := func(f string, a ...any) { lines = append(lines, fmt.Sprintf(f, a...)) }
				w := filepath.Join(root, fmt.Sprintf("w%d", pi))
				c10CopyDir(base, w)
				if r2 := c10RunChild(self, w, cs.target, p); r2 != nil {
					emit("crash %s notkilled", p)
				} else {
					emit("crash %s", p)
					observe(emit, w, "c", true)
				}
				_ = os.RemoveAll(w)
				results[pi] = lines
			}(pi, p)
		}
		wg.Wait()
		for _, ls := range results {
			for _, l := range ls {
				out.Line("%s", l)
			}
		}
		out.End()
		_ = os.RemoveAll(root)
	}
	out.Flush()
}

// c10RecoveryProbe observes whether starting a filesystem part store restores an orphaned
// `.txbackup.*` file whose target is missing (1) or leaves it alone (0).
func c10RecoveryProbe(dir string) int {
	_ = os.RemoveAll(dir)
	verifx.Check(os.MkdirAll(dir, 0o755))
	id := verifx.Must(partstore.NewRandomPartId())
	name := hex.EncodeToString(id.Bytes())
	verifx.Check(os.WriteFile(filepath.Join(dir, name+".txbackup.01ARZ3NDEKTSV4RRFFQ69G5FAV"), []byte("probe"), 0o644))
	ps := verifx.NewBasePartStore(nil, "fs", dir)
	verifx.Check(ps.Start(context.Background()))
	_, err := os.Stat(filepath.Join(dir, name))
	_ = os.RemoveAll(dir)
	if err == nil {
		return 1
	}
	return 0
}

// c10PartTable names every part id that occurs in the directories (parts, backups, temp files).
func c10PartTable(dirs map[string]string, nm *c10Names) map[string]string {
	ids := []string{}
	for _, letter := range []string{"d", "c"} {
		des, _ := os.ReadDir(dirs[letter])
		for _, e := range des {
			name := e.Name()
			switch {
			case len(name) == 32:
				ids = append(ids, name)
			case len(name) > 42 && name[32:42] == ".txbackup.":
				ids = append(ids, name[:32])
			case len(name) > 34 && name[0] == '.' && strings.HasSuffix(name, ".tmp"):
				ids = append(ids, name[1:33])
			}
		}
	}
	return nm.table("p", ids)
}

type c10ChildReport struct {
	Res    string   `json:"res"`
	Points []string `json:"points"`
	Calls  []string `json:"calls"`
}

// c10RunChild returns the child's report, or nil when the child died (was killed).
func c10RunChild(self, dir, line, kill string) *c10ChildReport {
	_ = os.Remove(filepath.Join(dir, "child.json"))
	cmd := exec.Command(self, "c10child", "-dir", dir, "-line", line, "-kill", kill)
	cmd.Stdout, cmd.Stderr = nil, nil
	_ = cmd.Run()
	_ = os.Remove(filepath.Join(dir, "child.cap"))
	b, err := os.ReadFile(filepath.Join(dir, "child.json"))
	if err != nil {
		return nil
	}
	_ = os.Remove(filepath.Join(dir, "child.json"))
	var rep c10ChildReport
	if json.Unmarshal(b, &rep) != nil {
		return nil
	}
	return &rep
}

// c10CanonCalls renders the part-store calls of the unkilled run with canonical part names. New
// part ids are numbered in creation order over all calls of the run (= the order of their ULIDs).
func c10CanonCalls(calls []string, dirs map[string]string, nm *c10Names) string {
	ids := []string{}
	for _, c := range calls {
		ids = append(ids, strings.Split(c, ":")[2])
	}
	tab := nm.table("p", ids)
	items := []string{}
	for _, c := range calls {
		t := strings.Split(c, ":")
		it := fmt.Sprintf("%s:%s/%s", t[0], t[1], tab[t[2]])
		if t[0] == "put" {
			it += ":" + t[3]
		}
		items = append(items, it)
	}
	return joinOr(items)
}
