//go:build verif

package main

import (
	"github.com/jdillenkofer/pithos/internal/verifx"
)

// newS3hStack builds the storage stack named by -stack. More compositions are added in
// s3hist_stacks_more.go as they become available.
func newS3hStack(dir, name string) *verifx.Stack {
	switch name {
	case "sql":
		return verifx.NewStack(dir, verifx.StackOpts{PartKind: "sql", NoStart: true})
	case "fs":
		return verifx.NewStack(dir, verifx.StackOpts{PartKind: "fs", NoStart: true})
	}
	if st := newS3hStackMore(dir, name); st != nil {
		return st
	}
	verifx.Fatalf("unknown stack %q", name)
	return nil
}
