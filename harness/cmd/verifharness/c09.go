//go:build verif

package main

import (
	"context"
	"database/sql"
	"encoding/hex"
	"errors"
	"fmt"
	"os"
	"path/filepath"
	"sort"
	"strings"
	"sync/atomic"
	"time"

	"github.com/jdillenkofer/pithos/internal/storage/database"
	"github.com/jdillenkofer/pithos/internal/storage/database/repository/partdedupindex"
	"github.com/jdillenkofer/pithos/internal/storage/database/repository/partregistry"
	"github.com/jdillenkofer/pithos/internal/storage/metadatapart/partstore"
	"github.com/jdillenkofer/pithos/internal/verifx"
)

// C09 — unreferenced parts are eventually reclaimed.
//
// Same trace protocol and machinery as C08 (c08.go, c08_stack.go); the histories here stress what
// produces garbage: aborted uploads, overwrites, failed operations (bad If-Match, injected
// part-store errors, injected commit failures), orphaned bytes put into the stores behind the
// storage's back, failing post-commit deletions, damaged bookkeeping — followed by quiescence,
// a wait past the (tiny) grace window and collector passes.  Additional lines:
//   fault <kind>                 the next operation runs with an injected fault
//   anom reg|cnt|miss|idx …      bookkeeping damaged through the repositories
//   leftover <st> <kind> <0|1>   a crash-leftover file (created by hand) still exists after GC

func init() { register("c09", runC09) }

var errC09Injected = errors.New("injected transaction fault")

// c09ArmPoint makes the next hit of the named verification point (tx.commit / tx.precommit)
// return an error; the hook disarms itself.
func c09ArmPoint(name string) func() {
	var armed atomic.Bool
	armed.Store(true)
	database.SetVerifPointFunc(func(ctx context.Context, n string, i int) error {
		if n == name && armed.CompareAndSwap(true, false) {
			return errC09Injected
		}
		return nil
	})
	return func() { database.SetVerifPointFunc(nil) }
}

// faultOp runs one op line under an injected fault.
func (q *c08Seq) faultOp(kind, line string) {
	q.out.Line("fault %s", kind)
	var disarm func()
	s0 := q.k.stores[0].ps
	switch kind {
	case "putbefore":
		for _, s := range q.k.stores {
			s.ps.failPutBefore.Store(1)
		}
	case "putafter":
		for _, s := range q.k.stores {
			s.ps.failPutAfter.Store(1)
		}
	case "deltx":
		for _, s := range q.k.stores {
			s.ps.failDelTx.Store(1)
		}
	case "commit":
		disarm = c09ArmPoint("tx.commit")
	case "precommit":
		disarm = c09ArmPoint("tx.precommit")
	}
	_ = s0
	q.afterExec = func() {
		if disarm != nil {
			disarm()
		}
		for _, s := range q.k.stores {
			s.ps.failPutBefore.Store(0)
			s.ps.failPutAfter.Store(0)
			s.ps.failDelTx.Store(0)
		}
	}
	q.op(line)
}

// anomaly damages the bookkeeping directly through the repositories.
func (q *c08Seq) anomaly(kind string) {
	ctx := q.ctx
	d := q.before
	var live []string // referenced part ids (ULIDs), sorted by ordinal
	seen := map[string]bool{}
	for _, r := range d.rows {
		if !seen[r.pid] {
			seen[r.pid] = true
			live = append(live, r.pid)
		}
	}
	sort.Slice(live, func(i, j int) bool { return q.ords.pid[live[i]] < q.ords.pid[live[j]] })
	line := ""
	err := database.WithTx(ctx, q.k.db, &sql.TxOptions{ReadOnly: false}, func(ctx context.Context, tx database.Tx) error {
		t := tx.SqlTx()
		switch kind {
		case "reg": // a registry row for an id nothing references
			id, _ := partstore.NewRandomPartId()
			if err := q.k.regRepo.RegisterParts(ctx, t, []partregistry.Ref{{PartId: *id, Delta: 2}}); err != nil {
				return err
			}
			line = "reg " + id.String() + " 2"
		case "cnt": // over-count of a live part
			if len(live) == 0 {
				return nil
			}
			p := live[q.r.Intn(len(live))]
			if _, err := q.k.regRepo.TryAddReferences(ctx, t, []partregistry.Ref{{PartId: *partstore.MustNewPartIdFromString(p), Delta: 1}}); err != nil {
				return err
			}
			line = "cnt " + p
		case "miss": // registry row of a live part lost
			if len(live) == 0 {
				return nil
			}
			p := live[q.r.Intn(len(live))]
			if _, err := t.ExecContext(ctx, "DELETE FROM part_registry WHERE part_id = $1", p); err != nil {
				return err
			}
			line = "miss " + p
		case "idx": // dedup entry pointing at an id nothing references
			id, _ := partstore.NewRandomPartId()
			sha := hex.EncodeToString(q.r.Bytes(32))
			ent := &partdedupindex.Entity{PartStoreName: "", ChecksumSHA256: sha, Size: 3, ETag: "e", ChecksumCRC32: "a", ChecksumCRC32C: "b",
				ChecksumCRC64NVME: "c", ChecksumSHA1: "d", PartId: *id}
			if _, err := q.k.idxRepo.TryInsert(ctx, t, ent); err != nil {
				return err
			}
			line = "idx " + id.String() + " " + sha
		}
		return nil
	})
	verifx.Check(err)
	if line == "" {
		return
	}
	dd := verifx.Must(q.k.dump(ctx, true))
	q.ords.learn(dd)
	q.before = dd
	f := strings.Fields(line)
	switch f[0] {
	case "reg":
		q.out.Line("anom reg %d %s", q.ords.pid[f[1]], f[2])
	case "cnt", "miss":
		q.out.Line("anom %s %d", f[0], q.ords.pid[f[1]])
	case "idx":
		q.out.Line("anom idx 0 %d %d", q.ords.ckOrd(f[2], "3"), q.ords.pid[f[1]])
	}
	q.out.Line("%s", q.k.stLine(q.ords, dd))
}

// leftovers creates, by hand, the two kinds of files a crashed transaction of the filesystem part
// store leaves behind: the temp file of an unpublished PutPart and the backup of a part renamed
// away by a pre-commit hook.  Returns their paths.
func c09MakeLeftovers(dir string) (tmp, backup string) {
	id, _ := partstore.NewRandomPartId()
	name := hex.EncodeToString(id.Bytes())
	tmp = filepath.Join(dir, "."+name+".123456789.tmp")
	backup = filepath.Join(dir, name+".txbackup.01ARZ3NDEKTSV4RRFFQ69G5FAV")
	verifx.Check(os.WriteFile(tmp, []byte("bytes of a part whose transaction never committed"), 0o600))
	verifx.Check(os.WriteFile(backup, []byte("bytes of a part whose deleting transaction never finished"), 0o600))
	return
}

func c09Exists(p string) int {
	if _, err := os.Stat(p); err == nil {
		return 1
	}
	return 0
}

// quiesce waits past the grace window and runs two collector passes.
func (q *c08Seq) quiesce() {
	time.Sleep(3 * c08Grace)
	q.gc(true)
	q.gc(true)
}

func c09Directed() [][]string {
	h := verifx.HexS
	p := func(b, k, body, extra string) string {
		if extra == "" {
			extra = "inm=0 im=~"
		}
		return fmt.Sprintf("op put %s %s %s ct=~ md=~ tags=~ cls=~ %s", b, k, h(body), extra)
	}
	return [][]string{
		{ // aborted upload, overwrites, failed conditional writes
			"op mkb b0", p("b0", "k0", "first", ""), p("b0", "k0", "second", ""), p("b0", "k0", "third", "inm=0 im=bogus"), p("b0", "k0", "fourth", "inm=1 im=~"),
			"op mpu b0 k1 ct=~ md=~ tags=~ cls=~", "op upp b0 k1 0 1 " + h("part-one"), "op upp b0 k1 0 2 " + h("second"), "op upp b0 k1 0 1 " + h("replaced"),
			"op abort b0 k1 0", "op del b0 k0 vid=~ im=bogus", "quiesce",
		},
		{ // orphans in every store, a referenced neighbour, a failing post-commit / in-transaction deletion
			"op mkb b0", p("b0", "k0", "keep-me", ""), "orphan 0", "orphan 1", "faildel", "gc", "gc", "gc",
		},
		{ // damaged bookkeeping is repaired: stale registry row, over-count, missing row, stale index entry
			"op mkb b0", p("b0", "k0", "live", ""), p("b0", "k1", "live", ""), "anom reg", "anom cnt", "anom idx", "quiesce", "anom miss", "quiesce",
		},
		{ // operations failing late: part-store errors and commit-time errors leave nothing behind
			"op mkb b0", p("b0", "k0", "base", ""), "fault putbefore " + p("b0", "k1", "lost-1", ""), "fault putafter " + p("b0", "k1", "lost-2", ""),
			"fault commit " + p("b0", "k1", "lost-3", ""), "fault precommit " + p("b0", "k0", "lost-4", ""), "fault deltx " + p("b0", "k0", "lost-5", ""),
			"fault commit op del b0 k0 vid=~ im=~", "quiesce",
		},
		{ // what a crashed filesystem-store transaction leaves behind (made by hand)
			"op mkb b0", p("b0", "k0", "survivor", ""), "leftovers", "quiesce", "checkleftovers",
		},
	}
}

// c09BatchBoundary: more aged parts than one sweep batch of the collector (256): orphans that stay
// behind 256 and behind 512 live parts sit at and after the batch boundaries on every pass. Run last
// (after all other cases) so that the case numbering, and with it every other case's seed, is unchanged.
func c09BatchBoundary() []string {
	h := verifx.HexS
	p := func(b, k, body string) string {
		return fmt.Sprintf("op put %s %s %s ct=~ md=~ tags=~ cls=~ inm=0 im=~", b, k, h(body))
	}
	ls := []string{"op mkb b0"}
	for i := 0; i < 256; i++ {
		ls = append(ls, p("b0", fmt.Sprintf("big%03d", i), fmt.Sprintf("live-%03d", i)))
	}
	ls = append(ls, "orphan 0", "orphan 0", "orphan 1")
	for i := 256; i < 512; i++ {
		ls = append(ls, p("b0", fmt.Sprintf("big%03d", i), fmt.Sprintf("live-%03d", i)))
	}
	return append(ls, "orphan 0", "orphan 0", "quiesce")
}

func (q *c08Seq) runC09Lines(lines []string) {
	var left [][3]string // store ordinal, kind, path
	for _, l := range lines {
		switch {
		case l == "gc":
			q.gc(true)
		case l == "quiesce":
			q.quiesce()
		case strings.HasPrefix(l, "orphan "):
			var i int
			fmt.Sscanf(l, "orphan %d", &i)
			if i < len(q.k.stores) {
				q.orphan(i, []byte("orphan-bytes"))
			}
		case l == "faildel":
			for _, s := range q.k.stores {
				if s.txFree {
					s.ps.failDelNoTx.Store(1)
				} else {
					s.ps.failDelTx.Store(1)
				}
			}
			time.Sleep(3 * c08Grace)
		case strings.HasPrefix(l, "anom "):
			q.anomaly(strings.TrimPrefix(l, "anom "))
		case strings.HasPrefix(l, "fault "):
			f := strings.SplitN(l, " ", 3)
			q.faultOp(f[1], f[2])
		case l == "leftovers":
			for i, s := range q.k.stores {
				if s.kind == "fs" {
					t, b := c09MakeLeftovers(s.dir)
					q.k.handMade[t], q.k.handMade[b] = true, true
					left = append(left, [3]string{fmt.Sprint(i), "tmp", t}, [3]string{fmt.Sprint(i), "txbackup", b})
				}
			}
		case l == "checkleftovers":
			for _, e := range left {
				q.out.Line("leftover %s %s %d", e[0], e[1], c09Exists(e[2]))
			}
		default:
			q.op(l)
		}
	}
	for _, s := range q.k.stores {
		s.ps.failDelNoTx.Store(0)
		s.ps.failDelTx.Store(0)
	}
}

func runC09(args []string) {
	f := verifx.ParseFlags("c09", args, 60, 600)
	out := verifx.NewOut()
	ctx := context.Background()
	nops := 30
	if f.Tier == "thorough" {
		nops = 50
	}
	stacks := []string{"fs", "sql", "named"}
	if f.Tier == "thorough" {
		stacks = append(stacks, "namedsql")
	}
	modes := []string{"mixed", "transition", "append"}
	k := 0
	for _, sk := range stacks {
		for _, lines := range c09Directed() {
			if f.Wants(k) {
				seed := verifx.CaseSeed(f.Seed, k)
				stk := newC08Stack(filepath.Join(f.Scratch, fmt.Sprintf("c09-%d", k)), sk, c08Grace, false, 0)
				out.Case(k, seed)
				out.Line("cfg kind=c09 %s gc=end grace=tiny", stk.cfgTokens())
				q := newC08Seq(ctx, out, stk, verifx.NewRng(seed), "none")
				q.judge = false
				q.extras = true
				q.runC09Lines(lines)
				out.End()
				stk.close(false)
			}
			k++
		}
		// a young orphan is left alone (grace window respected); tie only
		if f.Wants(k) {
			seed := verifx.CaseSeed(f.Seed, k)
			stk := newC08Stack(filepath.Join(f.Scratch, fmt.Sprintf("c09-%d", k)), sk, time.Hour, false, 0)
			out.Case(k, seed)
			out.Line("cfg kind=c09 %s gc=end grace=large", stk.cfgTokens())
			q := newC08Seq(ctx, out, stk, verifx.NewRng(seed), "none")
			q.judge = false
			q.op("op mkb b0")
			q.op(fmt.Sprintf("op put b0 k0 %s ct=~ md=~ tags=~ cls=~ inm=0 im=~", verifx.HexS("young")))
			q.orphan(0, []byte("young-orphan"))
			q.op("op del b0 k0 vid=~ im=~")
			q.gc(false)
			out.End()
			stk.close(false)
		}
		k++
	}
	faults := []string{"putbefore", "putafter", "deltx", "commit", "precommit"}
	anoms := []string{"reg", "cnt", "idx", "miss"}
	for c := 0; c < f.Cases; c++ {
		if f.Wants(k) {
			seed := verifx.CaseSeed(f.Seed, k)
			r := verifx.NewRng(seed)
			sk := stacks[c%len(stacks)]
			mode := modes[(c/len(stacks))%len(modes)]
			withAnoms := c%4 == 3
			stk := newC08Stack(filepath.Join(f.Scratch, fmt.Sprintf("c09-%d", k)), sk, c08Grace, false, 0)
			out.Case(k, seed)
			out.Line("cfg kind=c09 %s gc=end grace=tiny mode=%s anoms=%v", stk.cfgTokens(), mode, withAnoms)
			q := newC08Seq(ctx, out, stk, r, "none")
			q.judge = false
			q.extras = true
			cg := &c08Gen{g: &s3hGen{r: r, c: q.c, mode: mode}, r: r}
			func() {
				defer func() {
					if rec := recover(); rec != nil {
						out.Line("res panic %s", verifx.HexS(fmt.Sprint(rec)))
					}
					database.SetVerifPointFunc(nil)
				}()
				for i := 0; i < nops; i++ {
					switch {
					case r.Chance(1, 12):
						q.orphan(r.Intn(len(stk.stores)), r.Bytes(1+r.Intn(50)))
					case r.Chance(1, 7):
						q.faultOp(verifx.Pick(r, faults), cg.next())
					case withAnoms && i > 4 && r.Chance(1, 10):
						q.anomaly(verifx.Pick(r, anoms))
					default:
						q.op(cg.next())
					}
					if r.Chance(1, 10) {
						q.gc(true) // a pass in the middle of the history
					}
				}
				if r.Chance(1, 3) { // the first pass at quiescence loses a deletion
					for _, s := range stk.stores {
						if s.txFree {
							s.ps.failDelNoTx.Store(1)
						}
					}
				}
				q.quiesce()
				q.gc(true)
			}()
			out.End()
			stk.close(false)
		}
		k++
	}
	// thorough: the real wall-clock loop (WithGCInterval / WithGCGraceWindow of a few ms) instead of RunOnce
	if f.Tier == "thorough" {
		for _, sk := range stacks {
			if f.Wants(k) {
				seed := verifx.CaseSeed(f.Seed, k)
				stk := newC08Stack(filepath.Join(f.Scratch, fmt.Sprintf("c09-%d", k)), sk, c08Grace, true, 5*time.Millisecond)
				out.Case(k, seed)
				out.Line("cfg kind=c09 %s gc=loop grace=tiny", stk.cfgTokens())
				q := newC08Seq(ctx, out, stk, verifx.NewRng(seed), "none")
				q.judge = false
				// the loop runs concurrently with the history: the model is re-adopted from each state
				step := func(fn func()) { q.out.Line("quiescent"); fn() }
				step(func() { q.op("op mkb b0") })
				step(func() {
					q.op(fmt.Sprintf("op put b0 k0 %s ct=~ md=~ tags=~ cls=~ inm=0 im=~", verifx.HexS("looped")))
				})
				step(func() { q.orphan(0, []byte("loop-orphan")) })
				step(func() { q.op("op del b0 k0 vid=~ im=~") })
				time.Sleep(400 * time.Millisecond)
				// what the loop left is reported as the result of a clean pass; then one explicit pass (idempotence)
				q.out.Line("quiescent")
				q.out.Line("gc old ok fail=~")
				q.emitState()
				q.gc(true)
				out.End()
				stk.close(true)
			}
			k++
		}
	}
	for _, sk := range stacks {
		if f.Wants(k) {
			seed := verifx.CaseSeed(f.Seed, k)
			stk := newC08Stack(filepath.Join(f.Scratch, fmt.Sprintf("c09-%d", k)), sk, c08Grace, false, 0)
			out.Case(k, seed)
			out.Line("cfg kind=c09 %s gc=end grace=tiny", stk.cfgTokens())
			q := newC08Seq(ctx, out, stk, verifx.NewRng(seed), "none")
			q.judge = false
			q.extras = true
			q.runC09Lines(c09BatchBoundary())
			out.End()
			stk.close(false)
		}
		k++
	}
	out.Flush()
}
