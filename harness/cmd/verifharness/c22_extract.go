//go:build verif

package main

import (
	"fmt"
	"go/ast"
	"sort"
	"strings"
)

// T1 extractor "notifyoverrides": regenerates lean/Pithos/Gen/NotifyOverrides.lean from
//   internal/storage/storage.go                  the method sets of ObjectManager / MultipartUploadManager / TaggingManager
//   internal/storage/notification/storage.go     which of them *StorageMiddleware overrides, and the shape of each override,
//                                                of runWithNotifications and of enqueueEvents
// Facts emitted (all syntactic; an unrecognised shape fails closed):
//   storageMethods            every method of the three interfaces
//   overridden                those with a (*StorageMiddleware) method of the same name
//   viaRunWithNotifications   overridden methods whose body reaches the inner storage ONLY inside the function literal
//                             handed to m.runWithNotifications (m.Next.<Same>(…) occurs there and nowhere else)
//   runWithNotificationsShape ["database.WithTx", "m.db", "mutate(ctx)", "m.enqueueEvents(ctx, tx, events)"] in this order
//   enqueueSavesInTx          enqueueEvents calls m.repository.Save(ctx, tx.SqlTx(), …) — the transaction it was handed

func init() { registerExtractor("notifyoverrides", extractNotifyOverrides) }

func ifaceMethods(f *ast.File, name string) ([]string, *ast.TypeSpec) {
	for _, d := range f.Decls {
		gd, ok := d.(*ast.GenDecl)
		if !ok {
			continue
		}
		for _, sp := range gd.Specs {
			ts, ok := sp.(*ast.TypeSpec)
			if !ok || ts.Name.Name != name {
				continue
			}
			it, ok := ts.Type.(*ast.InterfaceType)
			if !ok {
				return nil, nil
			}
			var out []string
			for _, m := range it.Methods.List {
				for _, n := range m.Names {
					out = append(out, n.Name)
				}
			}
			return out, ts
		}
	}
	return nil, nil
}

// callName renders the callee of a call expression ("m.Next.PutObject", "database.WithTx").
func callName(x *ExtractCtx, c *ast.CallExpr) string { return x.Src(c.Fun) }

func extractNotifyOverrides(x *ExtractCtx) error {
	sf, err := x.ParseFile("internal/storage/storage.go")
	if err != nil {
		return err
	}
	var methods []string
	for _, in := range []string{"ObjectManager", "MultipartUploadManager", "TaggingManager"} {
		ms, ts := ifaceMethods(sf, in)
		if ts == nil || len(ms) == 0 {
			return fmt.Errorf("interface %s not found in storage.go", in)
		}
		x.Note("interface "+in, ts)
		methods = append(methods, ms...)
	}
	nf, err := x.ParseFile("internal/storage/notification/storage.go")
	if err != nil {
		return err
	}
	var overridden, via []string
	for _, m := range methods {
		fd := FindFunc(nf, "StorageMiddleware", m)
		if fd == nil {
			continue
		}
		overridden = append(overridden, m)
		x.Note("override "+m, fd)
		// every call of m.Next.<m> must sit inside a FuncLit that is an argument of m.runWithNotifications
		inner := "m.Next." + m
		total, inside := 0, 0
		ast.Inspect(fd.Body, func(n ast.Node) bool {
			if c, ok := n.(*ast.CallExpr); ok && callName(x, c) == inner {
				total++
			}
			return true
		})
		ast.Inspect(fd.Body, func(n ast.Node) bool {
			c, ok := n.(*ast.CallExpr)
			if !ok || callName(x, c) != "m.runWithNotifications" {
				return true
			}
			for _, a := range c.Args {
				if fl, ok := a.(*ast.FuncLit); ok {
					ast.Inspect(fl.Body, func(k ast.Node) bool {
						if cc, ok := k.(*ast.CallExpr); ok && callName(x, cc) == inner {
							inside++
						}
						return true
					})
				}
			}
			return true
		})
		if total == 0 {
			return fmt.Errorf("override %s never calls %s", m, inner)
		}
		if total == inside {
			via = append(via, m)
		}
	}
	// runWithNotifications: return database.WithTx(ctx, m.db, …, func(ctx, tx) error { events, err := mutate(ctx); …; return m.enqueueEvents(ctx, tx, events) })
	rw := FindFunc(nf, "StorageMiddleware", "runWithNotifications")
	if rw == nil {
		return fmt.Errorf("runWithNotifications not found")
	}
	x.Note("runWithNotifications", rw)
	var shape []string
	if len(rw.Body.List) != 1 {
		return fmt.Errorf("runWithNotifications: expected a single return statement")
	}
	ret, ok := rw.Body.List[0].(*ast.ReturnStmt)
	if !ok || len(ret.Results) != 1 {
		return fmt.Errorf("runWithNotifications: expected `return database.WithTx(…)`")
	}
	wt, ok := ret.Results[0].(*ast.CallExpr)
	if !ok || callName(x, wt) != "database.WithTx" || len(wt.Args) != 4 {
		return fmt.Errorf("runWithNotifications: expected database.WithTx with 4 arguments, got %s", x.Src(ret.Results[0]))
	}
	shape = append(shape, "database.WithTx", x.Src(wt.Args[1]))
	fl, ok := wt.Args[3].(*ast.FuncLit)
	if !ok {
		return fmt.Errorf("runWithNotifications: 4th argument is not a function literal")
	}
	ast.Inspect(fl.Body, func(n ast.Node) bool {
		if c, ok := n.(*ast.CallExpr); ok {
			switch callName(x, c) {
			case "mutate", "m.enqueueEvents":
				shape = append(shape, x.Src(c))
			}
		}
		return true
	})
	// enqueueEvents: m.repository.Save(ctx, tx.SqlTx(), …)
	eq := FindFunc(nf, "StorageMiddleware", "enqueueEvents")
	if eq == nil {
		return fmt.Errorf("enqueueEvents not found")
	}
	x.Note("enqueueEvents", eq)
	saves, savesInTx := 0, 0
	ast.Inspect(eq.Body, func(n ast.Node) bool {
		if c, ok := n.(*ast.CallExpr); ok && callName(x, c) == "m.repository.Save" {
			saves++
			if len(c.Args) >= 2 && x.Src(c.Args[1]) == "tx.SqlTx()" {
				savesInTx++
			}
		}
		return true
	})
	if saves == 0 {
		return fmt.Errorf("enqueueEvents: no m.repository.Save call")
	}
	sort.Strings(methods)
	sort.Strings(overridden)
	sort.Strings(via)
	b := x.Lean
	fmt.Fprintf(b, "-- Sources: internal/storage/storage.go, internal/storage/notification/storage.go\n")
	fmt.Fprintf(b, "namespace Pithos.Gen.NotifyOverrides\n\n")
	fmt.Fprintf(b, "/-- methods of ObjectManager, MultipartUploadManager and TaggingManager -/\ndef storageMethods : List String :=\n  %s\n\n", LeanStrList(methods))
	fmt.Fprintf(b, "/-- … that (*notification.StorageMiddleware) overrides -/\ndef overridden : List String :=\n  %s\n\n", LeanStrList(overridden))
	fmt.Fprintf(b, "/-- overrides that reach the inner storage only inside the closure handed to runWithNotifications -/\ndef viaRunWithNotifications : List String :=\n  %s\n\n", LeanStrList(via))
	fmt.Fprintf(b, "/-- runWithNotifications: the transaction opener, the database it is opened on, then the calls inside the transaction body, in source order -/\ndef runWithNotificationsShape : List String :=\n  %s\n\n", LeanStrList(shape))
	fmt.Fprintf(b, "/-- enqueueEvents: number of m.repository.Save calls, and how many of them pass tx.SqlTx() -/\ndef enqueueSaves : Nat := %d\ndef enqueueSavesInTx : Nat := %d\n\n", saves, savesInTx)
	fmt.Fprintf(b, "end Pithos.Gen.NotifyOverrides\n")
	_ = strings.Join
	return nil
}
