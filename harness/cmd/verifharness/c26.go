//go:build verif

package main

import (
	"bytes"
	"context"
	"crypto/sha512"
	"errors"
	"fmt"
	"os"
	"path/filepath"
	"runtime"
	"strings"
	"sync"
	"sync/atomic"

	"github.com/jdillenkofer/pithos/internal/auditlog"
	"github.com/jdillenkofer/pithos/internal/auditlog/serialization"
	"github.com/jdillenkofer/pithos/internal/auditlog/sink"
	"github.com/jdillenkofer/pithos/internal/http/server/authentication"
	"github.com/jdillenkofer/pithos/internal/storage/middlewares/audit"
	"github.com/jdillenkofer/pithos/internal/verifx"
)

// C26: concurrent workloads through the REAL AuditLogMiddleware (Ed25519 entry signatures with a local
// key — the cheapest real signer; ML-DSA-87 for the groundings) over an in-memory inner storage double,
// writing through the REAL file sinks (binary, JSON, or both via MultiSink); the files are read back
// through the REAL decoders and the REAL Validator.
//
// Trace of one case:
//   cfg sinks=<bin|json|multi> goroutines=<G> calls=<N> restart=<n|-1> zone=<seconds east of UTC the process runs in>
//   c <reqid> <method> <goroutine> <ok|err> <error hex> seen=<entries in the sink while the inner call ran> <args>
//   file <ser> verdict=<ok|i:reason> entries=<n>
//   same <ok|i:fields>                   (multi: both files hold the same entries)
//   restart <ok|error hex> entries=<n>   (a new sink + middleware continued the same file)
//   e <i> <field>=<hex>… calc=… ved=… vred=… vrml=…     (the entries of the first file)

func init() { register("c26", runC26) }

type c26CallRec struct {
	reqID  string
	op     string
	g      int
	args   verifx.AuditArgs
	err    error
	seen   int64
	failAs string
}

type c26CountSink struct {
	inner sink.Sink
	n     atomic.Int64
}

func (c *c26CountSink) WriteEntry(e *auditlog.Entry) error {
	err := c.inner.WriteEntry(e)
	if err == nil {
		c.n.Add(1)
	}
	return err
}
func (c *c26CountSink) Close() error { return c.inner.Close() }

type c26RecKey struct{}

type c26Setup struct {
	keys   *c27Keys
	dir    string
	sinks  string // bin | json | multi
	paths  map[string]string
	inner  *verifx.AuditInner
	count  *c26CountSink
	mw     *audit.AuditLogMiddleware
	opened int
}

func c26Serializer(name string) serialization.Serializer {
	if name == "json" {
		return &serialization.JsonSerializer{}
	}
	return &serialization.BinarySerializer{}
}

func (s *c26Setup) sers() []string {
	if s.sinks == "multi" {
		return []string{"bin", "json"}
	}
	return []string{s.sinks}
}

// open creates the sink(s) the way storage/config does and a middleware continuing whatever the file holds.
func (s *c26Setup) open() error {
	var sinks []sink.Sink
	var lastHash []byte
	var buf [][]byte
	existing := int64(0)
	for _, name := range s.sers() {
		fs, err := sink.NewFileSink(s.paths[name], c26Serializer(name))
		if err != nil {
			return err
		}
		sinks = append(sinks, fs)
		if lastHash == nil {
			st, err := fs.InitialState()
			if err != nil {
				return err
			}
			if st != nil && len(st.LastHash) > 0 {
				lastHash, buf = st.LastHash, st.HashBuffer
			}
		}
	}
	if s.opened > 0 {
		// entries already in the file
		data, _ := os.ReadFile(s.paths[s.sers()[0]])
		dec, _ := c27DecodeAll(c26Serializer(s.sers()[0]), data)
		existing = int64(len(dec))
	}
	var final sink.Sink = sinks[0]
	if len(sinks) > 1 {
		final = sink.NewMultiSink(sinks...)
	}
	if lastHash == nil {
		lastHash = make([]byte, sha512.Size)
	}
	s.count = &c26CountSink{inner: final}
	s.count.n.Store(existing)
	s.mw = audit.NewAuditLogMiddleware(s.inner, s.count, s.keys.edSigner, s.keys.mlSigner, lastHash, buf)
	s.opened++
	return nil
}

func c26Ctx(r *verifx.Rng, rec *c26CallRec) context.Context {
	ctx := verifx.AuditCtx(r, rec.reqID)
	ctx = context.WithValue(ctx, authentication.RequestIDContextKey{}, rec.reqID)
	return context.WithValue(ctx, c26RecKey{}, rec)
}

func runC26(args []string) {
	f := verifx.ParseFlags("c26", args, 3, 8)
	out := verifx.NewOut()
	keys := c27NewKeys()
	k := 0

	// the 31 recorded methods (the generated workloads avoid the six unrecorded ones, which case 0 exhibits,
	// so that any other violation stands out)
	unrecorded := map[string]bool{"GetBucketNotificationConfiguration": true, "PutBucketNotificationConfiguration": true,
		"TransitionObjectStorageClass": true, "GetObjectTagging": true, "PutObjectTagging": true, "DeleteObjectTagging": true}
	var recorded []string
	for _, op := range verifx.AuditOps {
		if !unrecorded[op] {
			recorded = append(recorded, op)
		}
	}

	type plan struct {
		sinks      string
		goroutines int
		calls      int
		restartAt  int // -1: none; otherwise restart after this many calls (all goroutines joined)
		ops        []string
		fixed      []c26CallRec // directed calls (sequential) instead of generated ones
	}

	emit := func(seed uint64, p plan) {
		if !f.Wants(k) {
			k++
			return
		}
		caseNo := k
		out.Case(k, seed)
		// the process zone rotates with the case: the middleware's own time.Now() carries it
		zoneOff := verifx.AuditSetZone(k + 1)
		k++
		func() {
			defer func() {
				if pv := recover(); pv != nil {
					out.Line("panic %s", verifx.HexS(fmt.Sprint(pv)))
				}
			}()
			dir := filepath.Join(f.Scratch, fmt.Sprintf("c26-%d", caseNo))
			verifx.Check(os.MkdirAll(dir, 0o755))
			defer os.RemoveAll(dir)
			s := &c26Setup{keys: keys, dir: dir, sinks: p.sinks, paths: map[string]string{
				"bin": filepath.Join(dir, "audit.bin"), "json": filepath.Join(dir, "audit.json")}}
			s.inner = &verifx.AuditInner{}
			s.inner.OnCall = func(ctx context.Context, op string) {
				if rec, ok := ctx.Value(c26RecKey{}).(*c26CallRec); ok {
					rec.seen = s.count.n.Load()
				}
				runtime.Gosched()
			}
			s.inner.Fail = func(ctx context.Context, op string) error {
				if rec, ok := ctx.Value(c26RecKey{}).(*c26CallRec); ok && rec.failAs != "" {
					return errors.New(rec.failAs)
				}
				return nil
			}
			verifx.Check(s.open())
			out.Line("cfg sinks=%s goroutines=%d calls=%d restart=%d zone=%d", p.sinks, p.goroutines, p.calls, p.restartAt, zoneOff)

			var all []*c26CallRec
			runBatch := func(from, to int) {
				var wg sync.WaitGroup
				var mu sync.Mutex
				per := (to - from + p.goroutines - 1) / p.goroutines
				for g := 0; g < p.goroutines; g++ {
					lo, hi := from+g*per, from+(g+1)*per
					if hi > to {
						hi = to
					}
					if lo >= hi {
						continue
					}
					wg.Add(1)
					go func(g, lo, hi int) {
						defer wg.Done()
						r := verifx.NewRng(seed ^ uint64(g+1)*0x9E3779B97F4A7C15 ^ uint64(lo))
						var mine []*c26CallRec
						for i := lo; i < hi; i++ {
							rec := &c26CallRec{reqID: fmt.Sprintf("c%d-g%d-%d", caseNo, g, i), op: verifx.Pick(r, p.ops), g: g, args: verifx.AuditRandArgs(r)}
							if r.Chance(1, 5) {
								rec.failAs = verifx.Pick(r, []string{"NoSuchKey", "internal error: disk", "precondition failed", "BucketNotEmpty: ünï"})
							}
							rec.err = verifx.AuditCall(c26Ctx(r, rec), s.mw, rec.op, rec.args)
							mine = append(mine, rec)
							if r.Chance(1, 3) {
								runtime.Gosched()
							}
						}
						mu.Lock()
						all = append(all, mine...)
						mu.Unlock()
					}(g, lo, hi)
				}
				wg.Wait()
			}
			if len(p.fixed) > 0 {
				r := verifx.NewRng(seed)
				for i := range p.fixed {
					rec := &p.fixed[i]
					rec.reqID = fmt.Sprintf("c%d-d-%d", caseNo, i)
					rec.err = verifx.AuditCall(c26Ctx(r, rec), s.mw, rec.op, rec.args)
					all = append(all, rec)
				}
			} else if p.restartAt >= 0 {
				runBatch(0, p.restartAt)
				_ = s.mw.Stop(context.Background())
				if err := s.open(); err != nil {
					out.Line("restart %s entries=%d", verifx.HexS(err.Error()), s.count.n.Load())
				} else {
					out.Line("restart ok entries=%d", s.count.n.Load())
					runBatch(p.restartAt, p.calls)
				}
			} else {
				runBatch(0, p.calls)
			}
			_ = s.mw.Stop(context.Background())

			for _, rec := range all {
				oc, em := "ok", "-"
				if rec.err != nil {
					oc, em = "err", verifx.HexS(rec.err.Error())
				}
				out.Line("c %s %s %d %s %s seen=%d bucket=%s key=%s upload=%s part=%d srcb=%s srck=%s", rec.reqID, rec.op, rec.g, oc, em, rec.seen,
					verifx.HexS(rec.args.Bucket), verifx.HexS(rec.args.Key), verifx.HexS(rec.args.UploadID), rec.args.Part,
					verifx.HexS(rec.args.SrcBucket), verifx.HexS(rec.args.SrcKey))
			}

			// read the files back
			var first []*auditlog.Entry
			var decs [][]*auditlog.Entry
			for _, name := range s.sers() {
				data, err := os.ReadFile(s.paths[name])
				verifx.Check(err)
				dec, derr := c27DecodeAll(c26Serializer(name), data)
				v := verifx.AuditVerdict(dec, keys.edVer, keys.mlVer)
				if derr != nil {
					v = fmt.Sprintf("%d:decode-error", len(dec))
				}
				out.Line("file %s verdict=%s entries=%d", name, v, len(dec))
				decs = append(decs, dec)
				if first == nil {
					first = dec
				}
			}
			if len(decs) == 2 {
				same := "ok"
				if len(decs[0]) != len(decs[1]) {
					same = fmt.Sprintf("count:%d/%d", len(decs[0]), len(decs[1]))
				} else {
					for i := range decs[0] {
						if d := verifx.AuditDiff(decs[0][i], decs[1][i]); len(d) > 0 {
							same = fmt.Sprintf("%d:%s", i, strings.Join(d, ","))
							break
						}
					}
				}
				out.Line("same %s", same)
			}
			cr := &c27Runner{keys: keys}
			for i, e := range first {
				out.Line("e %d %s %s", i, verifx.AuditLine(e), cr.oracle(e))
			}
		}()
		out.End()
	}

	// ---- directed 0: one sequential call of EVERY storage method (shows the unrecorded ones)
	{
		r := verifx.NewRng(260)
		var fixed []c26CallRec
		for i, op := range verifx.AuditOps {
			rec := c26CallRec{op: op, args: verifx.AuditRandArgs(r)}
			if i%4 == 3 {
				rec.failAs = "simulated failure"
			}
			fixed = append(fixed, rec)
		}
		emit(260, plan{sinks: "multi", goroutines: 1, calls: len(fixed), restartAt: -1, fixed: fixed})
	}
	// ---- directed 1: an upload id that is not valid UTF-8, JSON sink
	{
		bad := verifx.AuditArgs{Bucket: "alpha", Key: "k", SrcBucket: "alpha", SrcKey: "k", UploadID: "up-\xff\xfe", Part: 1}
		emit(261, plan{sinks: "json", goroutines: 1, calls: 2, restartAt: -1, fixed: []c26CallRec{
			{op: "PutObject", args: bad}, {op: "AbortMultipartUpload", args: bad}, {op: "HeadObject", args: bad}}})
	}
	// ---- concurrent workloads crossing at least two grounding blocks
	bs := auditlog.GroundingBlockSize
	for c := 0; c < f.Cases; c++ {
		seed := verifx.CaseSeed(f.Seed, k)
		r := verifx.NewRng(seed)
		p := plan{sinks: []string{"bin", "json", "multi"}[c%3], goroutines: 4 + r.Intn(5), ops: recorded, restartAt: -1}
		p.calls = bs + 20 + r.Intn(bs/4) // two entries per call: > 2 blocks
		if f.Tier == "thorough" {
			p.calls = 3*bs + r.Intn(bs)
			if c%2 == 1 {
				p.goroutines = 8
			}
		}
		if c%3 == 2 || f.Tier == "thorough" && c%2 == 0 {
			// restart somewhere in the middle (also right at a block boundary in one case out of three)
			p.restartAt = p.calls/3 + r.Intn(p.calls/3)
			if r.Chance(1, 3) {
				p.restartAt = bs / 2 // exactly bs LOG entries written: the grounding was just emitted
			}
		}
		emit(seed, p)
	}
	out.Flush()
	_ = bytes.MinRead
}
