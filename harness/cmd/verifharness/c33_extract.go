//go:build verif

package main

import (
	"fmt"
	"go/ast"
	"go/token"
	"os"
	"path/filepath"
	"sort"
	"strconv"
	"strings"
)

// T1 extractor for C33 → lean/Pithos/Gen/C33Routes.lean
//
//	apiRoutes / websiteRoutes   every `<mux>.HandleFunc("<METHOD> <pattern>", server.<handler>)` of
//	                            SetupServer (internal/http/server/server.go), in source order
//	websiteStorageCalls         for every handler registered on websiteMux: the storage.Storage
//	                            methods reachable from its body (transitively through methods of
//	                            *Server and package-level functions of package server)
//	siteEntryCalls              what the custom-domain fallback handler and the website branch of
//	                            MakeHostnameRoutingHandler call `.ServeHTTP` on
//	storageMethods              the method set of storage.Storage (internal/storage/storage.go)
//
// Fails closed: any HandleFunc argument that is not a string literal + `server.<name>`, a handler
// that is not a method of *Server, or a use of the `storage` field that is not a direct method call.

func init() { registerExtractor("c33routes", extractC33Routes) }

type c33Route struct{ method, pattern, handler string }

func extractC33Routes(x *ExtractCtx) error {
	serverDir := "internal/http/server"
	entries, err := os.ReadDir(filepath.Join(x.Repo, serverDir))
	if err != nil {
		return err
	}
	methods := map[string]*ast.FuncDecl{} // methods of *Server
	funcs := map[string]*ast.FuncDecl{}   // package-level functions
	recvName := map[*ast.FuncDecl]string{}
	var serverFile *ast.File
	for _, e := range entries {
		n := e.Name()
		if !strings.HasSuffix(n, ".go") || strings.HasSuffix(n, "_test.go") {
			continue
		}
		f, err := x.ParseFile(filepath.Join(serverDir, n))
		if err != nil {
			return err
		}
		if n == "server.go" {
			serverFile = f
		}
		for _, d := range f.Decls {
			fd, ok := d.(*ast.FuncDecl)
			if !ok || fd.Body == nil {
				continue
			}
			if fd.Recv == nil {
				funcs[fd.Name.Name] = fd
				continue
			}
			if len(fd.Recv.List) != 1 {
				continue
			}
			t := fd.Recv.List[0].Type
			if st, ok := t.(*ast.StarExpr); ok {
				t = st.X
			}
			if id, ok := t.(*ast.Ident); ok && id.Name == "Server" {
				methods[fd.Name.Name] = fd
				if len(fd.Recv.List[0].Names) == 1 {
					recvName[fd] = fd.Recv.List[0].Names[0].Name
				}
			}
		}
	}
	if serverFile == nil {
		return fmt.Errorf("server.go not found")
	}
	setup := FindFunc(serverFile, "", "SetupServer")
	if setup == nil {
		return fmt.Errorf("SetupServer not found")
	}
	x.Note("SetupServer", setup)

	// --- routes ---
	routes := map[string][]c33Route{}
	var routeErr error
	var fallbackLit *ast.FuncLit
	ast.Inspect(setup.Body, func(n ast.Node) bool {
		switch v := n.(type) {
		case *ast.AssignStmt:
			if len(v.Lhs) == 1 && len(v.Rhs) == 1 {
				if id, ok := v.Lhs[0].(*ast.Ident); ok && id.Name == "fallbackHandler" {
					if call, ok := v.Rhs[0].(*ast.CallExpr); ok && len(call.Args) == 1 {
						if fl, ok := call.Args[0].(*ast.FuncLit); ok {
							fallbackLit = fl
						}
					}
				}
			}
		case *ast.CallExpr:
			sel, ok := v.Fun.(*ast.SelectorExpr)
			if !ok {
				return true
			}
			mux, ok := sel.X.(*ast.Ident)
			if !ok || !strings.HasSuffix(mux.Name, "Mux") {
				return true
			}
			if sel.Sel.Name != "HandleFunc" && sel.Sel.Name != "Handle" {
				return true
			}
			if len(v.Args) != 2 {
				routeErr = fmt.Errorf("%s.%s with %d args", mux.Name, sel.Sel.Name, len(v.Args))
				return false
			}
			lit, ok := v.Args[0].(*ast.BasicLit)
			if !ok || lit.Kind != token.STRING {
				routeErr = fmt.Errorf("%s: pattern is not a string literal: %s", mux.Name, x.Src(v.Args[0]))
				return false
			}
			pat, _ := strconv.Unquote(lit.Value)
			hs, ok := v.Args[1].(*ast.SelectorExpr)
			if !ok {
				routeErr = fmt.Errorf("%s %q: handler is not server.<method>: %s", mux.Name, pat, x.Src(v.Args[1]))
				return false
			}
			if id, ok := hs.X.(*ast.Ident); !ok || id.Name != "server" {
				routeErr = fmt.Errorf("%s %q: handler is not server.<method>: %s", mux.Name, pat, x.Src(v.Args[1]))
				return false
			}
			if methods[hs.Sel.Name] == nil {
				routeErr = fmt.Errorf("%s %q: handler %s is not a method of *Server", mux.Name, pat, hs.Sel.Name)
				return false
			}
			m, p, found := strings.Cut(pat, " ")
			if !found {
				m, p = "", pat // a pattern without method matches every method
			}
			routes[mux.Name] = append(routes[mux.Name], c33Route{m, strings.TrimSpace(p), hs.Sel.Name})
			x.Note(mux.Name+" "+pat, v)
		}
		return true
	})
	if routeErr != nil {
		return routeErr
	}
	if len(routes["apiMux"]) == 0 || len(routes["websiteMux"]) == 0 {
		return fmt.Errorf("expected apiMux and websiteMux registrations, found %d/%d", len(routes["apiMux"]), len(routes["websiteMux"]))
	}
	for name := range routes {
		if name != "apiMux" && name != "websiteMux" {
			return fmt.Errorf("unknown mux %s in SetupServer", name)
		}
	}

	// --- storage calls reachable from a handler ---
	var reachErr error
	var reach func(fd *ast.FuncDecl, seen map[*ast.FuncDecl]bool, acc map[string]bool)
	reach = func(fd *ast.FuncDecl, seen map[*ast.FuncDecl]bool, acc map[string]bool) {
		if seen[fd] {
			return
		}
		seen[fd] = true
		recv := recvName[fd]
		// every selector `<recv>.storage` must be the receiver of a direct method call
		okUse := map[*ast.SelectorExpr]bool{}
		ast.Inspect(fd.Body, func(n ast.Node) bool {
			call, ok := n.(*ast.CallExpr)
			if !ok {
				return true
			}
			switch fun := call.Fun.(type) {
			case *ast.SelectorExpr:
				if inner, ok := fun.X.(*ast.SelectorExpr); ok {
					if id, ok := inner.X.(*ast.Ident); ok && recv != "" && id.Name == recv && inner.Sel.Name == "storage" {
						acc[fun.Sel.Name] = true
						okUse[inner] = true
					}
				}
				if id, ok := fun.X.(*ast.Ident); ok && recv != "" && id.Name == recv {
					if callee := methods[fun.Sel.Name]; callee != nil {
						reach(callee, seen, acc)
					}
				}
			case *ast.Ident:
				if callee := funcs[fun.Name]; callee != nil {
					reach(callee, seen, acc)
				}
			}
			return true
		})
		ast.Inspect(fd.Body, func(n ast.Node) bool {
			sel, ok := n.(*ast.SelectorExpr)
			if !ok {
				return true
			}
			if id, ok := sel.X.(*ast.Ident); ok && recv != "" && id.Name == recv && sel.Sel.Name == "storage" && !okUse[sel] {
				reachErr = fmt.Errorf("%s: the storage field escapes (used other than as the receiver of a direct call) at %s", fd.Name.Name, x.Fset.Position(sel.Pos()))
			}
			// a method value `s.foo` passed around (not called) could hide calls: follow it too
			if id, ok := sel.X.(*ast.Ident); ok && recv != "" && id.Name == recv {
				if callee := methods[sel.Sel.Name]; callee != nil {
					reach(callee, seen, acc)
				}
			}
			return true
		})
	}
	type hc struct {
		handler string
		calls   []string
	}
	var siteCalls []hc
	doneH := map[string]bool{}
	for _, r := range routes["websiteMux"] {
		if doneH[r.handler] {
			continue
		}
		doneH[r.handler] = true
		acc := map[string]bool{}
		reach(methods[r.handler], map[*ast.FuncDecl]bool{}, acc)
		var cs []string
		for c := range acc {
			cs = append(cs, c)
		}
		sort.Strings(cs)
		siteCalls = append(siteCalls, hc{r.handler, cs})
		x.Note("website handler "+r.handler, methods[r.handler])
	}
	if reachErr != nil {
		return reachErr
	}

	// --- what the non-API entry points hand the request to ---
	serveTargets := func(body ast.Node) []string {
		var ts []string
		ast.Inspect(body, func(n ast.Node) bool {
			if call, ok := n.(*ast.CallExpr); ok {
				if sel, ok := call.Fun.(*ast.SelectorExpr); ok && sel.Sel.Name == "ServeHTTP" {
					ts = append(ts, x.Src(sel.X))
				}
			}
			return true
		})
		return ts
	}
	if fallbackLit == nil {
		return fmt.Errorf("fallbackHandler := http.HandlerFunc(func…) not found in SetupServer")
	}
	x.Note("fallbackHandler", fallbackLit)
	fallbackTargets := serveTargets(fallbackLit.Body)
	// the fallback must not touch server.storage itself
	touches := false
	ast.Inspect(fallbackLit.Body, func(n ast.Node) bool {
		if sel, ok := n.(*ast.SelectorExpr); ok && sel.Sel.Name == "storage" {
			touches = true
		}
		return true
	})
	if touches {
		return fmt.Errorf("fallbackHandler uses the storage directly")
	}
	hr, err := x.ParseFile("internal/http/middleware/hostrouting.go")
	if err != nil {
		return err
	}
	hrf := FindFunc(hr, "", "MakeHostnameRoutingHandler")
	if hrf == nil {
		return fmt.Errorf("MakeHostnameRoutingHandler not found")
	}
	x.Note("MakeHostnameRoutingHandler", hrf)
	routingTargets := serveTargets(hrf.Body)
	// the rootHandler wiring: MakeHostnameRoutingHandler(apiEndpoint, apiHandler, websiteEndpoint, websiteHandler, fallbackHandler)
	var wiring []string
	ast.Inspect(setup.Body, func(n ast.Node) bool {
		if call, ok := n.(*ast.CallExpr); ok {
			if sel, ok := call.Fun.(*ast.SelectorExpr); ok && sel.Sel.Name == "MakeHostnameRoutingHandler" {
				for _, a := range call.Args {
					wiring = append(wiring, x.Src(a))
				}
				x.Note("rootHandler wiring", call)
			}
		}
		return true
	})
	if len(wiring) != 5 {
		return fmt.Errorf("MakeHostnameRoutingHandler call with 5 arguments not found in SetupServer")
	}

	// --- the host tests of the router and of the virtual-host middleware, as data ---
	vf, err := x.ParseFile("internal/http/middleware/virtualhostbucketaddressing.go")
	if err != nil {
		return err
	}
	vhf := FindFunc(vf, "", "MakeVirtualHostBucketAddressingMiddleware")
	if vhf == nil {
		return fmt.Errorf("MakeVirtualHostBucketAddressingMiddleware not found")
	}
	x.Note("MakeVirtualHostBucketAddressingMiddleware", vhf)
	routerTests, routerStrip, err := c33HostTests(x, hrf, map[string]string{"apiEndpoint": "api", "websiteEndpoint": "website"})
	if err != nil {
		return err
	}
	vhostTests, vhostStrip, err := c33HostTests(x, vhf, map[string]string{"baseEndpoint": "api"})
	if err != nil {
		return err
	}
	fallbackStrip := ""
	for _, st := range fallbackLit.Body.List {
		if ifs, ok := st.(*ast.IfStmt); ok && fallbackStrip == "" {
			fallbackStrip = c33Squash(x.Src(ifs))
		}
	}

	// --- the method set of storage.Storage ---
	sf, err := x.ParseFile("internal/storage/storage.go")
	if err != nil {
		return err
	}
	ifaces := map[string]*ast.InterfaceType{}
	for _, d := range sf.Decls {
		gd, ok := d.(*ast.GenDecl)
		if !ok {
			continue
		}
		for _, s := range gd.Specs {
			if ts, ok := s.(*ast.TypeSpec); ok {
				if it, ok := ts.Type.(*ast.InterfaceType); ok {
					ifaces[ts.Name.Name] = it
				}
			}
		}
	}
	var storageMethods []string
	var collect func(name string) error
	collect = func(name string) error {
		it := ifaces[name]
		if it == nil {
			return fmt.Errorf("interface %s not found in storage.go", name)
		}
		for _, f := range it.Methods.List {
			switch t := f.Type.(type) {
			case *ast.FuncType:
				for _, n := range f.Names {
					storageMethods = append(storageMethods, n.Name)
				}
			case *ast.Ident:
				if err := collect(t.Name); err != nil {
					return err
				}
			case *ast.SelectorExpr:
				if x.Src(t) == "lifecycle.Manager" {
					storageMethods = append(storageMethods, "Start", "Stop")
				} else {
					return fmt.Errorf("storage.Storage embeds unknown %s", x.Src(t))
				}
			default:
				return fmt.Errorf("unrecognised interface element in %s", name)
			}
		}
		return nil
	}
	if err := collect("Storage"); err != nil {
		return err
	}
	x.Note("storage.Storage", ifaces["Storage"])
	sort.Strings(storageMethods)

	// --- emit ---
	w := x.Lean
	fmt.Fprintf(w, "import Pithos.Model.VHost\n\nnamespace Pithos.Gen.C33Routes\n\n")
	emitRoutes := func(name string, rs []c33Route) {
		fmt.Fprintf(w, "/-- (method, pattern, handler) registered on %s, in source order. -/\n", name)
		fmt.Fprintf(w, "def %s : List (String × String × String) := [\n", map[string]string{"apiMux": "apiRoutes", "websiteMux": "websiteRoutes"}[name])
		for i, r := range rs {
			sep := ","
			if i == len(rs)-1 {
				sep = ""
			}
			fmt.Fprintf(w, "  (%s, %s, %s)%s\n", LeanStr(r.method), LeanStr(r.pattern), LeanStr(r.handler), sep)
		}
		fmt.Fprintf(w, "]\n\n")
	}
	emitRoutes("apiMux", routes["apiMux"])
	emitRoutes("websiteMux", routes["websiteMux"])
	fmt.Fprintf(w, "/-- per website handler: the storage.Storage methods reachable from it. -/\n")
	fmt.Fprintf(w, "def websiteStorageCalls : List (String × List String) := [\n")
	for i, h := range siteCalls {
		sep := ","
		if i == len(siteCalls)-1 {
			sep = ""
		}
		fmt.Fprintf(w, "  (%s, %s)%s\n", LeanStr(h.handler), LeanStrList(h.calls), sep)
	}
	fmt.Fprintf(w, "]\n\n")
	fmt.Fprintf(w, "/-- what the custom-domain fallback handler calls `.ServeHTTP` on. -/\n")
	fmt.Fprintf(w, "def fallbackServes : List String := %s\n\n", LeanStrList(fallbackTargets))
	fmt.Fprintf(w, "/-- what MakeHostnameRoutingHandler calls `.ServeHTTP` on, in source order. -/\n")
	fmt.Fprintf(w, "def hostRoutingServes : List String := %s\n\n", LeanStrList(routingTargets))
	fmt.Fprintf(w, "/-- the arguments of the MakeHostnameRoutingHandler call in SetupServer. -/\n")
	fmt.Fprintf(w, "def hostRoutingWiring : List String := %s\n\n", LeanStrList(wiring))
	fmt.Fprintf(w, "/-- the `if` conditions on the host in MakeHostnameRoutingHandler, in source order, with what the\nbranch serves. -/\n")
	fmt.Fprintf(w, "def routerHostTests : List (Pithos.VHost.HostExpr × List String) := [\n  %s\n]\n\n", strings.Join(routerTests, ",\n  "))
	fmt.Fprintf(w, "/-- the `if` conditions on the host in MakeVirtualHostBucketAddressingMiddleware. -/\n")
	fmt.Fprintf(w, "def vhostHostTests : List (Pithos.VHost.HostExpr × List String) := [\n  %s\n]\n\n", strings.Join(vhostTests, ",\n  "))
	fmt.Fprintf(w, "/-- the port-stripping statement of the three places that read r.Host (router, virtual-host\nmiddleware, custom-domain fallback), white space squashed, host variable renamed to `h`. -/\n")
	fmt.Fprintf(w, "def portStrips : List String := %s\n\n", LeanStrList([]string{routerStrip, vhostStrip, strings.ReplaceAll(fallbackStrip, "host", "h")}))
	fmt.Fprintf(w, "/-- the method set of storage.Storage. -/\n")
	fmt.Fprintf(w, "def storageMethods : List String := %s\n\n", LeanStrList(storageMethods))
	fmt.Fprintf(w, "end Pithos.Gen.C33Routes\n")
	return nil
}

func c33Squash(s string) string { return strings.Join(strings.Fields(s), " ") }

// c33HostTests reads, inside the handler literal of fn, the variable bound to r.Host, the
// port-stripping statement and every later `if` whose condition mentions that variable; each
// condition is rendered as a Pithos.VHost.HostExpr (unknown shapes become `.other "<src>"`, which
// no theorem accepts) together with the `.ServeHTTP` receivers / the marker "rewrite" of its body.
func c33HostTests(x *ExtractCtx, fn *ast.FuncDecl, endpoints map[string]string) ([]string, string, error) {
	// suffix variables: <v> := "." + <endpoint param>
	suffixOf := map[string]string{}
	var lit *ast.FuncLit
	ast.Inspect(fn.Body, func(n ast.Node) bool {
		switch v := n.(type) {
		case *ast.AssignStmt:
			if len(v.Lhs) == 1 && len(v.Rhs) == 1 {
				if id, ok := v.Lhs[0].(*ast.Ident); ok {
					if be, ok := v.Rhs[0].(*ast.BinaryExpr); ok && be.Op == token.ADD {
						if l, ok := be.X.(*ast.BasicLit); ok && l.Value == "\".\"" {
							if r, ok := be.Y.(*ast.Ident); ok && endpoints[r.Name] != "" {
								suffixOf[id.Name] = endpoints[r.Name]
							}
						}
					}
				}
			}
		case *ast.FuncLit:
			if lit == nil {
				lit = v
			}
		}
		return true
	})
	if lit == nil {
		return nil, "", fmt.Errorf("%s: handler literal not found", fn.Name.Name)
	}
	hostVar := ""
	strip := ""
	var tests []string
	var render func(e ast.Expr) string
	render = func(e ast.Expr) string {
		other := func() string { return "(.other " + LeanStr(c33Squash(x.Src(e))) + ")" }
		switch v := e.(type) {
		case *ast.ParenExpr:
			return render(v.X)
		case *ast.BinaryExpr:
			switch v.Op {
			case token.LOR:
				return "(.or " + render(v.X) + " " + render(v.Y) + ")"
			case token.LAND:
				return "(.and " + render(v.X) + " " + render(v.Y) + ")"
			case token.EQL, token.NEQ:
				l, lok := v.X.(*ast.Ident)
				r, rok := v.Y.(*ast.Ident)
				if lok && rok && l.Name == hostVar && endpoints[r.Name] != "" {
					if v.Op == token.EQL {
						return "(.eq " + LeanStr(endpoints[r.Name]) + ")"
					}
					return "(.ne " + LeanStr(endpoints[r.Name]) + ")"
				}
			}
			return other()
		case *ast.CallExpr:
			sel, ok := v.Fun.(*ast.SelectorExpr)
			if !ok || len(v.Args) != 2 {
				return other()
			}
			pkg, ok := sel.X.(*ast.Ident)
			a0, ok0 := v.Args[0].(*ast.Ident)
			a1, ok1 := v.Args[1].(*ast.Ident)
			if !ok || pkg.Name != "strings" || !ok0 || !ok1 || a0.Name != hostVar || suffixOf[a1.Name] == "" {
				return other()
			}
			switch sel.Sel.Name {
			case "HasSuffix":
				return "(.hasSuffixDot " + LeanStr(suffixOf[a1.Name]) + ")"
			case "HasPrefix":
				return "(.hasPrefixDot " + LeanStr(suffixOf[a1.Name]) + ")"
			case "Contains":
				return "(.containsDot " + LeanStr(suffixOf[a1.Name]) + ")"
			}
			return other()
		}
		return other()
	}
	mentionsHost := func(e ast.Expr) bool {
		found := false
		ast.Inspect(e, func(n ast.Node) bool {
			if id, ok := n.(*ast.Ident); ok && id.Name == hostVar {
				found = true
			}
			return true
		})
		return found
	}
	for _, st := range lit.Body.List {
		switch v := st.(type) {
		case *ast.AssignStmt:
			if hostVar == "" && len(v.Lhs) == 1 && len(v.Rhs) == 1 && c33Squash(x.Src(v.Rhs[0])) == "r.Host" {
				if id, ok := v.Lhs[0].(*ast.Ident); ok {
					hostVar = id.Name
				}
			}
		case *ast.IfStmt:
			if hostVar == "" {
				return nil, "", fmt.Errorf("%s: an if statement precedes the binding of r.Host", fn.Name.Name)
			}
			if v.Init != nil { // the port strip: if colonIdx := strings.LastIndex(host, ":"); …
				if strip != "" {
					return nil, "", fmt.Errorf("%s: more than one if-with-init on the host", fn.Name.Name)
				}
				strip = strings.ReplaceAll(c33Squash(x.Src(v)), hostVar, "h")
				continue
			}
			if !mentionsHost(v.Cond) {
				return nil, "", fmt.Errorf("%s: unrecognised top-level if: %s", fn.Name.Name, c33Squash(x.Src(v.Cond)))
			}
			var serves []string
			ast.Inspect(v.Body, func(n ast.Node) bool {
				switch b := n.(type) {
				case *ast.CallExpr:
					if sel, ok := b.Fun.(*ast.SelectorExpr); ok && sel.Sel.Name == "ServeHTTP" {
						serves = append(serves, x.Src(sel.X))
					}
				case *ast.AssignStmt:
					if len(b.Lhs) == 1 && strings.HasPrefix(c33Squash(x.Src(b.Lhs[0])), "r.URL.") {
						if len(serves) == 0 || serves[len(serves)-1] != "rewrite" {
							serves = append(serves, "rewrite")
						}
					}
				}
				return true
			})
			if v.Else != nil {
				return nil, "", fmt.Errorf("%s: host test with an else branch", fn.Name.Name)
			}
			tests = append(tests, "("+render(v.Cond)+", "+LeanStrList(serves)+")")
			x.Note(fn.Name.Name+" host test", v)
		}
	}
	if hostVar == "" || strip == "" || len(tests) == 0 {
		return nil, "", fmt.Errorf("%s: host variable / port strip / host tests not found", fn.Name.Name)
	}
	return tests, strip, nil
}
