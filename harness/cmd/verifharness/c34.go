//go:build verif

package main

import (
	"context"
	"fmt"
	"net/http"
	"net/http/httptest"
	"net/url"
	"path/filepath"
	"sort"
	"strings"

	"github.com/jdillenkofer/pithos/internal/http/middleware"
	"github.com/jdillenkofer/pithos/internal/http/server"
	luaauth "github.com/jdillenkofer/pithos/internal/http/server/authorization/lua"
	"github.com/jdillenkofer/pithos/internal/storage"
	"github.com/jdillenkofer/pithos/internal/storage/middlewares/delegator"
	"github.com/jdillenkofer/pithos/internal/verifx"
)

// C34: the real CORS middleware.
//   mode direct        middleware.MakeCORSMiddleware(rules, trivial handler): the handler counts
//                      its invocations and answers 204
//   mode server-path   server.SetupServer over a real SQLite storage stack whose
//   mode server-vhost  GetBucketCORSConfiguration is overridden to serve the generated rules for
//                      bucket "c34" (path-style resp. virtual-hosted requests)
// Observed: handler invocations (direct), status, the five Access-Control-* response headers, Vary.

type c34Rule = storage.CORSRule

type c34Req struct {
	method string
	origin []string
	acrm   []string
	acrh   []string
}

type c34Case struct {
	mode  string
	rules []c34Rule
	reqs  []c34Req
}

type c34Storage struct {
	delegator.DelegatingStorage
	rules []c34Rule
}

func (s *c34Storage) GetBucketCORSConfiguration(ctx context.Context, b storage.BucketName) (*storage.BucketCORSConfiguration, error) {
	if b.String() == "c34" && len(s.rules) > 0 {
		return &storage.BucketCORSConfiguration{Rules: s.rules}, nil
	}
	return nil, storage.ErrNoSuchCORSConfiguration
}

func init() { register("c34", runC34) }

func c34_hexList(vs []string) string {
	var b strings.Builder
	fmt.Fprintf(&b, "%d", len(vs))
	for _, v := range vs {
		b.WriteByte(' ')
		b.WriteString(verifx.HexS(v))
	}
	return b.String()
}

func c34_hdrTok(h http.Header, name string) string {
	vs, ok := h[name]
	if !ok || len(vs) == 0 {
		return "nil"
	}
	return verifx.HexS(strings.Join(vs, "\x00")) // several values would be visible as NUL
}

func runC34(args []string) {
	f := verifx.ParseFlags("c34", args, 3000, 30000)
	out := verifx.NewOut()
	ctx := context.Background()
	k := 0

	st := verifx.NewStack(filepath.Join(f.Scratch, "c34"), verifx.StackOpts{PartKind: "sql"})
	defer st.Close()
	verifx.Check(st.Storage.CreateBucket(ctx, storage.MustNewBucketName("c34")))
	verifx.Check(st.Storage.CreateBucket(ctx, storage.MustNewBucketName("other")))
	allowAll := verifx.Must(luaauth.NewLuaAuthorizer("function authorizeRequest(request) return true end"))

	emit := func(c c34Case, seed uint64) {
		if !f.Wants(k) {
			k++
			return
		}
		out.Case(k, seed)
		k++
		out.Line("mode %s", c.mode)
		for _, r := range c.rules {
			age := "nil"
			if r.MaxAgeSeconds != nil {
				age = fmt.Sprintf("%d", *r.MaxAgeSeconds)
			}
			out.Line("rule o %s m %s h %s e %s age %s", c34_hexList(r.AllowedOrigins), c34_hexList(r.AllowedMethods),
				c34_hexList(r.AllowedHeaders), c34_hexList(r.ExposeHeaders), age)
		}
		calls := 0
		var handler http.Handler
		if c.mode == "direct" {
			next := http.HandlerFunc(func(w http.ResponseWriter, r *http.Request) {
				calls++
				w.WriteHeader(http.StatusNoContent)
			})
			handler = middleware.MakeCORSMiddleware(c.rules, next)
		} else {
			dbl := &c34Storage{DelegatingStorage: delegator.Wrap(st.Storage), rules: c.rules}
			handler = server.SetupServer(nil, "eu-central-1", "localhost", "s3-website.localhost", allowAll, dbl)
		}
		for _, rq := range c.reqs {
			out.Line("req %s origin %s acrm %s acrh %s", verifx.HexS(rq.method), c34_hexList(rq.origin), c34_hexList(rq.acrm), c34_hexList(rq.acrh))
			calls = 0
			rec := httptest.NewRecorder()
			panicked := false
			func() {
				defer func() {
					if r := recover(); r != nil {
						panicked = true
					}
				}()
				u := &url.URL{Scheme: "http", Host: "localhost", Path: "/c34/some/key"}
				host := "localhost"
				if c.mode == "server-vhost" {
					u = &url.URL{Scheme: "http", Host: "c34.localhost", Path: "/some/key"}
					host = "c34.localhost"
				}
				hr := &http.Request{Method: rq.method, URL: u, Host: host, Header: http.Header{}, Proto: "HTTP/1.1",
					ProtoMajor: 1, ProtoMinor: 1, Body: http.NoBody, RemoteAddr: "192.0.2.1:1234", RequestURI: u.Path}
				hr = hr.WithContext(ctx)
				if len(rq.origin) > 0 {
					hr.Header["Origin"] = rq.origin
				}
				if len(rq.acrm) > 0 {
					hr.Header["Access-Control-Request-Method"] = rq.acrm
				}
				if len(rq.acrh) > 0 {
					hr.Header["Access-Control-Request-Headers"] = rq.acrh
				}
				handler.ServeHTTP(rec, hr)
			}()
			if panicked {
				out.Line("obs panic")
				continue
			}
			h := rec.Header()
			nextTok := "?"
			if c.mode == "direct" {
				nextTok = fmt.Sprintf("%d", calls)
			}
			extra := []string{}
			for name := range h {
				if strings.HasPrefix(name, "Access-Control-") {
					switch name {
					case "Access-Control-Allow-Origin", "Access-Control-Allow-Methods", "Access-Control-Allow-Headers",
						"Access-Control-Expose-Headers", "Access-Control-Max-Age":
					default:
						extra = append(extra, name)
					}
				}
			}
			sort.Strings(extra)
			out.Line("obs %s %d ao %s am %s ah %s eh %s ma %s vary %s extra %s", nextTok, rec.Code,
				c34_hdrTok(h, "Access-Control-Allow-Origin"), c34_hdrTok(h, "Access-Control-Allow-Methods"),
				c34_hdrTok(h, "Access-Control-Allow-Headers"), c34_hdrTok(h, "Access-Control-Expose-Headers"),
				c34_hdrTok(h, "Access-Control-Max-Age"), c34_hexList(h["Vary"]), c34_hexList(extra))
		}
		out.End()
	}

	// ---- directed cases ----
	one := func(s ...string) []string { return s }
	age := 600
	ruleA := c34Rule{AllowedOrigins: one("https://*.example.com"), AllowedMethods: one("GET", "PUT"),
		AllowedHeaders: one("x-amz-*", "content-type"), ExposeHeaders: one("ETag"), MaxAgeSeconds: &age}
	ruleStar := c34Rule{AllowedOrigins: one("*"), AllowedMethods: one("GET", "HEAD"), AllowedHeaders: one("*")}
	ruleLit := c34Rule{AllowedOrigins: one("http://localhost:3000", "https://example.org"), AllowedMethods: one("DELETE", "POST")}
	directed := []c34Req{
		{method: "OPTIONS", origin: one("https://App.Example.com"), acrm: one("put"), acrh: one("X-Amz-Date, Content-Type")},
		{method: "OPTIONS", origin: one("https://app.example.com"), acrm: one("PUT"), acrh: one("x-amz-date, authorization")},
		{method: "OPTIONS", origin: one("https://example.org"), acrm: one("GET")},
		{method: "OPTIONS", origin: one("https://example.org"), acrm: one("DELETE"), acrh: one(" , ,")},
		{method: "GET", origin: one("https://app.example.com")},
		{method: "GET", origin: one("https://example.com")},
		{method: "GET", origin: one("https://evil.example.com.attacker.net")},
		{method: "GET"},
		{method: "GET", origin: one("  ")},
		{method: "PUT", origin: one("http://localhost:3000")},
		{method: "OPTIONS", origin: one("http://localhost:3000")},
		{method: "OPTIONS", acrm: one("GET")},
		{method: "DELETE", origin: one("http://LOCALHOST:3000"), acrh: one("x-not-allowed")},
		{method: "OPTIONS", origin: one("https://a.example.com", "https://example.org"), acrm: one("GET", "DELETE"), acrh: one("x-amz-a", "authorization")},
	}
	for _, mode := range []string{"direct", "server-path", "server-vhost"} {
		emit(c34Case{mode: mode, rules: []c34Rule{ruleA, ruleLit}, reqs: directed}, 1)
		emit(c34Case{mode: mode, rules: []c34Rule{ruleLit, ruleStar, ruleA}, reqs: directed}, 2)
		emit(c34Case{mode: mode, rules: nil, reqs: directed}, 3)
	}
	// patterns the PUT-time validation rejects, fed straight to the middleware
	emit(c34Case{mode: "direct", rules: []c34Rule{{AllowedOrigins: one("https://*.*.com", "", " * "), AllowedMethods: one("get", " GET"), AllowedHeaders: one("x-*-*", "*")}},
		reqs: append(directed, c34Req{method: "GET", origin: one("https://a.*.com")}, c34Req{method: "GET", origin: one("https://a.b.com")})}, 4)

	// ---- exhaustive small scope: every pattern x value over {a,b,*} ----
	maxLen := 3
	if f.Tier == "thorough" {
		maxLen = 4
	}
	var words []string
	var gen func(prefix string, n int)
	gen = func(prefix string, n int) {
		words = append(words, prefix)
		if n == 0 {
			return
		}
		for _, ch := range "ab*" {
			gen(prefix+string(ch), n-1)
		}
	}
	gen("", maxLen)
	sort.Slice(words, func(i, j int) bool {
		if len(words[i]) != len(words[j]) {
			return len(words[i]) < len(words[j])
		}
		return words[i] < words[j]
	})
	for _, p := range words {
		// one case per pattern: every value as Origin against AllowedOrigins=[p], and every value as
		// the requested header list against AllowedHeaders=[p]
		var reqsO, reqsH []c34Req
		for _, v := range words {
			reqsO = append(reqsO, c34Req{method: "GET", origin: one(v)})
			reqsH = append(reqsH, c34Req{method: "OPTIONS", origin: one("o"), acrm: one("GET"), acrh: one(v)})
		}
		emit(c34Case{mode: "direct", rules: []c34Rule{{AllowedOrigins: one(p), AllowedMethods: one("GET")}}, reqs: reqsO}, 5)
		emit(c34Case{mode: "direct", rules: []c34Rule{{AllowedOrigins: one("o"), AllowedMethods: one("GET"), AllowedHeaders: one(p)}}, reqs: reqsH}, 6)
	}

	// ---- generated ----
	for c := 0; c < f.Cases; c++ {
		seed := verifx.CaseSeed(f.Seed, k)
		r := verifx.NewRng(seed)
		emit(genC34Case(r), seed)
	}
	out.Flush()
}
