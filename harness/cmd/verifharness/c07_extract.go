//go:build verif

package main

import (
	"fmt"
	"go/ast"
	"go/token"
	"os"
	"path/filepath"
	"regexp"
	"sort"
	"strconv"
	"strings"
)

// T1 extractor for C07/C12 → lean/Pithos/Gen/TxFacts.lean: the facts that make "one storage call =
// one atomic step" true on SQLite, and the shape of the optimistic-lock statements that
// Pithos.MetaFine models. Everything is read syntactically and fails closed.
//
//   - every method of metadataPartStorage: how many database.WithTx calls its body contains, how
//     many of them are writable transactions on mbs.db, and how many metadata-store / part-store
//     calls sit inside resp. outside the transaction body;
//   - sqlite.go: SetMaxOpenConns of the writable pool, the _txlock of its DSN, which pool a
//     non-read-only BeginTx uses;
//   - object repository: the compare-and-swap statements (guard on optimistic_lock_version, bump);
//   - migrations: the unique index on the latest completed row of a key;
//   - sql metadata store: where the CAS and the unique-violation mapping are used.

func init() { registerExtractor("txfacts", c07ExtractTxFacts) }

const (
	c07StorageDir  = "internal/storage/metadatapart"
	c07SqliteFile  = "internal/storage/database/sqlite/sqlite.go"
	c07ObjectRepo  = "internal/storage/database/sqlite/repository/object/sqlite.go"
	c07Migrations  = "internal/storage/database/sqlite/migrations"
	c07SqlMetaDir  = "internal/storage/metadatapart/metadatastore/sql"
	c07StorageRecv = "metadataPartStorage"
	c07SqlMetaRecv = "sqlMetadataStore"
)

type c07Method struct {
	name                        string
	withTx, writable            int
	inside, outside, goStmts    int
	file                        string
	node                        ast.Node
	identifiers                 map[string]int
	calls                       map[string]int
}

func c07RecvName(fd *ast.FuncDecl) string {
	if fd.Recv == nil || len(fd.Recv.List) != 1 {
		return ""
	}
	t := fd.Recv.List[0].Type
	if st, ok := t.(*ast.StarExpr); ok {
		t = st.X
	}
	if id, ok := t.(*ast.Ident); ok {
		return id.Name
	}
	return ""
}

func c07GoFiles(x *ExtractCtx, dir string) ([]string, error) {
	ents, err := os.ReadDir(filepath.Join(x.Repo, dir))
	if err != nil {
		return nil, err
	}
	var out []string
	for _, e := range ents {
		n := e.Name()
		if e.IsDir() || !strings.HasSuffix(n, ".go") || strings.HasSuffix(n, "_test.go") || strings.HasPrefix(n, "verif_") {
			continue
		}
		out = append(out, filepath.Join(dir, n))
	}
	sort.Strings(out)
	return out, nil
}

// isStoreCall: a call that reads or writes storage state (metadata store, part stores).
func c07IsStoreCall(x *ExtractCtx, call *ast.CallExpr) bool {
	sel, ok := call.Fun.(*ast.SelectorExpr)
	if !ok {
		return false
	}
	recv := x.Src(sel.X)
	if strings.HasPrefix(recv, "mbs.metadataStore") {
		return true
	}
	switch sel.Sel.Name {
	case "PutPart", "GetPart", "DeletePart", "GetPartIds":
		return true
	case "deleteUnreferencedParts", "dedupeFreshPart":
		return recv == "mbs"
	}
	return false
}

func c07AnalyseStorageMethod(x *ExtractCtx, rel string, fd *ast.FuncDecl) (*c07Method, error) {
	m := &c07Method{name: fd.Name.Name, file: rel, node: fd}
	type span struct{ lo, hi token.Pos }
	var txBodies []span
	var err error
	ast.Inspect(fd.Body, func(n ast.Node) bool {
		switch v := n.(type) {
		case *ast.GoStmt:
			m.goStmts++
		case *ast.CallExpr:
			fn := x.Src(v.Fun)
			if fn == "database.WithTx" || fn == "database.WithTxReadClosers" {
				m.withTx++
				if len(v.Args) != 4 {
					err = fmt.Errorf("%s.%s: %s with %d arguments", rel, m.name, fn, len(v.Args))
					return false
				}
				opts := strings.Join(strings.Fields(x.Src(v.Args[2])), "")
				db := x.Src(v.Args[1])
				switch opts {
				case "&sql.TxOptions{ReadOnly:false}":
					if fn == "database.WithTx" && db == "mbs.db" {
						m.writable++
					}
				case "&sql.TxOptions{ReadOnly:true}":
				default:
					// options not written as a literal (WithTransaction passes them through): counted
					// in withTx, never as writable — a named method with such a call fails its obligation
				}
				switch body := v.Args[3].(type) {
				case *ast.FuncLit:
					txBodies = append(txBodies, span{body.Pos(), body.End()})
				case *ast.Ident:
					// a named closure declared in the same method (GetObject): its body counts as inside
					ast.Inspect(fd.Body, func(nn ast.Node) bool {
						if as, ok := nn.(*ast.AssignStmt); ok && len(as.Lhs) == 1 && len(as.Rhs) == 1 {
							if id, ok := as.Lhs[0].(*ast.Ident); ok && id.Name == body.Name {
								if fl, ok := as.Rhs[0].(*ast.FuncLit); ok {
									txBodies = append(txBodies, span{fl.Pos(), fl.End()})
								}
							}
						}
						return true
					})
				default:
					err = fmt.Errorf("%s.%s: transaction body is neither a function literal nor a local closure", rel, m.name)
					return false
				}
			}
		}
		return true
	})
	if err != nil {
		return nil, err
	}
	ast.Inspect(fd.Body, func(n ast.Node) bool {
		call, ok := n.(*ast.CallExpr)
		if !ok || !c07IsStoreCall(x, call) {
			return true
		}
		in := false
		for _, s := range txBodies {
			if call.Pos() >= s.lo && call.End() <= s.hi {
				in = true
			}
		}
		if in {
			m.inside++
		} else {
			m.outside++
		}
		return true
	})
	return m, nil
}

var c07TxLockRe = regexp.MustCompile(`[?&]_txlock=([a-z]+)`)

func c07ExtractTxFacts(x *ExtractCtx) error {
	w := x.Lean
	fmt.Fprintln(w, "-- Source: "+c07StorageDir+"/*.go, "+c07SqliteFile+", "+c07ObjectRepo+", "+c07Migrations+", "+c07SqlMetaDir+"/*.go")
	fmt.Fprintln(w, "namespace Pithos.Gen.TxFacts")
	fmt.Fprintln(w, `
/-- One method of metadataPartStorage (the storage.Storage implementation). -/
structure Method where
  name : String
  withTx : Nat             -- database.WithTx / WithTxReadClosers calls in the body
  writable : Nat           -- … of which database.WithTx(ctx, mbs.db, &sql.TxOptions{ReadOnly: false}, …)
  storeCallsInside : Nat   -- metadata-store / part-store calls inside a transaction body
  storeCallsOutside : Nat  -- … outside every transaction body
  goStmts : Nat            -- go statements in the body
  deriving DecidableEq, Repr

/-- One method of the SQL metadata store. -/
structure SqlMethod where
  name : String
  casUpdates : Nat         -- UpdateObjectByIdAndOptimisticLockVersion calls
  casDeletes : Nat         -- DeleteObjectByIdAndOptimisticLockVersion calls
  uniqueMapped : Nat       -- isUniqueConstraintViolation(err) tests (→ ErrPreconditionFailed)
  deriving DecidableEq, Repr
`)

	// ---- storage methods
	files, err := c07GoFiles(x, c07StorageDir)
	if err != nil {
		return err
	}
	var methods []*c07Method
	for _, rel := range files {
		f, err := x.ParseFile(rel)
		if err != nil {
			return err
		}
		for _, d := range f.Decls {
			fd, ok := d.(*ast.FuncDecl)
			if !ok || fd.Body == nil || c07RecvName(fd) != c07StorageRecv || !fd.Name.IsExported() {
				continue
			}
			m, err := c07AnalyseStorageMethod(x, rel, fd)
			if err != nil {
				return err
			}
			methods = append(methods, m)
		}
	}
	sort.Slice(methods, func(i, j int) bool { return methods[i].name < methods[j].name })
	need := map[string]bool{"PutObject": false, "AppendObject": false, "DeleteObject": false, "DeleteObjects": false,
		"CompleteMultipartUpload": false, "GetObject": false}
	fmt.Fprintln(w, "def methods : List Method := [")
	for i, m := range methods {
		if _, ok := need[m.name]; ok {
			need[m.name] = true
			x.Note("storage."+m.name, m.node)
		}
		sep := ","
		if i == len(methods)-1 {
			sep = ""
		}
		fmt.Fprintf(w, "  ⟨%s, %d, %d, %d, %d, %d⟩%s\n", LeanStr(m.name), m.withTx, m.writable, m.inside, m.outside, m.goStmts, sep)
	}
	fmt.Fprintln(w, "]")
	for n, seen := range need {
		if !seen {
			return fmt.Errorf("method %s.%s not found", c07StorageRecv, n)
		}
	}

	// ---- sqlite.go
	sf, err := x.ParseFile(c07SqliteFile)
	if err != nil {
		return err
	}
	setup := FindFunc(sf, "", "setupWriteableDatabase")
	if setup == nil {
		return fmt.Errorf("%s: setupWriteableDatabase not found", c07SqliteFile)
	}
	maxOpen := -1
	ast.Inspect(setup.Body, func(n ast.Node) bool {
		if call, ok := n.(*ast.CallExpr); ok && x.Src(call.Fun) == "db.SetMaxOpenConns" && len(call.Args) == 1 {
			if bl, ok := call.Args[0].(*ast.BasicLit); ok && bl.Kind == token.INT {
				v, _ := strconv.Atoi(bl.Value)
				if maxOpen != -1 && maxOpen != v {
					maxOpen = -2
				} else if maxOpen != -2 {
					maxOpen = v
				}
				x.Note("sqlite.SetMaxOpenConns", call)
			} else {
				maxOpen = -2
			}
		}
		return true
	})
	if maxOpen < 0 {
		return fmt.Errorf("%s: setupWriteableDatabase does not call db.SetMaxOpenConns(<integer literal>) exactly consistently", c07SqliteFile)
	}
	open := FindFunc(sf, "", "OpenDatabase")
	if open == nil {
		return fmt.Errorf("%s: OpenDatabase not found", c07SqliteFile)
	}
	txlock := ""
	setupOnWritable := false
	ast.Inspect(open.Body, func(n ast.Node) bool {
		switch v := n.(type) {
		case *ast.AssignStmt:
			if len(v.Lhs) >= 1 && len(v.Rhs) == 1 && x.Src(v.Lhs[0]) == "writeableDb" {
				if call, ok := v.Rhs[0].(*ast.CallExpr); ok && len(call.Args) >= 2 {
					dsn := x.Src(call.Args[1])
					if m := c07TxLockRe.FindStringSubmatch(dsn); m != nil {
						txlock = m[1]
						x.Note("sqlite.writable-dsn", call)
					} else {
						txlock = "deferred" // go-sqlite3's default when the DSN names none
					}
				}
			}
		case *ast.CallExpr:
			if x.Src(v.Fun) == "setupWriteableDatabase" && len(v.Args) == 1 && x.Src(v.Args[0]) == "writeableDb" {
				setupOnWritable = true
			}
		}
		return true
	})
	if txlock == "" || !setupOnWritable {
		return fmt.Errorf("%s: OpenDatabase: writable pool DSN / setupWriteableDatabase(writeableDb) not recognised", c07SqliteFile)
	}
	begin := FindFunc(sf, "sqliteDatabase", "BeginTx")
	if begin == nil {
		return fmt.Errorf("%s: sqliteDatabase.BeginTx not found", c07SqliteFile)
	}
	var roIf *ast.IfStmt
	ast.Inspect(begin.Body, func(n ast.Node) bool {
		if is, ok := n.(*ast.IfStmt); ok && x.Src(is.Cond) == "readOnly" {
			roIf = is
		}
		return true
	})
	writeOnWritable, wCalls, wInRo := false, 0, 0
	roDeclOK := false
	ast.Inspect(begin.Body, func(n ast.Node) bool {
		switch v := n.(type) {
		case *ast.AssignStmt:
			if len(v.Lhs) == 1 && x.Src(v.Lhs[0]) == "readOnly" && strings.Join(strings.Fields(x.Src(v.Rhs[0])), "") == "opts!=nil&&opts.ReadOnly" {
				roDeclOK = true
			}
		case *ast.CallExpr:
			if x.Src(v.Fun) == "sdb.writeableDb.BeginTx" {
				wCalls++
				if roIf != nil && v.Pos() >= roIf.Body.Pos() && v.End() <= roIf.Body.End() {
					wInRo++
				}
				x.Note("sqlite.BeginTx-writable", v)
			}
		}
		return true
	})
	if roIf != nil && roDeclOK && wCalls == 1 && wInRo == 0 {
		// the read-only branch must return before the writable BeginTx
		last := roIf.Body.List[len(roIf.Body.List)-1]
		if _, ok := last.(*ast.ReturnStmt); ok {
			writeOnWritable = true
		}
	}
	if !writeOnWritable {
		return fmt.Errorf("%s: BeginTx: cannot see that non-read-only transactions (and only those) begin on writeableDb", c07SqliteFile)
	}
	fmt.Fprintf(w, "\n/-- `db.SetMaxOpenConns(n)` of the writable SQLite pool. -/\ndef writablePoolMaxOpenConns : Nat := %d\n", maxOpen)
	fmt.Fprintf(w, "/-- `_txlock` of the writable pool's DSN (BEGIN IMMEDIATE takes the write lock at BEGIN). -/\ndef writableTxLock : String := %s\n", LeanStr(txlock))
	fmt.Fprintf(w, "/-- Non-read-only transactions begin on the writable pool, read-only ones do not. -/\ndef writeTxOnWritablePool : Bool := %v\n", writeOnWritable)

	// ---- object repository statements
	rf, err := x.ParseFile(c07ObjectRepo)
	if err != nil {
		return err
	}
	consts := map[string]string{}
	for _, d := range rf.Decls {
		gd, ok := d.(*ast.GenDecl)
		if !ok || gd.Tok != token.CONST {
			continue
		}
		for _, sp := range gd.Specs {
			vs := sp.(*ast.ValueSpec)
			for i, n := range vs.Names {
				if i < len(vs.Values) {
					if bl, ok := vs.Values[i].(*ast.BasicLit); ok && bl.Kind == token.STRING {
						s, err := strconv.Unquote(bl.Value)
						if err != nil {
							return err
						}
						consts[n.Name] = strings.Join(strings.Fields(s), " ")
						if strings.Contains(n.Name, "OptimisticLockVersion") || n.Name == "updateObjectByIdStmt" {
							x.Note("objectrepo."+n.Name, n)
						}
					}
				}
			}
		}
	}
	casUpd, ok1 := consts["updateObjectByIdAndOptimisticLockVersionStmt"]
	plainUpd, ok2 := consts["updateObjectByIdStmt"]
	casDel, ok3 := consts["deleteObjectByIdAndOptimisticLockVersionStmt"]
	if !ok1 || !ok2 || !ok3 {
		return fmt.Errorf("%s: compare-and-swap statements not found", c07ObjectRepo)
	}
	guardRe := regexp.MustCompile(`WHERE id = \$(\d+) AND optimistic_lock_version = \$(\d+)$`)
	bump := "optimistic_lock_version = optimistic_lock_version + 1"
	casUpdGuarded := strings.HasPrefix(casUpd, "UPDATE objects SET ") && guardRe.MatchString(casUpd)
	casUpdBumps := strings.Contains(casUpd, bump)
	plainBumps := strings.HasPrefix(plainUpd, "UPDATE objects SET ") && strings.Contains(plainUpd, bump) && regexp.MustCompile(`WHERE id = \$\d+$`).MatchString(plainUpd)
	casDelGuarded := casDel == "DELETE FROM objects WHERE id = $1 AND optimistic_lock_version = $2"
	// the Go wrapper must report "updated" from RowsAffected
	upd := FindFunc(rf, "sqliteRepository", "UpdateObjectByIdAndOptimisticLockVersion")
	if upd == nil {
		return fmt.Errorf("%s: UpdateObjectByIdAndOptimisticLockVersion not found", c07ObjectRepo)
	}
	usrc := strings.Join(strings.Fields(x.Src(upd.Body)), " ")
	casReportsRows := strings.Contains(usrc, "updateObjectByIdAndOptimisticLockVersionStmt") && strings.Contains(usrc, "updated := rowsAffected > 0") &&
		strings.Contains(usrc, "return &updated, nil")
	fmt.Fprintf(w, "\n/-- `UPDATE objects SET … WHERE id = $i AND optimistic_lock_version = $j` -/\ndef casUpdateGuarded : Bool := %v\n", casUpdGuarded)
	fmt.Fprintf(w, "def casUpdateBumpsVersion : Bool := %v\n", casUpdBumps)
	fmt.Fprintf(w, "/-- the wrapper answers `updated = rowsAffected > 0` -/\ndef casUpdateReportsRowsAffected : Bool := %v\n", casReportsRows)
	fmt.Fprintf(w, "/-- the unconditional `UPDATE objects SET … WHERE id = $i` bumps the version too -/\ndef plainUpdateBumpsVersion : Bool := %v\n", plainBumps)
	fmt.Fprintf(w, "/-- `DELETE FROM objects WHERE id = $1 AND optimistic_lock_version = $2` -/\ndef casDeleteGuarded : Bool := %v\n", casDelGuarded)

	// ---- migrations: unique index on the latest completed row
	ents, err := os.ReadDir(filepath.Join(x.Repo, c07Migrations))
	if err != nil {
		return err
	}
	type mig struct {
		n    int
		name string
	}
	var migs []mig
	for _, e := range ents {
		if strings.HasSuffix(e.Name(), ".up.sql") {
			n, err := strconv.Atoi(strings.SplitN(e.Name(), "_", 2)[0])
			if err != nil {
				return fmt.Errorf("migration name %q", e.Name())
			}
			migs = append(migs, mig{n, e.Name()})
		}
	}
	sort.Slice(migs, func(i, j int) bool { return migs[i].n < migs[j].n })
	createRe := regexp.MustCompile(`(?is)CREATE\s+UNIQUE\s+INDEX\s+(\w+)\s+ON\s+objects\s*\(([^)]*)\)\s*(?:WHERE\s+([^;]*))?;`)
	dropRe := regexp.MustCompile(`(?is)DROP\s+INDEX\s+(?:IF\s+EXISTS\s+)?(\w+)`)
	tableRe := regexp.MustCompile(`(?is)(DROP\s+TABLE\s+objects|ALTER\s+TABLE\s+\w+\s+RENAME\s+TO\s+objects)`)
	type uidx struct{ cols, where, src string }
	live := map[string]uidx{}
	for _, m := range migs {
		b, err := os.ReadFile(filepath.Join(x.Repo, c07Migrations, m.name))
		if err != nil {
			return err
		}
		text := string(b)
		// statements in file order
		type ev struct {
			pos  int
			kind string
			m    []string
		}
		var evs []ev
		for _, loc := range createRe.FindAllStringSubmatchIndex(text, -1) {
			evs = append(evs, ev{loc[0], "create", createRe.FindStringSubmatch(text[loc[0]:loc[1]])})
		}
		for _, loc := range dropRe.FindAllStringSubmatchIndex(text, -1) {
			evs = append(evs, ev{loc[0], "drop", dropRe.FindStringSubmatch(text[loc[0]:loc[1]])})
		}
		for _, loc := range tableRe.FindAllStringIndex(text, -1) {
			evs = append(evs, ev{loc[0], "table", nil})
		}
		sort.Slice(evs, func(i, j int) bool { return evs[i].pos < evs[j].pos })
		for _, e := range evs {
			switch e.kind {
			case "create":
				cols := strings.Join(strings.Fields(strings.ReplaceAll(e.m[2], ",", " ")), ",")
				live[e.m[1]] = uidx{cols, strings.Join(strings.Fields(e.m[3]), " "), m.name}
			case "drop":
				delete(live, e.m[1])
			case "table":
				// dropping/recreating the table drops its indexes
				if strings.HasPrefix(strings.ToUpper(strings.TrimSpace(text[e.pos:])), "DROP") {
					live = map[string]uidx{}
				}
			}
		}
	}
	latest, ok := live["objects_completed_latest_unique"]
	if !ok {
		fmt.Fprintln(w, "\n/-- no unique index on the latest completed row of a key is live after all migrations -/\ndef latestUniqueIndex : Option (String × String) := none")
	} else {
		x.pos = append(x.pos, "migration.objects_completed_latest_unique "+c07Migrations+"/"+latest.src)
		fmt.Fprintf(w, "\n/-- the live `CREATE UNIQUE INDEX objects_completed_latest_unique ON objects (cols) WHERE cond` -/\ndef latestUniqueIndex : Option (String × String) := some (%s, %s)\n", LeanStr(latest.cols), LeanStr(latest.where))
	}

	// ---- sql metadata store: where CAS and unique mapping are used
	sfiles, err := c07GoFiles(x, c07SqlMetaDir)
	if err != nil {
		return err
	}
	wantSql := map[string]bool{"PutObject": false, "AppendObject": false, "DeleteObject": false, "CompleteMultipartUpload": false}
	type sqlm struct {
		name                   string
		casU, casD, uniq, casF int
	}
	var sqls []sqlm
	for _, rel := range sfiles {
		f, err := x.ParseFile(rel)
		if err != nil {
			return err
		}
		for _, d := range f.Decls {
			fd, ok := d.(*ast.FuncDecl)
			if !ok || fd.Body == nil || c07RecvName(fd) != c07SqlMetaRecv {
				continue
			}
			if _, ok := wantSql[fd.Name.Name]; !ok {
				continue
			}
			wantSql[fd.Name.Name] = true
			s := sqlm{name: fd.Name.Name}
			ast.Inspect(fd.Body, func(n ast.Node) bool {
				switch v := n.(type) {
				case *ast.CallExpr:
					fn := x.Src(v.Fun)
					switch {
					case strings.HasSuffix(fn, ".UpdateObjectByIdAndOptimisticLockVersion"):
						s.casU++
					case strings.HasSuffix(fn, ".DeleteObjectByIdAndOptimisticLockVersion"):
						s.casD++
					case fn == "isUniqueConstraintViolation":
						s.uniq++
					}
				case *ast.SelectorExpr:
					if v.Sel.Name == "ErrCASFailure" {
						s.casF++
					}
				}
				return true
			})
			x.Note("sqlmeta."+s.name, fd)
			sqls = append(sqls, s)
		}
	}
	for n, seen := range wantSql {
		if !seen {
			return fmt.Errorf("%s.%s not found", c07SqlMetaRecv, n)
		}
	}
	sort.Slice(sqls, func(i, j int) bool { return sqls[i].name < sqls[j].name })
	fmt.Fprintln(w, "\ndef sqlMethods : List SqlMethod := [")
	casFailInAppend := false
	for i, s := range sqls {
		sep := ","
		if i == len(sqls)-1 {
			sep = ""
		}
		fmt.Fprintf(w, "  ⟨%s, %d, %d, %d⟩%s\n", LeanStr(s.name), s.casU, s.casD, s.uniq, sep)
		if s.name == "AppendObject" && s.casF > 0 {
			casFailInAppend = true
		}
	}
	fmt.Fprintln(w, "]")
	// storage-layer AppendObject: ErrCASFailure → ErrInvalidWriteOffset
	mapped := false
	for _, m := range methods {
		if m.name == "AppendObject" {
			src := strings.Join(strings.Fields(x.Src(m.node)), " ")
			mapped = strings.Contains(src, "if err == storage.ErrCASFailure { return storage.ErrInvalidWriteOffset }")
		}
	}
	fmt.Fprintf(w, "\n/-- a lost version race of AppendObject surfaces as ErrCASFailure (sql store) and is answered\nInvalidWriteOffset (storage layer) -/\ndef appendCasFailureIsInvalidWriteOffset : Bool := %v\n", casFailInAppend && mapped)
	if err := c07ExtractOutboxDecisions(x); err != nil {
		return err
	}
	fmt.Fprintln(w, "\nend Pithos.Gen.TxFacts")
	return nil
}

// c07ExtractOutboxDecisions: how the storage outbox decides between "queue the write" and "drain and
// write through" for PutObject, DeleteObject and the bulk DeleteObjects, and what the synchronous
// branch does. A write must be synchronous as soon as it carries ANY condition.
func c07ExtractOutboxDecisions(x *ExtractCtx) error {
	const file = "internal/storage/outbox/outbox.go"
	f, err := x.ParseFile(file)
	if err != nil {
		return err
	}
	w := x.Lean
	fmt.Fprintln(w, `
/-- The queue-or-write-through decision of one storage-outbox method. -/
structure OutboxDecision where
  method : String
  syncIfConditional : Bool   -- the "must be synchronous" flag starts as / is raised to true whenever the request (ANY entry of it) is conditional
  monotone : Bool            -- every other assignment to the flag happens only while it is false
  drains : Bool              -- the synchronous branch first waits for the pending entries of the key (bulk: of the bucket)
  writesThrough : Bool       -- … and then hands the ORIGINAL options / entries to the inner storage
  deriving DecidableEq, Repr
`)
	type spec struct{ method, flag, init, drain, inner string }
	specs := []spec{
		{"PutObject", "putMustBeSynchronous", "opts != nil && (opts.IfNoneMatchStar || opts.IfMatchETag != nil)",
			"os.waitForAllOutboxEntriesOfBucketAndKeyIncludingGlobal(ctx, bucketName, key)", "os.innerStorage.PutObject(ctx, bucketName, key, contentType, reader, checksumInput, opts)"},
		{"DeleteObject", "deleteMustBeSynchronous", "opts != nil && opts.IfMatchETag != nil",
			"os.waitForAllOutboxEntriesOfBucketAndKeyIncludingGlobal(ctx, bucketName, key)", "os.innerStorage.DeleteObject(ctx, bucketName, key, opts)"},
		{"DeleteObjects", "deleteMustBeSynchronous", "false",
			"os.waitForAllOutboxEntriesOfBucket(ctx, bucketName)", "os.innerStorage.DeleteObjects(ctx, bucketName, entries)"},
	}
	norm := func(n ast.Node) string { return strings.Join(strings.Fields(x.Src(n)), " ") }
	var lines []string
	for _, sp := range specs {
		fd := FindFunc(f, "outboxStorage", sp.method)
		if fd == nil {
			return fmt.Errorf("%s: outboxStorage.%s not found", file, sp.method)
		}
		x.Note("outbox."+sp.method, fd)
		initOK, raised, monotone, drains, through := false, sp.method != "DeleteObjects", true, false, false
		var walk func(stmts []ast.Stmt, underNotFlag bool, inLoop bool)
		walk = func(stmts []ast.Stmt, underNotFlag bool, inLoop bool) {
			for _, st := range stmts {
				switch v := st.(type) {
				case *ast.AssignStmt:
					if len(v.Lhs) == 1 && norm(v.Lhs[0]) == sp.flag {
						rhs := norm(v.Rhs[0])
						switch {
						case v.Tok == token.DEFINE:
							initOK = rhs == sp.init
						case underNotFlag:
							// only reached while the flag is false: cannot lower it
						default:
							monotone = false
						}
					}
				case *ast.RangeStmt:
					if norm(v.X) == "entries" && sp.method == "DeleteObjects" {
						// the loop must be: if entry.IfMatchETag != nil { flag = true [; break] }
						ok := len(v.Body.List) == 1
						if ok {
							is, isIf := v.Body.List[0].(*ast.IfStmt)
							ok = isIf && is.Else == nil && norm(is.Cond) == norm(v.Value)+".IfMatchETag != nil" && len(is.Body.List) >= 1
							if ok {
								as, isAs := is.Body.List[0].(*ast.AssignStmt)
								ok = isAs && as.Tok == token.ASSIGN && norm(as.Lhs[0]) == sp.flag && norm(as.Rhs[0]) == "true"
								for _, rest := range is.Body.List[1:] {
									if b, isBr := rest.(*ast.BranchStmt); !isBr || b.Tok != token.BREAK {
										ok = false
									}
								}
							}
						}
						if ok {
							raised = true
						} else {
							// any other shape that touches the flag inside the loop is not recognised
							ast.Inspect(v.Body, func(n ast.Node) bool {
								if as, isAs := n.(*ast.AssignStmt); isAs && len(as.Lhs) == 1 && norm(as.Lhs[0]) == sp.flag {
									monotone = false
								}
								return true
							})
						}
					} else {
						walk(v.Body.List, underNotFlag, true)
					}
				case *ast.IfStmt:
					cond := norm(v.Cond)
					if cond == sp.flag {
						// the synchronous branch
						if len(v.Body.List) >= 2 {
							first := norm(v.Body.List[0])
							last := norm(v.Body.List[len(v.Body.List)-1])
							drains = strings.Contains(first, sp.drain)
							through = last == "return "+sp.inner
						}
						continue
					}
					walk(v.Body.List, underNotFlag || cond == "!"+sp.flag, inLoop)
					if v.Else != nil {
						walk([]ast.Stmt{v.Else}, underNotFlag, inLoop)
					}
				case *ast.BlockStmt:
					walk(v.List, underNotFlag, inLoop)
				}
			}
		}
		walk(fd.Body.List, false, false)
		lines = append(lines, fmt.Sprintf("  ⟨%s, %v, %v, %v, %v⟩", LeanStr(sp.method), initOK && raised, monotone, drains, through))
	}
	fmt.Fprintln(w, "def outboxDecisions : List OutboxDecision := [")
	fmt.Fprintln(w, strings.Join(lines, ",\n"))
	fmt.Fprintln(w, "]")
	return nil
}
