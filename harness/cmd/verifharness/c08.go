//go:build verif

package main

import (
	"bytes"
	"context"
	"database/sql"
	"fmt"
	"io"
	"path/filepath"
	"sort"
	"strings"
	"sync"
	"sync/atomic"
	"time"

	"github.com/jdillenkofer/pithos/internal/storage"
	"github.com/jdillenkofer/pithos/internal/storage/database"
	"github.com/jdillenkofer/pithos/internal/storage/metadatapart/partstore"
	"github.com/jdillenkofer/pithos/internal/verifx"
)

// C08 — no referenced part content is ever deleted.
//
// Trace of one case (see lean/Pithos/Model/PartsTrace.lean):
//   cfg kind=seq|conc|c09 stack=… stores=n txfree=bits kinds=… gc=rand|every|none grace=tiny|large
//   op …/res …            an S3-level operation executed on the real storage (s3hist.go protocol)
//   x <micro…|->          the part-level transaction script derived from op kind + row diff
//   orphan <st> <pid>     the harness put a never-referenced part into store st
//   anom …                the harness damaged the bookkeeping through the repositories (C09 only)
//   gc <old|young> fail=<pids|->   one collector pass ran (gc.RunOnce)
//   st rows=… reg=… idx=… s0=… [s1=…]   tables + store listings after the step
//   rd <b> <k> <vid> <etag> <size> <ok|err> <digest> <len>   read-back of every listed version
//   wrote <etag> <digest> <len>   (concurrent cases) content the harness wrote under this ETag
//   snap                  (concurrent cases) the following st line is a mid-run snapshot

func init() { register("c08", runC08) }

const c08Grace = time.Millisecond

type c08Seq struct {
	ctx    context.Context
	k      *c08Stack
	c      *s3hCase
	out    *verifx.Out
	ords   *c08Ords
	before *c08Dump
	gcMode string
	r      *verifx.Rng
	judge  bool // print rd lines
	// afterExec, when set, runs right after the operation returned and before anything is read back
	// (used to disarm injected faults)
	afterExec func()
	// search: when a dump shows a referenced part whose ref_count is below its row count, the
	// history is continued (once) towards the consequence: share the part once more, delete owners
	search    bool
	searching bool
	extras    bool // print `extra` lines (files outside GetPartIds) after every pass
}

func newC08Seq(ctx context.Context, out *verifx.Out, k *c08Stack, r *verifx.Rng, gcMode string) *c08Seq {
	q := &c08Seq{ctx: ctx, k: k, out: out, ords: newC08Ords(), gcMode: gcMode, r: r, judge: true}
	q.c = &s3hCase{ctx: ctx, st: k.st, out: out, vids: map[string]int{}, bnams: []string{"b0", "b1"},
		lastEtag: map[string]string{}, lastSize: map[string]int64{}, made: map[string]bool{}}
	q.before = verifx.Must(k.dump(ctx, true))
	return q
}

func (q *c08Seq) emitState() {
	d := verifx.Must(q.k.dump(q.ctx, true))
	q.ords.learn(d)
	q.before = d
	q.out.Line("%s", q.k.stLine(q.ords, d))
	if q.judge {
		q.readBack()
	}
}

func (q *c08Seq) readBack() {
	rs, err := c08ReadAllVersions(q.ctx, q.k.st)
	if err != nil {
		q.out.Line("rderr %s", verifx.HexS(err.Error()))
		return
	}
	for _, r := range rs {
		vid := r.vid
		q.c.learnVids()
		okS, dg := "err", "-"
		if r.ok {
			okS, dg = "ok", r.digest
		}
		et := r.etag
		if et == "" {
			et = "~"
		}
		q.out.Line("rd %s %s %s %s %d %s %s %d", strings.TrimPrefix(r.bucket, "bkt-"), verifx.HexS(r.key), q.c.vidOut(&vid), et, r.size, okS, dg, r.n)
	}
}

// script derives the part-level micro-op script of the op just executed from its kind and the
// difference between the part rows before and after it.
func (q *c08Seq) script(kind string, b, a *c08Dump, isNew map[string]bool) []string {
	bIDs := map[string]c08Row{}
	for _, r := range b.rows {
		bIDs[r.id] = r
	}
	aIDs := map[string]bool{}
	var added []c08Row
	for _, r := range a.rows {
		aIDs[r.id] = true
		if _, ok := bIDs[r.id]; !ok {
			added = append(added, r)
		}
	}
	var removed []c08Row
	for _, r := range b.rows {
		if !aIDs[r.id] {
			removed = append(removed, r)
		}
	}
	o := q.ords
	sort.Slice(added, func(i, j int) bool {
		if o.owner[added[i].owner] != o.owner[added[j].owner] {
			return o.owner[added[i].owner] < o.owner[added[j].owner]
		}
		return added[i].seq < added[j].seq
	})
	bIdx := map[string]string{}
	for _, e := range b.idx {
		bIdx[e[0]+"|"+e[1]+"|"+e[2]] = e[3]
	}
	var s []string
	for i, r := range added {
		st := q.k.storeOrd(r.store)
		p := o.pid[r.pid]
		ck := o.rowCk(r)
		fresh := isNew[r.pid]
		ded := func() string {
			if ck == "~" {
				if fresh {
					return fmt.Sprintf("raw:%d:%d", st, p)
				}
				return fmt.Sprintf("acq:%d:%d", p, st)
			}
			f := p
			if !fresh {
				f = o.burn() // the implementation shared an existing part; the fresh id it drew is unobservable
			}
			return fmt.Sprintf("ded:%d:%s:%d", st, ck, f)
		}
		switch kind {
		case "put", "upp":
			s = append(s, ded())
		case "app":
			if i == len(added)-1 {
				s = append(s, ded())
			} else {
				s = append(s, fmt.Sprintf("acq:%d:%d", p, st))
			}
		case "cp":
			if fresh {
				s = append(s, ded())
			} else {
				s = append(s, fmt.Sprintf("acq:%d:%d", p, st))
			}
		case "uppc":
			if fresh {
				s = append(s, ded())
			} else if r.sha.Valid && bIdx[r.store+"|"+r.sha.String+"|"+fmt.Sprint(r.size)] == r.pid {
				s = append(s, ded())
			} else {
				s = append(s, fmt.Sprintf("acq:%d:%d", p, st))
			}
		case "trans":
			if fresh {
				s = append(s, fmt.Sprintf("raw:%d:%d", st, p))
			} else {
				s = append(s, fmt.Sprintf("acq:%d:%d", p, st))
			}
		default:
			s = append(s, fmt.Sprintf("unexpected-added-row:%s", kind))
		}
	}
	if kind == "upp" || kind == "uppc" {
		for _, r := range added {
			s = append(s, fmt.Sprintf("rm:%d:%d", o.owner[r.owner], r.seq))
		}
		if len(added) == 0 && len(removed) > 0 {
			s = append(s, "unexpected-removed-row:"+kind)
		}
	} else {
		seen := map[int]bool{}
		var owners []int
		for _, r := range removed {
			w := o.owner[r.owner]
			if !seen[w] {
				seen[w] = true
				owners = append(owners, w)
			}
		}
		sort.Ints(owners)
		for _, w := range owners {
			s = append(s, fmt.Sprintf("rm:%d:~", w))
		}
	}
	for _, r := range added {
		s = append(s, fmt.Sprintf("save:%d:%d:%s", o.owner[r.owner], r.seq, o.rowCk(r)))
	}
	return s
}

func (q *c08Seq) newPids(a *c08Dump) map[string]bool {
	isNew := map[string]bool{}
	chk := func(p string) {
		if _, ok := q.ords.pid[p]; !ok {
			isNew[p] = true
		}
	}
	for _, r := range a.rows {
		chk(r.pid)
	}
	return isNew
}

// op executes one S3-level op line, then prints script, state and read-back.
func (q *c08Seq) op(line string) {
	t := strings.Fields(line)
	kind := t[1]
	b := q.before
	func() {
		defer func() {
			if r := recover(); r != nil {
				q.out.Line("res panic %s", verifx.HexS(fmt.Sprint(r)))
			}
		}()
		if kind == "uppc" {
			q.execUppc(line, t)
		} else {
			q.c.exec(line)
		}
	}()
	if q.afterExec != nil {
		q.afterExec()
		q.afterExec = nil
	}
	a := verifx.Must(q.k.dump(q.ctx, true))
	isNew := q.newPids(a)
	q.ords.learn(a)
	s := q.script(kind, b, a, isNew)
	if len(s) == 0 {
		q.out.Line("x -")
	} else {
		q.out.Line("x %s", strings.Join(s, " "))
	}
	// bytes that appeared in a store without any row referencing them (the driver accepts this
	// after a FAILED operation only: e.g. the filesystem store's rollback hooks run in registration
	// order, so a part written, deduplicated away and then rolled back is restored by the
	// DeletePart hook after the PutPart hook removed it)
	refd := map[string]bool{}
	for _, r := range a.rows {
		refd[r.pid] = true
	}
	for i := range a.stores {
		old := map[string]bool{}
		if b.stores != nil && i < len(b.stores) {
			for _, p := range b.stores[i] {
				old[p] = true
			}
		}
		for _, p := range a.stores[i] {
			if !old[p] && !refd[p] {
				q.out.Line("orphan %d %d auto", i, q.ords.pid[p])
			}
		}
	}
	q.before = a
	q.out.Line("%s", q.k.stLine(q.ords, a))
	if q.judge {
		q.readBack()
	}
	if q.search && !q.searching {
		q.continueUndercount(a)
	}
}

// continueUndercount is the directed search of DESIGN §4 for this property: ref_count < rows of a
// live part is the precondition of losing referenced content; the history is continued with
// ordinary operations (one more sharer through the dedup index, then the owners deleted one by one)
// so that the judge sees the consequence — or does not, if the code is right after all.
func (q *c08Seq) continueUndercount(d *c08Dump) {
	cnt := map[string]int{}
	for _, r := range d.rows {
		cnt[r.pid]++
	}
	reg := map[string]int{}
	for _, e := range d.reg {
		reg[e.PartId.String()] = int(e.RefCount)
	}
	var victim string
	for _, r := range d.rows {
		if c, ok := reg[r.pid]; ok && c < cnt[r.pid] && (victim == "" || q.ords.pid[r.pid] < q.ords.pid[victim]) {
			victim = r.pid
		}
	}
	if victim == "" {
		return
	}
	q.searching = true
	defer func() { q.searching = false; q.search = false }()
	q.out.Line("search undercount part%d", q.ords.pid[victim])
	var owners []string
	seen := map[string]bool{}
	var sample c08Row
	for _, r := range d.rows {
		if r.pid == victim {
			sample = r
			if !seen[r.owner] {
				seen[r.owner] = true
				owners = append(owners, r.owner)
			}
		}
	}
	sort.Slice(owners, func(i, j int) bool { return q.ords.owner[owners[i]] < q.ords.owner[owners[j]] })
	type own struct{ bucket, key, vid, status, upload string }
	var os_ []own
	_ = database.WithTx(q.ctx, q.k.db, &sql.TxOptions{ReadOnly: true}, func(ctx context.Context, tx database.Tx) error {
		for _, id := range owners {
			var o own
			var vid, up sql.NullString
			if err := tx.SqlTx().QueryRowContext(ctx, "SELECT bucket_name, key, version_id, upload_status, upload_id FROM objects WHERE id = $1", id).
				Scan(&o.bucket, &o.key, &vid, &o.status, &up); err != nil {
				continue
			}
			o.vid, o.upload = vid.String, up.String
			os_ = append(os_, o)
		}
		return nil
	})
	if len(os_) == 0 {
		return
	}
	b0 := strings.TrimPrefix(os_[0].bucket, "bkt-")
	// one more sharer: the same bytes under a fresh key (shares through the dedup index, if it points here)
	si := q.k.storeOrd(sample.store)
	if si < len(q.k.stores) {
		var body []byte
		st := q.k.stores[si]
		_ = database.WithTx(q.ctx, q.k.db, &sql.TxOptions{ReadOnly: true}, func(ctx context.Context, tx database.Tx) error {
			rc, err := st.ps.PartStore.GetPart(ctx, tx, *partstore.MustNewPartIdFromString(victim))
			if err != nil {
				return nil
			}
			defer rc.Close()
			body, _ = io.ReadAll(rc)
			return nil
		})
		if body != nil {
			cls := "~"
			if st.name == c08ColdStore {
				cls = verifx.HexS("GLACIER")
			}
			q.op(fmt.Sprintf("op put %s zz-search %s ct=~ md=~ tags=~ cls=%s inm=0 im=~", b0, verifx.Hex(body), cls))
		}
	}
	for i, o := range os_ {
		if i >= 6 {
			break
		}
		b := strings.TrimPrefix(o.bucket, "bkt-")
		if o.status != "COMPLETED" {
			for n, u := range q.c.uids {
				if u.String() == o.upload {
					q.op(fmt.Sprintf("op abort %s %s %d", b, o.key, n))
				}
			}
			continue
		}
		q.c.learnVids()
		vid := o.vid
		tok := q.c.vidOut(&vid)
		if o.vid == "" {
			tok = "null"
		}
		q.op(fmt.Sprintf("op del %s %s vid=%s im=~", b, o.key, tok))
	}
}

// op uppc <srcB> <srcK> <dstB> <dstK> <upload> <partNumber> svid=<tok>
func (q *c08Seq) execUppc(line string, t []string) {
	c := q.c
	c.out.Line("%s", line)
	a := kv(t)
	var o *storage.UploadPartCopyOptions
	if vid := parseVidArg(c, a["svid"]); vid != nil {
		o = &storage.UploadPartCopyOptions{SourceVersionID: vid}
	}
	B := func(i int) storage.BucketName { return storage.MustNewBucketName("bkt-" + t[i]) }
	K := func(i int) storage.ObjectKey { return storage.MustNewObjectKey(t[i]) }
	res, err := c.st.UploadPartCopy(c.ctx, B(2), K(3), B(4), K(5), c.uid(t[6]), atoi32(t[7]), o)
	if err != nil {
		c.resErr(err)
		return
	}
	c.out.Line("res ok etag=%s", res.ETag)
}

func (q *c08Seq) hasOrphans() bool {
	ref := map[string]bool{}
	for _, r := range q.before.rows {
		ref[r.pid] = true
	}
	for _, l := range q.before.stores {
		for _, p := range l {
			if !ref[p] {
				return true
			}
		}
	}
	return len(q.before.reg) != len(ref)
}

// gc runs one collector pass; `old` waits until every part id is older than the grace window.
func (q *c08Seq) gc(old bool) {
	if old && q.hasOrphans() {
		time.Sleep(3 * c08Grace)
	}
	for _, s := range q.k.stores {
		s.ps.mu.Lock()
		s.ps.failedNoTx = nil
		s.ps.mu.Unlock()
	}
	err := q.k.gcOnce(q.ctx)
	var failed []string
	for _, s := range q.k.stores {
		s.ps.mu.Lock()
		for _, id := range s.ps.failedNoTx {
			if n, ok := q.ords.pid[id.String()]; ok {
				failed = append(failed, fmt.Sprint(n))
			}
		}
		s.ps.mu.Unlock()
	}
	age := "old"
	if !old {
		age = "young"
	}
	res := "ok"
	if err != nil {
		res = "err"
	}
	q.out.Line("gc %s %s fail=%s", age, res, joinOr(failed))
	q.emitState()
	q.emitExtras()
}

func (q *c08Seq) emitExtras() {
	if !q.extras {
		return
	}
	for i := range q.k.stores {
		ex := q.k.extraFiles(i)
		for _, kind := range []string{"tmp", "txbackup", "other"} {
			if ex[kind] > 0 {
				q.out.Line("extra %d %s %d", i, kind, ex[kind])
			}
		}
	}
}

func (q *c08Seq) failedDeletes() []string {
	var failed []string
	for _, s := range q.k.stores {
		s.ps.mu.Lock()
		for _, id := range s.ps.failedNoTx {
			if n, ok := q.ords.pid[id.String()]; ok {
				failed = append(failed, fmt.Sprint(n))
			}
		}
		s.ps.failedNoTx = nil
		s.ps.mu.Unlock()
	}
	return failed
}

// gcSplit runs one collector pass that is paused after its observation ("obs") or after listing
// the (only) store ("list"); the given op lines commit inside the window.
func (q *c08Seq) gcSplit(mode string, lines []string) {
	if mode == "list" && len(q.k.stores) != 1 {
		mode = "obs"
	}
	if q.hasOrphans() {
		time.Sleep(3 * c08Grace)
	} else {
		time.Sleep(2 * c08Grace)
	}
	q.failedDeletes()
	paused, finish := q.k.gcStart(q.ctx, mode)
	runLines := func() {
		for _, l := range lines {
			if strings.HasPrefix(l, "orphan ") {
				var i int
				fmt.Sscanf(l, "orphan %d", &i)
				if i < len(q.k.stores) {
					q.orphan(i, []byte("orphan-in-window"))
				}
			} else {
				q.op(l)
			}
		}
	}
	if !paused { // the pass had nothing to do at that point: it ran as a whole
		err := finish()
		res := "ok"
		if err != nil {
			res = "err"
		}
		q.out.Line("gc old %s fail=%s", res, joinOr(q.failedDeletes()))
		q.emitState()
		runLines()
		return
	}
	if mode == "obs" {
		q.out.Line("gcpause obs")
	} else {
		q.out.Line("gcpause list 0")
	}
	q.emitState()
	runLines()
	err := finish()
	res := "ok"
	if err != nil {
		res = "err"
	}
	q.out.Line("gcresume %s fail=%s", res, joinOr(q.failedDeletes()))
	q.emitState()
}

// orphan puts a never-referenced part into store i (what a crash between publication and commit,
// or a condemned-but-never-deleted part, leaves behind).
func (q *c08Seq) orphan(i int, body []byte) {
	s := q.k.stores[i]
	id, _ := partstore.NewRandomPartId()
	var err error
	if s.kind == "fs" {
		err = s.ps.PartStore.PutPart(q.ctx, nil, *id, bytes.NewReader(body))
	} else {
		err = database.WithTx(q.ctx, q.k.db, &sql.TxOptions{ReadOnly: false}, func(ctx context.Context, tx database.Tx) error {
			return s.ps.PartStore.PutPart(ctx, tx, *id, bytes.NewReader(body))
		})
	}
	verifx.Check(err)
	d := verifx.Must(q.k.dump(q.ctx, true))
	q.ords.learn(d)
	q.before = d
	q.out.Line("orphan %d %d", i, q.ords.pid[id.String()])
	q.out.Line("%s", q.k.stLine(q.ords, d))
}

func (q *c08Seq) maybeGC() {
	switch q.gcMode {
	case "every":
		q.gc(true)
	case "rand":
		if q.r.Chance(1, 3) {
			q.gc(true)
		}
	}
}

// ---------------------------------------------------------------- generated histories

var c08ReadOnly = map[string]bool{"get": true, "head": true, "ls": true, "lsv": true, "lsb": true, "gtag": true}

type c08Gen struct {
	g *s3hGen
	r *verifx.Rng
}

// next yields the next mutating op line (reads are skipped: every step is followed by a full
// read-back anyway) and sometimes an UploadPartCopy, which s3hGen does not generate.
func (cg *c08Gen) next() string {
	g := cg.g
	if len(g.c.made) == 1 && g.nput == 0 && !g.c.made["b1"] {
		g.c.made["b1"] = true
		return "op mkb b1" // most histories use both buckets
	}
	if len(g.mpus) > 0 && g.nput > 0 && cg.r.Chance(1, 9) {
		i := cg.r.Intn(len(g.mpus))
		for j := len(g.mpus) - 1; j >= 0; j-- {
			if !g.mpus[j].done {
				i = j
				break
			}
		}
		u := &g.mpus[i]
		n := len(u.parts) + 1
		if cg.r.Chance(1, 4) && len(u.parts) > 0 {
			n = 1 + cg.r.Intn(len(u.parts))
		} else {
			u.parts = append(u.parts, n)
		}
		sb, sk := g.bk(), g.key()
		if len(g.c.lastEtag) > 0 && cg.r.Chance(4, 5) { // prefer a source that was written
			ks := make([]string, 0, len(g.c.lastEtag))
			for bk := range g.c.lastEtag {
				ks = append(ks, bk)
			}
			sort.Strings(ks)
			bk := strings.SplitN(ks[cg.r.Intn(len(ks))], "/", 2)
			sb, sk = bk[0], bk[1]
		}
		return fmt.Sprintf("op uppc %s %s %s %s %d %d svid=%s", sb, sk, u.b, u.k, i, n, g.vidArg())
	}
	for {
		l := g.next()
		if !c08ReadOnly[strings.Fields(l)[1]] {
			return l
		}
	}
}

func c08Directed() [][]string {
	h := verifx.HexS
	p := func(b, k, body, cls string) string {
		c := "~"
		if cls != "" {
			c = h(cls)
		}
		return fmt.Sprintf("op put %s %s %s ct=~ md=~ tags=~ cls=%s inm=0 im=~", b, k, h(body), c)
	}
	cp := func(sb, sk, db, dk, cls string) string {
		c := "~"
		if cls != "" {
			c = h(cls)
		}
		return fmt.Sprintf("op cp %s %s %s %s svid=~ mdir=C tdir=C ct=~ md=~ tags=~ cls=%s", sb, sk, db, dk, c)
	}
	del := func(b, k, vid string) string { return fmt.Sprintf("op del %s %s vid=%s im=~", b, k, vid) }
	app := func(b, k, body string) string { return fmt.Sprintf("op app %s %s %s off=~", b, k, h(body)) }
	return [][]string{
		{ // dedup: identical content under two keys shares one part; deleting one keeps the other
			"op mkb b0", p("b0", "k0", "same", ""), p("b0", "k1", "same", ""), "gc", del("b0", "k0", "~"), "gc", del("b0", "k1", "~"), "gc",
		},
		{ // copy shares the source's parts; delete the source, then the copy; overwrite of a shared part
			"op mkb b0", p("b0", "k0", "copied-content", ""), cp("b0", "k0", "b0", "k1", ""), "gc", del("b0", "k0", "~"), "gc",
			cp("b0", "k1", "b0", "k1", ""), "gc", p("b0", "k1", "other", ""), "gc",
		},
		{ // versions + copy + append in an enabled bucket (new row shares the prefix), version deletes
			"op mkb b0", "op ver b0 E", p("b0", "k0", "v-one", ""), "op app b0 k0 " + h("+tail") + " off=~", "gc",
			del("b0", "k0", "v0"), "gc", "op app b0 k0 " + h("+more") + " off=~", del("b0", "k0", "v1"), "gc", del("b0", "k0", "v2"), "gc",
		},
		{ // multipart: identical parts inside one upload, part replacement, UploadPartCopy sharing, abort
			"op mkb b0", p("b0", "k0", "partbody", ""), "op mpu b0 k1 ct=~ md=~ tags=~ cls=~", "op upp b0 k1 0 1 " + h("partbody"),
			"op upp b0 k1 0 2 " + h("partbody"), "op uppc b0 k0 b0 k1 0 3 svid=~", "gc", "op upp b0 k1 0 2 " + h("replaced"), "gc",
			del("b0", "k0", "~"), "gc", "op cmpl b0 k1 0 parts=~ inm=0 im=~", "gc", "op mpu b0 k0 ct=~ md=~ tags=~ cls=~",
			"op uppc b0 k1 b0 k0 1 1 svid=~", "op abort b0 k0 1", "gc", del("b0", "k1", "~"), "gc",
		},
		{ // storage classes: cross-store copy, transition there and back, transition of a shared part
			"op mkb b0", p("b0", "k0", "classy", ""), cp("b0", "k0", "b0", "k1", "GLACIER"), "gc", "op trans b0 k0 STANDARD_IA vid=~", "gc",
			p("b0", "dir/k2", "classy", "GLACIER"), "op trans b0 k1 STANDARD vid=~", "gc", "op trans b0 k0 GLACIER vid=~", "gc",
			del("b0", "k1", "~"), del("b0", "k0", "~"), "gc", del("b0", "dir/k2", "~"), "gc",
		},
		{ // orphans: swept once older than the grace window, referenced neighbours untouched
			"op mkb b0", p("b0", "k0", "keep", ""), "orphan 0", "gc", "orphan 0", del("b0", "k0", "~"), "gc",
		},
		{ // versioning states x append x delete BY VERSION ID: a suspended-bucket append over a ULID version
			// writes a new null version sharing the prefix; then in-place append; then an enabled-bucket append
			"op mkb b0", "op ver b0 E", p("b0", "k0", "v-one", ""), "op ver b0 S", app("b0", "k0", "+susp"), "gc", del("b0", "k0", "v0"), "gc",
			app("b0", "k0", "+inplace"), "op ver b0 E", app("b0", "k0", "+enabled"), "gc", del("b0", "k0", "null"), "gc", del("b0", "k0", "v1"), "gc",
		},
		{ // the same starting from an unversioned bucket; versions deleted oldest first and newest first
			"op mkb b0", p("b0", "k0", "plain", ""), app("b0", "k0", "+a"), "op ver b0 E", app("b0", "k0", "+b"), app("b0", "k0", "+c"),
			"op ver b0 S", app("b0", "k0", "+d"), "gc", del("b0", "k0", "v1"), del("b0", "k0", "v0"), "gc", del("b0", "k0", "null"), "gc",
			"op ver b0 E", p("b0", "k1", "x", ""), "op ver b0 S", app("b0", "k1", "y"), cp("b0", "k1", "b0", "dir/k2", ""), del("b0", "k1", "v2"), "gc", del("b0", "k1", "null"), "gc",
		},
		{ // a part id repeated inside one object (identical multipart parts), same-store transitions, another sharer, owner deleted
			"op mkb b0", "op mpu b0 k0 ct=~ md=~ tags=~ cls=~", "op upp b0 k0 0 1 " + h("repeated"), "op upp b0 k0 0 2 " + h("repeated"),
			"op cmpl b0 k0 0 parts=~ inm=0 im=~", "op trans b0 k0 DEEP_ARCHIVE vid=~", "gc", "op trans b0 k0 STANDARD vid=~", "gc",
			p("b0", "k1", "repeated", ""), cp("b0", "k0", "b0", "dir/k2", ""), del("b0", "k0", "~"), "gc", del("b0", "dir/k2", "~"), "gc",
		},
		{ // the collector repairs an over-counted registry row while a copy commits between its observation and its repair
			"op mkb b0", p("b0", "k0", "raced", ""), "anom cnt", "gcsplit obs 1", cp("b0", "k0", "b0", "k1", ""), del("b0", "k1", "~"), "gc", "gc",
			"anom cnt", "gcsplit obs 2", cp("b0", "k0", "b0", "k1", ""), p("b0", "dir/k2", "raced", ""), del("b0", "k0", "~"), del("b0", "k1", "~"), "gc", "gc",
		},
		{ // … and between the listing of a store and the condemnation of the listed ids
			"op mkb b0", p("b0", "k0", "listed", ""), "orphan 0", "gcsplit list 2", p("b0", "k1", "listed", ""), del("b0", "k0", "~"), "gc",
			"orphan 0", "gcsplit list 2", del("b0", "k1", "~"), p("b0", "k0", "listed", ""), "gc",
		},
	}
}

func (q *c08Seq) runLines(lines []string) {
	for i := 0; i < len(lines); i++ {
		l := lines[i]
		switch {
		case l == "gc":
			q.gc(true)
		case strings.HasPrefix(l, "gcsplit "): // gcsplit <obs|list> <n>: the next n lines commit inside the window
			var mode string
			var n int
			fmt.Sscanf(l, "gcsplit %s %d", &mode, &n)
			if i+n >= len(lines) {
				n = len(lines) - 1 - i
			}
			q.gcSplit(mode, lines[i+1:i+1+n])
			i += n
		case strings.HasPrefix(l, "anom "):
			q.anomaly(strings.TrimPrefix(l, "anom "))
		case strings.HasPrefix(l, "orphan "):
			var i int
			fmt.Sscanf(l, "orphan %d", &i)
			if i < len(q.k.stores) {
				q.orphan(i, []byte("orphan-bytes"))
			}
		default:
			q.op(l)
		}
	}
}

func runC08(args []string) {
	f := verifx.ParseFlags("c08", args, 36, 450)
	out := verifx.NewOut()
	ctx := context.Background()
	nops := 36
	conc := 18
	if f.Tier == "thorough" {
		nops = 60
		conc = 150
	}
	stacks := []string{"fs", "sql", "named"}
	if f.Tier == "thorough" {
		stacks = append(stacks, "namedsql")
	}
	modes := []string{"mixed", "transition", "append", "versioning"}
	k := 0
	// directed cases on every stack, GC exactly where the history says
	for _, sk := range stacks {
		for _, lines := range c08Directed() {
			if f.Wants(k) {
				seed := verifx.CaseSeed(f.Seed, k)
				stk := newC08Stack(filepath.Join(f.Scratch, fmt.Sprintf("c08-%d", k)), sk, c08Grace, false, 0)
				out.Case(k, seed)
				out.Line("cfg kind=seq %s gc=none grace=tiny", stk.cfgTokens())
				q := newC08Seq(ctx, out, stk, verifx.NewRng(seed), "none")
				q.search = true
				q.runLines(lines)
				out.End()
				stk.close(false)
			}
			k++
		}
	}
	// generated sequential histories
	for c := 0; c < f.Cases; c++ {
		if f.Wants(k) {
			seed := verifx.CaseSeed(f.Seed, k)
			r := verifx.NewRng(seed)
			sk := stacks[c%len(stacks)]
			mode := modes[(c/len(stacks))%len(modes)]
			gcMode := "rand"
			if (c/(len(stacks)*len(modes)))%2 == 1 {
				gcMode = "every"
			}
			stk := newC08Stack(filepath.Join(f.Scratch, fmt.Sprintf("c08-%d", k)), sk, c08Grace, false, 0)
			out.Case(k, seed)
			out.Line("cfg kind=seq %s gc=%s grace=tiny mode=%s", stk.cfgTokens(), gcMode, mode)
			q := newC08Seq(ctx, out, stk, r, gcMode)
			q.search = true
			cg := &c08Gen{g: &s3hGen{r: r, c: q.c, mode: mode}, r: r}
			func() {
				defer func() {
					if rec := recover(); rec != nil {
						out.Line("res panic %s", verifx.HexS(fmt.Sprint(rec)))
					}
				}()
				for i := 0; i < nops; i++ {
					if r.Chance(1, 25) {
						q.orphan(r.Intn(len(stk.stores)), r.Bytes(1+r.Intn(50)))
					}
					if r.Chance(1, 9) { // a pass paused between two of its transactions; 1-2 ops commit in the window
						w := []string{cg.next()}
						if r.Bool() {
							w = append(w, cg.next())
						}
						i += len(w) - 1
						q.gcSplit(verifx.Pick(r, []string{"obs", "list"}), w)
						continue
					}
					q.op(cg.next())
					q.maybeGC()
				}
				q.gc(true)
			}()
			out.End()
			stk.close(false)
		}
		k++
	}
	// concurrent histories
	for c := 0; c < conc; c++ {
		if f.Wants(k) {
			seed := verifx.CaseSeed(f.Seed, k)
			sk := stacks[c%len(stacks)]
			stk := newC08Stack(filepath.Join(f.Scratch, fmt.Sprintf("c08-%d", k)), sk, c08Grace, false, 0)
			out.Case(k, seed)
			out.Line("cfg kind=conc %s gc=loop grace=tiny", stk.cfgTokens())
			c08Concurrent(ctx, out, stk, verifx.NewRng(seed), f.Tier == "thorough")
			out.End()
			stk.close(false)
		}
		k++
	}
	out.Flush()
}

// ---------------------------------------------------------------- concurrent histories (T3)

var c08Bodies = [][]byte{[]byte("identical-content-A"), []byte("identical-content-A"), []byte("content-B"), bytesRepeat('z', 700)}

func c08Concurrent(ctx context.Context, out *verifx.Out, k *c08Stack, r *verifx.Rng, big bool) {
	st := k.st
	bn := []storage.BucketName{storage.MustNewBucketName("bkt-b0"), storage.MustNewBucketName("bkt-b1")}
	for _, b := range bn {
		verifx.Check(st.CreateBucket(ctx, b))
	}
	en := storage.BucketVersioningStatusEnabled
	verifx.Check(st.PutBucketVersioningConfiguration(ctx, bn[1], &storage.BucketVersioningConfiguration{Status: &en}))
	keys := []storage.ObjectKey{storage.MustNewObjectKey("k0"), storage.MustNewObjectKey("k1"), storage.MustNewObjectKey("k2")}
	classes := []string{"", "", "STANDARD_IA", "GLACIER"}
	workers := 4 + r.Intn(4) // + the GC goroutine and the snapshot goroutine
	opsPer := 14
	if big {
		opsPer = 30
	}
	var mu sync.Mutex
	wrote := map[string][2]string{} // etag -> digest, len
	counts := map[string]int{}
	note := func(kind string, err error) {
		mu.Lock()
		if err != nil {
			counts[kind+"_err"]++
		} else {
			counts[kind+"_ok"]++
		}
		mu.Unlock()
	}
	var stop atomic.Bool
	var wg, bg sync.WaitGroup
	var snaps []*c08Dump
	gcRuns, gcErrs := 0, 0
	bg.Add(2)
	go func() { // the collector, in a loop
		defer bg.Done()
		for !stop.Load() {
			if err := k.gcOnce(ctx); err != nil {
				gcErrs++
			}
			gcRuns++
			time.Sleep(200 * time.Microsecond)
		}
	}()
	go func() { // consistent mid-run snapshots of the tables (and of SQL-backed stores)
		defer bg.Done()
		for !stop.Load() && len(snaps) < 6 {
			time.Sleep(3 * time.Millisecond)
			d, err := k.dump(ctx, true)
			if err == nil {
				mu.Lock()
				snaps = append(snaps, d)
				mu.Unlock()
			}
		}
	}()
	for w := 0; w < workers; w++ {
		wr := verifx.NewRng(r.Next())
		role := w % 4
		wg.Add(1)
		go func() {
			defer wg.Done()
			defer func() {
				if rec := recover(); rec != nil {
					mu.Lock()
					counts["panic"]++
					mu.Unlock()
				}
			}()
			for i := 0; i < opsPer; i++ {
				b := bn[wr.Intn(2)]
				key := keys[wr.Intn(len(keys))]
				x := wr.Intn(10)
				switch {
				case role == 0 && x < 7 || x < 3: // writer
					body := c08Bodies[wr.Intn(len(c08Bodies))]
					var o *storage.PutObjectOptions
					if cls := classes[wr.Intn(len(classes))]; cls != "" {
						o = &storage.PutObjectOptions{StorageClass: &cls}
					}
					res, err := st.PutObject(ctx, b, key, nil, bytes.NewReader(body), nil, o)
					if err == nil && res.ETag != nil {
						mu.Lock()
						wrote[*res.ETag] = [2]string{c08Digest(body), fmt.Sprint(len(body))}
						mu.Unlock()
					}
					note("put", err)
				case role == 1 && x < 8 || x == 3: // copier
					db, dk := bn[wr.Intn(2)], keys[wr.Intn(len(keys))]
					o := &storage.CopyObjectOptions{}
					if cls := classes[wr.Intn(len(classes))]; cls != "" {
						o.StorageClass = &cls
					}
					_, err := st.CopyObject(ctx, b, key, db, dk, o)
					note("cp", err)
				case role == 2 && x < 8 || x == 4: // deleter (current version, or the oldest listed version)
					var o *storage.DeleteObjectOptions
					if wr.Chance(1, 2) {
						if res, err := st.ListObjectVersions(ctx, b, storage.ListObjectVersionsOptions{MaxKeys: 1000}); err == nil {
							for _, v := range res.Versions {
								if v.Key == key {
									vid := v.VersionID
									o = &storage.DeleteObjectOptions{VersionID: &vid}
								}
							}
						}
					}
					_, err := st.DeleteObject(ctx, b, key, o)
					note("del", err)
				case x == 5: // append (shares the prefix in the versioned bucket)
					_, err := st.AppendObject(ctx, b, key, bytes.NewReader(c08Bodies[wr.Intn(len(c08Bodies))]), nil, nil)
					note("app", err)
				case x == 6: // transition
					cls := []string{"STANDARD", "STANDARD_IA", "GLACIER"}[wr.Intn(3)]
					note("trans", st.TransitionObjectStorageClass(ctx, b, key, cls, nil))
				default: // multipart with an UploadPartCopy
					up, err := st.CreateMultipartUpload(ctx, b, key, nil, nil, nil)
					if err != nil {
						note("mpu", err)
						continue
					}
					_, err = st.UploadPart(ctx, b, key, up.UploadId, 1, bytes.NewReader(c08Bodies[wr.Intn(len(c08Bodies))]), nil)
					if err == nil {
						_, _ = st.UploadPartCopy(ctx, bn[wr.Intn(2)], keys[wr.Intn(len(keys))], b, key, up.UploadId, 2, nil)
					}
					if err == nil && wr.Chance(2, 3) {
						_, err = st.CompleteMultipartUpload(ctx, b, key, up.UploadId, nil, nil)
					} else {
						err = st.AbortMultipartUpload(ctx, b, key, up.UploadId)
					}
					note("mpu", err)
				}
			}
		}()
	}
	wg.Wait()
	stop.Store(true)
	bg.Wait()
	// canonical output (sorted; nothing depends on the schedule except the observed states)
	etags := make([]string, 0, len(wrote))
	for e := range wrote {
		etags = append(etags, e)
	}
	sort.Strings(etags)
	for _, e := range etags {
		out.Line("wrote %s %s %s", e, wrote[e][0], wrote[e][1])
	}
	names := make([]string, 0, len(counts))
	for n := range counts {
		names = append(names, n)
	}
	sort.Strings(names)
	cs := []string{}
	for _, n := range names {
		cs = append(cs, fmt.Sprintf("%s=%d", n, counts[n]))
	}
	out.Line("conc workers=%d gcruns=%d gcerrs=%d %s", workers, gcRuns, gcErrs, strings.Join(cs, " "))
	ords := newC08Ords()
	for _, d := range snaps {
		ords.learn(d)
		// listings of filesystem stores are not atomic with the database snapshot
		for i, s := range k.stores {
			if s.kind == "fs" && d.stores != nil {
				d.stores[i] = nil
			}
		}
		out.Line("snap")
		out.Line("%s", c08SnapLine(k, ords, d))
	}
	q := &c08Seq{ctx: ctx, k: k, out: out, ords: ords, judge: true}
	q.c = &s3hCase{ctx: ctx, st: k.st, out: out, vids: map[string]int{}, bnams: []string{"b0", "b1"},
		lastEtag: map[string]string{}, lastSize: map[string]int64{}, made: map[string]bool{}}
	out.Line("quiescent")
	q.emitState()
	time.Sleep(3 * c08Grace)
	q.gc(true)
}

// c08SnapLine is stLine with "?" for store listings that were dropped.
func c08SnapLine(k *c08Stack, o *c08Ords, d *c08Dump) string {
	full := *d
	dropped := map[int]bool{}
	if d.stores != nil {
		full.stores = make([][]string, len(d.stores))
		for i := range d.stores {
			if d.stores[i] == nil {
				dropped[i] = true
				full.stores[i] = []string{}
			} else {
				full.stores[i] = d.stores[i]
			}
		}
	}
	line := k.stLine(o, &full)
	for i := range dropped {
		line = strings.Replace(line, fmt.Sprintf(" s%d=~", i), fmt.Sprintf(" s%d=?", i), 1)
	}
	return line
}
