//go:build verif

package main

import (
	"context"
	"database/sql"
	"errors"
	"fmt"
	"hash/fnv"
	"io"
	"sort"
	"strings"
	"time"

	"github.com/jdillenkofer/pithos/internal/storage"
	"github.com/jdillenkofer/pithos/internal/storage/database"
	repositoryfactory "github.com/jdillenkofer/pithos/internal/storage/database/repository"
	"github.com/jdillenkofer/pithos/internal/storage/database/repository/partregistry"
	"github.com/jdillenkofer/pithos/internal/storage/metadatapart"
	"github.com/jdillenkofer/pithos/internal/storage/metadatapart/gc"
	"github.com/jdillenkofer/pithos/internal/storage/metadatapart/metadatastore"
	"github.com/jdillenkofer/pithos/internal/storage/metadatapart/partstore"
	"github.com/jdillenkofer/pithos/internal/verifx"
)

// C14, second half ("… the object's part data lives in the part store mapped to that class while
// every object remains readable whichever configured store its parts are in", over remapped
// configurations and shared/deduplicated parts): the storage-history harness on the stack
// "route" — three named part stores (default: filesystem, "ia": filesystem, "cold": SQL) over one
// database, whose class→store table can be REMAPPED between operations (the storage is rebuilt
// over the same database and stores, like a restart with another configuration) and whose
// garbage collector can be run at any point.  After every mutating operation the routing state
// of the real system is printed: every object version / pending upload with its class and part
// rows (part id, part_store_name), the registry's ref_counts, the dedup index, what each
// configured store physically holds (GetPartIds), and a read-back of every version.
//
// Extra trace lines (ignored by the S3-level drivers, read by lean/Pithos/Util/C14Driver.lean):
//   rcfg stores=-,ia,cold map=<cls>:<store>,…|~         ("-" = the default store)
//   rop remap map=<cls>:<store>,…|~     rres ok | rres err <hex>
//   rop gc                              rres ok | rres err <hex>
//   rop fault step=<j> kind=<open|read|put|putafter|close> close=<0|1> bytes=<n>     rres ok
//        arms ONE part-store fault for the next operation: it strikes the j-th copy step (j-th GetPart
//        call on any named store, 0-based) of that operation: GetPart fails / the returned reader breaks
//        after n bytes / the PutPart that consumes this reader fails before or after writing / only the
//        reader's Close fails (close=1: Close fails in addition). After the operation's "res …" line:
//   rfault fired=<0|1>                  was the armed fault reached
//   rt obj <b> <k> <vid> latest=<0|1> cls=<hex|~> read=<ok|err> dig=<fnv1a64> len=<n> parts=<seq>:<pid>@<store>/<size>,…|~
//   rt up <u> cls=<hex|~> parts=…
//   rt reg <pid>:<ref_count>,…|~
//   rt idx <store>:<pid>,…|~
//   rt store <name> <pid>,…|~
//   rt end

const s3hRouteGrace = time.Millisecond

var s3hRouteClasses = []string{"STANDARD", "STANDARD_IA", "GLACIER", "DEEP_ARCHIVE"}

type s3hRouteStore struct {
	name string // "" = the default store
	ps   partstore.PartStore
}

type s3hRoute struct {
	env     *verifx.StackEnv
	ms      metadatastore.MetadataStore
	stores  []s3hRouteStore
	cmap    map[string]string
	st      storage.Storage
	regRepo partregistry.Repository
	pids    map[string]int
	flt     *s3hFaultCtl
}

var s3hRoutes = map[*verifx.Stack]*s3hRoute{}

func s3hRouteInitialMap() map[string]string {
	return map[string]string{"STANDARD_IA": "ia", "GLACIER": "cold", "DEEP_ARCHIVE": "cold"}
}

// newS3hRouteStack: like "named", but nothing is started (no background collector), the grace
// window is tiny, and the pieces are kept so that the storage can be rebuilt with another map.
func newS3hRouteStack(dir string) *verifx.Stack {
	env := verifx.NewStackEnv(dir)
	rt := &s3hRoute{env: env, pids: map[string]int{}, flt: &s3hFaultCtl{}}
	rt.stores = []s3hRouteStore{
		{"", &s3hFaultStore{PartStore: env.Build(nil, "fs").Top, ctl: rt.flt}},
		{"ia", &s3hFaultStore{PartStore: env.Build(nil, "fs").Top, ctl: rt.flt}},
		{"cold", &s3hFaultStore{PartStore: env.Build(nil, "sql").Top, ctl: rt.flt}},
	}
	rt.ms = verifx.NewMeta(env.DB)
	rt.regRepo = verifx.Must(repositoryfactory.NewPartRegistryRepository(env.DB))
	if err := rt.rebuild(s3hRouteInitialMap()); err != nil {
		verifx.Fatalf("route stack: %v", err)
	}
	stk := &verifx.Stack{Dir: dir, RawDB: env.DB, DB: env.DB, Meta: rt.ms, PartStore: rt.stores[0].ps, Storage: rt.st}
	s3hRoutes[stk] = rt
	return stk
}

func (rt *s3hRoute) rebuild(cmap map[string]string) error {
	extra := map[string]partstore.PartStore{}
	for _, s := range rt.stores[1:] {
		extra[s.name] = s.ps
	}
	st, err := metadatapart.NewStorageWithNamedPartStores(rt.env.DB, rt.ms, rt.stores[0].ps, extra, cmap,
		metadatapart.WithGCGraceWindow(s3hRouteGrace))
	if err != nil {
		return err
	}
	rt.st, rt.cmap = st, cmap
	return nil
}

func s3hRouteStoreTok(name string) string {
	if name == "" {
		return "-"
	}
	return name
}

func s3hRouteMapTok(m map[string]string) string {
	ks := make([]string, 0, len(m))
	for k := range m {
		ks = append(ks, k)
	}
	sort.Strings(ks)
	items := []string{}
	for _, k := range ks {
		items = append(items, k+":"+m[k])
	}
	return joinOr(items)
}

func (rt *s3hRoute) printCfg(c *s3hCase) {
	names := []string{}
	for _, s := range rt.stores {
		names = append(names, s3hRouteStoreTok(s.name))
	}
	c.out.Line("rcfg stores=%s map=%s", strings.Join(names, ","), s3hRouteMapTok(rt.cmap))
}

// rop executes a routing-level line ("rop remap …", "rop gc"); false = not a routing line.
func (rt *s3hRoute) rop(c *s3hCase, line string) bool {
	t := strings.Fields(line)
	if len(t) < 2 || t[0] != "rop" {
		return false
	}
	switch t[1] {
	case "remap":
		m := map[string]string{}
		if a := kv(t)["map"]; a != "~" && a != "" {
			for _, it := range strings.Split(a, ",") {
				p := strings.SplitN(it, ":", 2)
				m[p[0]] = p[1]
			}
		}
		if err := rt.rebuild(m); err != nil {
			c.out.Line("rres err %s", verifx.HexS(err.Error()))
		} else {
			c.st = rt.st
			c.out.Line("rres ok")
		}
	case "gc":
		time.Sleep(3 * s3hRouteGrace) // every part id is older than the grace window
		col, ok := metadatapart.VerifGarbageCollector(rt.st)
		if !ok {
			verifx.Fatalf("route stack: no collector accessor")
		}
		if err := gc.RunOnce(c.ctx, col); err != nil {
			c.out.Line("rres err %s", verifx.HexS(err.Error()))
		} else {
			c.out.Line("rres ok")
		}
	case "fault":
		a := kv(t)
		f := rt.flt
		*f = s3hFaultCtl{armed: true, kind: a["kind"], closeToo: a["close"] == "1"}
		fmt.Sscanf(a["step"], "%d", &f.step)
		fmt.Sscanf(a["bytes"], "%d", &f.bytes)
		c.out.Line("rres ok")
		return true // no observation: nothing happened yet
	default:
		verifx.Fatalf("s3h: unknown routing op %q", line)
	}
	rt.observe(c)
	return true
}

var s3hRouteMutators = map[string]bool{"put": true, "del": true, "cp": true, "app": true, "mpu": true, "upp": true,
	"uppc": true, "cmpl": true, "abort": true, "trans": true, "rmb": true}

// after prints the routing state after a mutating S3 operation.
func (rt *s3hRoute) after(c *s3hCase, line string) {
	if rt.flt.armed { // the fault was for this operation only
		c.out.Line("rfault fired=%d", b2i(rt.flt.fired))
		*rt.flt = s3hFaultCtl{}
	}
	t := strings.Fields(line)
	if len(t) >= 2 && t[0] == "op" && s3hRouteMutators[t[1]] {
		rt.observe(c)
	}
}

// ---------------------------------------------------------------- part-store fault doubles

var errS3hInjected = errors.New("injected part-store fault")

// s3hFaultCtl is shared by the named stores of one stack: one armed fault at a time, striking
// the step-th GetPart call (= copy step) of the running operation.
type s3hFaultCtl struct {
	armed    bool
	step     int
	kind     string // open | read | put | putafter | close
	closeToo bool
	bytes    int
	gets     int
	fired    bool
	putNext  string // "" | put | putafter: the next PutPart fails
}

type s3hFaultStore struct {
	partstore.PartStore
	ctl *s3hFaultCtl
}

func (f *s3hFaultStore) Capabilities() partstore.Capabilities {
	return partstore.CapabilitiesOf(f.PartStore)
}

type s3hFaultReader struct {
	io.ReadCloser
	left      int // bytes still delivered before the stream breaks; -1 = never
	failClose bool
}

func (r *s3hFaultReader) Read(p []byte) (int, error) {
	if r.left == 0 {
		return 0, errS3hInjected
	}
	if r.left > 0 && len(p) > r.left {
		p = p[:r.left]
	}
	n, err := r.ReadCloser.Read(p)
	if r.left > 0 {
		r.left -= n
		if err == io.EOF { // the part is shorter than the break point: break at its end instead
			return n, errS3hInjected
		}
	}
	return n, err
}

func (r *s3hFaultReader) Close() error {
	err := r.ReadCloser.Close()
	if r.failClose {
		return errS3hInjected
	}
	return err
}

func (f *s3hFaultStore) GetPart(ctx context.Context, tx database.Tx, id partstore.PartId) (io.ReadCloser, error) {
	c := f.ctl
	if !c.armed || c.fired {
		return f.PartStore.GetPart(ctx, tx, id)
	}
	idx := c.gets
	c.gets++
	if idx != c.step {
		return f.PartStore.GetPart(ctx, tx, id)
	}
	c.fired = true
	if c.kind == "open" {
		return nil, errS3hInjected
	}
	rc, err := f.PartStore.GetPart(ctx, tx, id)
	if err != nil {
		return nil, err
	}
	fr := &s3hFaultReader{ReadCloser: rc, left: -1, failClose: c.closeToo || c.kind == "close"}
	switch c.kind {
	case "read":
		fr.left = c.bytes
	case "put", "putafter":
		c.putNext = c.kind
	}
	return fr, nil
}

func (f *s3hFaultStore) PutPart(ctx context.Context, tx database.Tx, id partstore.PartId, r io.Reader) error {
	c := f.ctl
	if c.armed && c.putNext != "" {
		k := c.putNext
		c.putNext = ""
		if k == "put" {
			return errS3hInjected
		}
		if err := f.PartStore.PutPart(ctx, tx, id, r); err != nil {
			return err
		}
		return errS3hInjected
	}
	return f.PartStore.PutPart(ctx, tx, id, r)
}

type s3hRouteObj struct {
	id, bucket, key string
	vid             sql.NullString
	dm, latest      bool
	status          string
	uploadId        sql.NullString
	cls             sql.NullString
}

type s3hRoutePart struct {
	pid, owner string
	seq        int
	store      string
	size       int64
}

func s3hDigest(b []byte) string {
	h := fnv.New64a()
	_, _ = h.Write(b)
	return fmt.Sprintf("%016x", h.Sum64())
}

func (rt *s3hRoute) observe(c *s3hCase) {
	c.learnVids()
	ctx := c.ctx
	var objs []s3hRouteObj
	var parts []s3hRoutePart
	var reg []partregistry.Entity
	var idx [][2]string
	held := make([][]string, len(rt.stores))
	err := database.WithTx(ctx, rt.env.DB, &sql.TxOptions{ReadOnly: true}, func(ctx context.Context, tx database.Tx) error {
		q := tx.SqlTx()
		rows, err := q.QueryContext(ctx, "SELECT id, bucket_name, key, version_id, is_delete_marker, is_latest, upload_status, upload_id, storage_class FROM objects")
		if err != nil {
			return err
		}
		for rows.Next() {
			var o s3hRouteObj
			if err := rows.Scan(&o.id, &o.bucket, &o.key, &o.vid, &o.dm, &o.latest, &o.status, &o.uploadId, &o.cls); err != nil {
				rows.Close()
				return err
			}
			objs = append(objs, o)
		}
		if err := rows.Err(); err != nil {
			return err
		}
		rows.Close()
		prow, err := q.QueryContext(ctx, "SELECT part_id, object_id, sequence_number, COALESCE(part_store_name,''), size FROM parts")
		if err != nil {
			return err
		}
		for prow.Next() {
			var p s3hRoutePart
			if err := prow.Scan(&p.pid, &p.owner, &p.seq, &p.store, &p.size); err != nil {
				prow.Close()
				return err
			}
			parts = append(parts, p)
		}
		if err := prow.Err(); err != nil {
			return err
		}
		prow.Close()
		if reg, err = rt.regRepo.FindAllEntities(ctx, q); err != nil {
			return err
		}
		irows, err := q.QueryContext(ctx, "SELECT part_store_name, part_id FROM part_dedup_index")
		if err != nil {
			return err
		}
		for irows.Next() {
			var st, pid string
			if err := irows.Scan(&st, &pid); err != nil {
				irows.Close()
				return err
			}
			idx = append(idx, [2]string{st, pid})
		}
		if err := irows.Err(); err != nil {
			return err
		}
		irows.Close()
		for i, s := range rt.stores {
			ids, err := s.ps.GetPartIds(ctx, tx)
			if err != nil {
				return err
			}
			for j := range ids {
				held[i] = append(held[i], ids[j].String())
			}
		}
		return nil
	})
	if err != nil {
		c.out.Line("rt error %s", verifx.HexS(err.Error()))
		c.out.Line("rt end")
		return
	}
	// ordinals for part ids not seen before, in ULID (= creation) order
	var fresh []string
	seen := map[string]bool{}
	add := func(p string) {
		if _, ok := rt.pids[p]; !ok && !seen[p] {
			seen[p] = true
			fresh = append(fresh, p)
		}
	}
	for _, p := range parts {
		add(p.pid)
	}
	for _, e := range reg {
		add(e.PartId.String())
	}
	for _, e := range idx {
		add(e[1])
	}
	for _, l := range held {
		for _, p := range l {
			add(p)
		}
	}
	sort.Strings(fresh)
	for _, p := range fresh {
		rt.pids[p] = len(rt.pids)
	}
	byOwner := map[string][]s3hRoutePart{}
	for _, p := range parts {
		byOwner[p.owner] = append(byOwner[p.owner], p)
	}
	partsTok := func(owner string) string {
		ps := byOwner[owner]
		sort.Slice(ps, func(i, j int) bool { return ps[i].seq < ps[j].seq })
		items := []string{}
		for _, p := range ps {
			items = append(items, fmt.Sprintf("%d:%d@%s/%d", p.seq, rt.pids[p.pid], s3hRouteStoreTok(p.store), p.size))
		}
		return joinOr(items)
	}
	clsTok := func(o s3hRouteObj) string {
		if !o.cls.Valid {
			return "~"
		}
		return verifx.HexS(o.cls.String)
	}
	var lines []string
	for _, o := range objs {
		if o.dm {
			continue
		}
		if o.status != "COMPLETED" {
			u := -1
			for i, id := range c.uids {
				if o.uploadId.Valid && id.String() == o.uploadId.String {
					u = i
				}
			}
			lines = append(lines, fmt.Sprintf("rt up %d cls=%s parts=%s", u, clsTok(o), partsTok(o.id)))
			continue
		}
		vid := "null"
		if o.vid.Valid {
			vid = o.vid.String
		}
		read, dig, n := "err", "-", 0
		bn, berr := storage.NewBucketName(o.bucket)
		key, kerr := storage.NewObjectKey(o.key)
		if berr == nil && kerr == nil {
			v := vid
			_, rs, gerr := c.st.GetObject(ctx, bn, key, nil, &storage.GetObjectOptions{VersionID: &v})
			if gerr == nil {
				body, rerr := readAllClose(rs)
				if rerr == nil {
					read, dig, n = "ok", s3hDigest(body), len(body)
				}
			}
		}
		lines = append(lines, fmt.Sprintf("rt obj %s %s %s latest=%d cls=%s read=%s dig=%s len=%d parts=%s",
			strings.TrimPrefix(o.bucket, "bkt-"), o.key, c.vidOut(&vid), b2i(o.latest), clsTok(o), read, dig, n, partsTok(o.id)))
	}
	sort.Strings(lines)
	for _, l := range lines {
		c.out.Line("%s", l)
	}
	regItems := []string{}
	sort.Slice(reg, func(i, j int) bool { return rt.pids[reg[i].PartId.String()] < rt.pids[reg[j].PartId.String()] })
	for _, e := range reg {
		regItems = append(regItems, fmt.Sprintf("%d:%d", rt.pids[e.PartId.String()], e.RefCount))
	}
	c.out.Line("rt reg %s", joinOr(regItems))
	idxItems := []string{}
	for _, e := range idx {
		idxItems = append(idxItems, fmt.Sprintf("%s:%d", s3hRouteStoreTok(e[0]), rt.pids[e[1]]))
	}
	sort.Strings(idxItems)
	c.out.Line("rt idx %s", joinOr(idxItems))
	for i, s := range rt.stores {
		ords := []int{}
		for _, p := range held[i] {
			ords = append(ords, rt.pids[p])
		}
		sort.Ints(ords)
		items := []string{}
		for _, o := range ords {
			items = append(items, fmt.Sprint(o))
		}
		c.out.Line("rt store %s %s", s3hRouteStoreTok(s.name), joinOr(items))
	}
	c.out.Line("rt end")
}

// ---------------------------------------------------------------- generator side

var s3hRouteBodies = [][]byte{[]byte("X"), []byte("hello world"), bytesRepeat('r', 700), nil, []byte("YY")}

func s3hRouteClassTok(r *verifx.Rng) string {
	if r.Chance(1, 5) {
		return "~"
	}
	return verifx.HexS(verifx.Pick(r, s3hRouteClasses))
}

// s3hRouteTweak rewrites a generated line for the routing histories: bodies mostly from a tiny
// pool (identical parts inside one object and across objects → deduplicated part ids), classes
// over all four routed classes.
func s3hRouteTweak(g *s3hGen, line string) string {
	r := g.r
	t := strings.Fields(line)
	if len(t) < 2 || t[0] != "op" {
		return line
	}
	bodyAt := -1
	switch t[1] {
	case "put", "app":
		bodyAt = 4
	case "upp":
		bodyAt = 6
	}
	if bodyAt >= 0 && bodyAt < len(t) && r.Chance(3, 4) {
		t[bodyAt] = verifx.Hex(verifx.Pick(r, s3hRouteBodies))
	}
	if t[1] == "put" || t[1] == "cp" || t[1] == "mpu" {
		for i := range t {
			if strings.HasPrefix(t[i], "cls=") && r.Chance(3, 4) {
				t[i] = "cls=" + s3hRouteClassTok(r)
			}
		}
	}
	if t[1] == "app" && r.Chance(1, 2) {
		for i := range t {
			if strings.HasPrefix(t[i], "off=") {
				t[i] = "off=~"
			}
		}
	}
	return strings.Join(t, " ")
}

// s3hRouteMaybeRop: now and then a remap of the class table or a collector pass.
func s3hRouteMaybeRop(g *s3hGen) string {
	r := g.r
	switch {
	case r.Chance(1, 12):
		m := map[string]string{}
		for _, cls := range s3hRouteClasses {
			switch r.Intn(7) {
			case 0, 1:
				m[cls] = "ia"
			case 2, 3:
				m[cls] = "cold"
			case 4:
				m[cls] = "default"
			}
		}
		return "rop remap map=" + s3hRouteMapTok(m)
	case r.Chance(1, 14):
		return "rop gc"
	}
	return ""
}

// s3hRouteMaybeFault: before a transition or a copy, now and then arm a part-store fault for one of
// its first copy steps.
func s3hRouteMaybeFault(g *s3hGen, line string) string {
	t := strings.Fields(line)
	if len(t) < 2 || t[0] != "op" || (t[1] != "trans" && t[1] != "cp") || !g.r.Chance(1, 3) {
		return ""
	}
	r := g.r
	kind := verifx.Pick(r, []string{"open", "read", "read", "put", "put", "putafter", "close"})
	return fmt.Sprintf("rop fault step=%d kind=%s close=%d bytes=%d", verifx.Pick(r, []int{0, 0, 0, 1, 1, 2}), kind,
		b2i(r.Chance(1, 3)), verifx.Pick(r, []int{0, 0, 1, 5, 400}))
}

// s3hRouteDirected: hand-written routing histories (stack "route"; initial table
// STANDARD_IA→ia, GLACIER→cold, DEEP_ARCHIVE→cold).
func s3hRouteDirected() [][]string {
	h := verifx.HexS
	none := " ct=~ md=~ tags=~ cls=~"
	cls := func(c string) string { return " ct=~ md=~ tags=~ cls=" + h(c) }
	X, Y := h("X"), h("hello world")
	return [][]string{
		{ // the same part id twice in one object, then same-store transitions back and forth
			"op mkb b0", "op put b0 k0 " + X + cls("GLACIER") + " inm=0 im=~", "op app b0 k0 " + X + " off=~", "op app b0 k0 " + X + " off=~",
			"op trans b0 k0 DEEP_ARCHIVE vid=~", "op trans b0 k0 GLACIER vid=~", "op trans b0 k0 DEEP_ARCHIVE vid=~", "op get b0 k0 vid=~",
			"op trans b0 k0 STANDARD vid=~", "op get b0 k0 vid=~", "op trans b0 k0 STANDARD_IA vid=~", "op trans b0 k0 GLACIER vid=~", "op get b0 k0 vid=~",
			"rop gc", "op get b0 k0 vid=~", "op del b0 k0 vid=~ im=~", "rop gc",
		},
		{ // written while GLACIER is unmapped, then GLACIER+DEEP_ARCHIVE are mapped to cold
			"op mkb b0", "rop remap map=~", "op put b0 k0 " + Y + cls("GLACIER") + " inm=0 im=~", "op app b0 k0 " + X + " off=~",
			"rop remap map=DEEP_ARCHIVE:cold,GLACIER:cold", "op get b0 k0 vid=~", "op app b0 k0 " + X + " off=~", "op get b0 k0 vid=~",
			"op trans b0 k0 DEEP_ARCHIVE vid=~", "op get b0 k0 vid=~", "rop remap map=DEEP_ARCHIVE:ia", "op get b0 k0 vid=~",
			"op trans b0 k0 DEEP_ARCHIVE vid=~", "op get b0 k0 vid=~", "rop gc", "op get b0 k0 vid=~",
		},
		{ // two objects share a part in different classes of one store; transition one, delete the other, collect, read
			"op mkb b0", "op put b0 k0 " + Y + cls("GLACIER") + " inm=0 im=~", "op put b0 k1 " + Y + cls("DEEP_ARCHIVE") + " inm=0 im=~",
			"op trans b0 k0 STANDARD_IA vid=~", "op del b0 k1 vid=~ im=~", "rop gc", "op get b0 k0 vid=~",
			"op put b0 k1 " + Y + cls("GLACIER") + " inm=0 im=~", "op cp b0 k1 b0 dir/k2 svid=~ mdir=C tdir=C" + cls("DEEP_ARCHIVE"),
			"op trans b0 k1 DEEP_ARCHIVE vid=~", "op del b0 k1 vid=~ im=~", "rop gc", "op get b0 dir/k2 vid=~",
			"op trans b0 dir/k2 STANDARD vid=~", "rop gc", "op get b0 dir/k2 vid=~", "op get b0 k0 vid=~",
		},
		{ // versions: copies across stores dedup against the target store; delete co-referrers one by one
			"op mkb b0", "op ver b0 E", "op put b0 k0 " + Y + none + " inm=0 im=~", "op put b0 k0 " + Y + cls("GLACIER") + " inm=0 im=~",
			"op cp b0 k0 b0 k1 svid=v0 mdir=C tdir=C" + cls("GLACIER"), "op cp b0 k0 b0 k1 svid=v1 mdir=C tdir=C" + none,
			"op trans b0 k0 GLACIER vid=v0", "rop gc", "op trans b0 k1 STANDARD vid=~", "op del b0 k0 vid=v1 im=~", "op del b0 k0 vid=v0 im=~",
			"rop gc", "op get b0 k1 vid=v2", "op get b0 k1 vid=v3", "op del b0 k1 vid=v2 im=~", "rop gc", "op get b0 k1 vid=v3",
		},
		{ // multipart: identical parts, class chosen at creation, remap between the part uploads, server-side part copy
			"op mkb b0", "op mpu b0 k0" + cls("STANDARD_IA"), "op upp b0 k0 0 1 " + X, "op upp b0 k0 0 2 " + X,
			"rop remap map=STANDARD_IA:cold", "op upp b0 k0 0 3 " + X, "op upp b0 k0 0 2 " + Y, "op cmpl b0 k0 0 parts=~ inm=0 im=~", "op get b0 k0 vid=~",
			"op mpu b0 k1" + cls("STANDARD_IA"), "op uppc b0 k0 b0 k1 1 1 range=~", "op uppc b0 k0 b0 k1 1 2 range=12-13", "op uppc b0 k0 b0 k1 1 3 range=0-1",
			"op cmpl b0 k1 1 parts=~ inm=0 im=~", "op get b0 k1 vid=~", "op trans b0 k0 STANDARD_IA vid=~", "op get b0 k0 vid=~", "op get b0 k1 vid=~",
			"op del b0 k0 vid=~ im=~", "rop gc", "op get b0 k1 vid=~", "op trans b0 k1 GLACIER vid=~", "op app b0 k1 " + X + " off=~", "op get b0 k1 vid=~",
		},
		{ // a class mapped to the literal name "default"; suspended bucket: append to a versioned current version
			"op mkb b0", "rop remap map=GLACIER:default,STANDARD:ia", "op ver b0 E", "op put b0 k0 " + X + cls("GLACIER") + " inm=0 im=~",
			"op put b0 k1 " + X + none + " inm=0 im=~", "op ver b0 S", "op app b0 k0 " + X + " off=~", "op get b0 k0 vid=~", "op get b0 k0 vid=v0",
			"op trans b0 k0 STANDARD vid=v0", "op trans b0 k0 STANDARD vid=null", "op del b0 k0 vid=v0 im=~", "rop gc", "op get b0 k0 vid=null", "op get b0 k1 vid=~",
		},
		{ // part-store faults at the copy steps of cross-store transitions: target write fails (first / second step,
			// before / after the bytes arrived), source stream breaks, GetPart fails, only Close fails; then the same for a copy
			"op mkb b0", "op put b0 k0 " + Y + none + " inm=0 im=~", "op app b0 k0 " + X + " off=~",
			"rop fault step=0 kind=put close=0 bytes=0", "op trans b0 k0 GLACIER vid=~", "op get b0 k0 vid=~",
			"rop fault step=1 kind=put close=0 bytes=0", "op trans b0 k0 GLACIER vid=~", "op get b0 k0 vid=~",
			"rop fault step=1 kind=putafter close=1 bytes=0", "op trans b0 k0 STANDARD_IA vid=~", "op get b0 k0 vid=~",
			"rop fault step=0 kind=read close=0 bytes=5", "op trans b0 k0 GLACIER vid=~", "op get b0 k0 vid=~",
			"rop fault step=0 kind=read close=1 bytes=0", "op trans b0 k0 GLACIER vid=~", "op get b0 k0 vid=~",
			"rop fault step=1 kind=open close=0 bytes=0", "op trans b0 k0 GLACIER vid=~", "op get b0 k0 vid=~",
			"rop fault step=0 kind=close close=1 bytes=0", "op trans b0 k0 GLACIER vid=~", "op get b0 k0 vid=~",
			"rop fault step=5 kind=put close=0 bytes=0", "op trans b0 k0 STANDARD_IA vid=~", "op get b0 k0 vid=~",
			"rop fault step=0 kind=put close=0 bytes=0", "op trans b0 k0 STANDARD_IA vid=~", "op get b0 k0 vid=~",
			"rop fault step=0 kind=put close=0 bytes=0", "op cp b0 k0 b0 k1 svid=~ mdir=C tdir=C" + cls("GLACIER"), "op get b0 k1 vid=~",
			"rop fault step=1 kind=read close=0 bytes=0", "op cp b0 k0 b0 k1 svid=~ mdir=C tdir=C" + cls("GLACIER"), "op get b0 k1 vid=~", "op get b0 k0 vid=~",
			"rop fault step=0 kind=close close=1 bytes=0", "op cp b0 k0 b0 k1 svid=~ mdir=C tdir=C" + cls("GLACIER"), "op get b0 k1 vid=~", "rop gc", "op get b0 k0 vid=~",
		},
		{ // a noncurrent version (tiered by its version id) under a source-read fault; shared part with the current version
			"op mkb b0", "op ver b0 E", "op put b0 k0 " + Y + none + " inm=0 im=~", "op put b0 k0 " + Y + none + " inm=0 im=~", "op get b0 k0 vid=v0",
			"rop fault step=0 kind=read close=0 bytes=3", "op trans b0 k0 GLACIER vid=v0", "op get b0 k0 vid=v0", "op get b0 k0 vid=v1",
			"rop fault step=0 kind=putafter close=0 bytes=0", "op trans b0 k0 GLACIER vid=v0", "op get b0 k0 vid=v0", "op get b0 k0 vid=v1",
			"op trans b0 k0 GLACIER vid=v0", "op get b0 k0 vid=v0", "op get b0 k0 vid=v1", "rop gc", "op get b0 k0 vid=v0",
		},
	}
}
