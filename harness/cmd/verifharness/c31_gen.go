//go:build verif

package main

import (
	"encoding/hex"
	"fmt"
	"strings"

	"github.com/jdillenkofer/pithos/internal/verifx"
)

// Request generator for C31.
//
// A shape = method × host kind × path kind × set of sub-resource query flags × header variant.
// Quick: directed cases + random shapes. Thorough: additionally EVERY
//   7 methods × 4 path kinds × (flag subsets of size ≤ 2 over 16 flags = 137) × 5 header variants
//   = 19 180 shapes on the path-style API host, each under allow, deny and a random program,
// in batches of 60 requests per case (fresh store per case).

var c31Methods = []string{"GET", "HEAD", "PUT", "POST", "DELETE", "OPTIONS", "PATCH"}

var c31Flags = []string{"versioning", "versions", "uploads", "uploadId", "partNumber", "tagging", "cors", "website",
	"lifecycle", "notification", "delete", "list-type", "versionId", "append", "acl", "prefix"}

const (
	c31HostAPI = iota
	c31HostVhost
	c31HostWebsite
	c31HostCustom
)

const (
	c31PathRoot = iota
	c31PathBucket
	c31PathKey
	c31PathDeep
	c31PathBucketSlash
)

// header variants
const (
	c31HdrNone = iota
	c31HdrCopy
	c31HdrCopyRange
	c31HdrTagging
	c31HdrCopyReplaceTags
	c31HdrCopyReplaceMeta // from here on: only sampled, not enumerated
	c31HdrOrigin
	c31HdrRange
	c31HdrBadCopy
	c31HdrCount
)

type c31Shape struct {
	method   string
	hostKind int
	pathKind int
	flags    []string
	hdr      int
	listy    bool // add listing parameters (prefix / delimiter / max-keys)
}

type c31Cfg struct {
	mode        string
	hooks       bool
	resolver    bool
	pReq, pItem int // 0 = drawn from the case seed
}

var c31SingleKeys = []string{"k", "m1", "m2", "tagged", "gone", "index.html", "error.html", "nope", "k", "m3"}
var c31DeepKeys = []string{"dir/k2", "a/b/c/deep", "secret/x", "mp/up", "mp/other", "z/1", "no/such/key", "dir/", "mp/up", "dir/index.html"}
var c31TwoSingle = []string{"k", "home.html", "nope"}
var c31TwoDeep = []string{"x/y", "mp/up2", "no/such"}
var c31CopySources = []string{"/b-one/k", "b-one/dir/k2", "/b-two/x/y", "/b-one/k?versionId=@", "/b-one/a%2Fb%2Fc%2Fdeep", "/b-none/k", "/b-one/nope", "/b-one/secret/x", "/b-two/k"}

func (c *c31Case) newBody(r *verifx.Rng, b, k string) []byte {
	tok := hex.EncodeToString(r.Bytes(12))
	return []byte(fmt.Sprintf("NEW[%s/%s]<%s>", b, k, tok))
}

func c31XMLBody(kind string, c *c31Case, r *verifx.Rng, b, k string) []byte {
	switch kind {
	case "versioning":
		return []byte(`<VersioningConfiguration xmlns="http://s3.amazonaws.com/doc/2006-03-01/"><Status>` + verifx.Pick(r, []string{"Enabled", "Suspended"}) + `</Status></VersioningConfiguration>`)
	case "cors":
		return []byte(`<CORSConfiguration><CORSRule><AllowedOrigin>http://other.test</AllowedOrigin><AllowedMethod>GET</AllowedMethod></CORSRule></CORSConfiguration>`)
	case "website":
		return []byte(`<WebsiteConfiguration><IndexDocument><Suffix>start.html</Suffix></IndexDocument><ErrorDocument><Key>m1</Key></ErrorDocument></WebsiteConfiguration>`)
	case "lifecycle":
		return []byte(`<LifecycleConfiguration><Rule><ID>r1</ID><Status>Enabled</Status><Filter><Prefix>tmp/</Prefix></Filter><Expiration><Days>7</Days></Expiration></Rule></LifecycleConfiguration>`)
	case "notification":
		return []byte(`<NotificationConfiguration><QueueConfiguration><Id>n1</Id><Queue>arn:aws:sqs:eu-central-1:123456789012:q</Queue><Event>s3:ObjectCreated:*</Event></QueueConfiguration></NotificationConfiguration>`)
	case "tagging":
		return []byte(`<Tagging><TagSet><Tag><Key>team</Key><Value>` + verifx.Pick(r, []string{"blue", "red"}) + `</Value></Tag></TagSet></Tagging>`)
	case "delete":
		keys := []string{"k", "m1", "nope", "m2", "secret/x", "z/1", "m1", "dir/k2", "tagged", "x/y"}
		n := 2 + r.Intn(6)
		var sb strings.Builder
		sb.WriteString("<Delete>")
		if r.Chance(1, 4) {
			sb.WriteString("<Quiet>true</Quiet>")
		}
		for i := 0; i < n; i++ {
			key := verifx.Pick(r, keys)
			if r.Chance(1, 12) {
				key = "" // does not parse as an object key
			}
			sb.WriteString("<Object><Key>" + key + "</Key></Object>")
		}
		sb.WriteString("</Delete>")
		return []byte(sb.String())
	case "complete":
		o := c31Obj{b, k}
		et := c.t.partETag[o]
		if len(et) < 2 {
			return []byte(`<CompleteMultipartUpload><Part><PartNumber>1</PartNumber><ETag>"x"</ETag></Part></CompleteMultipartUpload>`)
		}
		return []byte(fmt.Sprintf(`<CompleteMultipartUpload><Part><PartNumber>1</PartNumber><ETag>%s</ETag></Part><Part><PartNumber>2</PartNumber><ETag>%s</ETag></Part></CompleteMultipartUpload>`, et[0], et[1]))
	}
	return nil
}

func c31Has(flags []string, f string) bool {
	for _, x := range flags {
		if x == f {
			return true
		}
	}
	return false
}

// build turns a shape into a concrete request against the template store.
func (c *c31Case) build(r *verifx.Rng, s c31Shape) c31Req {
	rq := c31Req{method: s.method}
	// bucket and key
	bucket := "b-one"
	switch v := r.Intn(100); {
	case v < 68:
	case v < 88:
		bucket = "b-two"
	case v < 97:
		bucket = "b-none"
	default:
		bucket = "B!"
	}
	if s.hostKind != c31HostAPI && bucket == "B!" {
		bucket = "b-one"
	}
	key := ""
	wantsUpload := c31Has(s.flags, "uploadId")
	switch s.pathKind {
	case c31PathKey:
		if bucket == "b-two" {
			key = verifx.Pick(r, c31TwoSingle)
		} else {
			key = verifx.Pick(r, c31SingleKeys)
		}
	case c31PathDeep:
		if bucket == "b-two" {
			key = verifx.Pick(r, c31TwoDeep)
			if wantsUpload && r.Chance(2, 3) {
				key = "mp/up2"
			}
		} else {
			key = verifx.Pick(r, c31DeepKeys)
			if wantsUpload && r.Chance(2, 3) {
				key = "mp/up"
			}
		}
	}
	path := "/"
	switch s.pathKind {
	case c31PathBucket:
		path = "/" + bucket
	case c31PathBucketSlash:
		path = "/" + bucket + "/"
	case c31PathKey, c31PathDeep:
		path = "/" + bucket + "/" + key
	}
	switch s.hostKind {
	case c31HostAPI:
		rq.host = c31API
	case c31HostVhost:
		rq.host = bucket + "." + c31API
		path = strings.TrimPrefix(path, "/"+bucket)
		if path == "" {
			path = "/"
		}
	case c31HostWebsite:
		rq.host = bucket + "." + c31Website
		path = strings.TrimPrefix(path, "/"+bucket)
		if path == "" {
			path = "/"
		}
	case c31HostCustom:
		rq.host = bucket
		path = strings.TrimPrefix(path, "/"+bucket)
		if path == "" {
			path = "/"
		}
	}
	rq.path = path
	// query flags
	obj := c31Obj{bucket, key}
	for _, f := range s.flags {
		switch f {
		case "uploadId":
			v := "nope"
			if id, ok := c.t.uploads[obj]; ok && r.Chance(5, 6) {
				v = id
			}
			rq.query = append(rq.query, [2]string{f, v})
		case "partNumber":
			rq.query = append(rq.query, [2]string{f, verifx.Pick(r, []string{"1", "2", "3", "1", "0", "x"})})
		case "versionId":
			v := verifx.Pick(r, []string{"null", "nope", ""})
			if vs := c.t.versions[obj]; len(vs) > 0 && r.Chance(3, 4) {
				v = verifx.Pick(r, vs)
			}
			rq.query = append(rq.query, [2]string{f, v})
		case "list-type":
			rq.query = append(rq.query, [2]string{f, verifx.Pick(r, []string{"2", "2", "2", "1"})})
		case "prefix":
			rq.query = append(rq.query, [2]string{f, verifx.Pick(r, []string{"m", "z/", "dir/", "a/", ""})})
		default:
			if r.Chance(1, 10) {
				rq.query = append(rq.query, [2]string{f, ""})
			} else {
				rq.query = append(rq.query, [2]string{f, "\x00"})
			}
		}
	}
	if s.listy {
		if r.Chance(1, 2) {
			rq.query = append(rq.query, [2]string{"delimiter", "/"})
		}
		if r.Chance(2, 3) {
			rq.query = append(rq.query, [2]string{"max-keys", verifx.Pick(r, []string{"1", "2", "3", "5", "1000"})})
		}
		if r.Chance(1, 3) && !c31Has(s.flags, "prefix") {
			rq.query = append(rq.query, [2]string{"prefix", verifx.Pick(r, []string{"m", "z/", "dir/", "a/"})})
		}
		if c31Has(s.flags, "uploads") && r.Chance(1, 2) {
			rq.query = append(rq.query, [2]string{"max-uploads", verifx.Pick(r, []string{"1", "2"})})
		}
		if c31Has(s.flags, "uploadId") && r.Chance(1, 2) {
			rq.query = append(rq.query, [2]string{"max-parts", "1"})
		}
	}
	// headers
	copySrc := func() string {
		v := verifx.Pick(r, c31CopySources)
		if strings.HasSuffix(v, "=@") {
			vs := c.t.versions[c31Obj{"b-one", "k"}]
			v = strings.TrimSuffix(v, "@") + verifx.Pick(r, vs)
		}
		return v
	}
	switch s.hdr {
	case c31HdrCopy:
		rq.header = append(rq.header, [2]string{"x-amz-copy-source", copySrc()})
	case c31HdrCopyRange:
		rq.header = append(rq.header, [2]string{"x-amz-copy-source", copySrc()}, [2]string{"x-amz-copy-source-range", "bytes=0-3"})
	case c31HdrTagging:
		rq.header = append(rq.header, [2]string{"x-amz-tagging", "team=green"})
	case c31HdrCopyReplaceTags:
		rq.header = append(rq.header, [2]string{"x-amz-copy-source", copySrc()}, [2]string{"x-amz-tagging-directive", "REPLACE"}, [2]string{"x-amz-tagging", "team=green"})
	case c31HdrCopyReplaceMeta:
		rq.header = append(rq.header, [2]string{"x-amz-copy-source", copySrc()}, [2]string{"x-amz-metadata-directive", "REPLACE"}, [2]string{"x-amz-meta-a", "1"})
	case c31HdrOrigin:
		rq.header = append(rq.header, [2]string{"Origin", "http://ex.test"})
		if s.method == "OPTIONS" {
			rq.header = append(rq.header, [2]string{"Access-Control-Request-Method", "PUT"})
		}
	case c31HdrRange:
		rq.header = append(rq.header, [2]string{"Range", verifx.Pick(r, []string{"bytes=0-3", "bytes=2-", "bytes=0-1,4-6"})})
	case c31HdrBadCopy:
		rq.header = append(rq.header, [2]string{"x-amz-copy-source", verifx.Pick(r, []string{"nobucket", "/b-one/", "/b-one/%zz"})})
	}
	// body
	if s.method == "PUT" || s.method == "POST" {
		kind := ""
		for _, f := range []string{"versioning", "cors", "lifecycle", "notification", "website", "delete"} {
			if c31Has(s.flags, f) && kind == "" {
				kind = f
			}
		}
		if kind == "" && s.method == "POST" && wantsUpload {
			kind = "complete"
		}
		if kind == "" && c31Has(s.flags, "tagging") {
			kind = "tagging"
		}
		switch {
		case r.Chance(1, 14):
			rq.body, rq.bodyK = []byte("<<not xml"), "malformed"
		case kind != "":
			// (the trailing comment carries a content marker in case the body ends up stored as an object)
			rq.body, rq.bodyK = append(c31XMLBody(kind, c, r, bucket, key), []byte("<!-- "+string(c.newBody(r, bucket, key))+" -->")...), kind
		default:
			rq.body, rq.bodyK = c.newBody(r, bucket, key), "object"
		}
	} else {
		rq.bodyK = "none"
	}
	return rq
}

func c31RandomShape(r *verifx.Rng, mode string) c31Shape {
	s := c31Shape{}
	switch v := r.Intn(100); {
	case v < 34:
		s.method = "GET"
	case v < 44:
		s.method = "HEAD"
	case v < 68:
		s.method = "PUT"
	case v < 80:
		s.method = "POST"
	case v < 94:
		s.method = "DELETE"
	case v < 97:
		s.method = "OPTIONS"
	default:
		s.method = "PATCH"
	}
	switch v := r.Intn(100); {
	case v < 72:
		s.hostKind = c31HostAPI
	case v < 82:
		s.hostKind = c31HostVhost
	case v < 95:
		s.hostKind = c31HostWebsite
	default:
		s.hostKind = c31HostCustom
	}
	switch v := r.Intn(100); {
	case v < 6:
		s.pathKind = c31PathRoot
	case v < 36:
		s.pathKind = c31PathBucket
	case v < 68:
		s.pathKind = c31PathKey
	case v < 97:
		s.pathKind = c31PathDeep
	default:
		s.pathKind = c31PathBucketSlash
	}
	nf := 0
	switch v := r.Intn(100); {
	case v < 33:
	case v < 80:
		nf = 1
	case v < 97:
		nf = 2
	default:
		nf = 3
	}
	if s.hostKind == c31HostWebsite || s.hostKind == c31HostCustom {
		if r.Chance(3, 4) {
			nf = 0
		}
		if r.Chance(4, 5) {
			s.method = verifx.Pick(r, []string{"GET", "GET", "HEAD"})
		}
	}
	for len(s.flags) < nf {
		f := verifx.Pick(r, c31Flags)
		if !c31Has(s.flags, f) {
			s.flags = append(s.flags, f)
		}
	}
	if r.Chance(55, 100) {
		s.hdr = c31HdrNone
	} else {
		s.hdr = 1 + r.Intn(c31HdrCount-1)
	}
	if mode == "items" || r.Chance(1, 5) {
		// lean towards listings and bulk deletes
		if r.Chance(3, 5) {
			s.hostKind = c31HostAPI
			s.hdr = c31HdrNone
			s.listy = true
			switch r.Intn(8) {
			case 0:
				s.method, s.pathKind, s.flags = "GET", c31PathRoot, nil
			case 1, 2:
				s.method, s.pathKind, s.flags = "GET", c31PathBucket, nil
			case 3:
				s.method, s.pathKind, s.flags = "GET", c31PathBucket, []string{"list-type"}
			case 4:
				s.method, s.pathKind, s.flags = "GET", c31PathBucket, []string{"versions"}
			case 5:
				s.method, s.pathKind, s.flags = "GET", c31PathBucket, []string{"uploads"}
			case 6:
				s.method, s.pathKind, s.flags = "GET", c31PathDeep, []string{"uploadId"}
			case 7:
				s.method, s.pathKind, s.flags = "POST", c31PathBucket, []string{"delete"}
			}
		}
	}
	return s
}

func c31Cases(f *verifx.Flags, tmpl *c31Template, run func(seed uint64, cfg c31Cfg, reqs func(c *c31Case, r *verifx.Rng) []c31Req)) {
	fixed := func(rs ...c31Req) func(c *c31Case, r *verifx.Rng) []c31Req {
		return func(c *c31Case, r *verifx.Rng) []c31Req { return rs }
	}
	get := func(host, path string, q ...[2]string) c31Req {
		return c31Req{method: "GET", host: host, path: path, query: q, bodyK: "none"}
	}
	flag := func(n string) [2]string { return [2]string{n, "\x00"} }
	site1 := "b-one." + c31Website
	// ---- directed cases
	// 0: website endpoint: missing key → the error document is served; directory redirect; index; HEAD
	run(0xD0, c31Cfg{mode: "allow"}, fixed(
		get(site1, "/missing"),
		c31Req{method: "HEAD", host: site1, path: "/missing", bodyK: "none"},
		get(site1, "/"), get(site1, "/dir"), get(site1, "/dir/"), get(site1, "/error.html"),
		get("b-two."+c31Website, "/nothing"), get("b-none."+c31Website, "/x"), get("b-one", "/index.html"),
		c31Req{method: "PUT", host: site1, path: "/k", body: []byte("x"), bodyK: "object"},
	))
	// 1: the same under deny-all
	run(0xD1, c31Cfg{mode: "deny", hooks: true}, fixed(get(site1, "/missing"), get(site1, "/"), get(site1, "/dir"),
		c31Req{method: "HEAD", host: site1, path: "/index.html", bodyK: "none"}))
	// 2: ?versions with a per-item program that denies keys
	run(0xD2, c31Cfg{mode: "items", hooks: true, pItem: 50}, fixed(
		get(c31API, "/b-one", flag("versions")),
		get(c31API, "/b-one", flag("versions"), [2]string{"delimiter", "/"}),
		get(c31API, "/b-one", flag("versions"), [2]string{"prefix", "m"}, [2]string{"max-keys", "2"}),
	))
	// 3: every per-item hook
	run(0xD3, c31Cfg{mode: "items", hooks: true, pItem: 55}, func(c *c31Case, r *verifx.Rng) []c31Req {
		return []c31Req{
			get(c31API, "/"),
			get(c31API, "/b-one"),
			get(c31API, "/b-one", [2]string{"max-keys", "3"}),
			get(c31API, "/b-one", [2]string{"list-type", "2"}, [2]string{"delimiter", "/"}, [2]string{"max-keys", "2"}),
			get(c31API, "/b-one", [2]string{"list-type", "2"}, [2]string{"delimiter", "/"}),
			get(c31API, "/b-one", flag("uploads")),
			get(c31API, "/b-one", flag("uploads"), [2]string{"delimiter", "/"}),
			get(c31API, "/b-one/mp/up", [2]string{"uploadId", c.t.uploads[c31Obj{"b-one", "mp/up"}]}),
			get(c31API, "/b-one/mp/up", [2]string{"uploadId", c.t.uploads[c31Obj{"b-one", "mp/up"}]}, [2]string{"max-parts", "1"}),
			{method: "POST", host: c31API, path: "/b-one", query: [][2]string{flag("delete")}, bodyK: "delete",
				body: []byte(`<Delete><Object><Key>k</Key></Object><Object><Key>m1</Key></Object><Object><Key></Key></Object><Object><Key>nope</Key></Object><Object><Key>m2</Key></Object><Object><Key>m1</Key></Object><Object><Key>z/1</Key></Object><Object><Key>z/2</Key></Object></Delete>`)},
			get(c31API, "/b-one"),
		}
	})
	// 4: the same listings with an authorizer that has no per-item hooks, and with allow-all hooks
	for i, cfg := range []c31Cfg{{mode: "allow"}, {mode: "allow", hooks: true}} {
		run(0xD4+uint64(i)*0x100, cfg, fixed(get(c31API, "/"), get(c31API, "/b-one", [2]string{"max-keys", "4"}), get(c31API, "/b-one", flag("versions")),
			get(c31API, "/b-one", flag("uploads")),
			c31Req{method: "POST", host: c31API, path: "/b-two", query: [][2]string{flag("delete")}, bodyK: "delete", body: []byte(`<Delete><Object><Key>k</Key></Object><Object><Key>x/y</Key></Object></Delete>`)}))
	}
	// 5: copies move object bytes around; reading the copy is reading the copy
	run(0xD5, c31Cfg{mode: "allow", resolver: true}, func(c *c31Case, r *verifx.Rng) []c31Req {
		up := c.t.uploads[c31Obj{"b-one", "mp/up"}]
		return []c31Req{
			{method: "PUT", host: c31API, path: "/b-two/copied", header: [][2]string{{"x-amz-copy-source", "/b-one/k"}}, bodyK: "none"},
			get(c31API, "/b-two/copied"),
			{method: "PUT", host: c31API, path: "/b-one/mp/up", query: [][2]string{{"uploadId", up}, {"partNumber", "2"}}, header: [][2]string{{"x-amz-copy-source", "/b-one/a%2Fb%2Fc%2Fdeep"}}, bodyK: "none"},
			get(c31API, "/b-one/mp/up", [2]string{"uploadId", up}),
			{method: "PUT", host: c31API, path: "/b-one/k", header: [][2]string{{"x-amz-copy-source", "/b-one/k"}}, bodyK: "none"}, // no-op self copy: rejected
			{method: "PUT", host: c31API, path: "/b-one/fresh", body: c.newBody(r, "b-one", "fresh"), bodyK: "object"},
			get(c31API, "/b-one/fresh"),
			get(c31API, "/b-one/k", [2]string{"versionId", c.t.versions[c31Obj{"b-one", "k"}][0]}),
			c31Req{method: "HEAD", host: c31API, path: "/b-one/k", query: [][2]string{{"versionId", c.t.versions[c31Obj{"b-one", "k"}][0]}}, bodyK: "none"},
			get(c31API, "/b-one/tagged", flag("tagging")),
			c31Req{method: "DELETE", host: c31API, path: "/b-one/tagged", query: [][2]string{flag("tagging")}, bodyK: "none"},
			c31Req{method: "DELETE", host: c31API, path: "/b-one/k", query: [][2]string{{"versionId", c.t.versions[c31Obj{"b-one", "k"}][0]}}, bodyK: "none"},
		}
	})
	// 6: deny-all against every kind of mutation
	run(0xD6, c31Cfg{mode: "deny", hooks: true, resolver: true}, func(c *c31Case, r *verifx.Rng) []c31Req {
		up := c.t.uploads[c31Obj{"b-one", "mp/up"}]
		put := func(path string, q [][2]string, kind string) c31Req {
			return c31Req{method: "PUT", host: c31API, path: path, query: q, body: c31XMLBody(kind, c, r, "b-one", ""), bodyK: kind}
		}
		return []c31Req{
			{method: "PUT", host: c31API, path: "/b-new", bodyK: "none"},
			{method: "DELETE", host: c31API, path: "/b-two", bodyK: "none"},
			{method: "PUT", host: c31API, path: "/b-one/k", body: c.newBody(r, "b-one", "k"), bodyK: "object"},
			{method: "PUT", host: c31API, path: "/b-one/k", query: [][2]string{flag("append")}, body: c.newBody(r, "b-one", "k"), bodyK: "object"},
			{method: "DELETE", host: c31API, path: "/b-one/k", bodyK: "none"},
			{method: "PUT", host: c31API, path: "/b-two/c", header: [][2]string{{"x-amz-copy-source", "/b-one/k"}}, bodyK: "none"},
			{method: "POST", host: c31API, path: "/b-one", query: [][2]string{flag("delete")}, body: c31XMLBody("delete", c, r, "b-one", ""), bodyK: "delete"},
			put("/b-one", [][2]string{flag("versioning")}, "versioning"), put("/b-one", [][2]string{flag("cors")}, "cors"),
			put("/b-one", [][2]string{flag("website")}, "website"), put("/b-one", [][2]string{flag("lifecycle")}, "lifecycle"),
			put("/b-one", [][2]string{flag("notification")}, "notification"), put("/b-one/k", [][2]string{flag("tagging")}, "tagging"),
			{method: "DELETE", host: c31API, path: "/b-one", query: [][2]string{flag("cors")}, bodyK: "none"},
			{method: "DELETE", host: c31API, path: "/b-one", query: [][2]string{flag("website")}, bodyK: "none"},
			{method: "POST", host: c31API, path: "/b-one/newmp", query: [][2]string{flag("uploads")}, bodyK: "none"},
			{method: "PUT", host: c31API, path: "/b-one/mp/up", query: [][2]string{{"uploadId", up}, {"partNumber", "1"}}, body: c.newBody(r, "b-one", "mp/up"), bodyK: "object"},
			{method: "POST", host: c31API, path: "/b-one/mp/up", query: [][2]string{{"uploadId", up}}, body: c31XMLBody("complete", c, r, "b-one", "mp/up"), bodyK: "complete"},
			{method: "DELETE", host: c31API, path: "/b-one/mp/up", query: [][2]string{{"uploadId", up}}, bodyK: "none"},
			get(c31API, "/b-one/k"), get(c31API, "/b-one"), get(c31API, "/"),
		}
	})
	// 7: unusual query combinations, allow-all with the tag resolvers in use
	run(0xD7, c31Cfg{mode: "allow", hooks: true, resolver: true}, func(c *c31Case, r *verifx.Rng) []c31Req {
		up := c.t.uploads[c31Obj{"b-two", "mp/up2"}]
		return []c31Req{
			{method: "DELETE", host: c31API, path: "/b-two", query: [][2]string{flag("notification")}, bodyK: "none"},
			{method: "DELETE", host: c31API, path: "/b-two", query: [][2]string{flag("versioning")}, bodyK: "none"},
			get(c31API, "/b-one/k", flag("versions")), get(c31API, "/b-one/k", flag("acl")),
			{method: "POST", host: c31API, path: "/b-two/mp/up2", query: [][2]string{flag("uploads"), {"uploadId", up}}, bodyK: "none"},
			{method: "PUT", host: c31API, path: "/b-one/k", query: [][2]string{{"partNumber", "1"}}, body: []byte("x"), bodyK: "object"},
			{method: "PUT", host: c31API, path: "/b-one/k", query: [][2]string{flag("tagging"), flag("append")}, body: c31XMLBody("tagging", c, r, "", ""), bodyK: "tagging"},
			{method: "PUT", host: c31API, path: "/b-one/k", query: [][2]string{flag("tagging"), {"versionId", "nope"}}, body: c31XMLBody("tagging", c, r, "", ""), bodyK: "tagging"},
			{method: "HEAD", host: c31API, path: "/", bodyK: "none"},
			{method: "POST", host: c31API, path: "/", bodyK: "none"},
			{method: "PATCH", host: c31API, path: "/b-one/k", bodyK: "none"},
			{method: "OPTIONS", host: c31API, path: "/b-one/k", header: [][2]string{{"Origin", "http://ex.test"}, {"Access-Control-Request-Method", "PUT"}}, bodyK: "none"},
			get("b-one."+c31API, "/k"), get("b-one."+c31API, "/"),
			{method: "PUT", host: "b-one." + c31API, path: "/vh-new", body: c.newBody(r, "b-one", "vh-new"), bodyK: "object"},
			// virtual-hosted keys keep a trailing slash ("folder/" and "folder" are different keys)
			get("b-one."+c31API, "/dir/"),
			{method: "PUT", host: "b-one." + c31API, path: "/folder/", body: c.newBody(r, "b-one", "folder/"), bodyK: "object"},
			{method: "DELETE", host: "b-one." + c31API, path: "/dir/", bodyK: "none"},
			get(c31API, "/b-one/"), get(c31API, "/B!/k"),
			{method: "PUT", host: c31API, path: "/b-one/k", header: [][2]string{{"x-amz-copy-source", "nobucket"}}, bodyK: "none"},
		}
	})

	// ---- thorough: the whole finite product on the path-style API host
	if f.Tier == "thorough" {
		var subsets [][]string
		subsets = append(subsets, nil)
		for i := range c31Flags {
			subsets = append(subsets, []string{c31Flags[i]})
		}
		for i := range c31Flags {
			for j := i + 1; j < len(c31Flags); j++ {
				subsets = append(subsets, []string{c31Flags[i], c31Flags[j]})
			}
		}
		var shapes []c31Shape
		for _, m := range c31Methods {
			for _, pk := range []int{c31PathRoot, c31PathBucket, c31PathKey, c31PathDeep} {
				for _, fl := range subsets {
					for hdr := c31HdrNone; hdr <= c31HdrCopyReplaceTags; hdr++ {
						shapes = append(shapes, c31Shape{method: m, hostKind: c31HostAPI, pathKind: pk, flags: fl, hdr: hdr})
					}
				}
			}
		}
		const batch = 60
		for at := 0; at < len(shapes); at += batch {
			end := at + batch
			if end > len(shapes) {
				end = len(shapes)
			}
			part := shapes[at:end]
			for mi, mode := range []string{"allow", "deny", "prog"} {
				seed := verifx.CaseSeed(f.Seed, at*4+mi)
				run(seed, c31Cfg{mode: mode, hooks: (at/batch)%2 == 0, resolver: (at/batch)%3 == 0}, func(c *c31Case, r *verifx.Rng) []c31Req {
					rs := make([]c31Req, len(part))
					for i, s := range part {
						rs[i] = c.build(r, s)
					}
					return rs
				})
			}
		}
	}

	// ---- generated cases
	for i := 0; i < f.Cases; i++ {
		seed := verifx.CaseSeed(f.Seed, 1_000_000+i)
		r0 := verifx.NewRng(seed ^ 0x5EED)
		cfg := c31Cfg{hooks: r0.Chance(7, 10), resolver: r0.Chance(1, 2)}
		switch v := r0.Intn(100); {
		case v < 20:
			cfg.mode = "allow"
		case v < 40:
			cfg.mode = "deny"
		case v < 80:
			cfg.mode = "prog"
		default:
			cfg.mode = "items"
			cfg.hooks = true
		}
		n := 24 + r0.Intn(13)
		run(seed, cfg, func(c *c31Case, r *verifx.Rng) []c31Req {
			rs := make([]c31Req, n)
			for i := range rs {
				rs[i] = c.build(r, c31RandomShape(r, cfg.mode))
			}
			return rs
		})
	}
}
