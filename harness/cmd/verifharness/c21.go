//go:build verif

package main

import (
	"bytes"
	"context"
	"errors"
	"database/sql"
	"fmt"
	"io"
	"os"
	"path/filepath"
	"strings"
	"sync"
	"time"

	"github.com/jdillenkofer/pithos/internal/checksumutils"
	"github.com/jdillenkofer/pithos/internal/storage"
	"github.com/jdillenkofer/pithos/internal/storage/database"
	repositoryfactory "github.com/jdillenkofer/pithos/internal/storage/database/repository"
	"github.com/jdillenkofer/pithos/internal/storage/database/repository/storageoutboxentry"
	"github.com/jdillenkofer/pithos/internal/storage/database/sqlite"
	"github.com/jdillenkofer/pithos/internal/storage/middlewares/delegator"
	outboxst "github.com/jdillenkofer/pithos/internal/storage/outbox"
	"github.com/jdillenkofer/pithos/internal/verifx"
	"github.com/prometheus/client_golang/prometheus"
)

// C21: histories through the REAL outbox storage over a REAL metadata+part storage, with the
// worker flushing exactly where the script (or a waiting caller) lets it. Trace of one case:
//
//	op …                      an operation issued through the outbox storage (s3hist format)
//	queued <n> <Operation> <bucket> <key>     it stored outbox entry number n (commit order)
//	wait <scope> <bucket> <key> last=<n|none> <before|after>   it called a wait function; newest entry in scope
//	flush <n> <Method> <bucket> <key> ok|err   the worker replayed entry n on the inner storage
//	thru <Method>             the caller's own call reached the inner storage
//	res …                     the operation's result (s3hist format; also `res err BadDigest|ReadError`)
//	rolledback <n>            the transaction that stored entry n was rolled back (follows the res line)
//	jam                       a replay failed: the worker retries it every 5 s (case abandoned)
//	dump                      the table is drained; the following op/res pairs read the INNER storage directly
//	unexpected <text>
//
// Everything is printed by the case's main goroutine; the worker goroutine only sends events.

func init() { register("c21", runC21) }

type c21ClientKey struct{}

type c21Event struct {
	kind   string // arrive | done | claimNone
	method string
	bucket string
	key    string
	entry  string // ULID of the claimed entry
	err    error
}

type c21Case struct {
	ctx      context.Context
	cancel   context.CancelFunc
	out      *verifx.Out
	s3       *s3hCase // through the outbox storage
	rawS3    *s3hCase // the inner storage directly (dump)
	raw      storage.Storage
	outbox   storage.Storage
	outboxID string
	obDB     database.Database
	rawRepo  storageoutboxentry.Repository
	ev       chan c21Event
	resume   chan struct{}
	quit     chan struct{}
	parked   *c21Event
	entries  map[string]int
	pending  int // entries stored and not yet replayed
	flushed  int // ordinal of the next entry to be replayed
	jammed   bool
	failed   bool
	rng      *verifx.Rng
	waitMode string // "" = random, "before", "after"
	pollDebt map[string]int
	pollSeen map[string]bool
	curEntry string // worker goroutine only
	lastMs   int64
	saved    []string // ULIDs of the entries stored by the operation in progress
}

// ---------------------------------------------------------------- inner storage double (gates)

type c21Gate struct {
	delegator.DelegatingStorage
	cs *c21Case
}

func (g *c21Gate) Start(context.Context) error { return nil } // the lane owns the inner storage's lifecycle
func (g *c21Gate) Stop(context.Context) error  { return nil }

func c21IsClient(ctx context.Context) bool { return ctx.Value(c21ClientKey{}) != nil }

// worker parks the worker before its replay call and reports the outcome afterwards.
func (g *c21Gate) worker(method string, b storage.BucketName, key string, call func() error) error {
	cs := g.cs
	select {
	case cs.ev <- c21Event{kind: "arrive", method: method, bucket: b.String(), key: key, entry: cs.curEntry}:
	case <-cs.quit:
		return context.Canceled
	}
	select {
	case <-cs.resume:
	case <-cs.quit:
		return context.Canceled
	}
	err := call()
	select {
	case cs.ev <- c21Event{kind: "done", method: method, err: err}:
	case <-cs.quit:
	}
	return err
}

func (g *c21Gate) client(method string, mutating bool) func() {
	g.cs.out.Line("thru %s", method)
	return func() {
		if mutating {
			g.cs.learnVids()
		}
	}
}

func (g *c21Gate) CreateBucket(ctx context.Context, b storage.BucketName) error {
	if !c21IsClient(ctx) {
		return g.worker("CreateBucket", b, "", func() error { return g.Next.CreateBucket(ctx, b) })
	}
	defer g.client("CreateBucket", false)()
	return g.Next.CreateBucket(ctx, b)
}

func (g *c21Gate) DeleteBucket(ctx context.Context, b storage.BucketName) error {
	if !c21IsClient(ctx) {
		return g.worker("DeleteBucket", b, "", func() error { return g.Next.DeleteBucket(ctx, b) })
	}
	defer g.client("DeleteBucket", false)()
	return g.Next.DeleteBucket(ctx, b)
}

func (g *c21Gate) PutObject(ctx context.Context, b storage.BucketName, k storage.ObjectKey, ct *string, r io.Reader, ci *storage.ChecksumInput, o *storage.PutObjectOptions) (*storage.PutObjectResult, error) {
	if !c21IsClient(ctx) {
		var res *storage.PutObjectResult
		err := g.worker("PutObject", b, k.String(), func() error {
			var e error
			res, e = g.Next.PutObject(ctx, b, k, ct, r, ci, o)
			return e
		})
		return res, err
	}
	defer g.client("PutObject", true)()
	return g.Next.PutObject(ctx, b, k, ct, r, ci, o)
}

func (g *c21Gate) DeleteObject(ctx context.Context, b storage.BucketName, k storage.ObjectKey, o *storage.DeleteObjectOptions) (*storage.DeleteObjectResult, error) {
	if !c21IsClient(ctx) {
		var res *storage.DeleteObjectResult
		err := g.worker("DeleteObject", b, k.String(), func() error {
			var e error
			res, e = g.Next.DeleteObject(ctx, b, k, o)
			return e
		})
		return res, err
	}
	defer g.client("DeleteObject", true)()
	return g.Next.DeleteObject(ctx, b, k, o)
}

// the remaining methods used by histories: record the moment the caller reaches the inner storage
func (g *c21Gate) PutBucketVersioningConfiguration(ctx context.Context, b storage.BucketName, c *storage.BucketVersioningConfiguration) error {
	defer g.client("PutBucketVersioningConfiguration", false)()
	return g.Next.PutBucketVersioningConfiguration(ctx, b, c)
}
func (g *c21Gate) GetObject(ctx context.Context, b storage.BucketName, k storage.ObjectKey, rs []storage.ByteRange, o *storage.GetObjectOptions) (*storage.Object, []io.ReadCloser, error) {
	defer g.client("GetObject", false)()
	return g.Next.GetObject(ctx, b, k, rs, o)
}
func (g *c21Gate) HeadObject(ctx context.Context, b storage.BucketName, k storage.ObjectKey, o *storage.HeadObjectOptions) (*storage.Object, error) {
	defer g.client("HeadObject", false)()
	return g.Next.HeadObject(ctx, b, k, o)
}
func (g *c21Gate) CopyObject(ctx context.Context, sb storage.BucketName, sk storage.ObjectKey, db storage.BucketName, dk storage.ObjectKey, o *storage.CopyObjectOptions) (*storage.CopyObjectResult, error) {
	defer g.client("CopyObject", true)()
	return g.Next.CopyObject(ctx, sb, sk, db, dk, o)
}
func (g *c21Gate) AppendObject(ctx context.Context, b storage.BucketName, k storage.ObjectKey, r io.Reader, ci *storage.ChecksumInput, o *storage.AppendObjectOptions) (*storage.AppendObjectResult, error) {
	defer g.client("AppendObject", true)()
	return g.Next.AppendObject(ctx, b, k, r, ci, o)
}
func (g *c21Gate) ListObjects(ctx context.Context, b storage.BucketName, o storage.ListObjectsOptions) (*storage.ListBucketResult, error) {
	defer g.client("ListObjects", false)()
	return g.Next.ListObjects(ctx, b, o)
}
func (g *c21Gate) ListObjectVersions(ctx context.Context, b storage.BucketName, o storage.ListObjectVersionsOptions) (*storage.ListObjectVersionsResult, error) {
	defer g.client("ListObjectVersions", false)()
	return g.Next.ListObjectVersions(ctx, b, o)
}
func (g *c21Gate) ListBuckets(ctx context.Context) ([]storage.Bucket, error) {
	defer g.client("ListBuckets", false)()
	return g.Next.ListBuckets(ctx)
}
func (g *c21Gate) GetObjectTagging(ctx context.Context, b storage.BucketName, k storage.ObjectKey, o *storage.ObjectTaggingOptions) (map[string]string, error) {
	defer g.client("GetObjectTagging", false)()
	return g.Next.GetObjectTagging(ctx, b, k, o)
}
func (g *c21Gate) PutObjectTagging(ctx context.Context, b storage.BucketName, k storage.ObjectKey, t map[string]string, o *storage.ObjectTaggingOptions) error {
	defer g.client("PutObjectTagging", false)()
	return g.Next.PutObjectTagging(ctx, b, k, t, o)
}
func (g *c21Gate) DeleteObjectTagging(ctx context.Context, b storage.BucketName, k storage.ObjectKey, o *storage.ObjectTaggingOptions) error {
	defer g.client("DeleteObjectTagging", false)()
	return g.Next.DeleteObjectTagging(ctx, b, k, o)
}
func (g *c21Gate) TransitionObjectStorageClass(ctx context.Context, b storage.BucketName, k storage.ObjectKey, cls string, o *storage.TransitionObjectStorageClassOptions) error {
	defer g.client("TransitionObjectStorageClass", false)()
	return g.Next.TransitionObjectStorageClass(ctx, b, k, cls, o)
}

// ---------------------------------------------------------------- outbox repository double

type c21Repo struct {
	storageoutboxentry.Repository
	cs *c21Case
}

// c21NextMilli: entry ids are ULIDs from ulid.Make(); two entries made within one millisecond keep
// their order only if no other goroutine (another lane) resets the process-wide monotonic entropy in
// between. Spacing a case's entries by a millisecond keeps "ids ascend in acceptance order" true.
func c21NextMilli(last *int64) {
	for time.Now().UnixMilli() <= *last {
		time.Sleep(200 * time.Microsecond)
	}
	*last = time.Now().UnixMilli()
}

func (r *c21Repo) SaveStorageOutboxEntry(ctx context.Context, tx *sql.Tx, outboxId string, e *storageoutboxentry.Entity) error {
	c21NextMilli(&r.cs.lastMs)
	err := r.Repository.SaveStorageOutboxEntry(ctx, tx, outboxId, e)
	if err == nil && e.Id != nil {
		cs := r.cs
		if _, ok := cs.entries[e.Id.String()]; !ok {
			n := len(cs.entries)
			cs.entries[e.Id.String()] = n
			cs.saved = append(cs.saved, e.Id.String())
			cs.pending++
			cs.out.Line("queued %d %s %s %s", n, e.Operation, strings.TrimPrefix(e.Bucket.String(), "bkt-"), c21KeyTok(e.Key))
		}
	}
	return err
}

func c21KeyTok(k string) string {
	if k == "" {
		return "~"
	}
	return k
}

func (r *c21Repo) ClaimFirstStorageOutboxEntry(ctx context.Context, tx *sql.Tx, outboxId string, owner string, now time.Time, until time.Time) (*storageoutboxentry.Entity, bool, error) {
	e, claimed, err := r.Repository.ClaimFirstStorageOutboxEntry(ctx, tx, outboxId, owner, now, until)
	cs := r.cs
	if err == nil && e != nil && claimed {
		cs.curEntry = e.Id.String()
	} else if err == nil {
		select {
		case cs.ev <- c21Event{kind: "claimNone"}:
		case <-cs.quit:
		}
	}
	return e, claimed, err
}

// observeWait is called (on the caller's goroutine) when a wait function looks up the newest
// entry of its scope. In "before" mode the worker is let through right here, so that the caller's
// first poll already finds its scope drained; in "after" mode the first poll sees the entry, the
// flushes happen while the caller sleeps its 200 ms.
func (r *c21Repo) observeWait(scope, bucket, key string, e *storageoutboxentry.Entity) {
	cs := r.cs
	if e == nil {
		cs.out.Line("wait %s %s %s last=none -", scope, bucket, c21KeyTok(key))
		return
	}
	n, ok := cs.entries[e.Id.String()]
	if !ok {
		cs.unexpected("wait found an unknown entry")
		return
	}
	mode := cs.waitMode
	if mode == "" {
		mode = "before"
		if cs.rng.Chance(1, 2) {
			mode = "after"
		}
	}
	cs.out.Line("wait %s %s %s last=%d %s", scope, bucket, c21KeyTok(key), n, mode)
	if mode == "before" {
		cs.flushThrough(n)
	} else {
		cs.pollDebt[scope+"/"+bucket+"/"+key] = n
	}
}

// observePoll is called before a poll for the oldest entry of a scope is delegated. In "after"
// mode the first poll must still see the entry (nothing has been flushed); only when the caller
// comes back — i.e. it really slept and polls again — is the worker let through. A wait loop that
// gives up too early therefore reaches the inner storage with its scope still queued.
func (r *c21Repo) observePoll(scope, bucket, key string) {
	cs := r.cs
	id := scope + "/" + bucket + "/" + key
	if n, ok := cs.pollDebt[id]; ok {
		if !cs.pollSeen[id] {
			cs.pollSeen[id] = true
			return
		}
		delete(cs.pollDebt, id)
		delete(cs.pollSeen, id)
		cs.flushThrough(n)
	}
}

func c21B(b storage.BucketName) string { return strings.TrimPrefix(b.String(), "bkt-") }

func (r *c21Repo) FindLastStorageOutboxEntryForBucket(ctx context.Context, tx *sql.Tx, outboxId string, b storage.BucketName) (*storageoutboxentry.Entity, error) {
	e, err := r.Repository.FindLastStorageOutboxEntryForBucket(ctx, tx, outboxId, b)
	if err == nil {
		r.observeWait("bucket", c21B(b), "", e)
	}
	return e, err
}
func (r *c21Repo) FindFirstStorageOutboxEntryForBucket(ctx context.Context, tx *sql.Tx, outboxId string, b storage.BucketName) (*storageoutboxentry.Entity, error) {
	r.observePoll("bucket", c21B(b), "")
	e, err := r.Repository.FindFirstStorageOutboxEntryForBucket(ctx, tx, outboxId, b)
	return e, err
}
func (r *c21Repo) FindLastStorageOutboxEntryForBucketAndKeyIncludingGlobal(ctx context.Context, tx *sql.Tx, outboxId string, b storage.BucketName, key string) (*storageoutboxentry.Entity, error) {
	e, err := r.Repository.FindLastStorageOutboxEntryForBucketAndKeyIncludingGlobal(ctx, tx, outboxId, b, key)
	if err == nil {
		r.observeWait("keyAndGlobal", c21B(b), key, e)
	}
	return e, err
}
func (r *c21Repo) FindFirstStorageOutboxEntryForBucketAndKeyIncludingGlobal(ctx context.Context, tx *sql.Tx, outboxId string, b storage.BucketName, key string) (*storageoutboxentry.Entity, error) {
	r.observePoll("keyAndGlobal", c21B(b), key)
	e, err := r.Repository.FindFirstStorageOutboxEntryForBucketAndKeyIncludingGlobal(ctx, tx, outboxId, b, key)
	return e, err
}
func (r *c21Repo) FindLastGlobalStorageOutboxEntry(ctx context.Context, tx *sql.Tx, outboxId string) (*storageoutboxentry.Entity, error) {
	e, err := r.Repository.FindLastGlobalStorageOutboxEntry(ctx, tx, outboxId)
	if err == nil {
		r.observeWait("global", "~", "", e)
	}
	return e, err
}
func (r *c21Repo) FindFirstGlobalStorageOutboxEntry(ctx context.Context, tx *sql.Tx, outboxId string) (*storageoutboxentry.Entity, error) {
	r.observePoll("global", "~", "")
	e, err := r.Repository.FindFirstGlobalStorageOutboxEntry(ctx, tx, outboxId)
	return e, err
}
func (r *c21Repo) FindLastGlobalStorageOutboxEntryForBucket(ctx context.Context, tx *sql.Tx, outboxId string, b storage.BucketName) (*storageoutboxentry.Entity, error) {
	e, err := r.Repository.FindLastGlobalStorageOutboxEntryForBucket(ctx, tx, outboxId, b)
	if err == nil {
		r.observeWait("bucketGlobal", c21B(b), "", e)
	}
	return e, err
}
func (r *c21Repo) FindFirstGlobalStorageOutboxEntryForBucket(ctx context.Context, tx *sql.Tx, outboxId string, b storage.BucketName) (*storageoutboxentry.Entity, error) {
	r.observePoll("bucketGlobal", c21B(b), "")
	e, err := r.Repository.FindFirstGlobalStorageOutboxEntryForBucket(ctx, tx, outboxId, b)
	return e, err
}



// ---------------------------------------------------------------- the case

func (cs *c21Case) unexpected(format string, a ...any) {
	cs.out.Line("unexpected %s", strings.ReplaceAll(fmt.Sprintf(format, a...), " ", "-"))
	cs.failed = true
}

// learnVids assigns ordinals to version ids not seen before, in ULID (= creation) order, reading
// the INNER storage directly (going through the outbox storage would force a drain).
func (cs *c21Case) learnVids() { c21LearnVids(cs.raw, cs.s3.vids) }

// nextEvent returns the worker's next event.
func (cs *c21Case) nextEvent(d time.Duration) (c21Event, bool) {
	select {
	case e := <-cs.ev:
		return e, true
	case <-time.After(d):
		return c21Event{}, false
	}
}

// flushOne lets the worker replay exactly one entry (the first of the table) and waits until the
// entry row is gone. No-op on an empty table.
func (cs *c21Case) flushOne() {
	if cs.pending == 0 || cs.jammed || cs.failed {
		return
	}
	for cs.parked == nil {
		e, ok := cs.nextEvent(15 * time.Second)
		if !ok {
			cs.unexpected("worker never reached the inner storage with %d entries pending", cs.pending)
			return
		}
		if e.kind == "arrive" {
			cs.parked = &e
		}
	}
	p := cs.parked
	cs.parked = nil
	n, known := cs.entries[p.entry]
	if !known {
		n = -1
	}
	cs.resume <- struct{}{}
	for {
		e, ok := cs.nextEvent(30 * time.Second)
		if !ok {
			cs.unexpected("replay of entry %d did not return", n)
			return
		}
		if e.kind != "done" {
			continue
		}
		res := "ok"
		if e.err != nil {
			res = "err"
		}
		cs.out.Line("flush %d %s %s %s %s", n, p.method, strings.TrimPrefix(p.bucket, "bkt-"), c21KeyTok(p.key), res)
		if e.err != nil {
			cs.jammed = true
			cs.out.Line("jam")
			cs.cancel() // lets a caller that is polling for this entry return
			return
		}
		break
	}
	cs.pending--
	cs.flushed = n + 1
	// the finalize transaction has committed once the worker claims again
	for {
		e, ok := cs.nextEvent(30 * time.Second)
		if !ok {
			cs.unexpected("worker did not continue after entry %d", n)
			return
		}
		if e.kind == "arrive" {
			cs.parked = &e
			return
		}
		if e.kind == "claimNone" {
			return
		}
	}
}

// flushThrough replays entries until entry n is gone.
func (cs *c21Case) flushThrough(n int) {
	for cs.flushed <= n && cs.pending > 0 && !cs.jammed && !cs.failed {
		cs.flushOne()
	}
}

func (cs *c21Case) checkCount() {
	if cs.jammed || cs.failed {
		return
	}
	count := -1
	_ = database.WithTx(context.Background(), cs.obDB, &sql.TxOptions{ReadOnly: true}, func(ctx context.Context, tx database.Tx) error {
		var err error
		count, err = cs.rawRepo.Count(ctx, tx.SqlTx(), cs.outboxID)
		return err
	})
	if count == cs.pending {
		return
	}
	if len(cs.saved) > 0 && count == cs.pending-len(cs.saved) {
		// the operation's transaction was rolled back: its entries never existed
		for _, id := range cs.saved {
			cs.out.Line("rolledback %d", cs.entries[id])
			delete(cs.entries, id)
			cs.pending--
		}
		return
	}
	cs.unexpected("table holds %d entries, %d expected", count, cs.pending)
}

type c21FailingReader struct{}

func (c21FailingReader) Read([]byte) (int, error) { return 0, errors.New("c21: connection reset by peer (injected)") }

// c21Checksums computes the checksum values the storage layer computes for a body.
func c21Checksums(body []byte) *checksumutils.ChecksumValues {
	_, v, err := checksumutils.CalculateChecksumsStreaming(context.Background(), bytes.NewReader(body), func(r io.Reader) error {
		_, err := io.Copy(io.Discard, r)
		return err
	})
	verifx.Check(err)
	return v
}

// putChecked executes `op put … cs=<ok|bad>:<etag|crc32|crc32c|crc64|sha1|sha256>` or `cs=ioerr`:
// a PutObject that carries a client-supplied checksum (matching, or the well-formed checksum of a
// different body), or whose body breaks off with a read error. The shared s3hist executor always
// passes a nil ChecksumInput, so these puts are issued here; lines and results keep its format.
func (cs *c21Case) putChecked(line string) {
	c := cs.s3
	c.out.Line("%s", line)
	t := strings.Fields(line)
	a := kv(t)
	body := unhexTok(t[4])
	opts := &storage.PutObjectOptions{Tags: decPairs(a["tags"]), Metadata: decMeta(a["md"]), StorageClass: decS(a["cls"]),
		IfNoneMatchStar: a["inm"] == "1", IfMatchETag: imArg(a["im"])}
	var reader io.Reader = bytes.NewReader(body)
	var ci *storage.ChecksumInput
	if a["cs"] == "ioerr" {
		reader = io.MultiReader(bytes.NewReader(body[:len(body)/2]), c21FailingReader{})
	} else {
		p := strings.SplitN(a["cs"], ":", 2)
		src := body
		if p[0] == "bad" {
			src = append(append([]byte{}, body...), '!')
		}
		v := c21Checksums(src)
		ci = &storage.ChecksumInput{}
		switch p[1] {
		case "etag":
			ci.ETag = v.ETag
		case "crc32":
			ci.ChecksumCRC32 = v.ChecksumCRC32
		case "crc32c":
			ci.ChecksumCRC32C = v.ChecksumCRC32C
		case "crc64":
			ci.ChecksumCRC64NVME = v.ChecksumCRC64NVME
		case "sha1":
			ci.ChecksumSHA1 = v.ChecksumSHA1
		default:
			ci.ChecksumSHA256 = v.ChecksumSHA256
		}
	}
	res, err := c.st.PutObject(c.ctx, storage.MustNewBucketName("bkt-"+t[2]), storage.MustNewObjectKey(t[3]), decS(a["ct"]), reader, ci, opts)
	switch {
	case err == nil:
		c.noteEtag(t[2], t[3], *res.ETag, int64(len(body)))
		c.out.Line("res ok vid=%s etag=%s", c.vidOut(res.VersionID), *res.ETag)
	case errors.Is(err, storage.ErrBadDigest):
		c.out.Line("res err BadDigest")
	case a["cs"] == "ioerr":
		c.out.Line("res err ReadError")
	default:
		c.resErr(err)
	}
}

// run executes one script line: an s3hist op line, "flush <n>", "mode <before|after|random>".
func (cs *c21Case) run(line string) {
	if cs.failed || cs.jammed {
		return
	}
	t := strings.Fields(line)
	switch t[0] {
	case "flush":
		n := 1
		fmt.Sscanf(t[1], "%d", &n)
		for i := 0; i < n; i++ {
			cs.flushOne()
		}
	case "mode":
		cs.waitMode = t[1]
		if cs.waitMode == "random" {
			cs.waitMode = ""
		}
	case "op":
		cs.pollDebt, cs.pollSeen = map[string]int{}, map[string]bool{}
		cs.saved = nil
		if t[1] == "put" && kv(t)["cs"] != "" && kv(t)["cs"] != "~" {
			cs.putChecked(line)
		} else {
			cs.s3.exec(line)
		}
		cs.checkCount()
	}
}

// dump drains the table and reads the inner storage's whole state directly.
func (cs *c21Case) dump() {
	for cs.pending > 0 && !cs.jammed && !cs.failed {
		cs.flushOne()
	}
	if cs.jammed || cs.failed {
		return
	}
	cs.learnVids()
	cs.out.Line("dump")
	c21DumpInner(cs.raw, cs.rawS3, cs.s3)
}

// ---------------------------------------------------------------- lanes

type c21Lane struct {
	dir   string
	obDB  database.Database
	stack *verifx.Stack
	n     int
}

func (l *c21Lane) ensure() {
	if l.obDB == nil {
		verifx.Check(os.MkdirAll(l.dir, 0o755))
		l.obDB = verifx.Must(sqlite.OpenDatabase(filepath.Join(l.dir, "outbox.db")))
	}
	if l.stack == nil {
		l.n++
		l.stack = verifx.NewStack(filepath.Join(l.dir, fmt.Sprintf("inner-%d", l.n)), verifx.StackOpts{PartKind: "fs"})
	}
}

// wipe empties the inner storage for the next case; a storage that cannot be emptied is replaced.
func (l *c21Lane) wipe() {
	ctx := context.Background()
	st := l.stack.Storage
	ok := true
	buckets, err := st.ListBuckets(ctx)
	if err != nil {
		ok = false
	}
	for _, b := range buckets {
		if ups, err := st.ListMultipartUploads(ctx, b.Name, storage.ListMultipartUploadsOptions{MaxUploads: 1000}); err == nil {
			for _, u := range ups.Uploads {
				_ = st.AbortMultipartUpload(ctx, b.Name, u.Key, u.UploadId)
			}
		}
		res, err := st.ListObjectVersions(ctx, b.Name, storage.ListObjectVersionsOptions{MaxKeys: 100000})
		if err != nil {
			ok = false
			break
		}
		for _, v := range res.Versions {
			vid := v.VersionID
			if _, err := st.DeleteObject(ctx, b.Name, v.Key, &storage.DeleteObjectOptions{VersionID: &vid}); err != nil {
				ok = false
			}
		}
		if err := st.DeleteBucket(ctx, b.Name); err != nil {
			ok = false
		}
	}
	if !ok {
		l.stack.Close()
		l.stack = nil
	}
}

func (l *c21Lane) close() {
	if l.stack != nil {
		l.stack.Close()
	}
	if l.obDB != nil {
		_ = l.obDB.Close()
	}
	_ = os.RemoveAll(l.dir)
}

var c21StdoutMu sync.Mutex

// c21NewOut returns a verifx.Out that writes to its own file (verifx.NewOut binds to whatever
// os.Stdout is at the time of the call), so that lanes can run cases in parallel and still reuse
// the s3hist executor, which prints through a *verifx.Out.
func c21NewOut(path string) (*verifx.Out, *os.File) {
	f := verifx.Must(os.Create(path))
	c21StdoutMu.Lock()
	old := os.Stdout
	os.Stdout = f
	o := verifx.NewOut()
	os.Stdout = old
	c21StdoutMu.Unlock()
	return o, f
}

func (l *c21Lane) runCase(k int, seed uint64, script []string, genOps int) []byte {
	l.ensure()
	path := filepath.Join(l.dir, fmt.Sprintf("case-%d.txt", k))
	out, file := c21NewOut(path)
	base, cancel := context.WithCancel(context.Background())
	cs := &c21Case{ctx: context.WithValue(base, c21ClientKey{}, true), cancel: cancel, out: out, raw: l.stack.Storage,
		outboxID: fmt.Sprintf("c21-%d", k), obDB: l.obDB, ev: make(chan c21Event, 256), resume: make(chan struct{}),
		quit: make(chan struct{}), entries: map[string]int{}, rng: verifx.NewRng(seed), pollDebt: map[string]int{}, pollSeen: map[string]bool{}}
	cs.rawRepo = verifx.Must(repositoryfactory.NewStorageOutboxEntryRepository(l.obDB))
	gate := &c21Gate{DelegatingStorage: delegator.Wrap(l.stack.Storage), cs: cs}
	repo := &c21Repo{Repository: cs.rawRepo, cs: cs}
	cs.outbox = verifx.Must(outboxst.NewStorage(l.obDB, cs.outboxID, gate, repo, prometheus.NewRegistry(), 0))
	vids := map[string]int{}
	mk := func(st storage.Storage, ctx context.Context) *s3hCase {
		return &s3hCase{ctx: ctx, st: st, out: out, vids: vids, bnams: nil, lastEtag: map[string]string{},
			lastSize: map[string]int64{}, made: map[string]bool{}}
	}
	cs.s3 = mk(cs.outbox, cs.ctx)
	cs.rawS3 = mk(l.stack.Storage, context.Background())
	verifx.Check(cs.outbox.Start(context.Background()))
	func() {
		defer func() {
			if r := recover(); r != nil {
				out.Line("res panic %s", verifx.HexS(fmt.Sprint(r)))
				cs.failed = true
			}
		}()
		if script != nil {
			for _, line := range script {
				cs.run(line)
			}
		} else {
			g := newC21Gen(cs)
			for i := 0; i < genOps; i++ {
				cs.run(g.next())
			}
		}
		cs.dump()
	}()
	close(cs.quit)
	cancel()
	sctx, scancel := context.WithTimeout(context.Background(), 10*time.Second)
	_ = cs.outbox.Stop(sctx)
	scancel()
	out.Flush()
	_ = file.Close()
	data, _ := os.ReadFile(path)
	_ = os.Remove(path)
	l.wipe()
	return data
}

func runC21(args []string) {
	f := verifx.ParseFlags("c21", args, 260, 3000)
	out := verifx.NewOut()
	directed := c21Directed()
	single := len(directed) + f.Cases
	// lease-mode cases (two instances, slow replays, heartbeats) come after the single-worker ones
	nLease := 2 + f.Cases/5
	total := single + nLease
	results := make([][]byte, total)
	const lanes = 8
	var wg sync.WaitGroup
	for li := 0; li < lanes; li++ {
		wg.Add(1)
		go func(li int) {
			defer wg.Done()
			lane := &c21Lane{dir: filepath.Join(f.Scratch, fmt.Sprintf("c21-lane%d", li))}
			defer lane.close()
			for k := li; k < total; k += lanes {
				if !f.Wants(k) {
					continue
				}
				seed := verifx.CaseSeed(f.Seed, k)
				if k >= single {
					d := k - single
					if d > 1 {
						d = -1
					}
					results[k] = lane.runLeaseCase(k, seed, d)
				} else if k < len(directed) {
					results[k] = lane.runCase(k, seed, directed[k], 0)
				} else {
					ops := 14 + int(seed%22)
					results[k] = lane.runCase(k, seed, nil, ops)
				}
			}
		}(li)
	}
	wg.Wait()
	for k, data := range results {
		if data == nil {
			continue
		}
		out.Case(k, verifx.CaseSeed(f.Seed, k))
		for _, l := range strings.Split(strings.TrimRight(string(data), "\n"), "\n") {
			if l != "" {
				out.Line("%s", l)
			}
		}
		out.End()
	}
	out.Flush()
}
