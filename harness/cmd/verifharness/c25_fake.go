//go:build verif

package main

import (
	"context"
	"fmt"
	"sort"
	"strconv"
	"strings"
	"time"

	"github.com/jdillenkofer/pithos/internal/storage"
	"github.com/jdillenkofer/pithos/internal/storage/middlewares/delegator"
	"github.com/jdillenkofer/pithos/internal/verifx"
)

// ---------------------------------------------------------------------------------------------
// C25 trace recorder. Lines are buffered as token lists; time tokens are rendered at the end of
// the case through a mapping (identity = UnixNano for generated times; order-preserving ranks for
// the wall-clock times of the real-storage scenarios, so no wall-clock value reaches the trace).
// ---------------------------------------------------------------------------------------------

type c25Time struct{ t time.Time }

type c25Rec struct {
	lines [][]any
}

func (r *c25Rec) add(toks ...any) { r.lines = append(r.lines, toks) }

func (r *c25Rec) emit(out *verifx.Out, mapT func(time.Time) int64) {
	for _, l := range r.lines {
		var sb strings.Builder
		for i, t := range l {
			if i > 0 {
				sb.WriteByte(' ')
			}
			switch v := t.(type) {
			case c25Time:
				sb.WriteString(strconv.FormatInt(mapT(v.t), 10))
			case string:
				sb.WriteString(v)
			case int:
				sb.WriteString(strconv.Itoa(v))
			case int64:
				sb.WriteString(strconv.FormatInt(v, 10))
			case bool:
				if v {
					sb.WriteString("1")
				} else {
					sb.WriteString("0")
				}
			default:
				sb.WriteString(fmt.Sprint(v))
			}
		}
		out.Line("%s", sb.String())
	}
}

const c25None = "~"

func c25OptHex(s *string) string {
	if s == nil {
		return c25None
	}
	return verifx.HexS(*s)
}

func c25OptInt32(v *int32) string {
	if v == nil {
		return c25None
	}
	return strconv.Itoa(int(*v))
}

func c25OptInt64(v *int64) string {
	if v == nil {
		return c25None
	}
	return strconv.FormatInt(*v, 10)
}

func c25TagTok(k, v string) string { return verifx.HexS(k) + ":" + verifx.HexS(v) }

func c25TagsTok(m map[string]string) string {
	if len(m) == 0 {
		return c25None
	}
	ks := make([]string, 0, len(m))
	for k := range m {
		ks = append(ks, k)
	}
	sort.Strings(ks)
	parts := make([]string, len(ks))
	for i, k := range ks {
		parts[i] = c25TagTok(k, m[k])
	}
	return strings.Join(parts, ",")
}

func c25LifecycleTagsTok(ts []storage.LifecycleTag) string {
	if len(ts) == 0 {
		return c25None
	}
	parts := make([]string, len(ts))
	for i, t := range ts {
		parts[i] = c25TagTok(t.Key, t.Value)
	}
	return strings.Join(parts, ",")
}

func c25ErrTok(err error) string {
	switch err {
	case nil:
		return "ok"
	case storage.ErrPreconditionFailed:
		return "precond"
	case storage.ErrNoSuchKey:
		return "nosuchkey"
	case storage.ErrNoSuchBucket:
		return "nosuchbucket"
	}
	return "err"
}

// recRules prints the configuration the reconciler is handed.
func (r *c25Rec) recRules(cfg *storage.BucketLifecycleConfiguration) {
	valid := storage.ValidateBucketLifecycleConfiguration(cfg) == nil
	r.add("valid", valid)
	for i := range cfg.Rules {
		ru := &cfg.Rules[i]
		f := ru.Filter
		toks := []any{"rule", ru.Status == storage.LifecycleRuleStatusEnabled, c25OptHex(ru.Prefix), f != nil}
		if f != nil {
			ft := c25None
			if f.Tag != nil {
				ft = c25TagTok(f.Tag.Key, f.Tag.Value)
			}
			toks = append(toks, c25OptHex(f.Prefix), ft, c25OptInt64(f.ObjectSizeGreaterThan), c25OptInt64(f.ObjectSizeLessThan), f.And != nil)
			if f.And != nil {
				toks = append(toks, c25OptHex(f.And.Prefix), c25LifecycleTagsTok(f.And.Tags), c25OptInt64(f.And.ObjectSizeGreaterThan), c25OptInt64(f.And.ObjectSizeLessThan))
			} else {
				toks = append(toks, c25None, c25None, c25None, c25None)
			}
		} else {
			toks = append(toks, c25None, c25None, c25None, c25None, false, c25None, c25None, c25None, c25None)
		}
		e := ru.Expiration
		toks = append(toks, e != nil)
		if e != nil {
			toks = append(toks, c25OptInt32(e.Days))
			if e.Date != nil {
				toks = append(toks, c25Time{*e.Date})
			} else {
				toks = append(toks, c25None)
			}
			if e.ExpiredObjectDeleteMarker == nil {
				toks = append(toks, c25None)
			} else {
				toks = append(toks, *e.ExpiredObjectDeleteMarker)
			}
		} else {
			toks = append(toks, c25None, c25None, c25None)
		}
		if ru.AbortIncompleteMultipartUpload == nil {
			toks = append(toks, c25None)
		} else if ru.AbortIncompleteMultipartUpload.DaysAfterInitiation == nil {
			toks = append(toks, "n")
		} else {
			toks = append(toks, int(*ru.AbortIncompleteMultipartUpload.DaysAfterInitiation))
		}
		ne := ru.NoncurrentVersionExpiration
		toks = append(toks, ne != nil)
		if ne != nil {
			toks = append(toks, c25OptInt32(ne.NoncurrentDays), c25OptInt32(ne.NewerNoncurrentVersions))
		} else {
			toks = append(toks, c25None, c25None)
		}
		r.add(toks...)
		for j := range ru.Transitions {
			t := &ru.Transitions[j]
			var d any = c25None
			if t.Date != nil {
				d = c25Time{*t.Date}
			}
			r.add("tr", c25OptInt32(t.Days), d, verifx.HexS(t.StorageClass))
		}
		for j := range ru.NoncurrentVersionTransitions {
			t := &ru.NoncurrentVersionTransitions[j]
			r.add("nctr", c25OptInt32(t.NoncurrentDays), c25OptInt32(t.NewerNoncurrentVersions), verifx.HexS(t.StorageClass))
		}
	}
}

// ---------------------------------------------------------------------------------------------
// In-memory inner storage: a small versioned object store that serves the generated history,
// honours IfMatchETag exactly like the SQL metadata store, and records every listing it serves
// and every mutating call (with the TRUE history of the key at the moment of the call).
// ---------------------------------------------------------------------------------------------

type c25Ver struct {
	vid     string
	dm      bool
	created time.Time // true creation instant
	lm      time.Time // LastModified as the storage reports it
	size    int64
	etag    string
	cls     *string
	tags    map[string]string
	isNew   bool // written by the swap, i.e. after the listing
	ncSince time.Time // when it stopped being the current version (zero: it is current / never was superseded)
}

type c25Upl struct {
	key       string
	id        string
	initiated time.Time
}

type c25Fake struct {
	delegator.DelegatingStorage // Next == nil: any call the fake does not implement panics (recorded)
	rec                         *c25Rec
	bucket                      storage.BucketName
	mode                        string // unversioned | enabled | suspended
	regime                      string // s3: LastModified = creation; pithos: LastModified = last row update
	listOrder                   string // recency | nulllast
	// pageSize > 0: ListObjectVersions hands out at most that many entries per call and sets the
	// continuation markers (S3 allows short pages), so marker handling of the reconciler is exercised
	// without thousands of versions. zone: the time zone the listings report LastModified in (same
	// instants) — database drivers may hand out non-UTC locations.
	pageSize int
	zone     *time.Location
	listTags                    bool   // ListObjects entries carry the tag set
	keys                        []string
	chains                      map[string][]*c25Ver // newest first; [0] is the current version
	uploads                     []*c25Upl
	cfg                         *storage.BucketLifecycleConfiguration
	now                         time.Time
	nvid                        int
	swapKey                     string // replace this key's object between listing and the first act on it
	swapKind                    string // current | nullnoncurrent
	swapped                     bool
}

var _ storage.Storage = (*c25Fake)(nil)

func (f *c25Fake) Start(context.Context) error { return nil }
func (f *c25Fake) Stop(context.Context) error  { return nil }

func (f *c25Fake) ListBuckets(context.Context) ([]storage.Bucket, error) {
	return []storage.Bucket{{Name: f.bucket, CreationDate: f.now.AddDate(-1, 0, 0)}}, nil
}

func (f *c25Fake) GetBucketLifecycleConfiguration(_ context.Context, b storage.BucketName) (*storage.BucketLifecycleConfiguration, error) {
	if f.cfg == nil {
		return nil, storage.ErrNoSuchLifecycleConfiguration
	}
	f.rec.recRules(f.cfg)
	return f.cfg, nil
}

func (f *c25Fake) newVid() string {
	f.nvid++
	return fmt.Sprintf("v%05d", f.nvid)
}

func (f *c25Fake) ListObjects(_ context.Context, _ storage.BucketName, opts storage.ListObjectsOptions) (*storage.ListBucketResult, error) {
	f.rec.add("phase", "objects")
	res := &storage.ListBucketResult{}
	for _, k := range f.keys {
		ch := f.chains[k]
		if len(ch) == 0 || ch[0].dm {
			continue
		}
		if opts.StartAfter != nil && k <= *opts.StartAfter {
			continue
		}
		v := ch[0]
		o := storage.Object{Key: storage.MustNewObjectKey(k), LastModified: f.lmOut(v.lm), ETag: v.etag, Size: v.size, StorageClass: v.cls}
		vid := v.vid
		o.VersionID = &vid
		var lt map[string]string
		if f.listTags && len(v.tags) > 0 {
			lt = map[string]string{}
			for a, b := range v.tags {
				lt[a] = b
			}
			o.Tags = lt
		}
		f.rec.add("obj", verifx.HexS(k), c25Time{v.lm}, verifx.HexS(v.etag), v.size, verifx.HexS(storage.EffectiveStorageClass(v.cls)), c25TagsTok(lt), c25TagsTok(v.tags))
		res.Objects = append(res.Objects, o)
	}
	return res, nil
}

func (f *c25Fake) lmOut(t time.Time) time.Time {
	if f.zone != nil {
		return t.In(f.zone)
	}
	return t
}

func (f *c25Fake) ListObjectVersions(_ context.Context, _ storage.BucketName, opts storage.ListObjectVersionsOptions) (*storage.ListObjectVersionsResult, error) {
	first := opts.KeyMarker == nil || *opts.KeyMarker == ""
	if first {
		f.rec.add("phase", "versions")
	}
	res := &storage.ListObjectVersionsResult{}
	var all []storage.ObjectVersion
	for _, k := range f.keys {
		ch := append([]*c25Ver(nil), f.chains[k]...)
		if f.listOrder == "nulllast" {
			sort.SliceStable(ch, func(i, j int) bool { return ch[i].vid != "null" && ch[j].vid == "null" })
		}
		cur := f.chains[k]
		for _, v := range ch {
			ov := storage.ObjectVersion{Key: storage.MustNewObjectKey(k), VersionID: v.vid, IsDeleteMarker: v.dm, IsLatest: len(cur) > 0 && cur[0] == v,
				LastModified: f.lmOut(v.lm), Size: v.size, StorageClass: v.cls}
			et := c25None
			if !v.dm {
				e := v.etag
				ov.ETag = &e
				et = verifx.HexS(e)
			}
			if first { // the trace carries the whole listing once, whatever the paging
				f.rec.add("ver", verifx.HexS(k), verifx.HexS(v.vid), v.dm, ov.IsLatest, c25Time{v.lm}, v.size, et, verifx.HexS(storage.EffectiveStorageClass(v.cls)), c25TagsTok(v.tags))
			}
			all = append(all, ov)
		}
	}
	// continuation: resume after (KeyMarker, VersionIDMarker); a key marker alone skips the whole key
	start := 0
	if !first {
		km := *opts.KeyMarker
		vm := ""
		if opts.VersionIDMarker != nil {
			vm = *opts.VersionIDMarker
		}
		start = len(all)
		for i, ov := range all {
			if vm != "" {
				if ov.Key.String() == km && ov.VersionID == vm {
					start = i + 1
					break
				}
			} else if ov.Key.String() > km {
				start = i
				break
			}
		}
	}
	end := len(all)
	if f.pageSize > 0 && start+f.pageSize < end {
		end = start + f.pageSize
		res.IsTruncated = true
		last := all[end-1]
		k, v := last.Key.String(), last.VersionID
		res.NextKeyMarker, res.NextVersionIDMarker = &k, &v
	}
	res.Versions = all[start:end]
	return res, nil
}

func (f *c25Fake) ListMultipartUploads(_ context.Context, _ storage.BucketName, _ storage.ListMultipartUploadsOptions) (*storage.ListMultipartUploadsResult, error) {
	f.rec.add("phase", "uploads")
	res := &storage.ListMultipartUploadsResult{BucketName: f.bucket}
	for _, u := range f.uploads {
		f.rec.add("upl", verifx.HexS(u.key), verifx.HexS(u.id), c25Time{u.initiated})
		res.Uploads = append(res.Uploads, storage.Upload{Key: storage.MustNewObjectKey(u.key), UploadId: storage.MustNewUploadId(u.id), Initiated: u.initiated})
	}
	return res, nil
}

func (f *c25Fake) find(key string, vid *string) (int, *c25Ver) {
	ch := f.chains[key]
	if vid == nil {
		if len(ch) == 0 {
			return -1, nil
		}
		return 0, ch[0]
	}
	for i, v := range ch {
		if v.vid == *vid {
			return i, v
		}
	}
	return -1, nil
}

func (f *c25Fake) GetObjectTagging(_ context.Context, _ storage.BucketName, key storage.ObjectKey, opts *storage.ObjectTaggingOptions) (map[string]string, error) {
	var vid *string
	if opts != nil {
		vid = opts.VersionID
	}
	_, v := f.find(key.String(), vid)
	if v == nil || v.dm {
		return nil, storage.ErrNoSuchKey
	}
	out := map[string]string{}
	for a, b := range v.tags {
		out[a] = b
	}
	return out, nil
}

// truth prints the key's true history (newest first) as it is right now.
func (f *c25Fake) truth(key string) {
	for i, v := range f.chains[key] {
		var since any = c25None
		if i > 0 {
			since = c25Time{v.ncSince}
		}
		f.rec.add("tv", verifx.HexS(v.vid), v.dm, c25Time{v.created}, v.size, verifx.HexS(v.etag), verifx.HexS(storage.EffectiveStorageClass(v.cls)), c25TagsTok(v.tags), c25Time{v.lm}, v.isNew, since)
	}
}

// superseded stamps the moment the versions below the new current one stopped being current.
func (f *c25Fake) superseded(key string) {
	ch := f.chains[key]
	for i, v := range ch {
		if i == 0 {
			v.ncSince = time.Time{}
		} else if v.ncSince.IsZero() {
			v.ncSince = ch[0].created
		}
	}
}

// maybeSwap replaces the designated object after it has been listed and before the first
// mutating call on its key is executed.
func (f *c25Fake) maybeSwap(key string) {
	if f.swapped || f.swapKey != key || f.swapKey == "" {
		return
	}
	f.swapped = true
	ch := f.chains[key]
	t := f.now.Add(-time.Second)
	nv := &c25Ver{created: t, lm: t, size: 7777, etag: "feedface" + strconv.Itoa(len(ch)), tags: map[string]string{}, isNew: true}
	// the writer keeps the tag set of what it replaces (tags are fetched lazily, after the swap)
	if f.swapKind == "current" && len(ch) > 0 {
		nv.tags = ch[0].tags
	}
	if f.swapKind == "nullnoncurrent" {
		for _, v := range ch {
			if v.vid == "null" {
				nv.tags = v.tags
			}
		}
	}
	switch f.swapKind {
	case "current":
		// an overwrite: unversioned replaces in place, versioned stacks a new version
		if f.mode == "enabled" {
			nv.vid = f.newVid()
			if f.regime == "pithos" && len(ch) > 0 {
				ch[0].lm = t
			}
			f.chains[key] = append([]*c25Ver{nv}, ch...)
		} else {
			nv.vid = "null"
			rest := []*c25Ver{}
			for _, v := range ch {
				if v.vid != "null" {
					rest = append(rest, v)
				}
			}
			if f.regime == "pithos" && len(ch) > 0 && ch[0].vid != "null" {
				ch[0].lm = t
			}
			f.chains[key] = append([]*c25Ver{nv}, rest...)
		}
	case "nullnoncurrent":
		// versioning gets suspended and the key is written: the null version is replaced in place
		// and becomes the current version
		f.mode = "suspended"
		nv.vid = "null"
		rest := []*c25Ver{}
		for _, v := range ch {
			if v.vid != "null" {
				rest = append(rest, v)
			}
		}
		if f.regime == "pithos" && len(ch) > 0 && ch[0].vid != "null" {
			ch[0].lm = t
		}
		f.chains[key] = append([]*c25Ver{nv}, rest...)
	}
	f.superseded(key)
	f.rec.add("swap", verifx.HexS(key), f.swapKind)
}

func (f *c25Fake) DeleteObject(_ context.Context, _ storage.BucketName, key storage.ObjectKey, opts *storage.DeleteObjectOptions) (*storage.DeleteObjectResult, error) {
	k := key.String()
	f.maybeSwap(k)
	f.truth(k)
	var vid, ifm *string
	if opts != nil {
		vid, ifm = opts.VersionID, opts.IfMatchETag
	}
	res, err := f.deleteObject(k, vid, ifm)
	f.superseded(k)
	f.rec.add("call", "del", verifx.HexS(k), c25OptHex(vid), c25OptHex(ifm), c25ErrTok(err))
	return res, err
}

func (f *c25Fake) deleteObject(k string, vid, ifm *string) (*storage.DeleteObjectResult, error) {
	ch := f.chains[k]
	if vid != nil {
		i, v := f.find(k, vid)
		if v == nil {
			return &storage.DeleteObjectResult{VersionID: vid}, nil
		}
		if ifm != nil && *ifm != storage.ETagWildcard && (v.dm || v.etag != *ifm) {
			return nil, storage.ErrPreconditionFailed
		}
		nch := append(append([]*c25Ver{}, ch[:i]...), ch[i+1:]...)
		if i == 0 && len(nch) > 0 && f.regime == "pithos" {
			nch[0].lm = f.now // the promoted row is saved again
		}
		f.chains[k] = nch
		id := v.vid
		return &storage.DeleteObjectResult{VersionID: &id, IsDeleteMarker: v.dm}, nil
	}
	var cur *c25Ver
	if len(ch) > 0 {
		cur = ch[0]
	}
	if ifm != nil {
		if cur == nil || cur.dm || (*ifm != storage.ETagWildcard && cur.etag != *ifm) {
			return nil, storage.ErrPreconditionFailed
		}
	}
	switch f.mode {
	case "unversioned":
		f.chains[k] = nil
		return &storage.DeleteObjectResult{}, nil
	default:
		rest := ch
		dmVid := f.newVid()
		if f.mode == "suspended" {
			// like the SQL metadata store: the null version is removed, the marker gets a fresh id
			rest = []*c25Ver{}
			for _, v := range ch {
				if v.vid != "null" {
					rest = append(rest, v)
				}
			}
		}
		if f.regime == "pithos" && len(rest) > 0 && cur != nil && rest[0] == cur {
			cur.lm = f.now
		}
		dm := &c25Ver{vid: dmVid, dm: true, created: f.now, lm: f.now}
		f.chains[k] = append([]*c25Ver{dm}, rest...)
		return &storage.DeleteObjectResult{VersionID: &dmVid, IsDeleteMarker: true}, nil
	}
}

func (f *c25Fake) TransitionObjectStorageClass(_ context.Context, _ storage.BucketName, key storage.ObjectKey, target string, opts *storage.TransitionObjectStorageClassOptions) error {
	k := key.String()
	f.maybeSwap(k)
	f.truth(k)
	var vid, ifm *string
	if opts != nil {
		vid, ifm = opts.VersionID, opts.IfMatchETag
	}
	err := func() error {
		if !storage.IsValidStorageClass(target) {
			return storage.ErrInvalidStorageClass
		}
		_, v := f.find(k, vid)
		if v == nil || v.dm {
			return storage.ErrNoSuchKey
		}
		if ifm != nil && *ifm != storage.ETagWildcard && v.etag != *ifm {
			return storage.ErrPreconditionFailed
		}
		t := target
		v.cls = &t
		if f.regime == "pithos" {
			v.lm = f.now
		}
		return nil
	}()
	f.rec.add("call", "trans", verifx.HexS(k), verifx.HexS(target), c25OptHex(vid), c25OptHex(ifm), c25ErrTok(err))
	return err
}

func (f *c25Fake) AbortMultipartUpload(_ context.Context, _ storage.BucketName, key storage.ObjectKey, id storage.UploadId) error {
	var found *c25Upl
	rest := []*c25Upl{}
	for _, u := range f.uploads {
		if found == nil && u.key == key.String() && u.id == id.String() {
			found = u
			continue
		}
		rest = append(rest, u)
	}
	if found != nil {
		f.rec.add("tu", c25Time{found.initiated})
	} else {
		f.rec.add("tu", c25None)
	}
	f.uploads = rest
	var err error
	if found == nil {
		err = fmt.Errorf("NoSuchUpload")
	}
	f.rec.add("call", "abort", verifx.HexS(key.String()), verifx.HexS(id.String()), c25ErrTok(err))
	return err
}
