//go:build verif

package main

import (
	"context"
	"crypto/md5"
	"crypto/sha1"
	"crypto/sha256"
	"encoding/base64"
	"encoding/binary"
	"encoding/hex"
	"fmt"
	"hash/crc32"
	"hash/crc64"
	"io"
	"strings"
	"sync"

	"github.com/jdillenkofer/pithos/internal/checksumutils"
	"github.com/jdillenkofer/pithos/internal/verifx"
)

// C35: checksum arithmetic. See /verif/lean/Driver/C35.lean for the trace format.
//
//	kind crc      the repo's CRC hashes (NewChecksumTrailerHash) on byte strings       → tie with the bit-level model
//	kind comb     CombineCrc32/32c/64Nvme on (crc a, crc b, len b), a and b shipped     → tie + judge
//	kind combbig  the same for inputs too large to ship (stdlib CRC of a++b observed),
//	              and for arbitrary (crcA, crcB, len) triples with len up to 2^62 (tie only)
//	kind stream   CalculateChecksumsStreaming under adversarial read schedules           → judge (+ tie on small data)

func init() { register("c35", runC35) }

const c35BlockSize = 256 * 1024 // hashBlockSize (unexported); the schedules aim at its multiples

// independent of the repo's unexported constant on purpose
var c35NvmeTable = crc64.MakeTable(0x9a6c9329ac4bc9b5)
var c35CastagnoliTable = crc32.MakeTable(crc32.Castagnoli)

var c35Algs = []string{"crc32", "crc32c", "crc64nvme"}

// repoCrc computes the CRC the way the repository defines the hash (one Write, Sum).
func c35RepoCrc(alg string, data []byte) []byte {
	h, ok := checksumutils.NewChecksumTrailerHash("x-amz-checksum-" + alg)
	if !ok {
		panic("no trailer hash for " + alg)
	}
	_, _ = h.Write(data)
	return h.Sum(nil)
}

// stdCrc: the Go standard library, one shot.
func c35StdCrc(alg string, data []byte) []byte {
	switch alg {
	case "crc32":
		b := make([]byte, 4)
		binary.BigEndian.PutUint32(b, crc32.ChecksumIEEE(data))
		return b
	case "crc32c":
		b := make([]byte, 4)
		binary.BigEndian.PutUint32(b, crc32.Checksum(data, c35CastagnoliTable))
		return b
	default:
		b := make([]byte, 8)
		binary.BigEndian.PutUint64(b, crc64.Checksum(data, c35NvmeTable))
		return b
	}
}

func c35Combine(alg string, a, b []byte, n int64) []byte {
	switch alg {
	case "crc32":
		return checksumutils.CombineCrc32(a, b, n)
	case "crc32c":
		return checksumutils.CombineCrc32c(a, b, n)
	default:
		return checksumutils.CombineCrc64Nvme(a, b, n)
	}
}

// ---------- read schedules ----------

// schedReader delivers data in the chunk sizes produced by next(); a size of 0 is a (0, nil)
// read; eofWithData returns io.EOF together with the final bytes.
type c35SchedReader struct {
	data        []byte
	pos         int
	next        func() int
	eofWithData bool
	zeroBudget  int // at most this many (0, nil) reads (io.Reader discourages them; callers must cope)
}

func (r *c35SchedReader) Read(p []byte) (int, error) {
	if r.pos >= len(r.data) {
		return 0, io.EOF
	}
	if len(p) == 0 {
		return 0, nil
	}
	n := r.next()
	if n == 0 {
		if r.zeroBudget > 0 {
			r.zeroBudget--
			return 0, nil
		}
		n = 1
	}
	if n > len(p) {
		n = len(p)
	}
	if n > len(r.data)-r.pos {
		n = len(r.data) - r.pos
	}
	copy(p, r.data[r.pos:r.pos+n])
	r.pos += n
	if r.pos == len(r.data) && r.eofWithData {
		return n, io.EOF
	}
	return n, nil
}

type c35Schedule struct {
	name        string
	bufSize     int        // size of the buffer doRead passes down
	sizes       func() int // reader-side chunk sizes
	eofWithData bool
	limit       int // doRead stops after this many bytes (<0: read to EOF)
}

func c35Cycle(xs ...int) func() int {
	i := 0
	return func() int { v := xs[i%len(xs)]; i++; return v }
}

// c35Schedules returns the named schedules for an input of the given size.
func c35Schedules(r *verifx.Rng, size int) []c35Schedule {
	B := c35BlockSize
	big := 1 << 30
	s := []c35Schedule{
		{"whole", size + 1, c35Cycle(big), false, -1},
		{"whole-eof-with-data", size + 1, c35Cycle(big), true, -1},
		{"one-byte", 1, c35Cycle(1), false, -1},
		{"one-byte-reader", 4096, c35Cycle(1), true, -1},
		{"block-exact", B, c35Cycle(B), false, -1},
		{"block-minus-1", B - 1, c35Cycle(B - 1), false, -1},
		{"block-plus-1", B + 1, c35Cycle(B + 1), true, -1},
		{"straddle", 2 * B, c35Cycle(B-1, 2, B-1, 1, 1, B+3, 3*B/2), false, -1},
		{"zero-length-reads", 8192, c35Cycle(0, 5, 0, 0, 8192, 1, 0, 4095), true, -1},
		{"multi-block-write", 4*B + 7, c35Cycle(big), false, -1},
		{"primes", 65537, c35Cycle(3, 65537, 7, 257, 8191, 1), false, -1},
	}
	// random sizes, skewed to tiny and to near-block; own PRNG so that skipping the case (-only)
	// does not change what later cases draw
	rr := verifx.NewRng(r.Next())
	s = append(s, c35Schedule{"random", 1 + r.Intn(3*B), func() int {
		switch rr.Intn(4) {
		case 0:
			return rr.Intn(4)
		case 1:
			return B - 2 + rr.Intn(5)
		case 2:
			return 1 + rr.Intn(2*B)
		}
		return 1 + rr.Intn(5000)
	}, r.Bool(), -1})
	if size > 0 {
		s = append(s, c35Schedule{"partial", 1 + r.Intn(B+5), c35Cycle(1+r.Intn(B), 1, 1+r.Intn(70000)), false, r.Intn(size + 1)})
	}
	return s
}

func c35HexOfB64(s *string) string {
	if s == nil {
		return "nil"
	}
	b, err := base64.StdEncoding.DecodeString(*s)
	if err != nil {
		return "notbase64:" + hex.EncodeToString([]byte(*s))
	}
	return verifx.Hex(b)
}

func c35HexOfETag(s *string) string {
	if s == nil {
		return "nil"
	}
	t := *s
	if len(t) < 2 || t[0] != '"' || t[len(t)-1] != '"' {
		return "unquoted:" + hex.EncodeToString([]byte(t))
	}
	b, err := hex.DecodeString(t[1 : len(t)-1])
	if err != nil {
		return "nothex:" + hex.EncodeToString([]byte(t))
	}
	return verifx.Hex(b)
}

func c35Pattern(r *verifx.Rng, n int) []byte {
	switch r.Intn(8) {
	case 0:
		return make([]byte, n) // zeros: the CRC register only sees its own feedback
	case 1:
		b := make([]byte, n)
		for i := range b {
			b[i] = 0xff
		}
		return b
	case 2:
		b := make([]byte, n)
		for i := range b {
			b[i] = byte(i)
		}
		return b
	}
	return r.Bytes(n)
}

func c35Size(r *verifx.Rng, max int) int {
	switch r.Intn(10) {
	case 0:
		return 0
	case 1:
		return 1
	case 2, 3:
		return r.Intn(70)
	case 4, 5:
		// around powers of two
		p := 1 << uint(r.Intn(20))
		v := p - 2 + r.Intn(5)
		if v < 0 {
			v = 0
		}
		if v > max {
			v = max
		}
		return v
	}
	return r.Intn(max + 1)
}

type c35StreamResult struct {
	got     []byte // the bytes the schedule delivered
	stream  string // "<md5> <crc32> <crc32c> <crc64nvme> <sha1> <sha256> <bytesRead>" as CalculateChecksumsStreaming returned them
	oneshot string // the same from one-shot standard-library hashing of got
	err     string
}

// c35RunStream runs CalculateChecksumsStreaming over data under the read schedule.
func c35RunStream(data []byte, sc c35Schedule) c35StreamResult {
	rd := &c35SchedReader{data: data, next: sc.sizes, eofWithData: sc.eofWithData, zeroBudget: 64}
	delivered := 0
	n, cs, err := checksumutils.CalculateChecksumsStreaming(context.Background(), rd, func(r io.Reader) error {
		buf := make([]byte, sc.bufSize)
		idle := 0
		for {
			want := len(buf)
			if sc.limit >= 0 && sc.limit-delivered < want {
				want = sc.limit - delivered
			}
			if want == 0 {
				return nil
			}
			m, e := r.Read(buf[:want])
			delivered += m
			if e == io.EOF {
				return nil
			}
			if e != nil {
				return e
			}
			if m == 0 {
				idle++
				if idle > 1000 {
					return io.ErrNoProgress
				}
			}
		}
	})
	res := c35StreamResult{got: data[:delivered]}
	if err != nil {
		res.err = strings.ReplaceAll(err.Error(), " ", "_")
		return res
	}
	res.stream = fmt.Sprintf("%s %s %s %s %s %s %d", c35HexOfETag(cs.ETag), c35HexOfB64(cs.ChecksumCRC32),
		c35HexOfB64(cs.ChecksumCRC32C), c35HexOfB64(cs.ChecksumCRC64NVME), c35HexOfB64(cs.ChecksumSHA1),
		c35HexOfB64(cs.ChecksumSHA256), *n)
	m5 := md5.Sum(res.got)
	s1 := sha1.Sum(res.got)
	s256 := sha256.Sum256(res.got)
	res.oneshot = fmt.Sprintf("%s %s %s %s %s %s %d", verifx.Hex(m5[:]), verifx.Hex(c35StdCrc("crc32", res.got)),
		verifx.Hex(c35StdCrc("crc32c", res.got)), verifx.Hex(c35StdCrc("crc64nvme", res.got)), verifx.Hex(s1[:]),
		verifx.Hex(s256[:]), len(res.got))
	return res
}

func runC35(args []string) {
	f := verifx.ParseFlags("c35", args, 420, 3000)
	out := verifx.NewOut()
	thorough := f.Tier == "thorough"
	k := 0

	// run one case with panic capture
	do := func(seed uint64, body func()) {
		if !f.Wants(k) {
			k++
			return
		}
		out.Case(k, seed)
		k++
		func() {
			defer func() {
				if p := recover(); p != nil {
					out.Line("panic %s", strings.ReplaceAll(fmt.Sprint(p), " ", "_"))
				}
			}()
			body()
		}()
		out.End()
	}

	crcLine := func(d []byte) {
		out.Line("x %s %s %s %s", verifx.Hex(d), verifx.Hex(c35RepoCrc("crc32", d)),
			verifx.Hex(c35RepoCrc("crc32c", d)), verifx.Hex(c35RepoCrc("crc64nvme", d)))
	}
	crcCase := func(seed uint64, vecs [][]byte) {
		do(seed, func() {
			out.Line("kind crc")
			for _, d := range vecs {
				crcLine(d)
			}
		})
	}
	combCase := func(seed uint64, a, b []byte) {
		do(seed, func() {
			out.Line("kind comb")
			out.Line("a %s", verifx.Hex(a))
			out.Line("b %s", verifx.Hex(b))
			for _, alg := range c35Algs {
				ca, cb := c35RepoCrc(alg, a), c35RepoCrc(alg, b)
				out.Line("go %s %s %s %s", alg, verifx.Hex(ca), verifx.Hex(cb), verifx.Hex(c35Combine(alg, ca, cb, int64(len(b)))))
			}
		})
	}
	combBigCase := func(seed uint64, a, b []byte) {
		do(seed, func() {
			out.Line("kind combbig")
			out.Line("lens %d %d", len(a), len(b))
			whole := append(append(make([]byte, 0, len(a)+len(b)), a...), b...)
			for _, alg := range c35Algs {
				ca, cb := c35RepoCrc(alg, a), c35RepoCrc(alg, b)
				out.Line("go %s %s %s %s %s", alg, verifx.Hex(ca), verifx.Hex(cb),
					verifx.Hex(c35Combine(alg, ca, cb, int64(len(b)))), verifx.Hex(c35StdCrc(alg, whole)))
			}
		})
	}
	// arbitrary register values and lengths up to 2^62: exercises every bit of the len2 loop
	combTieCase := func(seed uint64, r *verifx.Rng, n int64) {
		do(seed, func() {
			out.Line("kind combbig")
			out.Line("lens 0 %d", n)
			for _, alg := range c35Algs {
				w := 4
				if alg == "crc64nvme" {
					w = 8
				}
				ca, cb := r.Bytes(w), r.Bytes(w)
				c := c35Combine(alg, ca, cb, n)
				// no data of that length exists here: the "whole" column repeats the combined value
				out.Line("go %s %s %s %s %s", alg, verifx.Hex(ca), verifx.Hex(cb), verifx.Hex(c), verifx.Hex(c))
			}
		})
	}
	streamCase := func(seed uint64, data []byte, sc c35Schedule) {
		do(seed, func() {
			out.Line("kind stream")
			res := c35RunStream(data, sc)
			out.Line("size %d", len(res.got))
			out.Line("sched %s", sc.name)
			if len(res.got) <= 4096 {
				out.Line("data %s", verifx.Hex(res.got))
			}
			if res.err != "" {
				out.Line("error %s", res.err)
				return
			}
			out.Line("stream %s", res.stream)
			out.Line("oneshot %s", res.oneshot)
		})
	}
	// Re-entrancy: the real Combine* functions called from several goroutines at once on
	// independent inputs. Every result is compared with the model (tie) and with the CRC of the
	// concatenation (judge): the implementation must be a FUNCTION of its arguments.
	combConcCase := func(seed uint64, r *verifx.Rng, goroutines, calls int, fixedAlg string) {
		type vec struct {
			alg           string
			la, lb        int64
			ca, cb, whole []byte
			tieOnly       bool
			got           []byte
			panicked      string
		}
		work := make([][]*vec, goroutines)
		for g := range work {
			for i := 0; i < calls; i++ {
				alg := fixedAlg
				if alg == "" {
					alg = verifx.Pick(r, c35Algs)
				}
				v := &vec{alg: alg}
				if r.Chance(1, 5) { // arbitrary registers, long length: a long-running combine
					w := 4
					if alg == "crc64nvme" {
						w = 8
					}
					v.ca, v.cb, v.lb, v.tieOnly = r.Bytes(w), r.Bytes(w), int64(r.Next()>>uint(24+r.Intn(30))), true
				} else {
					a, b := c35Pattern(r, c35Size(r, 3000)), c35Pattern(r, c35Size(r, 3000))
					v.la, v.lb = int64(len(a)), int64(len(b))
					v.ca, v.cb = c35RepoCrc(alg, a), c35RepoCrc(alg, b)
					v.whole = c35StdCrc(alg, append(append([]byte{}, a...), b...))
				}
				work[g] = append(work[g], v)
			}
		}
		do(seed, func() {
			out.Line("kind combconc")
			out.Line("goroutines %d", goroutines)
			var start, done sync.WaitGroup
			start.Add(1)
			for g := range work {
				done.Add(1)
				go func(vs []*vec) {
					defer done.Done()
					start.Wait()
					for _, v := range vs {
						func() {
							defer func() {
								if p := recover(); p != nil {
									v.panicked = strings.ReplaceAll(fmt.Sprint(p), " ", "_")
								}
							}()
							v.got = c35Combine(v.alg, v.ca, v.cb, v.lb)
						}()
					}
				}(work[g])
			}
			start.Done()
			done.Wait()
			for g, vs := range work {
				for _, v := range vs {
					if v.panicked != "" {
						out.Line("panic goroutine%d:%s", g, v.panicked)
						continue
					}
					whole := "-"
					if !v.tieOnly {
						whole = verifx.Hex(v.whole)
					}
					out.Line("cg %d %s %d %d %s %s %s %s", g, v.alg, v.la, v.lb, verifx.Hex(v.ca), verifx.Hex(v.cb), verifx.Hex(v.got), whole)
				}
			}
		})
	}
	// The streaming hasher from several goroutines at once (it shares a buffer pool).
	streamConcCase := func(seed uint64, r *verifx.Rng, goroutines int, sizes []int) {
		type job struct {
			data []byte
			sc   c35Schedule
			res  c35StreamResult
		}
		jobs := make([]*job, goroutines)
		for g := range jobs {
			size := sizes[g%len(sizes)]
			scs := c35Schedules(r, size)
			jobs[g] = &job{data: r.Bytes(size), sc: verifx.Pick(r, scs)}
		}
		do(seed, func() {
			out.Line("kind streamconc")
			out.Line("goroutines %d", goroutines)
			var start, done sync.WaitGroup
			start.Add(1)
			for _, j := range jobs {
				done.Add(1)
				go func(j *job) {
					defer done.Done()
					defer func() {
						if p := recover(); p != nil {
							j.res.err = "panic:" + strings.ReplaceAll(fmt.Sprint(p), " ", "_")
						}
					}()
					start.Wait()
					j.res = c35RunStream(j.data, j.sc)
				}(j)
			}
			start.Done()
			done.Wait()
			for g, j := range jobs {
				if j.res.err != "" {
					out.Line("error goroutine%d:%s", g, j.res.err)
					continue
				}
				out.Line("sc %d %d %s %s %s", g, len(j.res.got), j.sc.name, j.res.stream, j.res.oneshot)
			}
		})
	}

	// ---------------- directed cases ----------------
	// exhaustive: lengths 0, 1, 2
	{
		vecs := [][]byte{{}}
		for b := 0; b < 256; b++ {
			vecs = append(vecs, []byte{byte(b)})
		}
		crcCase(1, vecs)
		for hi := 0; hi < 16; hi++ {
			vecs = vecs[:0]
			for b0 := hi * 16; b0 < hi*16+16; b0++ {
				for b1 := 0; b1 < 256; b1++ {
					vecs = append(vecs, []byte{byte(b0), byte(b1)})
				}
			}
			crcCase(uint64(2+hi), vecs)
		}
	}
	// standard check strings and register-pattern inputs
	crcCase(20, [][]byte{[]byte("123456789"), []byte("The quick brown fox jumps over the lazy dog"),
		make([]byte, 32), {0xff, 0xff, 0xff, 0xff}, {0xff, 0xff, 0xff, 0xff, 0xff, 0xff, 0xff, 0xff}, make([]byte, 4096)})
	dr := verifx.NewRng(0xC35)
	// combine: empty sides, single bytes, every length around powers of two up to 4 KiB
	combCase(21, nil, nil)
	combCase(22, []byte("abc"), nil)
	combCase(23, nil, []byte("abc"))
	combCase(24, []byte{0}, []byte{0})
	combCase(25, []byte("12345"), []byte("6789"))
	for _, lb := range []int{1, 2, 3, 4, 5, 7, 8, 9, 15, 16, 17, 31, 32, 33, 63, 64, 65, 127, 128, 129, 255, 256, 257, 511, 512, 513, 1023, 1024, 1025, 2047, 2048, 2049, 4095, 4096} {
		combCase(uint64(100+lb), dr.Bytes(1+dr.Intn(40)), c35Pattern(dr, lb))
	}
	// combine on large inputs: lengths 2^j-1, 2^j, 2^j+1
	maxPow := 21
	if thorough {
		maxPow = 25
	}
	for j := 13; j <= maxPow; j += 2 {
		for d := -1; d <= 1; d++ {
			combBigCase(uint64(1000+j*3+d), dr.Bytes(1+dr.Intn(100000)), c35Pattern(dr, (1<<uint(j))+d))
		}
	}
	combBigCase(1999, nil, dr.Bytes(300000))
	combBigCase(1998, dr.Bytes(300000), nil)
	// the len2 loop, bit by bit
	for j := 0; j <= 62; j++ {
		combTieCase(uint64(2000+j), dr, int64(1)<<uint(j))
	}
	combTieCase(2100, dr, int64(^uint64(0)>>1)) // MaxInt64: all 63 bits set
	combTieCase(2101, dr, 0x5555555555555555)
	combTieCase(2102, dr, 0x2AAAAAAAAAAAAAAA)
	// streaming: every schedule at the block-size boundaries
	// (k*blockSize-1, exact, +1 for every k up to kMax, under every schedule / read chunk size)
	sizes := []int{0, 1, 2, 4095}
	kMax := 4
	if thorough {
		kMax = 8
	}
	var aroundBlocks []int
	for kk := 1; kk <= kMax; kk++ {
		aroundBlocks = append(aroundBlocks, kk*c35BlockSize-1, kk*c35BlockSize, kk*c35BlockSize+1)
	}
	sizes = append(sizes, aroundBlocks...)
	for _, size := range sizes {
		data := dr.Bytes(size)
		for _, sc := range c35Schedules(dr, size) {
			streamCase(uint64(3000+size), data, sc)
		}
	}
	// re-entrancy: concurrent callers of one CRC variant, of all variants, and of the streaming hasher
	for i, alg := range []string{"crc32", "crc32c", "crc64nvme", "", ""} {
		combConcCase(uint64(4000+i), verifx.NewRng(uint64(0xC35C0+i)), 8, 60, alg)
	}
	streamConcCase(4100, verifx.NewRng(0xC35D0), 6, aroundBlocks)
	streamConcCase(4101, verifx.NewRng(0xC35D1), 8, []int{0, 1, 4095, c35BlockSize, 2 * c35BlockSize, 70000})

	// ---------------- generated cases ----------------
	for c := 0; c < f.Cases; c++ {
		seed := verifx.CaseSeed(f.Seed, k)
		r := verifx.NewRng(seed)
		switch w := r.Intn(100); {
		case w < 25: // model CRC vs the repo's hashes
			n := 1 + r.Intn(6)
			vecs := make([][]byte, n)
			for i := range vecs {
				max := 4096
				if r.Chance(1, 12) {
					max = 65536
					if thorough && r.Chance(1, 4) {
						max = 1 << 20
					}
				}
				vecs[i] = c35Pattern(r, c35Size(r, max))
			}
			crcCase(seed, vecs)
		case w < 60: // combine, inputs shipped
			combCase(seed, c35Pattern(r, c35Size(r, 4096)), c35Pattern(r, c35Size(r, 4096)))
		case w < 70: // combine, big inputs
			max := 2 << 20
			if thorough {
				max = 24 << 20
			}
			combBigCase(seed, c35Pattern(r, c35Size(r, max)), c35Pattern(r, c35Size(r, max)))
		case w < 80: // combine, arbitrary registers and lengths
			combTieCase(seed, r, int64(r.Next()>>uint(1+r.Intn(63))))
		case w < 82: // concurrent combiners
			alg := ""
			if r.Bool() {
				alg = verifx.Pick(r, c35Algs)
			}
			combConcCase(seed, r, 2+r.Intn(7), 15+r.Intn(30), alg)
		case w < 84: // concurrent streaming hashers
			streamConcCase(seed, r, 2+r.Intn(5), []int{r.Intn(4) * c35BlockSize, r.Intn(3*c35BlockSize) + 1, c35Size(r, 4096), r.Intn(4)*c35BlockSize + 1})
		default: // streaming
			var size int
			switch r.Intn(4) {
			case 0:
				size = c35Size(r, 4096)
			case 1:
				size = r.Intn(4)*c35BlockSize + r.Intn(5) - 2
				if size < 0 {
					size = 0
				}
			default:
				max := 3 * c35BlockSize
				if thorough {
					max = 12 * c35BlockSize
				}
				size = r.Intn(max)
			}
			data := c35Pattern(r, size)
			scs := c35Schedules(r, size)
			streamCase(seed, data, verifx.Pick(r, scs))
		}
	}
	out.Flush()
}
