//go:build verif

package main

import (
	"bytes"
	"context"
	"crypto/ed25519"
	"crypto/mldsa"
	"crypto/sha512"
	"encoding/binary"
	"encoding/json"
	"errors"
	"fmt"
	"io"
	"sort"
	"strings"
	"unicode/utf8"

	"github.com/jdillenkofer/pithos/internal/auditlog"
	"github.com/jdillenkofer/pithos/internal/auditlog/serialization"
	"github.com/jdillenkofer/pithos/internal/auditlog/signing"
	"github.com/jdillenkofer/pithos/internal/storage/middlewares/audit"
	"github.com/jdillenkofer/pithos/internal/verifx"
)

// C27: logs are produced by the REAL audit middleware (over an in-memory inner storage double and an
// in-memory sink), then the mutation catalogue is applied and every mutated log is run through the
// REAL Validator — directly, and after a round trip through the REAL binary and JSON serializers.
//
// Trace of one case (= one log with its catalogue):
//   e <i> <field>=<hex>... calc=<hex> ved=<b> vred=<b> vrml=<b> bin=<hex|skip> jp=<json paths|skip>
//   base d1=<v> d0=<v> b1=<v> j1=<v> rtb=<ok|i:fields> rtj=<ok|i:fields>
//   m <kind> <args...> ; calc=.. ved=.. vred=.. vrml=.. ; d1=<v> d0=<v> b1=<v> j1=<v> rtb=<..> rtj=<..>
// verdict <v> = ok | <index>:<reason>; d = validator on the in-memory entries, b/j = after binary/JSON
// round trip; 1/0 = with / without the Ed25519 + ML-DSA verifiers.

func init() { register("c27", runC27) }

type c27Keys struct {
	edPriv    ed25519.PrivateKey
	edSigner  signing.Signer
	mlSigner  signing.Signer
	edVer     *verifx.CachedVerifier
	mlVer     *verifx.CachedVerifier
	foreignEd ed25519.PrivateKey
}

func c27NewKeys() *c27Keys {
	seed := sha512.Sum512([]byte("verif-c27-ed25519"))
	priv := ed25519.NewKeyFromSeed(seed[:32])
	seed2 := sha512.Sum512([]byte("verif-c27-foreign"))
	foreign := ed25519.NewKeyFromSeed(seed2[:32])
	mlPriv := verifx.Must(mldsa.GenerateKey(mldsa.MLDSA87()))
	return &c27Keys{
		edPriv:    priv,
		edSigner:  signing.NewEd25519Signer(priv),
		mlSigner:  signing.NewMlDsa87Signer(mlPriv),
		edVer:     verifx.NewCachedVerifier(signing.NewEd25519Verifier(priv.Public().(ed25519.PublicKey))),
		mlVer:     verifx.NewCachedVerifier(signing.NewMlDsa87Verifier(mlPriv.PublicKey())),
		foreignEd: foreign,
	}
}

type c27Call struct {
	op   string
	args verifx.AuditArgs
	fail bool
}

// c27BuildLog runs the calls through the real middleware and returns what reached the sink.
func c27BuildLog(keys *c27Keys, r *verifx.Rng, calls []c27Call) []*auditlog.Entry {
	inner := &verifx.AuditInner{}
	type failKey struct{}
	inner.Fail = func(ctx context.Context, op string) error {
		if v, _ := ctx.Value(failKey{}).(string); v != "" {
			return errors.New(v)
		}
		return nil
	}
	sink := &verifx.MemSink{}
	mw := audit.NewAuditLogMiddleware(inner, sink, keys.edSigner, keys.mlSigner, make([]byte, sha512.Size), nil)
	for i, c := range calls {
		ctx := verifx.AuditCtx(r, fmt.Sprintf("%04d", i))
		if c.fail {
			ctx = context.WithValue(ctx, failKey{}, verifx.Pick(r, []string{"NoSuchKey: the key does not exist", "internal error", "precondition failed: étag", "bucket not empty"}))
		}
		_ = verifx.AuditCall(ctx, mw, c.op, c.args)
	}
	return sink.Entries
}

// ---------- serializers ----------

type c27Ser struct {
	name string
	s    serialization.Serializer
}

var c27Sers = []c27Ser{{"bin", &serialization.BinarySerializer{}}, {"json", &serialization.JsonSerializer{}}}

func c27Encode(s serialization.Serializer, e *auditlog.Entry) (b []byte, err error) {
	defer func() {
		if p := recover(); p != nil {
			err = fmt.Errorf("panic: %v", p)
		}
	}()
	var buf bytes.Buffer
	if err := s.Encode(&buf, e); err != nil {
		return nil, err
	}
	return buf.Bytes(), nil
}

// c27DecodeAll decodes a whole file; on a decode error returns what was decoded so far and the error.
func c27DecodeAll(s serialization.Serializer, data []byte) (out []*auditlog.Entry, err error) {
	defer func() {
		if p := recover(); p != nil {
			err = fmt.Errorf("panic: %v", p)
		}
	}()
	dec := s.NewDecoder(bytes.NewReader(data))
	for {
		e, err := dec.Decode()
		if err != nil {
			if err == io.EOF {
				return out, nil
			}
			return out, err
		}
		out = append(out, e)
	}
}

// verdict after a round trip through serializer s. Entries are self-delimiting in both formats and the
// decoders keep no state between entries, so unchanged entries re-use the decoded form of their base
// encoding (decs) and only changed entries are encoded and decoded again; the base log itself is
// decoded as one whole file (emitBase).
func c27SerVerdict(s serialization.Serializer, decs []*auditlog.Entry, log []*auditlog.Entry, ed, ml signing.Verifier) (verdict string, rt string) {
	rt = "ok"
	out := make([]*auditlog.Entry, len(log))
	for i := range log {
		if decs[i] != nil {
			out[i] = decs[i]
			continue
		}
		eb, err := c27Encode(s, log[i])
		if err != nil {
			return fmt.Sprintf("%d:encode-error", i), "skip"
		}
		dec, err := c27DecodeAll(s, eb)
		if err != nil || len(dec) != 1 {
			return fmt.Sprintf("%d:decode-error", i), "skip"
		}
		out[i] = dec[0]
		if d := verifx.AuditDiff(log[i], dec[0]); len(d) > 0 && rt == "ok" {
			rt = fmt.Sprintf("%d:%s", i, strings.Join(d, ","))
		}
	}
	return verifx.AuditVerdict(out, ed, ml), rt
}

// c27JSONTimestamp returns the "timestamp" string as written in the JSON line.
func c27JSONTimestamp(line []byte) string {
	var v struct {
		Timestamp string `json:"timestamp"`
	}
	if err := json.Unmarshal(line, &v); err != nil {
		return "?"
	}
	return v.Timestamp
}

func c27JSONPaths(line []byte) string {
	var v map[string]any
	if err := json.Unmarshal(line, &v); err != nil {
		return "unparsable"
	}
	var paths []string
	var walk func(prefix string, m map[string]any)
	walk = func(prefix string, m map[string]any) {
		for k, x := range m {
			if sub, ok := x.(map[string]any); ok {
				walk(prefix+k+".", sub)
			} else {
				paths = append(paths, prefix+k)
			}
		}
	}
	walk("", v)
	sort.Strings(paths)
	if len(paths) == 0 {
		return "-"
	}
	return strings.Join(paths, ",")
}

// ---------- mutation values ----------

var c27FixedBytes = map[string]bool{"PreviousHash": true, "Hash": true, "SignatureEd25519": true,
	"Grounding.MerkleRootHash": true, "Grounding.SignatureEd25519": true, "Grounding.SignatureMlDsa87": true}
var c27IntFields = map[string]bool{"Version": true, "Timestamp": true, "Log.Resource.PartNumber": true,
	"Log.Outcome.StatusCode": true, "Log.Outcome.DurationMs": true}

func c27AddOne(v []byte, delta int) []byte {
	o := append([]byte(nil), v...)
	if delta > 0 {
		for i := len(o) - 1; i >= 0; i-- {
			o[i]++
			if o[i] != 0 {
				break
			}
		}
	} else {
		for i := len(o) - 1; i >= 0; i-- {
			o[i]--
			if o[i] != 0xff {
				break
			}
		}
	}
	return o
}

// c27Variants: the changed values tried for one field (all keep strings valid UTF-8 and fixed-size fields their size).
func c27Variants(r *verifx.Rng, name string, v []byte) [][]byte {
	switch {
	case name == "Version":
		return [][]byte{c27AddOne(v, -1), c27AddOne(v, 1)}
	case name == "Timestamp" && len(v) == 8:
		// one nanosecond later; the same instant cut to a whole second; cut to a tenth of a second
		// (the JSON layout trims trailing zeros of the fraction)
		ns := int64(binary.BigEndian.Uint64(v))
		out := [][]byte{c27AddOne(v, 1)}
		for _, unit := range []int64{1_000_000_000, 100_000_000} {
			if t := ns - ns%unit; t != ns {
				b := make([]byte, 8)
				binary.BigEndian.PutUint64(b, uint64(t))
				out = append(out, b)
			}
		}
		return out
	case c27IntFields[name]:
		return [][]byte{c27AddOne(v, 1)}
	case c27FixedBytes[name]:
		if len(v) == 0 {
			return nil
		}
		o := append([]byte(nil), v...)
		o[r.Intn(len(o))] ^= byte(1 << r.Intn(8))
		return [][]byte{o}
	}
	// strings: (a) alter the last character / make an empty string non-empty, (b) append a character
	var a []byte
	if len(v) == 0 {
		a = []byte("x")
	} else {
		_, size := utf8.DecodeLastRune(v)
		a = append(append([]byte(nil), v[:len(v)-size]...), 'Q')
		if bytes.Equal(a, v) {
			a[len(a)-1] = 'R'
		}
	}
	b := append(append([]byte(nil), v...), '~')
	if len(v) == 0 {
		return [][]byte{a}
	}
	return [][]byte{a, b}
}

// ---------- the catalogue ----------

type c27Runner struct {
	out   *verifx.Out
	keys  *c27Keys
	base  []*auditlog.Entry
	encs  map[string][][]byte // per serializer: encodings of the base entries
	decs  map[string][]*auditlog.Entry // per serializer: the base entries as decoded from the whole file
	full  bool                // every entry × every field (short logs) or a selection (long logs)
	nMuts int
}

func c27Bit(b bool) int {
	if b {
		return 1
	}
	return 0
}

// oracle bits of one entry: does the real verifier accept (Hash, Sig), (root, sigEd), (root, sigMl)?
func (c *c27Runner) oracle(e *auditlog.Entry) string {
	ved := c.keys.edVer.Verify(e.Hash, e.SignatureEd25519)
	vred, vrml := false, false
	if g, ok := e.Details.(*auditlog.GroundingDetails); ok {
		vred = c.keys.edVer.Verify(g.MerkleRootHash, g.SignatureEd25519)
		vrml = c.keys.mlVer.Verify(g.MerkleRootHash, g.SignatureMlDsa87)
	}
	return fmt.Sprintf("calc=%s ved=%d vred=%d vrml=%d", c27Calc(e), c27Bit(ved), c27Bit(vred), c27Bit(vrml))
}

func c27Calc(e *auditlog.Entry) (s string) {
	defer func() {
		if p := recover(); p != nil {
			s = "panic"
		}
	}()
	return verifx.Hex(e.CalculateHash())
}

// run validates a mutated log in all modes. changed[i] = true for positions whose encoding must be recomputed;
// idx maps positions of the mutated log to base positions (-1 = new entry).
func (c *c27Runner) verdicts(log []*auditlog.Entry, idx []int, checkRT bool) string {
	d1 := verifx.AuditVerdict(log, c.keys.edVer, c.keys.mlVer)
	d0 := verifx.AuditVerdict(log, nil, nil)
	res := fmt.Sprintf("d1=%s d0=%s", d1, d0)
	for _, s := range c27Sers {
		decs := make([]*auditlog.Entry, len(log))
		for i, bi := range idx {
			if bi >= 0 {
				decs[i] = c.decs[s.name][bi]
			}
		}
		v, rt := c27SerVerdict(s.s, decs, log, c.keys.edVer, c.keys.mlVer)
		if !checkRT {
			rt = "skip"
		}
		res += fmt.Sprintf(" %s1=%s rt%s=%s", s.name[:1], v, s.name[:1], rt)
	}
	return res
}

func c27Identity(n int) []int {
	idx := make([]int, n)
	for i := range idx {
		idx[i] = i
	}
	return idx
}

func (c *c27Runner) emitBase(withBin bool) {
	c.encs = map[string][][]byte{}
	for _, s := range c27Sers {
		c.encs[s.name] = make([][]byte, len(c.base))
	}
	rtb, rtj := "ok", "ok"
	for i, e := range c.base {
		binS, jp, jts := "skip", "skip", "skip"
		for _, s := range c27Sers {
			b, err := c27Encode(s.s, e)
			if err != nil {
				verifx.Fatalf("c27: base entry %d does not encode with %s: %v", i, s.name, err)
			}
			c.encs[s.name][i] = b
			dec, derr := c27DecodeAll(s.s, b)
			diff := "undecodable"
			if derr == nil && len(dec) == 1 {
				diff = strings.Join(verifx.AuditDiff(e, dec[0]), ",")
			}
			if diff != "" {
				if s.name == "bin" && rtb == "ok" {
					rtb = fmt.Sprintf("%d:%s", i, diff)
				}
				if s.name == "json" && rtj == "ok" {
					rtj = fmt.Sprintf("%d:%s", i, diff)
				}
			}
			if s.name == "json" {
				jts = verifx.HexS(c27JSONTimestamp(b))
			}
			if withBin {
				if s.name == "bin" {
					binS = verifx.Hex(b)
				} else {
					jp = c27JSONPaths(b)
				}
			}
		}
		_, off := e.Timestamp.Zone()
		c.out.Line("e %d %s %s bin=%s jp=%s jts=%s tz=%d", i, verifx.AuditLine(e), c.oracle(e), binS, jp, jts, off)
	}
	// the whole file, decoded in one go
	c.decs = map[string][]*auditlog.Entry{}
	res := fmt.Sprintf("d1=%s d0=%s", verifx.AuditVerdict(c.base, c.keys.edVer, c.keys.mlVer), verifx.AuditVerdict(c.base, nil, nil))
	for _, s := range c27Sers {
		var file []byte
		for _, b := range c.encs[s.name] {
			file = append(file, b...)
		}
		dec, err := c27DecodeAll(s.s, file)
		if err != nil || len(dec) != len(c.base) {
			verifx.Fatalf("c27: the %s file of the base log does not decode: %v (%d/%d)", s.name, err, len(dec), len(c.base))
		}
		c.decs[s.name] = dec
		res += fmt.Sprintf(" %s1=%s", s.name[:1], verifx.AuditVerdict(dec, c.keys.edVer, c.keys.mlVer))
	}
	c.out.Line("base %s rtb=%s rtj=%s", res, rtb, rtj)
}

// mutate one entry: pairs of (field, value)
func (c *c27Runner) change(pos int, sets [][2]string, raw [][]byte) {
	log := append([]*auditlog.Entry(nil), c.base...)
	e := verifx.AuditClone(c.base[pos])
	for i, s := range sets {
		if !verifx.AuditSet(e, s[0], raw[i]) {
			return
		}
	}
	log[pos] = e
	idx := c27Identity(len(log))
	idx[pos] = -1
	// the round-trip check applies to entries a writer of the current version can produce
	checkRT := e.Version == auditlog.CurrentVersion && e.Type == c.base[pos].Type
	var sb strings.Builder
	for _, s := range sets {
		fmt.Fprintf(&sb, " %s %s", s[0], s[1])
	}
	c.out.Line("m chg %d %d%s ; %s ; %s", pos, len(sets), sb.String(), c.oracle(e), c.verdicts(log, idx, checkRT))
	c.nMuts++
}

func (c *c27Runner) structural(kind string, args string, log []*auditlog.Entry, idx []int, extra string) {
	if extra == "" {
		extra = "calc=- ved=0 vred=0 vrml=0"
	}
	c.out.Line("m %s %s ; %s ; %s", kind, args, extra, c.verdicts(log, idx, false))
	c.nMuts++
}

func c27InsertAt[T any](xs []T, i int, x T) []T {
	out := make([]T, 0, len(xs)+1)
	out = append(out, xs[:i]...)
	out = append(out, x)
	return append(out, xs[i:]...)
}

func (c *c27Runner) forge(r *verifx.Rng, at int) {
	// a LOG entry nobody signed with the log's key: modelled on a neighbour, correct previous hash and
	// self-consistent hash, signed with a foreign Ed25519 key
	var tmpl *auditlog.Entry
	for d := 0; d < len(c.base) && tmpl == nil; d++ {
		for _, j := range []int{at - d, at + d} {
			if j >= 0 && j < len(c.base) && c.base[j].Type == auditlog.EntryTypeLog {
				tmpl = c.base[j]
				break
			}
		}
	}
	if tmpl == nil {
		return
	}
	e := verifx.AuditClone(tmpl)
	d := e.Details.(*auditlog.LogDetails)
	d.Resource.Key = "forged-" + d.Resource.Key
	d.Operation = auditlog.OpDeleteObject
	if at == 0 {
		h := sha512.Sum512([]byte("pithos"))
		e.PreviousHash = h[:]
	} else {
		e.PreviousHash = append([]byte(nil), c.base[at-1].Hash...)
	}
	e.Hash = e.CalculateHash()
	e.SignatureEd25519 = ed25519.Sign(c.keys.foreignEd, e.Hash)
	log := c27InsertAt(c.base, at, e)
	idx := c27InsertAt(c27Identity(len(c.base)), at, -1)
	c.structural("forge", fmt.Sprintf("%d %s", at, verifx.AuditLine(e)), log, idx, c.oracle(e))
}

func (c *c27Runner) catalogue(r *verifx.Rng, positions []int) {
	n := len(c.base)
	// (1) every selected entry × every field × {change value}
	for _, pos := range positions {
		e := c.base[pos]
		for _, f := range verifx.AuditFields(e) {
			for _, nv := range c27Variants(r, f.Name, f.Val) {
				c.change(pos, [][2]string{{f.Name, verifx.Hex(nv)}}, [][]byte{nv})
			}
		}
		// (1b) change a hashed field AND recompute the entry's hash (signature left as is)
		if d, ok := e.Details.(*auditlog.LogDetails); ok {
			m := verifx.AuditClone(e)
			md := m.Details.(*auditlog.LogDetails)
			md.Resource.Bucket = d.Resource.Bucket + "x"
			nh := m.CalculateHash()
			nb := []byte(md.Resource.Bucket)
			c.change(pos, [][2]string{{"Log.Resource.Bucket", verifx.Hex(nb)}, {"Hash", verifx.Hex(nh)}}, [][]byte{nb, nh})
		}
	}
	// (2) structural mutations at every selected position
	for _, pos := range positions {
		// delete
		{
			log := append(append([]*auditlog.Entry(nil), c.base[:pos]...), c.base[pos+1:]...)
			idx := append(c27Identity(pos), c27Identity(n)[pos+1:]...)
			c.structural("del", fmt.Sprint(pos), log, idx, "")
		}
		// duplicate in place
		{
			log := c27InsertAt(c.base, pos+1, c.base[pos])
			idx := c27InsertAt(c27Identity(n), pos+1, pos)
			c.structural("cpy", fmt.Sprintf("%d %d", pos+1, pos), log, idx, "")
		}
		// insert a copy of a distant entry here
		if n > 3 {
			src := r.Intn(n)
			for src == pos || src+1 == pos {
				src = r.Intn(n)
			}
			log := c27InsertAt(c.base, pos, c.base[src])
			idx := c27InsertAt(c27Identity(n), pos, src)
			c.structural("cpy", fmt.Sprintf("%d %d", pos, src), log, idx, "")
		}
		// swap adjacent
		if pos+1 < n {
			log := append([]*auditlog.Entry(nil), c.base...)
			idx := c27Identity(n)
			log[pos], log[pos+1] = log[pos+1], log[pos]
			idx[pos], idx[pos+1] = idx[pos+1], idx[pos]
			c.structural("swp", fmt.Sprintf("%d %d", pos, pos+1), log, idx, "")
		}
		// swap distant
		if n > 4 {
			j := r.Intn(n)
			for j == pos || j == pos+1 || j+1 == pos {
				j = r.Intn(n)
			}
			log := append([]*auditlog.Entry(nil), c.base...)
			idx := c27Identity(n)
			log[pos], log[j] = log[j], log[pos]
			idx[pos], idx[j] = idx[j], idx[pos]
			a, b := pos, j
			if a > b {
				a, b = b, a
			}
			c.structural("swp", fmt.Sprintf("%d %d", a, b), log, idx, "")
		}
		// insert a forged entry
		c.forge(r, pos)
		// truncate: keep the first pos entries
		c.structural("trn", fmt.Sprint(pos), c.base[:pos], c27Identity(pos), "")
	}
	// append a forged entry at the very end; cut nothing
	c.forge(r, n)
	c.structural("trn", fmt.Sprint(n), c.base, c27Identity(n), "")
}

func runC27(args []string) {
	f := verifx.ParseFlags("c27", args, 8, 40)
	out := verifx.NewOut()
	keys := c27NewKeys()
	k := 0

	emit := func(seed uint64, calls []c27Call, full bool, pick func(n int, r *verifx.Rng) []int) {
		if !f.Wants(k) {
			k++
			return
		}
		out.Case(k, seed)
		// the process zone rotates with the case: the middleware's own time.Now() carries it
		out.Line("zone %d", verifx.AuditSetZone(k+1))
		k++
		func() {
			defer func() {
				if p := recover(); p != nil {
					out.Line("panic %s", verifx.HexS(fmt.Sprint(p)))
				}
			}()
			r := verifx.NewRng(seed)
			c := &c27Runner{out: out, keys: keys, full: full}
			c.base = c27BuildLog(keys, r, calls)
			c.emitBase(full)
			c.catalogue(r, pick(len(c.base), r))
		}()
		out.End()
	}
	all := func(n int, _ *verifx.Rng) []int { return c27Identity(n) }

	// ---- directed 0: the copy operations (witness of the unhashed copy source)
	src := verifx.AuditArgs{Bucket: "dst-bucket", Key: "report.pdf", SrcBucket: "src-bucket", SrcKey: "secret/plan.pdf", UploadID: "up-1", Part: 3}
	emit(100, []c27Call{{"CopyObject", src, false}, {"UploadPartCopy", src, false}, {"CopyObject", src, true}}, true, all)

	// ---- directed 1: one call of every storage method, a third of them failing
	var every []c27Call
	r1 := verifx.NewRng(101)
	for i, op := range verifx.AuditOps {
		every = append(every, c27Call{op, verifx.AuditRandArgs(r1), i%3 == 2})
	}
	emit(101, every, true, all)

	// ---- directed 2: an upload id that is not valid UTF-8 (reaches the log from `?uploadId=%FF`)
	bad := verifx.AuditArgs{Bucket: "alpha", Key: "k", SrcBucket: "alpha", SrcKey: "k", UploadID: "up-\xff\xfe", Part: 1}
	emit(102, []c27Call{{"AbortMultipartUpload", bad, false}, {"PutObject", bad, false}}, true, all)

	// ---- directed 3: a log that crosses a grounding block; mutations around the block boundary
	var long []c27Call
	r3 := verifx.NewRng(103)
	nLong := auditlog.GroundingBlockSize/2 + 3 // two entries per call
	for i := 0; i < nLong; i++ {
		long = append(long, c27Call{verifx.Pick(r3, verifx.AuditOps[:15]), verifx.AuditRandArgs(r3), r3.Chance(1, 5)})
	}
	emit(103, long, false, func(n int, r *verifx.Rng) []int {
		g := -1
		sel := map[int]bool{0: true, 1: true, 2: true, n - 1: true, n - 2: true}
		_ = g
		// the grounding entry and its neighbours: position blockSize+1 (after genesis + blockSize log entries)
		gp := auditlog.GroundingBlockSize + 1
		for _, p := range []int{gp - 2, gp - 1, gp, gp + 1, gp + 2, gp / 2} {
			if p >= 0 && p < n {
				sel[p] = true
			}
		}
		for i := 0; i < 6; i++ {
			sel[r.Intn(n)] = true
		}
		var ps []int
		for p := range sel {
			ps = append(ps, p)
		}
		sort.Ints(ps)
		return ps
	})

	// ---- generated logs
	for c := 0; c < f.Cases; c++ {
		seed := verifx.CaseSeed(f.Seed, k)
		r := verifx.NewRng(seed)
		n := 6 + r.Intn(14)
		var calls []c27Call
		for i := 0; i < n; i++ {
			op := verifx.Pick(r, verifx.AuditOps)
			if r.Chance(1, 4) {
				op = verifx.Pick(r, []string{"CopyObject", "UploadPartCopy", "UploadPart", "CreateMultipartUpload"})
			}
			calls = append(calls, c27Call{op, verifx.AuditRandArgs(r), r.Chance(1, 4)})
		}
		emit(seed, calls, true, all)
	}
	out.Flush()
}
