//go:build verif

package main

import (
	"sort"
	"strings"
	"unicode/utf8"

	"github.com/jdillenkofer/pithos/internal/verifx"
)

// ---------- alphabet ----------

// upper/lower case, the LIKE metacharacters, the usual delimiter, 2- and 4-byte UTF-8, digits
var c06Alphabet = []string{"a", "A", "b", "B", "%", "_", "/", "é", "😀", "0", "1", "a", "b", "/", "*", "?", "[", "]", "a"}

func c06Runes(s string) []string {
	var out []string
	for len(s) > 0 {
		_, n := utf8.DecodeRuneInString(s)
		out = append(out, s[:n])
		s = s[n:]
	}
	return out
}

func c06RandString(r *verifx.Rng, minLen, maxLen int) string {
	n := minLen + r.Intn(maxLen-minLen+1)
	var b strings.Builder
	for i := 0; i < n; i++ {
		b.WriteString(verifx.Pick(r, c06Alphabet))
	}
	return b.String()
}

func c06FlipCase(s string) string {
	if s == "" {
		return s
	}
	c := s[0]
	switch {
	case c >= 'a' && c <= 'z':
		return string(c-32) + s[1:]
	case c >= 'A' && c <= 'Z':
		return string(c+32) + s[1:]
	}
	return s
}

// c06Perturb changes one character of s: case flip, '%', '_', deletion or insertion.
func c06Perturb(r *verifx.Rng, s string) string {
	rs := c06Runes(s)
	if len(rs) == 0 {
		return verifx.Pick(r, []string{"%", "_", "a", "A"})
	}
	i := r.Intn(len(rs))
	switch r.Intn(6) {
	case 0, 1:
		rs[i] = c06FlipCase(rs[i])
	case 2:
		rs[i] = "%"
	case 3:
		rs[i] = "_"
	case 4:
		rs = append(rs[:i], rs[i+1:]...)
	default:
		rs = append(rs[:i], append([]string{verifx.Pick(r, c06Alphabet)}, rs[i:]...)...)
	}
	return strings.Join(rs, "")
}

// c06GenKeys makes n distinct non-empty keys, mixing flat names, path-like names and near-misses of
// keys already chosen (so that prefixes, case variants and wildcard matches actually collide).
func c06GenKeys(r *verifx.Rng, n int) []string {
	seen := map[string]bool{}
	var keys []string
	for tries := 0; len(keys) < n && tries < 20*n+20; tries++ {
		var k string
		switch {
		case len(keys) > 0 && r.Chance(35, 100):
			base := verifx.Pick(r, keys)
			switch r.Intn(4) {
			case 0:
				k = c06Perturb(r, base)
			case 1:
				k = base + c06RandString(r, 1, 2)
			case 2:
				rs := c06Runes(base)
				k = strings.Join(rs[:1+r.Intn(len(rs))], "") + c06RandString(r, 0, 2)
			default:
				k = c06FlipCase(base)
			}
		case r.Chance(45, 100):
			segs := 1 + r.Intn(3)
			var parts []string
			for i := 0; i < segs; i++ {
				parts = append(parts, c06RandString(r, 1, 2))
			}
			k = strings.Join(parts, "/")
			if r.Chance(15, 100) {
				k += "/"
			}
		default:
			k = c06RandString(r, 1, 6)
		}
		if rs := c06Runes(k); len(rs) > 6 {
			k = strings.Join(rs[:6], "")
		}
		if k == "" || seen[k] {
			continue
		}
		seen[k] = true
		keys = append(keys, k)
	}
	return keys
}

func c06GenCase(r *verifx.Rng) c06Case {
	c := c06Case{auto: 1}
	c.okeys = c06GenKeys(r, 1+r.Intn(8))
	// versioned history over a few keys
	vkeys := c06GenKeys(r, 1+r.Intn(4))
	nops := 2 + r.Intn(10)
	if r.Chance(70, 100) {
		// usually some null versions first
		for _, k := range vkeys {
			if r.Chance(50, 100) {
				c.vops = append(c.vops, c06VOp{kind: 0, key: k})
			}
		}
	}
	c.vops = append(c.vops, c06VOp{kind: 3})
	for i := 0; i < nops; i++ {
		k := verifx.Pick(r, vkeys)
		switch x := r.Intn(100); {
		case x < 55:
			c.vops = append(c.vops, c06VOp{kind: 0, key: k})
		case x < 72:
			c.vops = append(c.vops, c06VOp{kind: 1, key: k})
		case x < 80:
			c.vops = append(c.vops, c06VOp{kind: 2, key: k, pick: r.Intn(8)})
		case x < 90:
			c.vops = append(c.vops, c06VOp{kind: 4})
		default:
			c.vops = append(c.vops, c06VOp{kind: 3})
		}
	}
	// uploads: some keys twice or three times
	ukeys := c06GenKeys(r, 1+r.Intn(5))
	for _, k := range ukeys {
		c.ukeys = append(c.ukeys, k)
	}
	for i, n := 0, r.Intn(4); i < n; i++ {
		c.ukeys = append(c.ukeys, verifx.Pick(r, ukeys))
	}
	for i := len(c.ukeys) - 1; i > 0; i-- {
		j := r.Intn(i + 1)
		c.ukeys[i], c.ukeys[j] = c.ukeys[j], c.ukeys[i]
	}
	if r.Chance(30, 100) {
		c.uabort = append(c.uabort, r.Intn(len(c.ukeys)))
	}
	// parts: a subset of 1..12 in random upload order, sometimes re-uploaded
	np := r.Intn(9)
	for i := 0; i < np; i++ {
		c.parts = append(c.parts, 1+r.Intn(12))
	}
	return c
}

// ---------- queries ----------

func c06GenPrefix(r *verifx.Rng, keys []string) string {
	if len(keys) == 0 || r.Chance(12, 100) {
		if r.Chance(50, 100) {
			return ""
		}
		return c06RandString(r, 1, 2)
	}
	rs := c06Runes(verifx.Pick(r, keys))
	p := strings.Join(rs[:r.Intn(len(rs)+1)], "")
	switch x := r.Intn(100); {
	case x < 45:
		return p
	case x < 75:
		return c06Perturb(r, p)
	case x < 85:
		return p + verifx.Pick(r, []string{"%", "_"})
	default:
		return c06FlipCase(p)
	}
}

func c06GenDelim(r *verifx.Rng) string {
	switch x := r.Intn(100); {
	case x < 35:
		return ""
	case x < 70:
		return "/"
	case x < 80:
		return "a"
	case x < 88:
		return "%"
	case x < 92:
		return "é"
	default:
		return verifx.Pick(r, []string{"aa", "//", "/a", "a/", "ab"})
	}
}

func c06GenMax(r *verifx.Rng, n int) int {
	switch x := r.Intn(100); {
	case x < 30:
		return 1
	case x < 50:
		return 2
	case x < 62:
		return 3
	case x < 85:
		return 1 + r.Intn(n+2)
	default:
		return 1000
	}
}

func c06GenMarker(r *verifx.Rng, keys []string) *string {
	switch x := r.Intn(100); {
	case x < 55 || len(keys) == 0:
		if x >= 45 && x < 55 {
			return c06Str(c06RandString(r, 1, 3))
		}
		return nil
	case x < 80:
		return c06Str(verifx.Pick(r, keys))
	case x < 90:
		rs := c06Runes(verifx.Pick(r, keys))
		m := strings.Join(rs[:1+r.Intn(len(rs))], "")
		return &m
	default:
		return c06Str(verifx.Pick(r, keys) + verifx.Pick(r, c06Alphabet))
	}
}

func c06KeysOf(rows []c06VRow) []string {
	seen := map[string]bool{}
	var out []string
	for _, r := range rows {
		if !seen[r.key] {
			seen[r.key] = true
			out = append(out, r.key)
		}
	}
	sort.Strings(out)
	return out
}

// c06GenQueries draws `rounds` rounds of queries, one round = every operation once or twice.
func c06GenQueries(r *verifx.Rng, s *c06State, rounds int) []c06Query {
	var qs []c06Query
	vkeys := c06KeysOf(s.vrows)
	ukeys := c06KeysOf(s.urows)
	for round := 0; round < rounds; round++ {
		// objects: the same request at the three entry points, plus independent ones
		base := c06Query{pfx: c06GenPrefix(r, s.okeys), delim: c06GenDelim(r), mk: c06GenMarker(r, s.okeys), msub: -1, max: c06GenMax(r, len(s.okeys))}
		for _, op := range []string{"so", "v1", "v2"} {
			q := base
			q.op = op
			qs = append(qs, q)
		}
		for _, op := range []string{"v1", "v2", "so"} {
			qs = append(qs, c06Query{op: op, pfx: c06GenPrefix(r, s.okeys), delim: c06GenDelim(r), mk: c06GenMarker(r, s.okeys), msub: -1, max: c06GenMax(r, len(s.okeys))})
		}
		// versions
		for i := 0; i < 2; i++ {
			q := c06Query{pfx: c06GenPrefix(r, vkeys), delim: c06GenDelim(r), mk: c06GenMarker(r, vkeys), msub: -1, max: c06GenMax(r, len(s.vrows))}
			if q.mk != nil && r.Chance(60, 100) {
				var subs []int
				for _, row := range s.vrows {
					if row.key == *q.mk {
						subs = append(subs, row.sub)
					}
				}
				if len(subs) > 0 {
					q.msub = verifx.Pick(r, subs)
				}
			}
			for _, op := range []string{"sv", "hv"} {
				qq := q
				qq.op = op
				qs = append(qs, qq)
			}
		}
		// uploads
		for i := 0; i < 2; i++ {
			q := c06Query{pfx: c06GenPrefix(r, ukeys), delim: c06GenDelim(r), mk: c06GenMarker(r, ukeys), msub: -1, max: c06GenMax(r, len(s.urows))}
			if q.mk != nil && r.Chance(60, 100) {
				var subs []int
				for _, row := range s.urows {
					if row.key == *q.mk {
						subs = append(subs, row.sub)
					}
				}
				if len(subs) > 0 {
					q.msub = verifx.Pick(r, subs)
				}
			}
			for _, op := range []string{"su", "hu"} {
				qq := q
				qq.op = op
				qs = append(qs, qq)
			}
		}
		// parts
		q := c06Query{msub: -1, max: c06GenMax(r, len(s.parts))}
		if r.Chance(45, 100) {
			q.msub = r.Intn(14)
		}
		for _, op := range []string{"sp", "hp"} {
			qq := q
			qq.op = op
			qs = append(qs, qq)
		}
	}
	return qs
}

// ---------- directed cases: the witnesses of every known finding and past tricky inputs ----------

func c06Directed() []c06Case {
	all3 := func(q c06Query) []c06Query {
		var out []c06Query
		for _, op := range []string{"so", "v1", "v2"} {
			qq := q
			qq.op = op
			out = append(out, qq)
		}
		return out
	}
	var cs []c06Case
	// 0: DESIGN §10 — delimiter paging loses a common prefix: a, b/1, c ; delimiter=/ ; max-keys=1
	cs = append(cs, c06Case{okeys: []string{"a", "b/1", "c"},
		queries: append(all3(c06Query{delim: "/", msub: -1, max: 1}), all3(c06Query{delim: "/", msub: -1, max: 2})...)})
	// 1: delimiter paging returns a key twice: a/1 a/2 a/3 z ; max-keys=2
	cs = append(cs, c06Case{okeys: []string{"a/1", "a/2", "a/3", "z"},
		queries: append(all3(c06Query{delim: "/", msub: -1, max: 2}), all3(c06Query{delim: "/", msub: -1, max: 1000})...)})
	// 2: LIKE is case-insensitive: prefix A lists abc
	cs = append(cs, c06Case{okeys: []string{"abc", "a%c", "Abd", "b", "aBc/d"},
		vops:  []c06VOp{{kind: 0, key: "abc"}, {kind: 3}, {kind: 0, key: "Abc"}, {kind: 0, key: "abc"}},
		ukeys: []string{"abc", "Abd", "b"},
		queries: append(append(all3(c06Query{pfx: "A", msub: -1, max: 1000}), all3(c06Query{pfx: "aB", delim: "/", msub: -1, max: 2})...),
			c06Query{op: "sv", pfx: "A", msub: -1, max: 1000}, c06Query{op: "hv", pfx: "A", msub: -1, max: 1},
			c06Query{op: "su", pfx: "A", msub: -1, max: 1000}, c06Query{op: "hu", pfx: "A", msub: -1, max: 1})})
	// 3: LIKE wildcards in the prefix: a% lists every key starting with a/A; a_c lists abc
	cs = append(cs, c06Case{okeys: []string{"abc", "a%c", "Abd", "b", "a_c", "ac"},
		vops:  []c06VOp{{kind: 3}, {kind: 0, key: "abc"}, {kind: 0, key: "a%c"}, {kind: 1, key: "abc"}},
		ukeys: []string{"abc", "a%c", "b", "abc"},
		queries: append(append(all3(c06Query{pfx: "a%", msub: -1, max: 1000}), all3(c06Query{pfx: "a_c", msub: -1, max: 2})...),
			c06Query{op: "sv", pfx: "a%", msub: -1, max: 1000}, c06Query{op: "hv", pfx: "a_", msub: -1, max: 2},
			c06Query{op: "su", pfx: "a%", msub: -1, max: 1000}, c06Query{op: "hu", pfx: "_b", msub: -1, max: 1},
			c06Query{op: "v2", pfx: "%", msub: -1, max: 2}, c06Query{op: "v1", pfx: "_", msub: -1, max: 3})})
	// 4: the null version sorts last in ?versions even when it is the current one
	cs = append(cs, c06Case{
		vops: []c06VOp{{kind: 0, key: "k"}, {kind: 3}, {kind: 0, key: "k"}, {kind: 0, key: "k"}, {kind: 4}, {kind: 0, key: "k"}, {kind: 0, key: "j"}},
		queries: []c06Query{{op: "sv", msub: -1, max: 1000}, {op: "hv", msub: -1, max: 1000}, {op: "sv", msub: -1, max: 1}, {op: "hv", msub: -1, max: 2},
			{op: "sv", mk: c06Str("k"), msub: 0, max: 1000}, {op: "hv", mk: c06Str("k"), msub: 2, max: 1000}}})
	// 5: uploads: delimiter paging repeats a common prefix / loses entries
	cs = append(cs, c06Case{ukeys: []string{"a", "b/1", "b/2", "c", "b/1"},
		queries: []c06Query{{op: "su", delim: "/", msub: -1, max: 1}, {op: "hu", delim: "/", msub: -1, max: 1}, {op: "hu", delim: "/", msub: -1, max: 2},
			{op: "hu", delim: "/", msub: -1, max: 1000}, {op: "hu", msub: -1, max: 1}, {op: "su", msub: -1, max: 2}, {op: "hu", mk: c06Str("b/1"), msub: 2, max: 1}}})
	// 6: a delimiter of two characters that straddles the end of the prefix
	cs = append(cs, c06Case{okeys: []string{"aab", "ab", "aaab"},
		vops:  []c06VOp{{kind: 3}, {kind: 0, key: "aab"}, {kind: 0, key: "ab"}},
		ukeys: []string{"aab", "ab"},
		queries: append(all3(c06Query{pfx: "a", delim: "aa", msub: -1, max: 1000}),
			c06Query{op: "sv", pfx: "a", delim: "aa", msub: -1, max: 1000}, c06Query{op: "hv", pfx: "a", delim: "aa", msub: -1, max: 1000},
			c06Query{op: "hu", pfx: "a", delim: "aa", msub: -1, max: 1000})})
	// 7: parts with gaps, re-uploaded numbers, markers at and between part numbers
	cs = append(cs, c06Case{parts: []int{7, 1, 3, 8, 3, 12},
		queries: []c06Query{{op: "sp", msub: -1, max: 2}, {op: "hp", msub: -1, max: 2}, {op: "sp", msub: 1, max: 1}, {op: "hp", msub: 2, max: 1},
			{op: "hp", msub: 12, max: 3}, {op: "hp", msub: -1, max: 5}, {op: "sp", msub: -1, max: 1000}, {op: "hp", msub: 0, max: 4}}})
	// 8: multi-byte characters with `_` and `%` in the prefix
	cs = append(cs, c06Case{okeys: []string{"é", "éb", "😀", "😀b", "eb", "Éb"},
		queries: append(append(append(all3(c06Query{pfx: "_", msub: -1, max: 2}), all3(c06Query{pfx: "_b", msub: -1, max: 1000})...),
			all3(c06Query{pfx: "é", msub: -1, max: 1})...), all3(c06Query{pfx: "", delim: "é", msub: -1, max: 1})...)})
	// 9: versions with a delimiter, several versions and delete markers per key, small pages
	cs = append(cs, c06Case{
		vops: []c06VOp{{kind: 0, key: "a/x"}, {kind: 3}, {kind: 0, key: "a/x"}, {kind: 0, key: "a/y"}, {kind: 0, key: "b"}, {kind: 1, key: "b"}, {kind: 0, key: "b"}, {kind: 0, key: "c/z"}, {kind: 1, key: "a/x"}},
		queries: []c06Query{{op: "sv", delim: "/", msub: -1, max: 1}, {op: "hv", delim: "/", msub: -1, max: 1}, {op: "hv", delim: "/", msub: -1, max: 2}, {op: "sv", msub: -1, max: 2},
			{op: "hv", msub: -1, max: 3}, {op: "hv", pfx: "a/", delim: "/", msub: -1, max: 1}, {op: "sv", mk: c06Str("a/x"), msub: -1, max: 2}, {op: "hv", mk: c06Str("b"), msub: 4, max: 1}}})
	return cs
}

// ---------- thorough tier: exhaustive small scope ----------

// Every set of at most 3 keys out of a pool of 14 short keys over {a, A, b, %, _, /}, with every
// prefix of length <= 2 over that alphabet, the delimiters none "/" "a" "%", page sizes 1..3,
// through ListObjects v2 (and v1 / the storage API for a rotating third of the requests); the same
// keys as uploads and as versions through ListMultipartUploads / ListObjectVersions over HTTP with
// every prefix of length <= 1.
func c06Exhaustive(emit func(c c06Case, seed uint64)) {
	pool := []string{"a", "A", "ab", "aB", "a%", "a_", "a/", "a/b", "a/A", "b", "%", "_", "/", "b/a"}
	alpha := []string{"a", "A", "b", "%", "_", "/"}
	prefixes := []string{""}
	for _, x := range alpha {
		prefixes = append(prefixes, x)
	}
	for _, x := range alpha {
		for _, y := range alpha {
			prefixes = append(prefixes, x+y)
		}
	}
	delims := []string{"", "/", "a", "%"}
	n := 0
	var sets [][]string
	for i := 0; i < len(pool); i++ {
		sets = append(sets, []string{pool[i]})
		for j := i + 1; j < len(pool); j++ {
			sets = append(sets, []string{pool[i], pool[j]})
			for l := j + 1; l < len(pool); l++ {
				sets = append(sets, []string{pool[i], pool[j], pool[l]})
			}
		}
	}
	for _, set := range sets {
		c := c06Case{okeys: set}
		// the same keys as pending uploads (the first key twice) and as a versioned history
		// (a null version of the first key, then one version per key, the first key twice)
		c.ukeys = append(append([]string{}, set...), set[0])
		c.vops = []c06VOp{{kind: 0, key: set[0]}, {kind: 3}}
		for _, key := range set {
			c.vops = append(c.vops, c06VOp{kind: 0, key: key})
		}
		c.vops = append(c.vops, c06VOp{kind: 0, key: set[0]})
		for _, p := range prefixes {
			// skip prefixes whose first character matches no key even under LIKE: nothing is selected
			for _, d := range delims {
				for max := 1; max <= 3; max++ {
					n++
					op := "v2"
					switch n % 3 {
					case 1:
						op = "v1"
					case 2:
						op = "so"
					}
					c.queries = append(c.queries, c06Query{op: op, pfx: p, delim: d, msub: -1, max: max})
					if len(c06Runes(p)) <= 1 {
						c.queries = append(c.queries, c06Query{op: "hu", pfx: p, delim: d, msub: -1, max: max},
							c06Query{op: "hv", pfx: p, delim: d, msub: -1, max: max})
					}
				}
			}
		}
		emit(c, uint64(len(sets)))
	}
}
