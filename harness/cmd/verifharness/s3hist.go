//go:build verif

package main

import (
	"bytes"
	"context"
	"errors"
	"flag"
	"fmt"
	"io"
	"path/filepath"
	"sort"
	"strings"

	"github.com/jdillenkofer/pithos/internal/storage"
	"github.com/jdillenkofer/pithos/internal/verifx"
)

// s3h: generated histories of storage.Storage operations against a real metadata+part storage
// stack. One trace serves C01, C02, C11, C12 (sequential part), C13 and C14; the drivers differ
// only in their judge. Protocol: see lean/Driver/S3Hist.lean.

func init() { register("s3h", runS3Hist) }

type s3hCase struct {
	ctx   context.Context
	st    storage.Storage
	out   *verifx.Out
	vids  map[string]int // ULID version id -> ordinal (creation order)
	uids  []storage.UploadId
	bnams []string
	// generator feedback
	lastEtag map[string]string
	allEtags []string
	lastSize map[string]int64
	made     map[string]bool
	// routing observer of the "route" stack (s3hist_routing.go); nil on every other stack
	rt *s3hRoute
}

func (c *s3hCase) noteEtag(b, k, e string, size int64) {
	c.lastEtag[b+"/"+k] = e
	c.allEtags = append(c.allEtags, e)
	if size >= 0 {
		c.lastSize[b+"/"+k] = size
	} else {
		delete(c.lastSize, b+"/"+k)
	}
}

func optS(p *string) string {
	if p == nil {
		return "~"
	}
	return verifx.HexS(*p)
}

func pairsS(m map[string]string) string {
	if len(m) == 0 {
		return "~"
	}
	ks := make([]string, 0, len(m))
	for k := range m {
		ks = append(ks, k)
	}
	sort.Strings(ks)
	parts := make([]string, len(ks))
	for i, k := range ks {
		parts[i] = verifx.HexS(k) + ":" + verifx.HexS(m[k])
	}
	return strings.Join(parts, ",")
}

func metaPairs(md storage.ObjectMetadata) map[string]string {
	m := map[string]string{}
	for k, v := range md.UserMetadata {
		m[k] = v
	}
	put := func(k string, p *string) {
		if p != nil {
			m[k] = *p
		}
	}
	put("!cc", md.CacheControl)
	put("!cd", md.ContentDisposition)
	put("!ce", md.ContentEncoding)
	put("!cl", md.ContentLanguage)
	put("!ex", md.Expires)
	put("!wr", md.WebsiteRedirectLocation)
	return m
}

func errKind(err error) string {
	var cdm *storage.CurrentDeleteMarkerError
	var vdm *storage.VersionDeleteMarkerMethodNotAllowedError
	switch {
	case errors.As(err, &cdm):
		return "NoSuchKey"
	case errors.As(err, &vdm):
		return "MethodNotAllowed"
	case errors.Is(err, storage.ErrNoSuchBucket):
		return "NoSuchBucket"
	case errors.Is(err, storage.ErrNoSuchKey):
		return "NoSuchKey"
	case errors.Is(err, storage.ErrBucketAlreadyExists):
		return "BucketAlreadyExists"
	case errors.Is(err, storage.ErrBucketNotEmpty):
		return "BucketNotEmpty"
	case errors.Is(err, storage.ErrPreconditionFailed):
		return "PreconditionFailed"
	case errors.Is(err, storage.ErrInvalidWriteOffset):
		return "InvalidWriteOffset"
	case errors.Is(err, storage.ErrInvalidPart):
		return "InvalidPart"
	case errors.Is(err, storage.ErrInvalidPartOrder):
		return "InvalidPartOrder"
	case errors.Is(err, storage.ErrInvalidRange):
		return "InvalidRange"
	case errors.Is(err, storage.ErrNotModified):
		return "NotModified"
	}
	return "Other"
}

// vidOut canonicalises a version id returned by the API.
func (c *s3hCase) vidOut(p *string) string {
	if p == nil {
		return "~"
	}
	if *p == "null" {
		return "null"
	}
	if n, ok := c.vids[*p]; ok {
		return fmt.Sprintf("v%d", n)
	}
	return "v?" + *p
}

// learnVids assigns ordinals to version ids not seen before, in ULID (= creation) order.
func (c *s3hCase) learnVids() {
	var fresh []string
	for _, b := range c.bnams {
		res, err := c.st.ListObjectVersions(c.ctx, storage.MustNewBucketName("bkt-"+b), storage.ListObjectVersionsOptions{MaxKeys: 100000})
		if err != nil {
			continue
		}
		for _, v := range res.Versions {
			if v.VersionID != "null" {
				if _, ok := c.vids[v.VersionID]; !ok {
					fresh = append(fresh, v.VersionID)
				}
			}
		}
	}
	sort.Strings(fresh)
	for _, v := range fresh {
		if _, ok := c.vids[v]; !ok {
			c.vids[v] = len(c.vids)
		}
	}
}

type s3hOpts struct {
	ct   *string
	md   storage.ObjectMetadata
	hasM bool
	tags map[string]string
	cls  *string
}

func (o s3hOpts) line() string {
	return fmt.Sprintf("ct=%s md=%s tags=%s cls=%s", optS(o.ct), pairsS(metaPairs(o.md)), pairsS(o.tags), optS(o.cls))
}

func genOpts(r *verifx.Rng) s3hOpts {
	var o s3hOpts
	sp := func(s string) *string { return &s }
	if r.Chance(1, 2) {
		o.ct = sp(verifx.Pick(r, []string{"text/plain", "application/json", "", "x/y; charset=utf-8"}))
	}
	if r.Chance(1, 2) {
		o.hasM = true
		if r.Chance(1, 3) {
			o.md.CacheControl = sp(verifx.Pick(r, []string{"no-cache", "max-age=3"}))
		}
		if r.Chance(1, 4) {
			o.md.ContentDisposition = sp("attachment")
		}
		if r.Chance(1, 4) {
			o.md.ContentEncoding = sp("gzip")
		}
		if r.Chance(1, 4) {
			o.md.ContentLanguage = sp("de")
		}
		if r.Chance(1, 4) {
			o.md.Expires = sp(verifx.Pick(r, []string{"Wed, 21 Oct 2015 07:28:00 GMT", "not-a-date"}))
		}
		if r.Chance(1, 4) {
			o.md.WebsiteRedirectLocation = sp("/other")
		}
		if r.Chance(1, 2) {
			o.md.UserMetadata = map[string]string{}
			for i := 0; i < 1+r.Intn(2); i++ {
				o.md.UserMetadata[verifx.Pick(r, []string{"a", "b", "color"})] = verifx.Pick(r, []string{"1", "x y", ""})
			}
		}
	}
	if r.Chance(1, 3) {
		o.tags = map[string]string{}
		for i := 0; i < 1+r.Intn(2); i++ {
			o.tags[verifx.Pick(r, []string{"t", "env", "k"})] = verifx.Pick(r, []string{"v", "prod", ""})
		}
	}
	if r.Chance(1, 4) {
		o.cls = sp(verifx.Pick(r, []string{"STANDARD", "STANDARD_IA", "GLACIER"}))
	}
	return o
}

func (c *s3hCase) resErr(err error) {
	k := errKind(err)
	if k == "Other" {
		c.out.Line("res err Other %s", verifx.HexS(err.Error()))
		return
	}
	c.out.Line("res err %s", k)
}

func readAllClose(rs []io.ReadCloser) ([]byte, error) {
	var buf bytes.Buffer
	var first error
	for _, r := range rs {
		if _, err := io.Copy(&buf, r); err != nil && first == nil {
			first = err
		}
		if err := r.Close(); err != nil && first == nil {
			first = err
		}
	}
	return buf.Bytes(), first
}

func (c *s3hCase) objLine(o *storage.Object, body string) string {
	return fmt.Sprintf("res ok body=%s size=%d ct=%s md=%s tags=%s cls=%s etag=%s vid=%s lm=%d",
		body, o.Size, optS(o.ContentType), pairsS(metaPairs(o.Metadata)), pairsS(o.Tags), optS(o.StorageClass),
		o.ETag, c.vidOut(o.VersionID), o.LastModified.UnixNano())
}

func parseVidArg(c *s3hCase, tok string) *string {
	// tok: "~" current, "null", "vN"
	if tok == "~" {
		return nil
	}
	if tok == "null" {
		s := "null"
		return &s
	}
	var n int
	fmt.Sscanf(tok, "v%d", &n)
	for id, ord := range c.vids {
		if ord == n {
			s := id
			return &s
		}
	}
	s := "01ARZ3NDEKTSV4RRFFQ69G5FAV" // a well-formed version id that was never issued
	return &s
}

func runS3Hist(args []string) {
	fs := flag.NewFlagSet("s3h", flag.ExitOnError)
	stack := fs.String("stack", "sql", "part-store stack: sql|fs|…")
	mode := fs.String("mode", "mixed", "generator emphasis: mixed|versioning|meta|append|transition")
	nops := fs.Int("ops", 40, "operations per case")
	rest := []string{}
	// split our flags from the common ones
	common := []string{}
	for i := 0; i < len(args); i++ {
		a := args[i]
		if a == "-stack" || a == "-mode" || a == "-ops" {
			rest = append(rest, a, args[i+1])
			i++
		} else {
			common = append(common, a)
		}
	}
	_ = fs.Parse(rest)
	f := verifx.ParseFlags("s3h", common, 60, 600)
	out := verifx.NewOut()
	ctx := context.Background()

	directed := s3hDirected()
	nRoute := 0 // mode "routing" (C14): the routing histories come first and run on the "route" stack
	if *mode == "routing" {
		rd := s3hRouteDirected()
		nRoute = len(rd)
		directed = append(rd, directed...)
	}
	// one multi-part "parts" history per stack of the rotation (compressible bodies above the
	// compression threshold, appends, multipart, server-side part copies with tail ranges)
	rotation := []string{*stack}
	if *stack == "all" {
		rotation = S3hStackNames
	} else if strings.Contains(*stack, ",") {
		rotation = strings.Split(*stack, ",")
	}
	nPlain := len(directed)
	for range rotation {
		directed = append(directed, s3hPartsHistory())
	}
	total := len(directed) + f.Cases
	for k := 0; k < total; k++ {
		if !f.Wants(k) {
			continue
		}
		seed := verifx.CaseSeed(f.Seed, k)
		dir := filepath.Join(f.Scratch, fmt.Sprintf("s3h-%d", k))
		sname := *stack
		if sname == "all" { // rotate through every composition
			sname = S3hStackNames[k%len(S3hStackNames)]
		} else if strings.Contains(sname, ",") {
			names := strings.Split(sname, ",")
			sname = names[k%len(names)]
		}
		if k >= nPlain && k < len(directed) { // the parts history of stack number k-nPlain
			sname = rotation[k-nPlain]
		}
		if k < nRoute {
			sname = "route"
		}
		stk := newS3hStack(dir, sname)
		c := &s3hCase{ctx: ctx, st: stk.Storage, out: out, vids: map[string]int{}, bnams: []string{"b0", "b1"},
			lastEtag: map[string]string{}, lastSize: map[string]int64{}, made: map[string]bool{}}
		c.rt = s3hRoutes[stk]
		out.Case(k, seed)
		out.Line("cfg stack=%s mode=%s", strings.ReplaceAll(sname, " ", "+"), *mode)
		if c.rt != nil {
			c.rt.printCfg(c)
		}
		func() {
			defer func() {
				if r := recover(); r != nil {
					out.Line("res panic %s", verifx.HexS(fmt.Sprint(r)))
				}
			}()
			if k < len(directed) {
				for _, line := range directed[k] {
					c.exec(line)
				}
			} else {
				g := &s3hGen{r: verifx.NewRng(seed), c: c, mode: *mode, withPartCopy: true}
				for i := 0; i < *nops; i++ {
					if c.rt != nil { // routing histories: remaps / collector passes in between, dedup-heavy bodies
						if l := s3hRouteMaybeRop(g); l != "" {
							c.exec(l)
						}
						line := s3hRouteTweak(g, g.next())
						if l := s3hRouteMaybeFault(g, line); l != "" { // a part-store fault for this transition / copy
							c.exec(l)
						}
						c.exec(line)
						continue
					}
					c.exec(g.next())
				}
				// closing sweep: listings and every version
				for _, line := range g.sweep() {
					c.exec(line)
				}
			}
		}()
		out.End()
		delete(s3hRoutes, stk)
		stk.Close()
	}
	out.Flush()
}

// ---------------------------------------------------------------- executing one op line

func decS(tok string) *string {
	if tok == "~" {
		return nil
	}
	b := unhexTok(tok)
	s := string(b)
	return &s
}

func unhexTok(tok string) []byte {
	if tok == "-" || tok == "~" {
		return nil
	}
	b := make([]byte, len(tok)/2)
	for i := range b {
		fmt.Sscanf(tok[2*i:2*i+2], "%02x", &b[i])
	}
	return b
}

func decPairs(tok string) map[string]string {
	if tok == "~" {
		return nil
	}
	m := map[string]string{}
	for _, p := range strings.Split(tok, ",") {
		kv := strings.SplitN(p, ":", 2)
		m[string(unhexTok(kv[0]))] = string(unhexTok(kv[1]))
	}
	return m
}

func decMeta(tok string) *storage.ObjectMetadata {
	m := decPairs(tok)
	md := storage.ObjectMetadata{}
	for k, v := range m {
		v := v
		switch k {
		case "!cc":
			md.CacheControl = &v
		case "!cd":
			md.ContentDisposition = &v
		case "!ce":
			md.ContentEncoding = &v
		case "!cl":
			md.ContentLanguage = &v
		case "!ex":
			md.Expires = &v
		case "!wr":
			md.WebsiteRedirectLocation = &v
		default:
			if md.UserMetadata == nil {
				md.UserMetadata = map[string]string{}
			}
			md.UserMetadata[k] = v
		}
	}
	return &md
}

func kv(toks []string) map[string]string {
	m := map[string]string{}
	for _, t := range toks {
		if i := strings.IndexByte(t, '='); i > 0 {
			m[t[:i]] = t[i+1:]
		}
	}
	return m
}

func imArg(tok string) *string {
	switch tok {
	case "", "~":
		return nil
	case "*":
		s := "*"
		return &s
	case "bogus":
		s := "00000000000000000000000000000000"
		return &s
	}
	s := tok
	return &s
}

// exec runs one op line ("op <name> …") on the implementation and prints it followed by "res …".
func (c *s3hCase) exec(line string) {
	c.out.Line("%s", line)
	if c.rt != nil {
		if c.rt.rop(c, line) {
			return
		}
		defer c.rt.after(c, line)
	}
	t := strings.Fields(line)
	a := kv(t)
	name := t[1]
	// the trace says b0/b1; real bucket names need at least three characters
	B := func(i int) storage.BucketName { return storage.MustNewBucketName("bkt-" + t[i]) }
	K := func(i int) storage.ObjectKey { return storage.MustNewObjectKey(t[i]) }
	st, ctx := c.st, c.ctx
	switch name {
	case "mkb":
		if err := st.CreateBucket(ctx, B(2)); err != nil {
			c.resErr(err)
		} else {
			c.out.Line("res ok")
		}
	case "rmb":
		if err := st.DeleteBucket(ctx, B(2)); err != nil {
			c.resErr(err)
		} else {
			c.out.Line("res ok")
		}
	case "ver":
		s := storage.BucketVersioningStatusEnabled
		if t[3] == "S" {
			s = storage.BucketVersioningStatusSuspended
		}
		if err := st.PutBucketVersioningConfiguration(ctx, B(2), &storage.BucketVersioningConfiguration{Status: &s}); err != nil {
			c.resErr(err)
		} else {
			c.out.Line("res ok")
		}
	case "put":
		opts := &storage.PutObjectOptions{Tags: decPairs(a["tags"]), Metadata: decMeta(a["md"]), StorageClass: decS(a["cls"]),
			IfNoneMatchStar: a["inm"] == "1", IfMatchETag: imArg(a["im"])}
		res, err := st.PutObject(ctx, B(2), K(3), decS(a["ct"]), bytes.NewReader(unhexTok(t[4])), nil, opts)
		c.learnVids()
		if err != nil {
			c.resErr(err)
		} else {
			c.noteEtag(t[2], t[3], *res.ETag, int64(len(unhexTok(t[4]))))
			c.out.Line("res ok vid=%s etag=%s", c.vidOut(res.VersionID), *res.ETag)
		}
	case "get", "head":
		vid := parseVidArg(c, a["vid"])
		if name == "get" {
			var o *storage.GetObjectOptions
			if vid != nil {
				o = &storage.GetObjectOptions{VersionID: vid}
			}
			obj, rs, err := st.GetObject(ctx, B(2), K(3), nil, o)
			if err != nil {
				c.resErr(err)
				return
			}
			body, rerr := readAllClose(rs)
			if rerr != nil {
				c.out.Line("res err ReadFailed")
				return
			}
			c.out.Line("%s", c.objLine(obj, verifx.Hex(body)))
		} else {
			var o *storage.HeadObjectOptions
			if vid != nil {
				o = &storage.HeadObjectOptions{VersionID: vid}
			}
			obj, err := st.HeadObject(ctx, B(2), K(3), o)
			if err != nil {
				c.resErr(err)
				return
			}
			c.out.Line("%s", c.objLine(obj, "?"))
		}
	case "del":
		var o *storage.DeleteObjectOptions
		vid := parseVidArg(c, a["vid"])
		im := imArg(a["im"])
		if vid != nil || im != nil {
			o = &storage.DeleteObjectOptions{VersionID: vid, IfMatchETag: im}
		}
		res, err := st.DeleteObject(ctx, B(2), K(3), o)
		c.learnVids()
		if err != nil {
			c.resErr(err)
		} else {
			c.out.Line("res ok vid=%s dm=%d", c.vidOut(res.VersionID), b2i(res.IsDeleteMarker))
		}
	case "cp":
		o := &storage.CopyObjectOptions{SourceVersionID: parseVidArg(c, a["svid"]), ReplaceMetadata: a["mdir"] == "R",
			ReplaceTags: a["tdir"] == "R", ContentType: decS(a["ct"]), Metadata: decMeta(a["md"]), Tags: decPairs(a["tags"]),
			StorageClass: decS(a["cls"])}
		res, err := st.CopyObject(ctx, B(2), K(3), B(4), K(5), o)
		c.learnVids()
		if err != nil {
			c.resErr(err)
		} else {
			c.noteEtag(t[4], t[5], res.ETag, -1)
			c.out.Line("res ok vid=%s etag=%s", c.vidOut(res.VersionID), res.ETag)
		}
	case "app":
		var o *storage.AppendObjectOptions
		if a["off"] != "~" {
			var n int64
			fmt.Sscanf(a["off"], "%d", &n)
			o = &storage.AppendObjectOptions{WriteOffset: &n}
		}
		res, err := st.AppendObject(ctx, B(2), K(3), bytes.NewReader(unhexTok(t[4])), nil, o)
		c.learnVids()
		if err != nil {
			c.resErr(err)
		} else {
			c.noteEtag(t[2], t[3], res.ETag, res.Size)
			c.out.Line("res ok etag=%s size=%d", res.ETag, res.Size)
		}
	case "mpu":
		o := &storage.CreateMultipartUploadOptions{Tags: decPairs(a["tags"]), Metadata: decMeta(a["md"]), StorageClass: decS(a["cls"])}
		res, err := st.CreateMultipartUpload(ctx, B(2), K(3), decS(a["ct"]), nil, o)
		if err != nil {
			c.resErr(err)
		} else {
			c.uids = append(c.uids, res.UploadId)
			c.out.Line("res ok u=%d", len(c.uids)-1)
		}
	case "upp":
		res, err := st.UploadPart(ctx, B(2), K(3), c.uid(t[4]), atoi32(t[5]), bytes.NewReader(unhexTok(t[6])), nil)
		if err != nil {
			c.resErr(err)
		} else {
			c.out.Line("res ok etag=%s", res.ETag)
		}
	case "uppc":
		// op uppc <sb> <sk> <db> <dk> <u> <n> range=<a>-<b>|~     (b exclusive)
		var o *storage.UploadPartCopyOptions
		if r := a["range"]; r != "~" && r != "" {
			var s, e int64
			fmt.Sscanf(r, "%d-%d", &s, &e)
			o = &storage.UploadPartCopyOptions{Range: &storage.ByteRange{Start: &s, End: &e}}
		}
		res, err := st.UploadPartCopy(ctx, B(2), K(3), B(4), K(5), c.uid(t[6]), atoi32(t[7]), o)
		if err != nil {
			c.resErr(err)
		} else {
			c.out.Line("res ok etag=%s", res.ETag)
		}
	case "cmpl":
		var o *storage.CompleteMultipartUploadOptions
		if a["parts"] != "~" || a["inm"] == "1" || a["im"] != "~" {
			o = &storage.CompleteMultipartUploadOptions{IfNoneMatchStar: a["inm"] == "1", IfMatchETag: imArg(a["im"])}
			if a["parts"] != "~" {
				for _, p := range strings.Split(a["parts"], ",") {
					o.Parts = append(o.Parts, storage.CompleteMultipartUploadPart{PartNumber: atoi32(p)})
				}
			}
		}
		res, err := st.CompleteMultipartUpload(ctx, B(2), K(3), c.uid(t[4]), nil, o)
		c.learnVids()
		if err != nil {
			c.resErr(err)
		} else {
			c.noteEtag(t[2], t[3], res.ETag, -1)
			c.out.Line("res ok vid=%s etag=%s", c.vidOut(res.VersionID), res.ETag)
		}
	case "abort":
		if err := st.AbortMultipartUpload(ctx, B(2), K(3), c.uid(t[4])); err != nil {
			c.resErr(err)
		} else {
			c.out.Line("res ok")
		}
	case "gtag", "ptag", "dtag":
		var o *storage.ObjectTaggingOptions
		if vid := parseVidArg(c, a["vid"]); vid != nil {
			o = &storage.ObjectTaggingOptions{VersionID: vid}
		}
		switch name {
		case "gtag":
			tags, err := st.GetObjectTagging(ctx, B(2), K(3), o)
			if err != nil {
				c.resErr(err)
			} else {
				c.out.Line("res ok tags=%s", pairsS(tags))
			}
		case "ptag":
			if err := st.PutObjectTagging(ctx, B(2), K(3), decPairs(a["tags"]), o); err != nil {
				c.resErr(err)
			} else {
				c.out.Line("res ok")
			}
		case "dtag":
			if err := st.DeleteObjectTagging(ctx, B(2), K(3), o); err != nil {
				c.resErr(err)
			} else {
				c.out.Line("res ok")
			}
		}
	case "trans":
		var o *storage.TransitionObjectStorageClassOptions
		if vid := parseVidArg(c, a["vid"]); vid != nil {
			o = &storage.TransitionObjectStorageClassOptions{VersionID: vid}
		}
		if err := st.TransitionObjectStorageClass(ctx, B(2), K(3), t[4], o); err != nil {
			c.resErr(err)
		} else {
			c.out.Line("res ok")
		}
	case "ls":
		objs, err := storage.ListAllObjectsOfBucket(ctx, st, B(2))
		if err != nil {
			c.resErr(err)
			return
		}
		items := []string{}
		for _, o := range objs {
			items = append(items, fmt.Sprintf("%s:%d:%s:%s", o.Key.String(), o.Size, o.ETag, optS(o.StorageClass)))
		}
		c.out.Line("res ok %s", joinOr(items))
	case "lsv":
		res, err := st.ListObjectVersions(ctx, B(2), storage.ListObjectVersionsOptions{MaxKeys: 100000})
		if err != nil {
			c.resErr(err)
			return
		}
		items := []string{}
		for _, v := range res.Versions {
			vid := v.VersionID
			items = append(items, fmt.Sprintf("%s:%s:%d:%d:%d:%d:%s", v.Key.String(), c.vidOut(&vid), b2i(v.IsLatest), b2i(v.IsDeleteMarker),
				v.Size, v.LastModified.UnixNano(), optS(v.StorageClass)))
		}
		c.out.Line("res ok %s", joinOr(items))
	case "lsb":
		bs, err := st.ListBuckets(ctx)
		if err != nil {
			c.resErr(err)
			return
		}
		items := []string{}
		for _, b := range bs {
			items = append(items, strings.TrimPrefix(b.Name.String(), "bkt-"))
		}
		sort.Strings(items)
		c.out.Line("res ok %s", joinOr(items))
	default:
		verifx.Fatalf("s3h: unknown op %q", line)
	}
}

func joinOr(items []string) string {
	if len(items) == 0 {
		return "~"
	}
	return strings.Join(items, ",")
}

func b2i(b bool) int {
	if b {
		return 1
	}
	return 0
}

func atoi32(s string) int32 {
	var n int32
	fmt.Sscanf(s, "%d", &n)
	return n
}

func (c *s3hCase) uid(tok string) storage.UploadId {
	var n int
	fmt.Sscanf(tok, "%d", &n)
	if n >= 0 && n < len(c.uids) {
		return c.uids[n]
	}
	return storage.MustNewUploadId("01ARZ3NDEKTSV4RRFFQ69G5FAV")
}
