//go:build verif

package main

import (
	"bytes"
	"context"
	"crypto/sha256"
	"database/sql"
	"encoding/hex"
	"errors"
	"fmt"
	"io"
	"os"
	"path/filepath"
	"sort"
	"strings"
	"time"

	"github.com/jdillenkofer/pithos/internal/storage/database"
	"github.com/jdillenkofer/pithos/internal/storage/metadatapart/partstore"
	"github.com/jdillenkofer/pithos/internal/verifx"
)

// C15: every part store / every middleware stack returns exactly the bytes it was given.
//
// Trace of one case (see lean/Driver/C15.lean):
//
//	stack <base> <letters…|->            base ∈ fs|sql|mix, letters as in verifx.Letter
//	fixes sql=<0|1> ec=<0|1> tink=<0|1>  which repairs the tree under test carries (probed, see probeFixes)
//	caps <get> <put> <del>               tx-free capabilities advertised by the top store (0|1)
//	put <tx|notx> <id> <content> <ok|err>
//	get <tx|notx> <id> <nf | ok <content> | err <open|read>>
//	del <tx|notx> <id> <ok|err>
//	ids <sorted ordinals, comma separated | -> <dups 0|1>
//	flush <ok|timeout>                   every outbox of the stack drained (deterministic point)
//	panic <text>                         the case died with a panic (recovered by the harness)
//
// A trailing "panic" token on put/get/del: a shard-store call made by an erasure-coding layer
// panicked during this operation (caught by verifx.GuardStore).
//
// ids are ordinals of the case's part ids; contents are hex ("-" = empty) up to c15Inline bytes,
// larger ones are references "@n:len" to the n-th distinct content of the case (the harness compares
// the bytes itself); bytes read back that equal no content of the case print as "?len:hash".

const c15Inline = 2048

func init() { register("c15", runC15) }

type c15Op struct {
	kind    string // put get del ids flush lose
	id      int
	content int // index into contents (lose: index of the leaf store that loses the part)
	notx    bool
}

type c15Case struct {
	base     string
	word     []verifx.Letter
	contents [][]byte
	ops      []c15Op
	nids     int
}

func c15Content(r *verifx.Rng, kind, n int) []byte {
	switch kind {
	case 0: // incompressible
		return r.Bytes(n)
	case 1: // highly compressible: one repeated byte
		return bytes.Repeat([]byte{byte(r.Intn(256))}, n)
	case 2: // compressible: short repeated phrase
		p := []byte("pithos-part-content-")
		b := bytes.Repeat(p, n/len(p)+1)
		return b[:n]
	case 3: // begins like a stored compression stream (magic + version + algorithm gzip)
		b := r.Bytes(n)
		copy(b, []byte{0x4d, 0x2b, 0x0a, 0xdc, 0xee, 0x7c, 0x44, 0xa8, 0xb0, 0x49, 0x98, 0x06, 0x7b, 0x5b, 0x84, 0x50, 1, 1, 0, 0, 0, 0, 0, 0})
		return b
	case 4: // begins like an erasure-coding shard header
		b := r.Bytes(n)
		copy(b, []byte{'P', 'E', 'C', '1', 1, 0, 2, 0, 3, 0, 0, 0, 0, 4, 0})
		return b
	default: // begins like a tink part header length prefix with a tiny JSON
		b := r.Bytes(n)
		copy(b, []byte{0, 0, 0, 2, '{', '}'})
		return b
	}
}

// c15Boundaries lists the sizes at which some layer of the word changes behaviour (constants read
// from the sources: compression.minCompressSize/headerSize/sample, tink.DefaultSegmentSize with its
// 40-byte stream header and 16-byte tag, the EC stripe, the cache threshold, ioutils' 128 KiB buffers).
func c15Boundaries(word []verifx.Letter) []int {
	bs := []int{0, 1, 2, 31, 32, 33}
	for _, l := range word {
		switch l.Kind {
		case 'z', 'g':
			bs = append(bs, 1024, l.A)
		case 't':
			first := 128*1024 - 40 - 16
			bs = append(bs, first, first+128*1024-16)
		case 'c':
			bs = append(bs, l.A)
		case 'e':
			bs = append(bs, l.A, l.A*l.C, 2*l.A*l.C, l.A*l.C+l.A)
		case 'o':
			bs = append(bs, 128*1024)
		}
	}
	return bs
}

func c15PickSize(r *verifx.Rng, word []verifx.Letter, thorough bool) int {
	x := r.Intn(100)
	switch {
	case x < 55:
		b := verifx.Pick(r, c15Boundaries(word))
		n := b + r.Intn(3) - 1
		if n < 0 {
			n = 0
		}
		return n
	case x < 85:
		return r.Intn(3000)
	case x < 97:
		return r.Intn(40000)
	default:
		if thorough {
			return r.Intn(600000)
		}
		return r.Intn(300000)
	}
}

func c15RandomLetter(r *verifx.Rng) verifx.Letter {
	switch r.Intn(7) {
	case 0:
		return verifx.Letter{Kind: 'z', A: verifx.Pick(r, []int{2048, 1024, 4096, 65536, 100})}
	case 1:
		return verifx.Letter{Kind: 'g', A: verifx.Pick(r, []int{2048, 1024, 4096, 65536, 100})}
	case 2:
		return verifx.Letter{Kind: 't'}
	case 3:
		return verifx.Letter{Kind: 'c', A: verifx.Pick(r, []int{5000, 100, 1 << 20, 1})}
	case 4:
		return verifx.Letter{Kind: 'o'}
	default:
		dp := verifx.Pick(r, [][2]int{{1, 1}, {2, 1}, {2, 2}, {3, 2}})
		return verifx.Letter{Kind: 'e', A: dp[0], B: dp[1], C: verifx.Pick(r, []int{1024, 1024, 1500, 4096})}
	}
}

// c15Leaves = number of base stores the word needs.
func c15Leaves(word []verifx.Letter) int {
	n := 1
	for _, l := range word {
		if l.Kind == 'e' {
			n *= l.A + l.B
		}
	}
	return n
}

func c15GenCase(seed uint64, tier string) *c15Case {
	r := verifx.NewRng(seed)
	maxDepth := 3
	if tier == "thorough" {
		maxDepth = 5
	}
	c := &c15Case{base: verifx.Pick(r, []string{"fs", "sql", "fs", "sql", "mix"})}
	for {
		depth := r.Intn(maxDepth + 1)
		c.word = nil
		for i := 0; i < depth; i++ {
			c.word = append(c.word, c15RandomLetter(r))
		}
		if c15Leaves(c.word) <= 25 {
			break
		}
	}
	c.nids = 1 + r.Intn(4)
	ncont := 2 + r.Intn(5)
	for i := 0; i < ncont; i++ {
		kind := verifx.Pick(r, []int{0, 0, 1, 2, 2, 3, 4, 5})
		c.contents = append(c.contents, c15Content(r, kind, c15PickSize(r, c.word, tier == "thorough")))
	}
	if r.Chance(1, 2) {
		c.contents = append(c.contents, []byte{})
	}
	hasOutbox := false
	for _, l := range c.word {
		hasOutbox = hasOutbox || l.Kind == 'o'
	}
	hasEc := false
	for _, l := range c.word {
		hasEc = hasEc || l.Kind == 'e'
	}
	liveRef := map[int]bool{} // the generator's own bookkeeping of which ids hold a part
	nops := 6 + r.Intn(18)
	for i := 0; i < nops; i++ {
		x := r.Intn(100)
		op := c15Op{id: r.Intn(c.nids), notx: r.Chance(1, 2)}
		switch {
		case x < 35:
			op.kind, op.content = "put", r.Intn(len(c.contents))
		case x < 70:
			op.kind = "get"
		case x < 82:
			op.kind = "del"
		case x < 92:
			op.kind = "ids"
		default:
			op.kind = "flush"
		}
		if op.kind == "flush" && !hasOutbox {
			op.kind = "get"
		}
		c.ops = append(c.ops, op)
		switch op.kind {
		case "put":
			liveRef[op.id] = true
		case "del":
			delete(liveRef, op.id)
		case "get":
			// A read of an absent part through an erasure-coding layer creates an empty part (known
			// finding). Mostly delete it again right away, so that the remaining history of this id
			// is judged from a state that agrees with the reference.
			if hasEc && !liveRef[op.id] && r.Chance(4, 5) {
				c.ops = append(c.ops, c15Op{kind: "ids"}, c15Op{kind: "del", id: op.id, notx: r.Bool()})
			}
		}
	}
	// closing round: drain, then read everything back
	if hasOutbox {
		c.ops = append(c.ops, c15Op{kind: "flush"})
	}
	for i := 0; i < c.nids; i++ {
		c.ops = append(c.ops, c15Op{kind: "get", id: i, notx: r.Bool()})
	}
	c.ops = append(c.ops, c15Op{kind: "ids"})
	return c
}

type c15Runner struct {
	env   *verifx.StackEnv
	out   *verifx.Out
	ctx   context.Context
	hung  bool   // an operation did not return: the stack is wedged, stop the run
	fixes string // which of the three repairs the code under test carries (see probeFixes)
}

// probeFixes finds out, by three discriminating probes on the real code, which of the proposed
// repairs (fixes/C15-*.patch) the tree under test carries; the driver selects the matching model
// variant (the models are switchable, see Pithos.PartStore.Fixes). The judge does not depend on it.
func (rn *c15Runner) probeFixes() {
	ctx := rn.ctx
	id := *verifx.Must(partstore.NewRandomPartId())
	probe := func(base string, word []verifx.Letter, put []byte, doPut bool) (found bool, content []byte, rerr error) {
		st := rn.env.Build(word, base)
		defer st.Release()
		verifx.Check(st.Top.Start(ctx))
		defer st.Top.Stop(ctx)
		if doPut {
			verifx.Check(rn.tx(false, func(ctx context.Context, tx database.Tx) error {
				return st.Top.PutPart(ctx, tx, id, bytes.NewReader(put))
			}))
		}
		_ = rn.tx(true, func(ctx context.Context, tx database.Tx) error {
			rc, err := st.Top.GetPart(ctx, tx, id)
			if err != nil {
				return nil
			}
			found = true
			content, rerr = io.ReadAll(rc)
			_ = rc.Close()
			return nil
		})
		return
	}
	sqlFound, _, _ := probe("sql", nil, []byte{}, true)
	ecFound, _, _ := probe("fs", []verifx.Letter{verifx.ParseLetter("e:1:1:1024")}, nil, false)
	_, _, tinkErr := probe("sql", []verifx.Letter{{Kind: 't'}, {Kind: 't'}}, []byte{1}, true)
	rn.fixes = fmt.Sprintf("fixes sql=%d ec=%d tink=%d", c15b2i(sqlFound), c15b2i(!ecFound), c15b2i(tinkErr == nil))
}

// guard runs fn with a watchdog: an operation of the code under test that does not return within
// the limit is reported as an observation ("hang") instead of blocking the harness forever.
func (rn *c15Runner) guard(what string, limit time.Duration, fn func()) {
	done := make(chan struct{})
	var pv any
	go func() {
		defer close(done)
		defer func() { pv = recover() }()
		fn()
	}()
	select {
	case <-done:
		if pv != nil {
			panic(pv)
		}
	case <-time.After(limit):
		rn.out.Line("hang %s", what)
		rn.hung = true
	}
}

func (rn *c15Runner) token(c *c15Case, b []byte) string {
	if len(b) <= c15Inline {
		return verifx.Hex(b)
	}
	for i, x := range c.contents {
		if len(x) == len(b) && bytes.Equal(x, b) {
			// first equal content wins, so equal contents share one token
			for j := 0; j < i; j++ {
				if bytes.Equal(c.contents[j], b) {
					i = j
					break
				}
			}
			return fmt.Sprintf("@%d:%d", i, len(b))
		}
	}
	h := sha256.Sum256(b)
	return fmt.Sprintf("?%d:%s", len(b), hex.EncodeToString(h[:8]))
}

func (rn *c15Runner) tx(ro bool, fn func(ctx context.Context, tx database.Tx) error) error {
	return database.WithTx(rn.ctx, rn.env.DB, &sql.TxOptions{ReadOnly: ro}, fn)
}

func (rn *c15Runner) run(k int, seed uint64, c *c15Case) {
	out := rn.out
	out.Case(k, seed)
	defer out.End()
	out.Line("stack %s %s", c.base, verifx.WordString(c.word))
	out.Line("%s", rn.fixes)
	out.Flush()
	defer func() {
		if p := recover(); p != nil {
			out.Line("panic %s", strings.ReplaceAll(fmt.Sprint(p), " ", "_"))
		}
	}()
	st := rn.env.Build(c.word, c.base)
	defer st.Release()
	ctx := rn.ctx
	if err := st.Top.Start(ctx); err != nil {
		out.Line("panic start:%s", strings.ReplaceAll(err.Error(), " ", "_"))
		return
	}
	defer func() {
		// Drain the outboxes before stopping: Stop cancels the worker's context, and a worker that is just
		// replaying a put into an erasure-coding store then deadlocks in the real code (a shard store that
		// fails before draining its pipe blocks erasurecoding.PutPart for ever; see design/C15.md) — a
		// liveness defect at shutdown that is not what C15 observes and must not stall the run.
		st.Flush(ctx, 20*time.Second)
		rn.env.Gate.Open() // never stop a worker parked in the gate with work pending
		stopped := make(chan struct{})
		go func() {
			defer close(stopped)
			_ = st.Top.Stop(ctx)
		}()
		select {
		case <-stopped:
		case <-time.After(30 * time.Second):
			fmt.Fprintf(os.Stderr, "c15: case %d: Stop did not return within 30s (stack %s %s); continuing\n", k, c.base, verifx.WordString(c.word))
		}
		rn.env.Gate.Close()
	}()
	caps := partstore.CapabilitiesOf(st.Top)
	cg, cp, cd := caps.Has(partstore.CapabilityTxFreeGetPart), caps.Has(partstore.CapabilityTxFreePutPart), caps.Has(partstore.CapabilityTxFreeDeletePart)
	out.Line("caps %d %d %d", c15b2i(cg), c15b2i(cp), c15b2i(cd))

	ids := make([]partstore.PartId, c.nids)
	ord := map[string]int{}
	for i := range ids {
		ids[i] = *verifx.Must(partstore.NewRandomPartId())
		ord[ids[i].String()] = i
	}
	mode := func(notx bool) string {
		if notx {
			return "notx"
		}
		return "tx"
	}
	for _, op := range c.ops {
		if rn.hung {
			break
		}
		panics0 := rn.env.Panics.Load()
		pan := func() string {
			rn.env.Settle(5 * time.Second)
			if rn.env.Panics.Load() != panics0 {
				return " panic"
			}
			return ""
		}
		op := op
		// one minute per operation, plus a minute per 8 MiB of the case's largest content (the 256 MB SQL
		// part takes minutes on a loaded machine)
		limit := time.Minute
		for _, b := range c.contents {
			if l := time.Minute * time.Duration(1+len(b)/(8<<20)); l > limit {
				limit = l
			}
		}
		rn.guard(op.kind, limit, func() {
			switch op.kind {
			case "put":
				notx := op.notx && cp
				body := c.contents[op.content]
				var err error
				if notx {
					err = st.Top.PutPart(ctx, nil, ids[op.id], bytes.NewReader(body))
				} else {
					err = rn.tx(false, func(ctx context.Context, tx database.Tx) error {
						return st.Top.PutPart(ctx, tx, ids[op.id], bytes.NewReader(body))
					})
				}
				out.Line("put %s %d %s %s%s", mode(notx), op.id, rn.token(c, body), okStr15(err), pan())
			case "del":
				notx := op.notx && cd
				var err error
				if notx {
					err = st.Top.DeletePart(ctx, nil, ids[op.id])
				} else {
					err = rn.tx(false, func(ctx context.Context, tx database.Tx) error {
						return st.Top.DeletePart(ctx, tx, ids[op.id])
					})
				}
				out.Line("del %s %d %s%s", mode(notx), op.id, okStr15(err), pan())
			case "get":
				notx := op.notx && cg
				res := ""
				read := func(ctx context.Context, tx database.Tx) error {
					rc, err := st.Top.GetPart(ctx, tx, ids[op.id])
					if err != nil {
						if errors.Is(err, partstore.ErrPartNotFound) {
							res = "nf"
						} else {
							if os.Getenv("C15_DEBUG") != "" {
								fmt.Fprintln(os.Stderr, "open error:", err)
							}
							res = "err open"
						}
						return nil
					}
					if rc == nil {
						res = "err open"
						return nil
					}
					b, rerr := io.ReadAll(rc)
					_ = rc.Close()
					if rerr != nil {
						if os.Getenv("C15_DEBUG") != "" {
							fmt.Fprintln(os.Stderr, "read error:", rerr, "after", len(b), "bytes")
						}
						res = "err read"
						return nil
					}
					res = "ok " + rn.token(c, b)
					return nil
				}
				if notx {
					_ = read(ctx, nil)
				} else if err := rn.tx(true, read); err != nil && res == "" {
					res = "err open"
				}
				out.Line("get %s %d %s%s", mode(notx), op.id, res, pan())
			case "lose":
				// a fault below the stack (directed cases only): one leaf store loses the part
				lf := st.Leaves[op.content]
				var err error
				if lf.Kind == "fs" {
					err = lf.Store.DeletePart(ctx, nil, ids[op.id])
				} else {
					err = rn.tx(false, func(ctx context.Context, tx database.Tx) error {
						return lf.Store.DeletePart(ctx, tx, ids[op.id])
					})
				}
				out.Line("lose %d %d %s", op.content, op.id, okStr15(err))
			case "ids":
				var got []partstore.PartId
				err := rn.tx(true, func(ctx context.Context, tx database.Tx) error {
					var e error
					got, e = st.Top.GetPartIds(ctx, tx)
					return e
				})
				if err != nil {
					out.Line("ids err 0")
					return
				}
				seen := map[int]bool{}
				dups := 0
				var ords []int
				unknown := 0
				for _, id := range got {
					o, ok := ord[id.String()]
					if !ok {
						unknown++
						if os.Getenv("C15_DEBUG") != "" {
							fmt.Fprintln(os.Stderr, "foreign id:", id.String(), "case", k)
						}
						continue
					}
					if seen[o] {
						dups = 1
						continue
					}
					seen[o] = true
					ords = append(ords, o)
				}
				sort.Ints(ords)
				ss := make([]string, len(ords))
				for i, o := range ords {
					ss[i] = fmt.Sprint(o)
				}
				for i := 0; i < unknown; i++ {
					ss = append(ss, "x")
				}
				s := strings.Join(ss, ",")
				if s == "" {
					s = "-"
				}
				out.Line("ids %s %d", s, dups)
			case "flush":
				if st.Flush(ctx, 20*time.Second) {
					out.Line("flush ok")
				} else {
					out.Line("flush timeout")
				}
			}
		})
	}
}

func okStr15(err error) string {
	if err == nil {
		return "ok"
	}
	return "err"
}

func c15b2i(b bool) int {
	if b {
		return 1
	}
	return 0
}

func c15Directed(tier string) []*c15Case {
	L := verifx.ParseLetter
	var cs []*c15Case
	add := func(base string, word []verifx.Letter, contents [][]byte, ops []c15Op, nids int) {
		cs = append(cs, &c15Case{base: base, word: word, contents: contents, ops: ops, nids: nids})
	}
	r := verifx.NewRng(0xC15)
	// the standard history: put, read back (tx / no tx), list, overwrite, read, delete, read, list
	std := func(n int) []c15Op {
		var ops []c15Op
		for i := 0; i < n; i++ {
			ops = append(ops, c15Op{kind: "put", id: 0, content: i}, c15Op{kind: "get", id: 0}, c15Op{kind: "get", id: 0, notx: true}, c15Op{kind: "ids"})
		}
		ops = append(ops, c15Op{kind: "flush"}, c15Op{kind: "get", id: 0}, c15Op{kind: "ids"},
			c15Op{kind: "del", id: 0}, c15Op{kind: "get", id: 0}, c15Op{kind: "ids"},
			c15Op{kind: "flush"}, c15Op{kind: "get", id: 0, notx: true}, c15Op{kind: "ids"})
		return ops
	}
	// 0,1: the two suspected defects, alone
	add("sql", nil, [][]byte{{}}, []c15Op{{kind: "put", id: 0, content: 0}, {kind: "get", id: 0}, {kind: "ids"}}, 1)
	add("fs", []verifx.Letter{L("e:2:1:1024")}, [][]byte{r.Bytes(10)}, []c15Op{{kind: "get", id: 0}, {kind: "ids"}, {kind: "get", id: 0, notx: true},
		{kind: "put", id: 0, content: 0}, {kind: "get", id: 0}, {kind: "del", id: 0}, {kind: "get", id: 0}, {kind: "ids"}}, 1)
	// 2,3: two tink layers over a non-seekable store; a tx-free healing read over outbox shard stores
	add("sql", []verifx.Letter{L("t"), L("t")}, [][]byte{{7}, {}, r.Bytes(3000)}, std(3), 1)
	add("fs", []verifx.Letter{L("e:2:1:1024"), L("o")}, [][]byte{r.Bytes(10)}, []c15Op{{kind: "get", id: 0, notx: true}, {kind: "ids"},
		{kind: "put", id: 0, content: 0}, {kind: "get", id: 0, notx: true}, {kind: "flush"}, {kind: "get", id: 0, notx: true}}, 1)
	// 4: a shard really goes missing below erasure coding over outbox shard stores; a tx-free read then heals
	// with a nil transaction (the outbox has no tx-free PutPart)
	add("fs", []verifx.Letter{L("e:2:1:1024"), L("o")}, [][]byte{r.Bytes(3000)}, []c15Op{{kind: "put", id: 0, content: 0}, {kind: "flush"},
		{kind: "lose", id: 0, content: 0}, {kind: "get", id: 0, notx: true}, {kind: "get", id: 0}, {kind: "flush"}, {kind: "get", id: 0, notx: true}, {kind: "ids"}}, 1)
	// every single letter over both bases with its boundary sizes ±1, three content kinds
	letters := []string{"z:2048", "g:2048", "z:65536", "t", "c:5000", "o", "e:1:1:1024", "e:2:1:1024", "e:2:2:1024", "e:3:2:1024"}
	for _, base := range []string{"fs", "sql"} {
		add(base, nil, [][]byte{{}, {7}, r.Bytes(1000), c15Content(r, 1, 131073)}, std(4), 1)
		for _, ls := range letters {
			w := []verifx.Letter{L(ls)}
			var contents [][]byte
			contents = append(contents, []byte{}, []byte{0x41})
			for _, b := range c15Boundaries(w) {
				for d := -1; d <= 1; d++ {
					if n := b + d; n > 1 {
						contents = append(contents, c15Content(r, (b+d)%3, n))
					}
				}
			}
			add(base, w, contents, std(len(contents)), 1)
		}
	}
	// outbox chunk (8 MiB) ± 1 over both bases; contents are references
	big := 8 * 1024 * 1024
	for _, base := range []string{"fs", "sql"} {
		add(base, []verifx.Letter{L("o")}, [][]byte{c15Content(r, 2, big-1), c15Content(r, 0, big), c15Content(r, 2, big+1)}, std(3), 1)
	}
	// the composition the repository's own integration tests use, and two deep ones
	add("fs", []verifx.Letter{L("t"), L("z:65536")}, [][]byte{c15Content(r, 0, 300000), c15Content(r, 1, 300000), {}}, std(3), 1)
	add("sql", []verifx.Letter{L("c:5000"), L("o"), L("z:2048"), L("t"), L("e:2:1:1024")}, [][]byte{c15Content(r, 2, 6000), {}, c15Content(r, 0, 2049)}, std(3), 1)
	add("mix", []verifx.Letter{L("e:2:1:1024"), L("o"), L("g:1024")}, [][]byte{c15Content(r, 2, 4097), {}, {1}}, std(3), 1)
	if tier == "thorough" {
		// SQL chunk size (256 000 000) ± 1
		sq := 256 * 1000 * 1000
		add("sql", nil, [][]byte{c15Content(r, 2, sq), c15Content(r, 2, sq+1)}, []c15Op{{kind: "put", id: 0, content: 0}, {kind: "get", id: 0}, {kind: "put", id: 0, content: 1}, {kind: "get", id: 0}, {kind: "ids"}, {kind: "del", id: 0}, {kind: "get", id: 0}}, 1)
	}
	return cs
}

func runC15(args []string) {
	f := verifx.ParseFlags("c15", args, 260, 1500)
	out := verifx.NewOut()
	env := verifx.NewStackEnv(filepath.Join(f.Scratch, "c15"))
	if os.Getenv("C15_KEEP") == "" {
		defer env.Close()
	}
	rn := &c15Runner{env: env, out: out, ctx: context.Background()}
	rn.probeFixes()
	k := 0
	if spec := os.Getenv("C15_STACK"); spec != "" {
		// debugging aid: C15_STACK="sql|t t" runs the standard history on one stack and exits
		parts := strings.SplitN(spec, "|", 2)
		var w []verifx.Letter
		for _, t := range strings.Fields(parts[1]) {
			w = append(w, verifx.ParseLetter(t))
		}
		r := verifx.NewRng(f.Seed)
		rn.run(0, 0, &c15Case{base: parts[0], word: w, nids: 2, contents: [][]byte{{}, {1, 2, 3}, r.Bytes(5000), c15Content(r, 2, 300000)},
			ops: []c15Op{{kind: "put", id: 0, content: 0}, {kind: "get", id: 0}, {kind: "put", id: 0, content: 1}, {kind: "get", id: 0}, {kind: "get", id: 0, notx: true},
				{kind: "put", id: 1, content: 2}, {kind: "get", id: 1}, {kind: "put", id: 1, content: 3}, {kind: "get", id: 1}, {kind: "ids"}, {kind: "flush"}, {kind: "get", id: 0}, {kind: "get", id: 1},
				{kind: "del", id: 0}, {kind: "get", id: 0}, {kind: "ids"}}})
		out.Flush()
		return
	}
	for _, c := range c15Directed(f.Tier) {
		if f.Wants(k) {
			rn.run(k, uint64(k), c)
		}
		k++
	}
	for i := 0; i < f.Cases; i++ {
		if f.Wants(k) {
			seed := verifx.CaseSeed(f.Seed, k)
			rn.run(k, seed, c15GenCase(seed, f.Tier))
		}
		k++
	}
	// statement-level races of outbox reads with commits and worker passes (c15_race.go); numbered after the
	// generated histories so that the numbers of the cases above do not depend on them
	nRace := 24
	if f.Tier == "thorough" {
		nRace = 300
	}
	for _, c := range c15RaceCases(f.Seed, nRace) {
		if f.Wants(k) && !rn.hung {
			rn.runRace(k, verifx.CaseSeed(f.Seed, k), c)
		}
		k++
	}
	out.Flush()
}
