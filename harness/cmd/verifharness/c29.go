//go:build verif

package main

import (
	"bytes"
	"context"
	"fmt"
	"io"
	"net/http"
	"strings"
	"time"

	"github.com/aws/aws-sdk-go-v2/aws"
	"github.com/aws/aws-sdk-go-v2/credentials"
	"github.com/aws/aws-sdk-go-v2/service/s3"
	"github.com/jdillenkofer/pithos/internal/verifx"
)

// C29: requests built the way the AWS SDK's S3 client builds them, signed by the real
// aws/signer/v4 (S3 settings) or sent by the real service/s3 client, go over a loop-back
// connection through authentication.MakeSignatureMiddleware into a handler that reads the body.

func init() { register("c29", runC29) }

func c29Directed(now time.Time) []*verifx.SigSpec {
	c := verifx.SigCreds[0]
	base := func(method, key string) *verifx.SigSpec {
		return &verifx.SigSpec{Method: method, Host: "s3.verif.test", Bucket: "b", Key: key, Mode: verifx.ModeHash, Cred: c, Region: verifx.SigRegion, SignTime: now}
	}
	var out []*verifx.SigSpec
	// 0: the DESIGN §10 witness: inner run of spaces in a signed header value
	s := base("GET", "obj")
	s.Header = [][2]string{{"x-amz-meta-a", "hello   world"}}
	out = append(out, s)
	// 1: query keys whose order differs decoded vs percent-encoded (the repository's own unit test pair)
	s = base("GET", "obj")
	s.Query = [][2]string{{"z", "1"}, {"ä", "1"}}
	out = append(out, s)
	// 2: same for two values of one key
	s = base("GET", "obj")
	s.Query = [][2]string{{"k", "aa"}, {"k", "a{"}}
	out = append(out, s)
	// 3: plain
	out = append(out, base("GET", "plain.txt"))
	// 4…: every reserved character on its own, in key, query value and header value
	for _, ch := range []string{" ", "+", "%", "~", "*", "'", "\"", "//", "ä", "日本", "😀", "%20", "%2F", "?", "#", "&", "=", ";", ":", "@", "$", ",", "!", "(", ")", "[", "]", "{", "}", "|", "\\", "^", "`", "<", ">", "/./", "/../"} {
		s = base("PUT", "k"+ch+"x")
		s.Body = []byte("payload-" + ch)
		s.Query = [][2]string{{"prefix", "p" + ch + "q"}}
		if !strings.ContainsAny(ch, "\r\n") {
			s.Header = [][2]string{{"x-amz-meta-c", "v" + ch + "w"}}
		}
		out = append(out, s)
	}
	// every payload mode once
	for _, m := range []string{verifx.ModeUnsigned, verifx.ModePresign, verifx.ModeStream, verifx.ModeStreamTrailer, verifx.ModeStreamUnsignedTrailer, verifx.ModeStreamUnsigned} {
		s = base("PUT", "mode "+m)
		s.Mode = m
		s.Body = bytes.Repeat([]byte("0123456789abcdef"), 20)
		s.Chunks = []int{100, 64}
		s.Trailer = "x-amz-checksum-crc32c"
		s.Expires = 900
		out = append(out, s)
	}
	// leading / trailing white space and tabs in header values, repeated header, empty value
	s = base("PUT", "ws")
	s.Header = [][2]string{{"x-amz-meta-a", "  lead"}, {"x-amz-meta-b", "trail \t"}, {"x-amz-meta-t", "a\tb"}, {"x-amz-meta-m", "one"}, {"x-amz-meta-m", "two"}, {"x-amz-meta-e", ""}}
	out = append(out, s)
	// hand-written raw query forms: key without '=', '+' for space, empty key
	for _, rq := range []string{"uploads", "prefix=a+b&delimiter=%2F", "a=1&a=0&b", "=x", "k=%7e~", "list-type=2&prefix=a%2Bb"} {
		s = base("GET", "rq")
		q := rq
		s.RawQuery = &q
		out = append(out, s)
	}
	// service root, bucket level, empty key
	s = base("GET", "")
	s.Bucket = ""
	out = append(out, s)
	s = base("GET", "")
	s.NoSlash = true
	out = append(out, s)
	out = append(out, base("GET", ""))
	// body of unknown length: Transfer-Encoding: chunked instead of Content-Length (hashed and unsigned payload)
	for _, m := range []string{verifx.ModeHash, verifx.ModeUnsigned} {
		s = base("PUT", "te chunked "+m)
		s.Mode, s.TEChunk = m, true
		s.Body = []byte("streamed with unknown length")
		out = append(out, s)
	}
	// the query-string carrier crossed with every other payload mode
	for _, m := range []string{verifx.ModeHash, verifx.ModeUnsigned, verifx.ModeStream, verifx.ModeStreamTrailer, verifx.ModeStreamUnsignedTrailer, verifx.ModeStreamUnsigned} {
		s = base("PUT", "presigned "+m)
		s.Mode, s.Presign, s.Expires = m, true, 900
		s.Body = bytes.Repeat([]byte("fedcba9876543210"), 20)
		s.Chunks = []int{100, 64}
		s.Trailer = "x-amz-checksum-sha256"
		out = append(out, s)
	}
	return out
}

func runC29(args []string) {
	f := verifx.ParseFlags("c29", args, 1500, 12000)
	out := verifx.NewOut()
	l := verifx.SigLoop()
	defer l.Close()

	k := 0
	emit := func(label string, seed uint64, spec *verifx.SigSpec) {
		if !f.Wants(k) {
			k++
			return
		}
		out.Case(k, seed)
		k++
		verifx.SigCfgLine(out)
		sg, err := spec.Build()
		if err != nil {
			// the SDK refused to sign: nothing was produced, nothing to judge
			out.Line("req %s-unsignable %s 0 - - 0", label, spec.Label())
			out.Line("noview")
			out.Line("obs 0 0 0 - 0 -")
			out.Line("endreq")
			out.End()
			return
		}
		verifx.SendWire(out, l, label, spec.Label(), sg.Wire, spec.Cred.AK, spec.Body, true)
		out.End()
	}

	now := time.Now()
	for i, s := range c29Directed(now) {
		emit(fmt.Sprintf("d%d", i), uint64(i), s)
	}

	// the real service/s3 client (directed keys first, then generated ones)
	s3cases := 40
	if f.Tier == "thorough" {
		s3cases = 400
	}
	for i := 0; i < s3cases; i++ {
		seed := verifx.CaseSeed(f.Seed, k)
		if !f.Wants(k) {
			k++
			continue
		}
		out.Case(k, seed)
		k++
		verifx.SigCfgLine(out)
		runS3Client(out, l, verifx.NewRng(seed), i)
		out.End()
	}

	for c := 0; c < f.Cases; c++ {
		seed := verifx.CaseSeed(f.Seed, k)
		r := verifx.NewRng(seed)
		// one request in twelve may contain one of the two known triggers, never both
		p := verifx.SigProfile{}
		switch r.Intn(24) {
		case 0:
			p.InnerSpaceRuns = true
		case 1:
			p.WeirdQueryKeys = true
		}
		emit(fmt.Sprintf("g%d", c), seed, verifx.GenSpec(r, p, time.Now()))
	}
	out.Flush()
}

// captureTransport forwards what the S3 client wants to send over the loop-back connection in
// wire form (http.Request.Write, as the Go transport does) and prints the record.
type captureTransport struct {
	out   *verifx.Out
	l     *verifx.Loop
	label string
	ak    string
	n     int
}

func (t *captureTransport) RoundTrip(req *http.Request) (*http.Response, error) {
	var buf bytes.Buffer
	var payload []byte
	if req.Body != nil {
		payload, _ = io.ReadAll(req.Body)
		req.Body.Close()
		// keep a definite length: otherwise http.Request.Write falls back to Transfer-Encoding:
		// chunked, whose framing is net/http's business, not the signature middleware's
		req.ContentLength = int64(len(payload))
		if len(payload) == 0 {
			req.Body = http.NoBody
		} else {
			req.Body = io.NopCloser(bytes.NewReader(payload))
		}
	}
	if err := req.Write(&buf); err != nil {
		return nil, err
	}
	raw := buf.Bytes()
	head, body, _ := bytes.Cut(raw, []byte("\r\n\r\n"))
	lines := strings.Split(string(head), "\r\n")
	parts := strings.SplitN(lines[0], " ", 3)
	w := &verifx.Wire{Method: parts[0], Target: parts[1], Body: body}
	for _, ln := range lines[1:] {
		kk, v, _ := strings.Cut(ln, ": ")
		w.Headers = append(w.Headers, [2]string{kk, v})
	}
	mode := "s3client"
	if req.Header.Get("Authorization") == "" {
		mode = "s3presign"
	}
	seen := verifx.SendWire(t.out, t.l, fmt.Sprintf("%s-%d", t.label, t.n), mode, w, t.ak, payload, true)
	t.n++
	st := seen.Status
	if st < 100 {
		st = 500
	}
	return &http.Response{StatusCode: st, Status: http.StatusText(st), Header: http.Header{}, Body: io.NopCloser(bytes.NewReader(nil)),
		Proto: "HTTP/1.1", ProtoMajor: 1, ProtoMinor: 1, Request: req}, nil
}

func runS3Client(out *verifx.Out, l *verifx.Loop, r *verifx.Rng, i int) {
	cred := verifx.Pick(r, verifx.SigCreds)
	tr := &captureTransport{out: out, l: l, label: "s3", ak: cred.AK}
	client := s3.New(s3.Options{
		Region:           verifx.SigRegion,
		Credentials:      credentials.NewStaticCredentialsProvider(cred.AK, cred.SK, ""),
		BaseEndpoint:     aws.String("http://s3.verif.test:9000"),
		UsePathStyle:     true,
		HTTPClient:       &http.Client{Transport: tr},
		RetryMaxAttempts: 1,
	})
	ctx := context.Background()
	key := verifx.GenKey(r)
	if strings.HasPrefix(key, "/") || key == "" {
		key = "k" + key
	}
	bucket := "bucket-1"
	meta := map[string]string{}
	if r.Chance(1, 2) {
		meta["a"] = "v " + verifx.Pick(r, []string{"x", "a,b", "é", "(p)"})
	}
	body := r.Bytes(r.Intn(300))
	defer func() {
		if p := recover(); p != nil {
			out.Line("req s3-panic s3client 0 - - 0")
			out.Line("noview")
			out.Line("obs 0 0 0 - 0 -")
			out.Line("endreq")
		}
	}()
	switch i % 6 {
	case 0:
		_, _ = client.PutObject(ctx, &s3.PutObjectInput{Bucket: &bucket, Key: &key, Body: bytes.NewReader(body), Metadata: meta, ContentType: aws.String("text/plain")})
	case 1:
		_, _ = client.GetObject(ctx, &s3.GetObjectInput{Bucket: &bucket, Key: &key, Range: aws.String("bytes=0-3")})
	case 2:
		_, _ = client.HeadObject(ctx, &s3.HeadObjectInput{Bucket: &bucket, Key: &key})
	case 3:
		_, _ = client.DeleteObject(ctx, &s3.DeleteObjectInput{Bucket: &bucket, Key: &key})
	case 4:
		_, _ = client.ListObjectsV2(ctx, &s3.ListObjectsV2Input{Bucket: &bucket, Prefix: &key, Delimiter: aws.String("/"), StartAfter: aws.String(verifx.GenKey(r))})
	case 5:
		ps := s3.NewPresignClient(client)
		var u string
		var hdr http.Header
		var method string
		if r.Bool() {
			p, err := ps.PresignGetObject(ctx, &s3.GetObjectInput{Bucket: &bucket, Key: &key, ResponseContentDisposition: aws.String("attachment; filename=\"" + verifx.Pick(r, []string{"a b.txt", "ä.bin", "x+y"}) + "\"")})
			if err != nil {
				return
			}
			u, hdr, method = p.URL, p.SignedHeader, p.Method
			body = nil
		} else {
			p, err := ps.PresignPutObject(ctx, &s3.PutObjectInput{Bucket: &bucket, Key: &key, Metadata: meta})
			if err != nil {
				return
			}
			u, hdr, method = p.URL, p.SignedHeader, p.Method
		}
		req, err := http.NewRequest(method, u, bytes.NewReader(body))
		if err != nil {
			return
		}
		for hk, vs := range hdr {
			if hk == "Host" || hk == "Content-Length" {
				continue
			}
			for _, v := range vs {
				req.Header.Add(hk, v)
			}
		}
		resp, err := tr.RoundTrip(req)
		if err == nil {
			resp.Body.Close()
		}
	}
}
