//go:build verif

package main

import (
	"bytes"
	"context"
	"crypto/rand"
	"encoding/binary"
	"encoding/hex"
	"encoding/json"
	"fmt"
	"io"
	"os"
	"path/filepath"
	"strings"
	"time"

	aeadsubtle "github.com/google/tink/go/aead/subtle"
	streamingaeadsubtle "github.com/google/tink/go/streamingaead/subtle"
	"github.com/jdillenkofer/pithos/internal/storage/database"
	"github.com/jdillenkofer/pithos/internal/storage/metadatapart/partstore"
	fsstore "github.com/jdillenkofer/pithos/internal/storage/metadatapart/partstore/filesystem"
	"github.com/jdillenkofer/pithos/internal/storage/metadatapart/partstore/middlewares/encryption/tink"
	"github.com/jdillenkofer/pithos/internal/verifx"
	"golang.org/x/crypto/scrypt"
)

// C16: encrypted parts are tamper-evident and seekable.
//
// One case = one encrypted part in a filesystem store (written by the real PutPart with the default
// 128 KiB segments, or — to reach small segment sizes — laid out exactly like PutPart does it with
// tink-go's own writer and a part header that names the segment size), at most one mutation of the
// stored file, and reads through the real tink middleware: over the filesystem store (seekable
// decrypting reader, seekable.go) or over a double that hides Seek (tink-go's sequential reader).
//
//	part <seek|seq> <css> <hlen> <pt>     pt: hex | "-" | gen:<n> (pt[i] = (7i+3) mod 251)
//	fixes eof=<0|1> hdreof=<0|1> seqcut=<0|1> buf=<0|1>   (probed) the seekable reader authenticates the last segment before EOF;
//	                                      a stream that ends inside the envelope is an error, not an empty part
//	mut none | xor <off> <mask> | trunc <n> | append <hex> | swap <i> <j> | cross-whole | cross-body <n2> |
//	    hdr-segsize <v> <hlen2> | hdr-dek | hdr-version <v> <hlen2> | hdr-keytype <hlen2>
//	full <ok|err> <tok>                   ReadAll; tok: "=" (the plaintext), "<k" (its first k bytes), else hex
//	off <o> <ok|err> <tok>                Seek(o, SeekStart) + ReadAll; tok relative to pt[o:]
//	op seek <s|c|e> <off> <pos|err>       a Seek on one reader …
//	op read <n> <hex|-|eof|err>           … and a single Read call of up to n bytes on the same reader
//	hang <what> / panic <text>
func init() { register("c16", runC16) }

const c16Password = "verif-c16"

type noSeekStore struct{ partstore.PartStore }

type onlyReadCloser struct {
	r io.Reader
	c io.Closer
}

func (o onlyReadCloser) Read(p []byte) (int, error) { return o.r.Read(p) }
func (o onlyReadCloser) Close() error               { return o.c.Close() }

func (s noSeekStore) GetPart(ctx context.Context, tx database.Tx, id partstore.PartId) (io.ReadCloser, error) {
	rc, err := s.PartStore.GetPart(ctx, tx, id)
	if err != nil {
		return nil, err
	}
	return onlyReadCloser{rc, rc}, nil
}

func (s noSeekStore) Capabilities() partstore.Capabilities {
	return partstore.CapabilitiesOf(s.PartStore)
}

type c16Env struct {
	dir    string
	fs     partstore.PartStore
	seekMw partstore.PartStore
	seqMw  partstore.PartStore
	kek    interface {
		Encrypt(pt, aad []byte) ([]byte, error)
	}
	out   *verifx.Out
	ctx   context.Context
	hung  bool
	fixes string
}

func c16Other(a []byte) []byte {
	b := make([]byte, len(a))
	for i, x := range a {
		b[i] = x ^ 0x5a
	}
	return b
}

func c16Gen(n int) []byte {
	b := make([]byte, n)
	for i := range b {
		b[i] = byte((7*i + 3) % 251)
	}
	return b
}

func (e *c16Env) file(id partstore.PartId) string {
	return filepath.Join(e.dir, hex.EncodeToString(id.Bytes()))
}

// craft lays a part out like tink.PutPart does, with ciphertext segment size css.
func (e *c16Env) craft(id partstore.PartId, pt []byte, css int, mod func(h *tink.PartHeader)) (stored []byte, hlen int) {
	dek := make([]byte, 32)
	_, _ = rand.Read(dek)
	enc := verifx.Must(e.kek.Encrypt(dek, id.Bytes()))
	h := tink.PartHeader{Version: tink.PartHeaderVersion, KeyType: tink.KeyTypeLocal, KeyURI: "", EncryptedDEK: enc, SegmentSize: css}
	if mod != nil {
		mod(&h)
	}
	hb := verifx.Must(json.Marshal(h))
	saead := verifx.Must(streamingaeadsubtle.NewAESGCMHKDF(dek, "SHA256", 32, css, 0))
	var buf bytes.Buffer
	w := verifx.Must(saead.NewEncryptingWriter(&buf, id.Bytes()))
	verifx.Must(w.Write(pt))
	verifx.Check(w.Close())
	stored = make([]byte, 4+len(hb))
	binary.BigEndian.PutUint32(stored[:4], uint32(len(hb)))
	copy(stored[4:], hb)
	stored = append(stored, buf.Bytes()...)
	return stored, len(hb)
}

func (e *c16Env) guard(what string, fn func()) {
	done := make(chan struct{})
	var pv any
	go func() {
		defer close(done)
		defer func() { pv = recover() }()
		fn()
	}()
	select {
	case <-done:
		if pv != nil {
			e.out.Line("panic %s", strings.ReplaceAll(fmt.Sprint(pv), " ", "_"))
		}
	case <-time.After(60 * time.Second):
		e.out.Line("hang %s", what)
		e.hung = true
	}
}

type c16Mut struct {
	kind string
	a, b int
	data []byte
}

type c16Op struct {
	seek   bool
	whence int
	off    int
	n      int
	drain  bool // Read(n) again and again until EOF or an error (bounded); printed as single reads
}

type c16Case struct {
	path string // seek | seq
	css  int    // 0 = written by the real PutPart (128 KiB)
	pt   []byte
	gen  bool
	mut  c16Mut
	offs []int // Seek(o)+ReadAll for these offsets
	ops  []c16Op
}

// c16OnlySegSize: the byte at position a (inside the JSON header) was altered; does the header still
// parse, with every field but SegmentSize unchanged?
func c16OnlySegSize(stored, cur []byte, base, a int) (int, bool) {
	if a < 4 || a >= base || len(cur) < base {
		return 0, false
	}
	var h0, h1 tink.PartHeader
	if json.Unmarshal(stored[4:base], &h0) != nil || json.Unmarshal(cur[4:base], &h1) != nil {
		return 0, false
	}
	v := h1.SegmentSize
	if v == h0.SegmentSize || v < 0 {
		return 0, false
	}
	h1.SegmentSize = h0.SegmentSize
	if h1.Version != h0.Version || h1.KeyType != h0.KeyType || h1.KeyURI != h0.KeyURI ||
		!bytes.Equal(h1.EncryptedDEK, h0.EncryptedDEK) || !bytes.Equal(h1.PQEncapsulatedKey, h0.PQEncapsulatedKey) {
		return 0, false
	}
	return v, true
}

func c16Tok(got, want []byte) string {
	switch {
	case bytes.Equal(got, want):
		return "="
	case len(got) < len(want) && bytes.Equal(got, want[:len(got)]):
		return fmt.Sprintf("<%d", len(got))
	}
	return verifx.Hex(got)
}

func (e *c16Env) run(k int, seed uint64, c *c16Case) {
	out := e.out
	out.Case(k, seed)
	defer out.End()
	ctx := e.ctx
	id := *verifx.Must(partstore.NewRandomPartId())
	idB := *verifx.Must(partstore.NewRandomPartId())
	defer os.Remove(e.file(id))
	defer os.Remove(e.file(idB))
	css := c.css
	var stored []byte
	var hlen int
	if c.css == 0 {
		css = tink.DefaultSegmentSize
		verifx.Check(e.seekMw.PutPart(ctx, nil, id, bytes.NewReader(c.pt)))
		stored = verifx.Must(os.ReadFile(e.file(id)))
		hlen = int(binary.BigEndian.Uint32(stored[:4]))
	} else {
		stored, hlen = e.craft(id, c.pt, c.css, nil)
	}
	pts := verifx.Hex(c.pt)
	if c.gen {
		pts = fmt.Sprintf("gen:%d", len(c.pt))
	}
	out.Line("part %s %d %d %s", c.path, css, hlen, pts)
	out.Line("%s", e.fixes)
	base := 4 + hlen
	m := c.mut
	cur := append([]byte(nil), stored...)
	switch m.kind {
	case "", "none":
		out.Line("mut none")
	case "xor":
		if m.a < len(cur) {
			cur[m.a] ^= byte(m.b)
		}
		// a flipped bit in the (unauthenticated) JSON header that changes nothing but the segment size the
		// reader is told is the structured mutation hdr-segsize: name it so, the model predicts it
		if v, ok := c16OnlySegSize(stored, cur, base, m.a); ok {
			out.Line("mut hdr-segsize %d %d", v, hlen)
		} else {
			out.Line("mut xor %d %d", m.a, m.b)
		}
	case "trunc":
		if m.a < len(cur) {
			cur = cur[:m.a]
		}
		out.Line("mut trunc %d", m.a)
	case "append":
		cur = append(cur, m.data...)
		out.Line("mut append %s", verifx.Hex(m.data))
	case "swap":
		// swap two full ciphertext slots of the tink stream
		i0, j0 := base+m.a*css, base+m.b*css
		if i0+css <= len(cur) && j0+css <= len(cur) && m.a != m.b {
			tmp := append([]byte(nil), cur[i0:i0+css]...)
			copy(cur[i0:i0+css], cur[j0:j0+css])
			copy(cur[j0:j0+css], tmp)
		}
		// the first byte of the stream the reader sees (its header-length check looks at it; after a swap with
		// slot 0 it is a ciphertext byte, which the model's toy cipher cannot know)
		out.Line("mut swap %d %d %d", m.a, m.b, cur[base])
	case "cross-whole":
		// another part's complete stored stream under this part id
		b, _ := e.craft(idB, c16Other(c.pt), css, nil)
		cur = b
		out.Line("mut cross-whole")
	case "cross-body":
		// this part's header followed by another part's tink stream (same length)
		b, hl := e.craft(idB, c16Other(c.pt), css, nil)
		cur = append(append([]byte(nil), stored[:base]...), b[4+hl:]...)
		out.Line("mut cross-body")
	case "hdr-segsize", "hdr-version", "hdr-keytype", "hdr-dek":
		// re-marshal the (unauthenticated) JSON header with one field changed, keep the tink stream
		var h tink.PartHeader
		verifx.Check(json.Unmarshal(stored[4:base], &h))
		switch m.kind {
		case "hdr-segsize":
			h.SegmentSize = m.a
		case "hdr-version":
			h.Version = m.a
		case "hdr-keytype":
			h.KeyType, h.KeyURI = "aws", "aws-kms://not-used-on-read"
		case "hdr-dek":
			h.EncryptedDEK = append([]byte(nil), h.EncryptedDEK...)
			h.EncryptedDEK[len(h.EncryptedDEK)/2] ^= 1
		}
		hb := verifx.Must(json.Marshal(h))
		nb := make([]byte, 4+len(hb))
		binary.BigEndian.PutUint32(nb[:4], uint32(len(hb)))
		copy(nb[4:], hb)
		cur = append(nb, stored[base:]...)
		if m.kind == "hdr-dek" {
			out.Line("mut hdr-dek")
		} else {
			out.Line("mut %s %d %d", m.kind, m.a, len(hb))
		}
	}
	verifx.Check(os.WriteFile(e.file(id), cur, 0o600))
	mw := e.seekMw
	if c.path == "seq" {
		mw = e.seqMw
	}
	readAll := func(tag string, off int) {
		e.guard(tag, func() {
			rc, err := mw.GetPart(ctx, nil, id)
			if err != nil {
				out.Line("%s err -", tag)
				return
			}
			defer rc.Close()
			want := c.pt
			if off >= 0 {
				sk, ok := rc.(io.Seeker)
				if !ok {
					out.Line("%s err noseek", tag)
					return
				}
				if _, err := sk.Seek(int64(off), io.SeekStart); err != nil {
					out.Line("%s err -", tag)
					return
				}
				if off <= len(c.pt) {
					want = c.pt[off:]
				} else {
					want = nil
				}
			}
			b, rerr := io.ReadAll(rc)
			st := "ok"
			if rerr != nil {
				st = "err"
			}
			out.Line("%s %s %s", tag, st, c16Tok(b, want))
		})
	}
	readAll("full", -1)
	if e.hung {
		return
	}
	for _, o := range c.offs {
		if o < 0 {
			continue
		}
		readAll(fmt.Sprintf("off %d", o), o)
		if e.hung {
			return
		}
	}
	if len(c.ops) > 0 {
		e.guard("ops", func() {
			rc, err := mw.GetPart(ctx, nil, id)
			if err != nil {
				out.Line("op open err")
				return
			}
			defer rc.Close()
			sk, _ := rc.(io.Seeker)
			for _, op := range c.ops {
				if op.seek {
					if sk == nil {
						out.Line("op seek %s %d err", "sce"[op.whence:op.whence+1], op.off)
						continue
					}
					pos, err := sk.Seek(int64(op.off), op.whence)
					if err != nil {
						out.Line("op seek %s %d err", "sce"[op.whence:op.whence+1], op.off)
					} else {
						out.Line("op seek %s %d %d", "sce"[op.whence:op.whence+1], op.off, pos)
					}
				} else {
					for round := 0; round < 40; round++ {
						buf := make([]byte, op.n)
						n, err := rc.Read(buf)
						stop := true
						switch {
						case err == io.EOF && n == 0:
							out.Line("op read %d eof", op.n)
						case err != nil && err != io.EOF:
							out.Line("op read %d err", op.n)
						default:
							out.Line("op read %d %s", op.n, verifx.Hex(buf[:n]))
							stop = !op.drain || n == 0
						}
						if stop {
							break
						}
					}
				}
			}
		})
	}
}

// c16UseAfterError: a seek/read sequence that keeps using one reader whatever happens: every segment is
// visited front to back, then back to front, each visit followed by a return to the segment visited before.
func c16UseAfterError(css, n int) []c16Op {
	cap0, pss := css-56, css-16
	starts := []int{0}
	for s := cap0; s < n; s += pss {
		starts = append(starts, s)
	}
	var ops []c16Op
	visit := func(j, delta int) {
		o := starts[j] + delta
		if o > n {
			o = n
		}
		ops = append(ops, c16Op{seek: true, whence: 0, off: o}, c16Op{n: 8})
	}
	for j := range starts {
		visit(j, 0)
		if j > 0 {
			visit(j-1, 3)
		}
	}
	for j := len(starts) - 1; j >= 0; j-- {
		visit(j, 5)
		if j+1 < len(starts) {
			visit(j+1, 1)
		}
	}
	// a second pass over the whole part on the same reader, to its end, and once more
	ops = append(ops, c16Op{seek: true, whence: 0, off: 0}, c16Op{n: 2 * css, drain: true},
		c16Op{seek: true, whence: 0, off: 0}, c16Op{n: 2 * css, drain: true},
		c16Op{seek: true, whence: 2, off: 0}, c16Op{n: 8})
	return ops
}

// c16Lengths: plaintext lengths around 0, the first-segment capacity and k segments, ± 1.
func c16Lengths(css int) []int {
	cap0, pss := css-56, css-16
	ls := []int{0, 1, 2, cap0 - 1, cap0, cap0 + 1, cap0 + pss - 1, cap0 + pss, cap0 + pss + 1, cap0 + 2*pss - 1, cap0 + 2*pss, cap0 + 2*pss + 1, cap0 + 3*pss + 7}
	var out []int
	for _, l := range ls {
		if l >= 0 {
			out = append(out, l)
		}
	}
	return out
}

// c16Mutations: the catalogue for a stored part with the given layout.
func c16Mutations(css, hlen, n int) []c16Mut {
	base := 4 + hlen
	cap0, pss := css-56, css-16
	nseg := 1
	if n > cap0 {
		nseg = 1 + (n-cap0+pss-1)/pss
	}
	total := base + 40 + n + 16*nseg
	var ms []c16Mut
	x := func(off int) {
		if off >= 0 && off < total {
			ms = append(ms, c16Mut{kind: "xor", a: off, b: 1}, c16Mut{kind: "xor", a: off, b: 0x80})
		}
	}
	// envelope: low-order bytes of the length prefix (a flipped high-order byte makes the reader allocate up to
	// 4 GiB), several JSON header bytes
	x(3)
	x(2)
	for _, o := range []int{4, 5, 4 + hlen/4, 4 + hlen/2, 4 + 3*hlen/4, base - 2, base - 1} {
		x(o)
	}
	// tink header: length byte, salt, nonce prefix
	for _, o := range []int{0, 1, 17, 32, 33, 39} {
		x(base + o)
	}
	// every segment: first byte, a middle byte, first and last tag byte
	for j := 0; j < nseg; j++ {
		start := base + j*css
		if j == 0 {
			start = base + 40
		}
		end := base + (j+1)*css
		if end > total {
			end = total
		}
		for _, o := range []int{start, (start + end) / 2, end - 16, end - 1} {
			x(o)
		}
	}
	// truncations: nothing, inside the envelope, inside the tink header, header only, header + tag, every
	// slot boundary ± a few bytes, mid-slot, one byte short
	for _, t := range []int{0, 2, 4, base / 2, base, base + 1, base + 20, base + 40, base + 41, base + 55, base + 56, base + 57, total - 1, total - 16, total - 17} {
		if t >= 0 && t < total {
			ms = append(ms, c16Mut{kind: "trunc", a: t})
		}
	}
	for j := 1; j <= nseg; j++ {
		for _, d := range []int{-17, -16, -1, 0, 1, 8, 15, 16, 17, css / 2} {
			if t := base + j*css + d; t > 0 && t < total {
				ms = append(ms, c16Mut{kind: "trunc", a: t})
			}
		}
	}
	// extensions
	for _, l := range []int{1, 15, 16, 17, css} {
		ms = append(ms, c16Mut{kind: "append", data: bytes.Repeat([]byte{0x5c}, l)})
	}
	// reordering of full slots
	full := (total - base) / css
	for i := 0; i < full; i++ {
		for j := i + 1; j < full; j++ {
			ms = append(ms, c16Mut{kind: "swap", a: i, b: j})
		}
	}
	// another part's ciphertext, header fields
	ms = append(ms, c16Mut{kind: "cross-whole"}, c16Mut{kind: "cross-body"}, c16Mut{kind: "hdr-dek"},
		c16Mut{kind: "hdr-version", a: 9}, c16Mut{kind: "hdr-version", a: 0}, c16Mut{kind: "hdr-version", a: 1}, c16Mut{kind: "hdr-keytype"})
	for _, v := range []int{0, 57, css - 1, css + 1, 2 * css, css - 16, 4096} {
		if v != css {
			ms = append(ms, c16Mut{kind: "hdr-segsize", a: v})
		}
	}
	return ms
}

func runC16(args []string) {
	f := verifx.ParseFlags("c16", args, 1200, 6000)
	out := verifx.NewOut()
	dir := filepath.Join(f.Scratch, "c16")
	_ = os.RemoveAll(dir)
	verifx.Check(os.MkdirAll(dir, 0o755))
	defer os.RemoveAll(dir)
	fs := verifx.Must(fsstore.New(dir))
	kekBytes := verifx.Must(scrypt.Key([]byte(c16Password), []byte("pithos"), 1<<16, 8, 1, 32))
	e := &c16Env{dir: dir, fs: fs, out: out, ctx: context.Background(), kek: verifx.Must(aeadsubtle.NewAESGCM(kekBytes))}
	e.seekMw = verifx.Must(tink.NewWithLocalKMS(c16Password, fs, nil))
	e.seqMw = verifx.Must(tink.NewWithLocalKMS(c16Password, noSeekStore{fs}, nil))
	verifx.Check(e.seekMw.Start(e.ctx))
	defer e.seekMw.Stop(e.ctx)
	// probe: does the seekable reader reject a ciphertext cut 1 byte behind a slot boundary?
	{
		id := *verifx.Must(partstore.NewRandomPartId())
		st, hl := e.craft(id, c16Gen(200), 100, nil)
		verifx.Check(os.WriteFile(e.file(id), st[:4+hl+100+1], 0o600))
		eof := 0
		if rc, err := e.seekMw.GetPart(e.ctx, nil, id); err != nil {
			eof = 1
		} else {
			if _, rerr := io.ReadAll(rc); rerr != nil {
				eof = 1
			}
			rc.Close()
		}
		// probe: is a stored stream cut to nothing an error (repaired) or an empty part?
		verifx.Check(os.WriteFile(e.file(id), nil, 0o600))
		hdreof := 0
		if rc, err := e.seekMw.GetPart(e.ctx, nil, id); err != nil {
			hdreof = 1
		} else {
			if _, rerr := io.ReadAll(rc); rerr != nil {
				hdreof = 1
			}
			rc.Close()
		}
		// probe: does the sequential path reject the same 1-byte-behind-the-boundary cut
		// (fixes/C16-sequential-reader-rejects-cut-streams.patch)?
		verifx.Check(os.WriteFile(e.file(id), st[:4+hl+100+1], 0o600))
		seqcut := 0
		if rc, err := e.seqMw.GetPart(e.ctx, nil, id); err != nil {
			seqcut = 1
		} else {
			if _, rerr := io.ReadAll(rc); rerr != nil {
				seqcut = 1
			}
			rc.Close()
		}
		_ = os.Remove(e.file(id))
		// probe: does a failed segment load leave the previously buffered segment intact
		// (fixes/C16-invalidate-buffer-on-failed-load.patch)? 72 + 112 + 112 bytes, segment 2 damaged:
		// read in segment 1, run into segment 2, read in segment 1 again.
		buf := 0
		{
			id := *verifx.Must(partstore.NewRandomPartId())
			pt := c16Gen(296)
			st, hl := e.craft(id, pt, 128, nil)
			st[4+hl+2*128+50] ^= 1
			verifx.Check(os.WriteFile(e.file(id), st, 0o600))
			if rc, err := e.seekMw.GetPart(e.ctx, nil, id); err == nil {
				if sk, ok := rc.(io.Seeker); ok {
					b := make([]byte, 8)
					_, _ = sk.Seek(72, io.SeekStart)
					_, _ = rc.Read(b)
					_, _ = sk.Seek(184, io.SeekStart)
					_, _ = rc.Read(b)
					_, _ = sk.Seek(77, io.SeekStart)
					if n, err := rc.Read(b); err != nil || bytes.Equal(b[:n], pt[77:77+n]) {
						buf = 1
					}
				}
				rc.Close()
			}
			_ = os.Remove(e.file(id))
		}
		e.fixes = fmt.Sprintf("fixes eof=%d hdreof=%d seqcut=%d buf=%d", eof, hdreof, seqcut, buf)
	}
	k := 0
	emit := func(seed uint64, c *c16Case) {
		if f.Wants(k) && !e.hung {
			e.run(k, seed, c)
		}
		k++
	}
	allOffs := func(n int) []int {
		var o []int
		for i := 0; i <= n+1; i++ {
			o = append(o, i)
		}
		return o
	}
	// directed: the silent truncations (one byte behind a slot boundary; header + one tag; nothing at all), both paths
	hl100 := len(verifx.Must(json.Marshal(tink.PartHeader{Version: 3, KeyType: "local", EncryptedDEK: make([]byte, 60), SegmentSize: 100})))
	for _, path := range []string{"seek", "seq"} {
		emit(uint64(k), &c16Case{path: path, css: 100, pt: c16Gen(200), mut: c16Mut{kind: "trunc", a: 4 + hl100 + 100 + 1}})
		emit(uint64(k), &c16Case{path: path, css: 100, pt: c16Gen(200), mut: c16Mut{kind: "trunc", a: 4 + hl100 + 56}})
		emit(uint64(k), &c16Case{path: path, css: 100, pt: c16Gen(200), mut: c16Mut{kind: "trunc", a: 4 + hl100 + 40}})
		emit(uint64(k), &c16Case{path: path, css: 100, pt: c16Gen(200), mut: c16Mut{kind: "trunc", a: 0}})
	}
	// the unauthenticated segmentSize header field: a smaller size shrinks the plaintext length the reader computes
	emit(uint64(k), &c16Case{path: "seek", css: 128, pt: c16Gen(200), mut: c16Mut{kind: "hdr-segsize", a: 57}, offs: []int{0, 150, 187, 200}})
	// bytes appended to the stored stream shift that length too: a 1-byte part + 15 bytes reads as empty
	emit(uint64(k), &c16Case{path: "seek", css: 64, pt: []byte{0x49}, mut: c16Mut{kind: "append", data: bytes.Repeat([]byte{0x5c}, 15)}, offs: []int{0, 1}})
	// a reader that is used on after an authentication error: read segment 1, run into the damaged segment 2,
	// seek back into segment 1 (3 segments of 72 + 112 + 112 bytes; one flipped byte in the middle of segment 2)
	{
		hl128 := len(verifx.Must(json.Marshal(tink.PartHeader{Version: 3, KeyType: "local", EncryptedDEK: make([]byte, 60), SegmentSize: 128})))
		emit(uint64(k), &c16Case{path: "seek", css: 128, pt: c16Gen(296), mut: c16Mut{kind: "xor", a: 4 + hl128 + 2*128 + 50, b: 1}, offs: []int{0, 72, 184},
			ops: c16UseAfterError(128, 296)})
	}
	small := []int{64, 100, 57}
	if f.Tier == "thorough" {
		small = append(small, 4096, 333)
	}
	// 1. no mutation: every length around the boundaries × every seek offset (small segment sizes), both paths
	for _, css := range small {
		for _, n := range c16Lengths(css) {
			offs := allOffs(n)
			if css >= 4096 {
				offs = []int{0, 1, css - 57, css - 56, css - 55, n - 1, n, n + 1}
			}
			emit(uint64(k), &c16Case{path: "seek", css: css, pt: c16Gen(n), gen: n > 600, offs: offs})
			emit(uint64(k), &c16Case{path: "seq", css: css, pt: c16Gen(n), gen: n > 600})
		}
	}
	// 2. the real PutPart (128 KiB segments): lengths around the first-segment capacity and two segments
	for _, n := range []int{0, 1, 131015, 131016, 131017, 131016 + 131056, 131016 + 131056 + 1, 300000} {
		if f.Tier != "thorough" && n > 131017 && n != 300000 {
			continue
		}
		emit(uint64(k), &c16Case{path: "seek", css: 0, pt: c16Gen(n), gen: true, offs: []int{0, 1, 131015, 131016, 131017, n - 1, n}})
		emit(uint64(k), &c16Case{path: "seq", css: 0, pt: c16Gen(n), gen: true})
	}
	emit(uint64(k), &c16Case{path: "seek", css: 0, pt: c16Gen(131017), gen: true, mut: c16Mut{kind: "xor", a: 200000, b: 1}})
	emit(uint64(k), &c16Case{path: "seek", css: 0, pt: c16Gen(131017), gen: true, mut: c16Mut{kind: "trunc", a: 131072 + 150 + 1}})
	// 3. the mutation catalogue over small parts of 1, 2, 3 and 4 segments, both paths
	for _, css := range []int{64, 100} {
		cap0, pss := css-56, css-16
		for _, n := range []int{0, 5, cap0, cap0 + 1, cap0 + pss, cap0 + pss + 3, cap0 + 2*pss + 5, cap0 + 3*pss} {
			if f.Tier != "thorough" && css == 100 && n != cap0+pss+3 {
				continue
			}
			hl := len(verifx.Must(json.Marshal(tink.PartHeader{Version: 3, KeyType: "local", EncryptedDEK: make([]byte, 60), SegmentSize: css})))
			for _, m := range c16Mutations(css, hl, n) {
				emit(uint64(k), &c16Case{path: "seek", css: css, pt: c16Gen(n), mut: m, offs: []int{0, 1, cap0, n}, ops: c16UseAfterError(css, n)})
				emit(uint64(k), &c16Case{path: "seq", css: css, pt: c16Gen(n), mut: m})
			}
		}
	}
	// 4. random: lengths, seek sequences, mutations
	for i := 0; i < f.Cases; i++ {
		seed := verifx.CaseSeed(f.Seed, k)
		r := verifx.NewRng(seed)
		css := verifx.Pick(r, []int{57, 64, 64, 77, 100, 128, 200})
		cap0, pss := css-56, css-16
		n := verifx.Pick(r, c16Lengths(css))
		if r.Chance(1, 2) {
			n = r.Intn(cap0 + 4*pss)
		}
		c := &c16Case{path: verifx.Pick(r, []string{"seek", "seek", "seq"}), css: css, pt: r.Bytes(n)}
		if r.Chance(1, 2) {
			hl := len(verifx.Must(json.Marshal(tink.PartHeader{Version: 3, KeyType: "local", EncryptedDEK: make([]byte, 60), SegmentSize: css})))
			c.mut = verifx.Pick(r, c16Mutations(css, hl, n))
			if c.path == "seek" {
				c.offs = []int{r.Intn(n + 1)}
			}
		}
		if c.path == "seek" && (c.mut.kind == "" || r.Chance(2, 3)) {
			// a seek/read sequence on one reader
			nops := 4 + r.Intn(12)
			for j := 0; j < nops; j++ {
				if r.Chance(1, 2) {
					wh := r.Intn(3)
					off := 0
					switch wh {
					case 0:
						off = r.Intn(n+3) - 1
					case 1:
						off = r.Intn(2*css) - css
					default:
						off = -r.Intn(n+2) + 1
					}
					c.ops = append(c.ops, c16Op{seek: true, whence: wh, off: off})
				} else {
					c.ops = append(c.ops, c16Op{n: 1 + r.Intn(2*css), drain: r.Chance(1, 4)})
				}
			}
		}
		emit(seed, c)
	}
	out.Flush()
}
