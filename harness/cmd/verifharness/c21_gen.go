//go:build verif

package main

import (
	"fmt"

	"github.com/jdillenkofer/pithos/internal/verifx"
)

// Generator of mostly-valid histories through the outbox storage: bucket creation/deletion,
// puts (plain, with options, conditional), deletes (plain, by version id, conditional),
// versioning changes, copies, reads, listings, and scripted flush points. It keeps a small
// tracker of what the accepted operations mean *in acceptance order* (bucket exists / ever
// written / versioning status) only to avoid operations whose replay would fail: the outbox
// acknowledges e.g. a put into a missing bucket and then retries its replay every 5 s forever —
// a liveness matter outside C21 (the property speaks of what holds once the table is drained).

type c21Bucket struct {
	exists bool
	dirty  bool   // something was written since creation: DeleteBucket could fail on replay
	ver    string // "", "E", "S"
}

type c21Gen struct {
	cs *c21Case
	r  *verifx.Rng
	b  map[string]*c21Bucket
	n  int
}

func newC21Gen(cs *c21Case) *c21Gen {
	return &c21Gen{cs: cs, r: cs.rng, b: map[string]*c21Bucket{"b0": {}, "b1": {}}}
}

func (g *c21Gen) bucket() string {
	if g.r.Chance(3, 4) {
		return "b0"
	}
	return "b1"
}

func (g *c21Gen) body() []byte {
	r := g.r
	switch r.Intn(6) {
	case 0:
		return nil
	case 1:
		return []byte("a")
	case 2:
		return []byte("hello world")
	case 3:
		return bytesRepeat(byte('A'+r.Intn(3)), 1+r.Intn(40))
	default:
		return r.Bytes(1 + r.Intn(200))
	}
}

func (g *c21Gen) vidArg() string {
	r := g.r
	n := len(g.cs.s3.vids)
	switch {
	case r.Chance(3, 5):
		return "~"
	case r.Chance(1, 3):
		return "null"
	case n > 0:
		return fmt.Sprintf("v%d", r.Intn(n))
	}
	return "~"
}

func (g *c21Gen) imArg(b, k string) string {
	r := g.r
	switch r.Intn(4) {
	case 0:
		return "*"
	case 1:
		return "bogus"
	default:
		if e, ok := g.cs.s3.lastEtag[b+"/"+k]; ok {
			return e
		}
		return "*"
	}
}

func (g *c21Gen) plainOpts() string { return "ct=~ md=~ tags=~ cls=~" }

func (g *c21Gen) next() string {
	r := g.r
	g.n++
	if g.n == 1 {
		g.b["b0"].exists = true
		return "op mkb b0"
	}
	b := g.bucket()
	k := verifx.Pick(r, s3hKeys)
	bs := g.b[b]
	x := r.Intn(100)
	switch {
	case x < 12:
		return fmt.Sprintf("flush %d", 1+r.Intn(3))
	case x < 18:
		if !bs.exists {
			bs.exists, bs.dirty, bs.ver = true, false, ""
			return "op mkb " + b
		}
		if !bs.dirty && r.Chance(1, 2) {
			bs.exists = false
			return "op rmb " + b
		}
		return "op lsb"
	case x < 24:
		if bs.exists {
			v := verifx.Pick(r, []string{"E", "E", "S"})
			bs.ver = v
			return "op ver " + b + " " + v
		}
		return "op lsb"
	case x < 52:
		// put: unconditional puts only into buckets that exist in acceptance order
		inm, im := 0, "~"
		if r.Chance(1, 8) {
			inm = 1
		} else if r.Chance(1, 8) {
			im = g.imArg(b, k)
		}
		if !bs.exists && inm == 0 && im == "~" {
			return fmt.Sprintf("op get %s %s vid=~", b, k)
		}
		opts := g.plainOpts()
		if r.Chance(1, 2) {
			opts = genOpts(r).line()
		}
		// one put in four carries a client-supplied checksum; more than half of those are rejected
		// (mismatching checksum, or a body that breaks off): answered with an error, they must leave
		// no outbox entry and never reach the inner storage
		if inm == 0 && im == "~" && r.Chance(1, 4) {
			kind := verifx.Pick(r, []string{"etag", "etag", "crc32", "crc32c", "crc64", "sha1", "sha256"})
			body := g.body()
			switch r.Intn(5) {
			case 0, 1:
				if bs.exists {
					bs.dirty = true
				}
				return fmt.Sprintf("op put %s %s %s %s inm=0 im=~ cs=ok:%s", b, k, verifx.Hex(body), opts, kind)
			case 2:
				if len(body) < 2 {
					body = []byte("broken off")
				}
				return fmt.Sprintf("op put %s %s %s %s inm=0 im=~ cs=ioerr", b, k, verifx.Hex(body), opts)
			default:
				return fmt.Sprintf("op put %s %s %s %s inm=0 im=~ cs=bad:%s", b, k, verifx.Hex(body), opts, kind)
			}
		}
		if bs.exists {
			bs.dirty = true
		}
		return fmt.Sprintf("op put %s %s %s %s inm=%d im=%s", b, k, verifx.Hex(g.body()), opts, inm, im)
	case x < 63:
		im := "~"
		if r.Chance(1, 8) {
			im = g.imArg(b, k)
		}
		if !bs.exists && im == "~" {
			return fmt.Sprintf("op head %s %s vid=~", b, k)
		}
		if bs.exists && bs.ver != "" {
			bs.dirty = true // delete markers
		}
		return fmt.Sprintf("op del %s %s vid=%s im=%s", b, k, g.vidArg(), im)
	case x < 77:
		return fmt.Sprintf("op get %s %s vid=%s", b, k, g.vidArg())
	case x < 81:
		return fmt.Sprintf("op head %s %s vid=%s", b, k, g.vidArg())
	case x < 86:
		return "op ls " + b
	case x < 90:
		return "op lsv " + b
	case x < 92:
		return "op lsb"
	case x < 96:
		db, dk := g.bucket(), verifx.Pick(r, s3hKeys)
		if g.b[db].exists {
			g.b[db].dirty = true
		}
		return fmt.Sprintf("op cp %s %s %s %s svid=%s mdir=%s tdir=%s %s", b, k, db, dk, g.vidArg(),
			verifx.Pick(r, []string{"C", "R"}), verifx.Pick(r, []string{"C", "R"}), genOpts(r).line())
	case x < 98:
		return fmt.Sprintf("op gtag %s %s vid=%s", b, k, g.vidArg())
	default:
		o := genOpts(r)
		return fmt.Sprintf("op ptag %s %s vid=%s tags=%s", b, k, g.vidArg(), pairsS(o.tags))
	}
}

// c21Directed: hand-written histories that run first.
func c21Directed() [][]string {
	h := verifx.HexS
	put := func(b, k, body string) string {
		return fmt.Sprintf("op put %s %s %s ct=~ md=~ tags=~ cls=~ inm=0 im=~", b, k, h(body))
	}
	return [][]string{
		{ // DESIGN §10 suspicion: a queued unversioned put and a versioning change
			"op mkb b0", "flush 1", put("b0", "k0", "x"), "op ver b0 E", "op lsv b0", "op get b0 k0 vid=~", put("b0", "k0", "y"), "op lsv b0",
		},
		{ // read-your-writes on keys and listings, nothing flushed by the script
			"op mkb b0", put("b0", "k0", "one"), "op get b0 k0 vid=~", put("b0", "k1", "two"), put("b0", "k0", "three"), "op ls b0",
			"op del b0 k0 vid=~ im=~", "op get b0 k0 vid=~", "op head b0 k1 vid=~", "op lsb", "op lsv b0",
		},
		{ // a conditional (synchronous) put overtakes a queued put of another key
			"op mkb b0", "flush 1", put("b0", "k0", "queued"), "op put b0 k1 " + h("sync") + " ct=~ md=~ tags=~ cls=~ inm=1 im=~",
			"op get b0 k1 vid=~", "op put b0 k1 " + h("again") + " ct=~ md=~ tags=~ cls=~ inm=1 im=~", "op ls b0",
		},
		{ // copy waits for source and destination
			"op mkb b0", "op mkb b1", put("b0", "k0", "src"), put("b1", "k1", "old"), "op cp b0 k0 b1 k1 svid=~ mdir=C tdir=C ct=~ md=~ tags=~ cls=~",
			"op get b1 k1 vid=~", "op ls b1",
		},
		{ // bucket deleted and re-created while entries are queued
			"op mkb b0", put("b0", "k0", "a"), "op del b0 k0 vid=~ im=~", "op rmb b0", "op mkb b0", "op lsb", "op ls b0", put("b0", "k1", "b"), "op get b0 k1 vid=~",
		},
		{ // suspended bucket: puts queue, deletes are synchronous
			"op mkb b0", "op ver b0 S", put("b0", "k0", "n0"), put("b0", "k0", "n1"), "op del b0 k0 vid=~ im=~", "op lsv b0", put("b0", "k0", "n2"), "op get b0 k0 vid=null",
		},
		{ // the same as history 1 with callers that poll (200 ms sleeps) while the worker flushes
			"mode after", "op mkb b0", put("b0", "k0", "one"), "op get b0 k0 vid=~", put("b0", "k1", "two"), "op ls b0", "op lsb", "mode random",
		},
		{ // options persisted with a queued put
			"op mkb b0",
			"op put b0 k0 " + h("body") + " ct=" + h("text/plain") + " md=" + h("!cc") + ":" + h("no-cache") + "," + h("!cd") + ":" + h("attachment") + "," + h("!ce") + ":" + h("gzip") + "," + h("!cl") + ":" + h("de") + "," + h("!ex") + ":" + h("Wed, 21 Oct 2015 07:28:00 GMT") + "," + h("!wr") + ":" + h("/other") + "," + h("a") + ":" + h("1") + " tags=" + h("t") + ":" + h("v") + " cls=" + h("STANDARD_IA") + " inm=0 im=~",
			"op head b0 k0 vid=~", "op gtag b0 k0 vid=~",
		},
		{ // rejected puts (mismatching checksum, broken body) on the queue path and on the write-through path
			"op mkb b0", put("b0", "k0", "good"), put("b0", "k0", "corrupted") + " cs=bad:etag", put("b0", "k1", "never") + " cs=bad:sha256",
			put("b0", "k1", "half a bo") + " cs=ioerr", put("b0", "dir/k2", "checked") + " cs=ok:crc32", "flush 2", put("b0", "k0", "again bad") + " cs=bad:crc64",
			"op get b0 k0 vid=~", "op get b0 k1 vid=~", "op ls b0", "op ver b0 E", put("b0", "k0", "sync bad") + " cs=bad:crc32c",
			put("b0", "k0", "sync half") + " cs=ioerr", put("b0", "k0", "sync ok") + " cs=ok:sha1", "op get b0 k0 vid=~", "op lsv b0",
		},
		{ // enabled bucket: everything synchronous, version ids returned
			"op mkb b0", "op ver b0 E", put("b0", "k0", "v0"), put("b0", "k0", "v1"), "op del b0 k0 vid=~ im=~", "op lsv b0", "op get b0 k0 vid=v0", "op del b0 k0 vid=v2 im=~", "op get b0 k0 vid=~",
		},
	}
}
