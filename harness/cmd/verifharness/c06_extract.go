//go:build verif

package main

import (
	"fmt"
	"go/ast"
	"go/token"
	"regexp"
	"sort"
	"strconv"
	"strings"
)

// T1 extractor for C06: the text of the listing SQL statements of the SQLite object repository
// (and the ORDER BY of the part listing) → lean/Pithos/Gen/ListingSql.lean.
//
// The extractor does not only copy the text: it *recognises* every conjunct of the WHERE clause,
// the ORDER BY and the LIMIT of each statement against the small set of shapes the Lean model
// (Pithos.Model.Listing) knows how to interpret, and emits the recognised shape as constructors.
// Anything else fails closed ("unrecognised shape"): the model then has no predicate to select.

func init() { registerExtractor("listingsql", c06ExtractListingSQL) }

const c06ObjectRepo = "internal/storage/database/sqlite/repository/object/sqlite.go"
const c06PartRepo = "internal/storage/database/sqlite/repository/part/sqlite.go"

type c06Family struct {
	lean      string // Lean definition name
	constName string // Go constant
	conjuncts []string
	prefixArg string // placeholder that carries the prefix
	marker    string // recognised marker conjunct
	markerTag string
	orderBy   string // "" for COUNT(*)
	orderTag  string
	limit     string // "" = no LIMIT
	count     bool
}

var c06Space = regexp.MustCompile(`\s+`)

// c06SplitTopLevelAnd splits a WHERE clause on AND at parenthesis depth 0 (case-insensitive).
func c06SplitTopLevelAnd(s string) []string {
	var out []string
	depth, start := 0, 0
	inStr := false
	for i := 0; i < len(s); i++ {
		c := s[i]
		if c == '\'' {
			inStr = !inStr
			continue
		}
		if inStr {
			continue
		}
		switch c {
		case '(':
			depth++
		case ')':
			depth--
		}
		if depth == 0 && i+5 <= len(s) && strings.EqualFold(s[i:i+5], " AND ") {
			out = append(out, strings.TrimSpace(s[start:i]))
			start = i + 5
			i += 4
		}
	}
	out = append(out, strings.TrimSpace(s[start:]))
	return out
}

func c06StringConsts(x *ExtractCtx, rel string) (map[string]string, map[string]ast.Node, error) {
	f, err := x.ParseFile(rel)
	if err != nil {
		return nil, nil, err
	}
	vals := map[string]string{}
	nodes := map[string]ast.Node{}
	for _, d := range f.Decls {
		gd, ok := d.(*ast.GenDecl)
		if !ok || gd.Tok != token.CONST {
			continue
		}
		for _, sp := range gd.Specs {
			vs := sp.(*ast.ValueSpec)
			for i, n := range vs.Names {
				if i >= len(vs.Values) {
					continue
				}
				bl, ok := vs.Values[i].(*ast.BasicLit)
				if !ok || bl.Kind != token.STRING {
					continue
				}
				s, err := strconv.Unquote(bl.Value)
				if err != nil {
					return nil, nil, fmt.Errorf("%s: constant %s: %v", rel, n.Name, err)
				}
				vals[n.Name] = s
				nodes[n.Name] = n
			}
		}
	}
	return vals, nodes, nil
}

func c06ExtractListingSQL(x *ExtractCtx) error {
	vals, nodes, err := c06StringConsts(x, c06ObjectRepo)
	if err != nil {
		return err
	}
	const (
		objMarker = "key > $3"
		uplMarker = "(key > $3 OR ($4 <> '' AND key = $3 AND upload_id > $4))"
		verMarker = "(key > $4 OR (key = $4 AND COALESCE(NULLIF(version_id, 'null'), '') < COALESCE(NULLIF($5, 'null'), '')))"
		verOrder  = "key ASC, COALESCE(NULLIF(version_id, 'null'), '') DESC"
	)
	objConj := []string{"bucket_name = $1", "is_delete_marker = 0", "is_latest = 1", "upload_status = $4"}
	uplConj := []string{"bucket_name = $1", "upload_status = $5"}
	verConj := []string{"bucket_name = $1", "upload_status = $3"}
	fams := []c06Family{
		{lean: "objectsFind", constName: "findObjectsByBucketNameAndPrefixAndStartAfterOrderByKeyAscStmt", conjuncts: objConj, marker: objMarker, markerTag: "keyGt", orderBy: "key ASC", orderTag: "keyAsc"},
		{lean: "objectsFindLimit", constName: "findObjectsByBucketNameAndPrefixAndStartAfterOrderByKeyAscWithLimitStmt", conjuncts: objConj, marker: objMarker, markerTag: "keyGt", orderBy: "key ASC", orderTag: "keyAsc", limit: "$5"},
		{lean: "objectsCount", constName: "countObjectsByBucketNameAndPrefixAndStartAfterStmt", conjuncts: objConj, marker: objMarker, markerTag: "keyGt", count: true, orderTag: "unordered"},
		{lean: "uploadsFind", constName: "findObjectsByBucketNameAndPrefixAndKeyMarkerAndUploadIdMarkerOrderByKeyAscAndUploadIdAscStmt", conjuncts: uplConj, marker: uplMarker, markerTag: "keyGtOrUploadIdGt", orderBy: "key ASC, upload_id ASC", orderTag: "keyAscUploadIdAsc"},
		{lean: "uploadsFindLimit", constName: "findObjectsByBucketNameAndPrefixAndKeyMarkerAndUploadIdMarkerOrderByKeyAscAndUploadIdAscWithLimitStmt", conjuncts: uplConj, marker: uplMarker, markerTag: "keyGtOrUploadIdGt", orderBy: "key ASC, upload_id ASC", orderTag: "keyAscUploadIdAsc", limit: "$6"},
		{lean: "uploadsCount", constName: "countObjectsByBucketNameAndPrefixAndKeyMarkerAndUploadIdMarkerStmt", conjuncts: uplConj, marker: uplMarker, markerTag: "keyGtOrUploadIdGt", count: true, orderTag: "unordered"},
		{lean: "versionsFind", constName: "findObjectVersionsByBucketNameAndPrefixAndKeyMarkerAndVersionIDMarkerOrderByKeyAscAndVersionIDDescStmt", conjuncts: verConj, marker: verMarker, markerTag: "keyGtOrVersionKeyLt", orderBy: verOrder, orderTag: "keyAscVersionKeyDesc"},
		{lean: "versionsFindLimit", constName: "findObjectVersionsByBucketNameAndPrefixAndKeyMarkerAndVersionIDMarkerOrderByKeyAscAndVersionIDDescWithLimitStmt", conjuncts: verConj, marker: verMarker, markerTag: "keyGtOrVersionKeyLt", orderBy: verOrder, orderTag: "keyAscVersionKeyDesc", limit: "$6"},
	}

	w := x.Lean
	fmt.Fprintln(w, "-- Source: "+c06ObjectRepo+", "+c06PartRepo)
	fmt.Fprintln(w, "namespace Pithos.Gen.ListingSql")
	fmt.Fprintln(w, `
/-- How a listing statement restricts `+"`key`"+` to the requested prefix `+"`$2`"+`. -/
inductive PrefixPred where
  | likeConcatPercent   -- key LIKE $2 || '%'
  | substrEq            -- substr(key, 1, length($2)) = $2
  deriving DecidableEq, Repr

/-- The keyset (marker) predicate of a listing statement. -/
inductive MarkerPred where
  | keyGt                 -- key > $m
  | keyGtOrUploadIdGt     -- (key > $m OR ($u <> '' AND key = $m AND upload_id > $u))
  | keyGtOrVersionKeyLt   -- (key > $m OR (key = $m AND vk(version_id) < vk($v))), vk(x) = COALESCE(NULLIF(x,'null'),'')
  deriving DecidableEq, Repr

inductive OrderBy where
  | keyAsc | keyAscUploadIdAsc | keyAscVersionKeyDesc | unordered
  deriving DecidableEq, Repr

structure Stmt where
  name : String
  prefixPred : PrefixPred
  markerPred : MarkerPred
  orderBy : OrderBy
  limit : Bool
  count : Bool
  /-- the remaining conjuncts (all recognised: bucket scoping, upload status, latest / delete-marker flags) -/
  others : List String
  text : String
`)
	var names []string
	for _, fam := range fams {
		text, ok := vals[fam.constName]
		if !ok {
			return fmt.Errorf("constant %s not found in %s", fam.constName, c06ObjectRepo)
		}
		x.Note("sql "+fam.lean, nodes[fam.constName])
		norm := strings.TrimSpace(c06Space.ReplaceAllString(text, " "))
		up := strings.ToUpper(norm)
		// SELECT list
		if fam.count {
			if !strings.HasPrefix(up, "SELECT COUNT(*) FROM OBJECTS WHERE ") {
				return fmt.Errorf("%s: not a COUNT(*) over objects: %q", fam.constName, norm)
			}
		} else if !strings.HasPrefix(up, "SELECT ID, BUCKET_NAME, KEY, ") || !strings.Contains(up, " FROM OBJECTS WHERE ") {
			return fmt.Errorf("%s: not a SELECT over objects: %q", fam.constName, norm)
		}
		wi := strings.Index(up, " FROM OBJECTS WHERE ")
		rest := norm[wi+len(" FROM OBJECTS WHERE "):]
		restUp := strings.ToUpper(rest)
		limit := ""
		if li := strings.LastIndex(restUp, " LIMIT "); li >= 0 {
			limit = strings.TrimSpace(rest[li+len(" LIMIT "):])
			rest, restUp = rest[:li], restUp[:li]
		}
		order := ""
		if oi := strings.LastIndex(restUp, " ORDER BY "); oi >= 0 {
			order = strings.TrimSpace(rest[oi+len(" ORDER BY "):])
			rest = rest[:oi]
		}
		if order != fam.orderBy {
			return fmt.Errorf("%s: ORDER BY %q, expected %q", fam.constName, order, fam.orderBy)
		}
		if limit != fam.limit {
			return fmt.Errorf("%s: LIMIT %q, expected %q", fam.constName, limit, fam.limit)
		}
		prefixTag := ""
		markerSeen := false
		var others []string
		for _, c := range c06SplitTopLevelAnd(rest) {
			switch {
			case c == "key LIKE $2 || '%'":
				if prefixTag != "" {
					return fmt.Errorf("%s: two prefix predicates", fam.constName)
				}
				prefixTag = "likeConcatPercent"
			case c == "substr(key, 1, length($2)) = $2":
				if prefixTag != "" {
					return fmt.Errorf("%s: two prefix predicates", fam.constName)
				}
				prefixTag = "substrEq"
			case c == fam.marker:
				if markerSeen {
					return fmt.Errorf("%s: two marker predicates", fam.constName)
				}
				markerSeen = true
			default:
				others = append(others, c)
			}
		}
		if prefixTag == "" {
			return fmt.Errorf("%s: no recognised prefix predicate in %q", fam.constName, rest)
		}
		if !markerSeen {
			return fmt.Errorf("%s: marker predicate %q not found in %q", fam.constName, fam.marker, rest)
		}
		sort.Strings(others)
		if strings.Join(others, " | ") != strings.Join(fam.conjuncts, " | ") {
			return fmt.Errorf("%s: unrecognised conjuncts %q, expected %q", fam.constName, others, fam.conjuncts)
		}
		fmt.Fprintf(w, "def %s : Stmt :=\n  { name := %s, prefixPred := .%s, markerPred := .%s, orderBy := .%s, limit := %v, count := %v,\n    others := %s,\n    text := %s }\n\n",
			fam.lean, LeanStr(fam.constName), prefixTag, fam.markerTag, fam.orderTag, fam.limit != "", fam.count, LeanStrList(others), LeanStr(norm))
		names = append(names, fam.lean)
	}
	fmt.Fprintf(w, "def all : List Stmt := [%s]\n\n", strings.Join(names, ", "))

	// the part listing: ListParts relies on FindPartsByObjectIdOrderBySequenceNumberAsc
	pvals, pnodes, err := c06StringConsts(x, c06PartRepo)
	if err != nil {
		return err
	}
	const pname = "findPartsByObjectIdOrderBySequenceNumberAscStmt"
	ptext, ok := pvals[pname]
	if !ok {
		return fmt.Errorf("constant %s not found in %s", pname, c06PartRepo)
	}
	x.Note("sql partsFind", pnodes[pname])
	pnorm := strings.TrimSpace(c06Space.ReplaceAllString(ptext, " "))
	if !strings.HasSuffix(pnorm, " FROM parts WHERE object_id = $1 ORDER BY sequence_number ASC") {
		return fmt.Errorf("%s: unrecognised shape %q", pname, pnorm)
	}
	fmt.Fprintf(w, "/-- `%s` selects the parts of one object `ORDER BY sequence_number ASC` (recognised). -/\ndef partsOrderedBySequenceNumberAsc : Bool := true\ndef partsFindText : String := %s\n\n", pname, LeanStr(pnorm))
	fmt.Fprintln(w, "end Pithos.Gen.ListingSql")
	return nil
}
