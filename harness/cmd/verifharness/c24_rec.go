//go:build verif

package main

import (
	"context"
	"io"
	"runtime"
	"strings"

	"github.com/jdillenkofer/pithos/internal/storage"
	"github.com/jdillenkofer/pithos/internal/storage/middlewares/delegator"
)

// c24Rec is a recording storage: a delegator that logs every call it receives together with the
// bucket argument(s), so that the C24 judge sees which backing storage the conditional middleware
// called for which bucket.
type c24Rec struct {
	delegator.DelegatingStorage
	idx int
	log *[]string // shared by all recorders of one case: "<idx>:<Method>:<bucket>[><bucket>]"
}

var _ storage.Storage = (*c24Rec)(nil)

func newC24Rec(idx int, next storage.Storage, log *[]string) *c24Rec {
	return &c24Rec{DelegatingStorage: delegator.Wrap(next), idx: idx, log: log}
}

func c24B(b storage.BucketName) string { return strings.TrimPrefix(b.String(), "bkt-") }

func (r *c24Rec) rec(method string, buckets ...storage.BucketName) {
	names := make([]string, len(buckets))
	for i, b := range buckets {
		names[i] = c24B(b)
	}
	arg := "-"
	if len(names) > 0 {
		arg = strings.Join(names, ">")
	}
	*r.log = append(*r.log, c24Itoa(r.idx)+":"+method+":"+arg)
}

func c24Itoa(i int) string {
	if i == 0 {
		return "0"
	}
	s := ""
	for i > 0 {
		s = string(rune('0'+i%10)) + s
		i /= 10
	}
	return s
}

// c24FromLearnVids: s3hCase.learnVids lists the versions of every bucket after mutating calls
// to canonicalise version ids; that is harness bookkeeping, not a call made by the operation.
func c24FromLearnVids() bool {
	pcs := make([]uintptr, 12)
	n := runtime.Callers(2, pcs)
	frames := runtime.CallersFrames(pcs[:n])
	for {
		f, more := frames.Next()
		if strings.HasSuffix(f.Function, ".learnVids") {
			return true
		}
		if !more {
			return false
		}
	}
}

func (r *c24Rec) CreateBucket(ctx context.Context, b storage.BucketName) error {
	r.rec("CreateBucket", b)
	return r.Next.CreateBucket(ctx, b)
}
func (r *c24Rec) DeleteBucket(ctx context.Context, b storage.BucketName) error {
	r.rec("DeleteBucket", b)
	return r.Next.DeleteBucket(ctx, b)
}
func (r *c24Rec) ListBuckets(ctx context.Context) ([]storage.Bucket, error) {
	r.rec("ListBuckets")
	return r.Next.ListBuckets(ctx)
}
func (r *c24Rec) HeadBucket(ctx context.Context, b storage.BucketName) (*storage.Bucket, error) {
	r.rec("HeadBucket", b)
	return r.Next.HeadBucket(ctx, b)
}
func (r *c24Rec) GetBucketWebsiteConfiguration(ctx context.Context, b storage.BucketName) (*storage.WebsiteConfiguration, error) {
	r.rec("GetBucketWebsiteConfiguration", b)
	return r.Next.GetBucketWebsiteConfiguration(ctx, b)
}
func (r *c24Rec) PutBucketWebsiteConfiguration(ctx context.Context, b storage.BucketName, c *storage.WebsiteConfiguration) error {
	r.rec("PutBucketWebsiteConfiguration", b)
	return r.Next.PutBucketWebsiteConfiguration(ctx, b, c)
}
func (r *c24Rec) DeleteBucketWebsiteConfiguration(ctx context.Context, b storage.BucketName) error {
	r.rec("DeleteBucketWebsiteConfiguration", b)
	return r.Next.DeleteBucketWebsiteConfiguration(ctx, b)
}
func (r *c24Rec) GetBucketCORSConfiguration(ctx context.Context, b storage.BucketName) (*storage.BucketCORSConfiguration, error) {
	r.rec("GetBucketCORSConfiguration", b)
	return r.Next.GetBucketCORSConfiguration(ctx, b)
}
func (r *c24Rec) PutBucketCORSConfiguration(ctx context.Context, b storage.BucketName, c *storage.BucketCORSConfiguration) error {
	r.rec("PutBucketCORSConfiguration", b)
	return r.Next.PutBucketCORSConfiguration(ctx, b, c)
}
func (r *c24Rec) DeleteBucketCORSConfiguration(ctx context.Context, b storage.BucketName) error {
	r.rec("DeleteBucketCORSConfiguration", b)
	return r.Next.DeleteBucketCORSConfiguration(ctx, b)
}
func (r *c24Rec) GetBucketLifecycleConfiguration(ctx context.Context, b storage.BucketName) (*storage.BucketLifecycleConfiguration, error) {
	r.rec("GetBucketLifecycleConfiguration", b)
	return r.Next.GetBucketLifecycleConfiguration(ctx, b)
}
func (r *c24Rec) PutBucketLifecycleConfiguration(ctx context.Context, b storage.BucketName, c *storage.BucketLifecycleConfiguration) error {
	r.rec("PutBucketLifecycleConfiguration", b)
	return r.Next.PutBucketLifecycleConfiguration(ctx, b, c)
}
func (r *c24Rec) DeleteBucketLifecycleConfiguration(ctx context.Context, b storage.BucketName) error {
	r.rec("DeleteBucketLifecycleConfiguration", b)
	return r.Next.DeleteBucketLifecycleConfiguration(ctx, b)
}
func (r *c24Rec) GetBucketNotificationConfiguration(ctx context.Context, b storage.BucketName) (*storage.BucketNotificationConfiguration, error) {
	r.rec("GetBucketNotificationConfiguration", b)
	return r.Next.GetBucketNotificationConfiguration(ctx, b)
}
func (r *c24Rec) PutBucketNotificationConfiguration(ctx context.Context, b storage.BucketName, c *storage.BucketNotificationConfiguration) error {
	r.rec("PutBucketNotificationConfiguration", b)
	return r.Next.PutBucketNotificationConfiguration(ctx, b, c)
}
func (r *c24Rec) GetObjectTagging(ctx context.Context, b storage.BucketName, k storage.ObjectKey, o *storage.ObjectTaggingOptions) (map[string]string, error) {
	r.rec("GetObjectTagging", b)
	return r.Next.GetObjectTagging(ctx, b, k, o)
}
func (r *c24Rec) PutObjectTagging(ctx context.Context, b storage.BucketName, k storage.ObjectKey, t map[string]string, o *storage.ObjectTaggingOptions) error {
	r.rec("PutObjectTagging", b)
	return r.Next.PutObjectTagging(ctx, b, k, t, o)
}
func (r *c24Rec) DeleteObjectTagging(ctx context.Context, b storage.BucketName, k storage.ObjectKey, o *storage.ObjectTaggingOptions) error {
	r.rec("DeleteObjectTagging", b)
	return r.Next.DeleteObjectTagging(ctx, b, k, o)
}
func (r *c24Rec) ListObjects(ctx context.Context, b storage.BucketName, o storage.ListObjectsOptions) (*storage.ListBucketResult, error) {
	r.rec("ListObjects", b)
	return r.Next.ListObjects(ctx, b, o)
}
func (r *c24Rec) HeadObject(ctx context.Context, b storage.BucketName, k storage.ObjectKey, o *storage.HeadObjectOptions) (*storage.Object, error) {
	r.rec("HeadObject", b)
	return r.Next.HeadObject(ctx, b, k, o)
}
func (r *c24Rec) GetObject(ctx context.Context, b storage.BucketName, k storage.ObjectKey, ranges []storage.ByteRange, o *storage.GetObjectOptions) (*storage.Object, []io.ReadCloser, error) {
	r.rec("GetObject", b)
	return r.Next.GetObject(ctx, b, k, ranges, o)
}
func (r *c24Rec) PutObject(ctx context.Context, b storage.BucketName, k storage.ObjectKey, ct *string, data io.Reader, ci *storage.ChecksumInput, o *storage.PutObjectOptions) (*storage.PutObjectResult, error) {
	r.rec("PutObject", b)
	return r.Next.PutObject(ctx, b, k, ct, data, ci, o)
}
func (r *c24Rec) CopyObject(ctx context.Context, sb storage.BucketName, sk storage.ObjectKey, db storage.BucketName, dk storage.ObjectKey, o *storage.CopyObjectOptions) (*storage.CopyObjectResult, error) {
	r.rec("CopyObject", sb, db)
	return r.Next.CopyObject(ctx, sb, sk, db, dk, o)
}
func (r *c24Rec) AppendObject(ctx context.Context, b storage.BucketName, k storage.ObjectKey, data io.Reader, ci *storage.ChecksumInput, o *storage.AppendObjectOptions) (*storage.AppendObjectResult, error) {
	r.rec("AppendObject", b)
	return r.Next.AppendObject(ctx, b, k, data, ci, o)
}
func (r *c24Rec) DeleteObject(ctx context.Context, b storage.BucketName, k storage.ObjectKey, o *storage.DeleteObjectOptions) (*storage.DeleteObjectResult, error) {
	r.rec("DeleteObject", b)
	return r.Next.DeleteObject(ctx, b, k, o)
}
func (r *c24Rec) GetBucketVersioningConfiguration(ctx context.Context, b storage.BucketName) (*storage.BucketVersioningConfiguration, error) {
	r.rec("GetBucketVersioningConfiguration", b)
	return r.Next.GetBucketVersioningConfiguration(ctx, b)
}
func (r *c24Rec) PutBucketVersioningConfiguration(ctx context.Context, b storage.BucketName, c *storage.BucketVersioningConfiguration) error {
	r.rec("PutBucketVersioningConfiguration", b)
	return r.Next.PutBucketVersioningConfiguration(ctx, b, c)
}
func (r *c24Rec) ListObjectVersions(ctx context.Context, b storage.BucketName, o storage.ListObjectVersionsOptions) (*storage.ListObjectVersionsResult, error) {
	if !c24FromLearnVids() {
		r.rec("ListObjectVersions", b)
	}
	return r.Next.ListObjectVersions(ctx, b, o)
}
func (r *c24Rec) DeleteObjects(ctx context.Context, b storage.BucketName, e []storage.DeleteObjectsInputEntry) (*storage.DeleteObjectsResult, error) {
	r.rec("DeleteObjects", b)
	return r.Next.DeleteObjects(ctx, b, e)
}
func (r *c24Rec) TransitionObjectStorageClass(ctx context.Context, b storage.BucketName, k storage.ObjectKey, cls string, o *storage.TransitionObjectStorageClassOptions) error {
	r.rec("TransitionObjectStorageClass", b)
	return r.Next.TransitionObjectStorageClass(ctx, b, k, cls, o)
}
func (r *c24Rec) CreateMultipartUpload(ctx context.Context, b storage.BucketName, k storage.ObjectKey, ct *string, cst *string, o *storage.CreateMultipartUploadOptions) (*storage.InitiateMultipartUploadResult, error) {
	r.rec("CreateMultipartUpload", b)
	return r.Next.CreateMultipartUpload(ctx, b, k, ct, cst, o)
}
func (r *c24Rec) UploadPart(ctx context.Context, b storage.BucketName, k storage.ObjectKey, u storage.UploadId, n int32, data io.Reader, ci *storage.ChecksumInput) (*storage.UploadPartResult, error) {
	r.rec("UploadPart", b)
	return r.Next.UploadPart(ctx, b, k, u, n, data, ci)
}
func (r *c24Rec) UploadPartCopy(ctx context.Context, sb storage.BucketName, sk storage.ObjectKey, db storage.BucketName, dk storage.ObjectKey, u storage.UploadId, n int32, o *storage.UploadPartCopyOptions) (*storage.UploadPartCopyResult, error) {
	r.rec("UploadPartCopy", sb, db)
	return r.Next.UploadPartCopy(ctx, sb, sk, db, dk, u, n, o)
}
func (r *c24Rec) CompleteMultipartUpload(ctx context.Context, b storage.BucketName, k storage.ObjectKey, u storage.UploadId, ci *storage.ChecksumInput, o *storage.CompleteMultipartUploadOptions) (*storage.CompleteMultipartUploadResult, error) {
	r.rec("CompleteMultipartUpload", b)
	return r.Next.CompleteMultipartUpload(ctx, b, k, u, ci, o)
}
func (r *c24Rec) AbortMultipartUpload(ctx context.Context, b storage.BucketName, k storage.ObjectKey, u storage.UploadId) error {
	r.rec("AbortMultipartUpload", b)
	return r.Next.AbortMultipartUpload(ctx, b, k, u)
}
func (r *c24Rec) ListMultipartUploads(ctx context.Context, b storage.BucketName, o storage.ListMultipartUploadsOptions) (*storage.ListMultipartUploadsResult, error) {
	r.rec("ListMultipartUploads", b)
	return r.Next.ListMultipartUploads(ctx, b, o)
}
func (r *c24Rec) ListParts(ctx context.Context, b storage.BucketName, k storage.ObjectKey, u storage.UploadId, o storage.ListPartsOptions) (*storage.ListPartsResult, error) {
	r.rec("ListParts", b)
	return r.Next.ListParts(ctx, b, k, u, o)
}
