//go:build verif

package main

import (
	"bytes"
	"context"
	"database/sql"
	"encoding/hex"
	"errors"
	"fmt"
	"io"
	"os"
	"path/filepath"
	"sort"
	"strings"

	"github.com/jdillenkofer/pithos/internal/config"
	"github.com/jdillenkofer/pithos/internal/storage"
	"github.com/jdillenkofer/pithos/internal/storage/database"
	repositoryfactory "github.com/jdillenkofer/pithos/internal/storage/database/repository"
	"github.com/jdillenkofer/pithos/internal/storage/database/repository/object"
	"github.com/jdillenkofer/pithos/internal/storage/database/repository/part"
	"github.com/jdillenkofer/pithos/internal/storage/database/sqlite"
	"github.com/jdillenkofer/pithos/internal/storage/integrity"
	"github.com/jdillenkofer/pithos/internal/storage/metadatapart"
	"github.com/jdillenkofer/pithos/internal/storage/metadatapart/partstore"
	sqlstore "github.com/jdillenkofer/pithos/internal/storage/metadatapart/partstore/sql"
	"github.com/jdillenkofer/pithos/internal/verifx"
)

// C39: real storages (SQLite metadata; filesystem or SQL part stores; optionally a second, named
// part store for GLACIER/DEEP_ARCHIVE) are populated with generated objects, chosen parts are
// corrupted behind the storage's back, and the REAL integrity.Validator is run
//   (1) on the storage value exactly as metadatapart.NewStorage* returns it            ("direct"),
//   (2) on a host value that additionally exposes the default part store as a field     ("hosted")
//       without and with deleteCorrupted.
// (2) exists because (1) aborts on the current tree (findPartStore finds no PartStore field in
// metadataPartStorage); it lets the per-object decision procedure be exercised all the same.
// Protocol: see lean/Driver/C39.lean.

func init() { register("c39", runC39) }

// c39Host is a storage value in which findPartStore's reflection finds a PartStore field.
type c39Host struct {
	storage.Storage
	PS partstore.PartStore
}

type c39Stack struct {
	dir      string
	kind     string // fs | sql | named-fs | named-sql
	partKind string // fs | sql
	db       database.Database
	st       storage.Storage
	dflt     partstore.PartStore
	cold     partstore.PartStore // nil unless named
	extra    map[string]partstore.PartStore
	objRepo  object.Repository
	partRepo part.Repository
}

// c39Template is a migrated, closed SQLite database that every case copies instead of replaying
// the schema migrations (they dominate the cost of a fresh stack).
var c39Template string

func c39CopyTemplate(scratch, dir string) {
	if c39Template == "" {
		t := filepath.Join(scratch, "c39-template")
		verifx.Check(os.MkdirAll(t, 0o755))
		db := verifx.Must(sqlite.OpenDatabase(filepath.Join(t, "pithos.db")))
		verifx.Check(db.Close())
		c39Template = t
	}
	ents, err := os.ReadDir(c39Template)
	verifx.Check(err)
	for _, e := range ents {
		data, err := os.ReadFile(filepath.Join(c39Template, e.Name()))
		verifx.Check(err)
		verifx.Check(os.WriteFile(filepath.Join(dir, e.Name()), data, 0o644))
	}
}

func c39NewStack(scratch, dir, kind string) *c39Stack {
	verifx.Check(os.MkdirAll(dir, 0o755))
	c39CopyTemplate(scratch, dir)
	db := verifx.Must(sqlite.OpenDatabase(filepath.Join(dir, "pithos.db")))
	s := &c39Stack{dir: dir, kind: kind, db: db, partKind: strings.TrimPrefix(kind, "named-")}
	s.dflt = verifx.NewBasePartStore(db, s.partKind, filepath.Join(dir, "parts"))
	var extra map[string]partstore.PartStore
	var classMap map[string]string
	if strings.HasPrefix(kind, "named-") {
		if s.partKind == "fs" {
			s.cold = verifx.NewBasePartStore(db, "fs", filepath.Join(dir, "cold"))
		} else {
			pcr := verifx.Must(repositoryfactory.NewPartContentRepository(db))
			s.cold = verifx.Must(sqlstore.New(db, pcr, sqlstore.WithPartStoreId("cold")))
		}
		extra = map[string]partstore.PartStore{"cold": s.cold}
		classMap = map[string]string{"GLACIER": "cold", "DEEP_ARCHIVE": "cold"}
	}
	s.extra = extra
	s.st = verifx.Must(metadatapart.NewStorageWithNamedPartStores(db, verifx.NewMeta(db), s.dflt, extra, classMap))
	s.objRepo = verifx.Must(repositoryfactory.NewObjectRepository(db))
	s.partRepo = verifx.Must(repositoryfactory.NewPartRepository(db))
	return s
}

// c39ClassMaps are the storage-class → part-store mappings a named stack can be (re)configured with.
var c39ClassMaps = []map[string]string{
	{"GLACIER": "cold", "DEEP_ARCHIVE": "cold"},
	nil,
	{"STANDARD": "cold"},
	{"STANDARD_IA": "cold", "GLACIER": "cold"},
}

// remap re-opens the storage over the same database and part stores with another class mapping, as an
// operator changing the configuration does: parts written from now on may land in a different store
// than the earlier parts of the same object (an append keeps the object's class, not its store).
func (s *c39Stack) remap(i int) {
	if s.cold == nil {
		return
	}
	s.st = verifx.Must(metadatapart.NewStorageWithNamedPartStores(s.db, verifx.NewMeta(s.db), s.dflt, s.extra, c39ClassMaps[i%len(c39ClassMaps)]))
}

func (s *c39Stack) close() {
	_ = s.db.Close()
	_ = os.RemoveAll(s.dir)
}

func (s *c39Stack) storeOf(name *string) (partstore.PartStore, string, string) {
	if name == nil {
		return s.dflt, "d", filepath.Join(s.dir, "parts")
	}
	return s.cold, "0", filepath.Join(s.dir, "cold")
}

// ---------------------------------------------------------------- scripts

type c39Op struct {
	op     string // put | mpu | app | cp | upc | trans | del | remap
	b, k   string
	bodies [][]byte
	ctype  string // "", FULL_OBJECT, COMPOSITE
	cls    string // "", STANDARD, GLACIER, ...
	sb, sk string // source for cp / upc
	remap  int    // index into c39ClassMaps
}

type c39Cor struct {
	b, k string
	part int
	how  string // flip | trunc | trunc0 | ext | gone
}

type c39Script struct {
	stack string
	ops   []c39Op
	cors  []c39Cor
	ncor  int // generated cases: number of random corruptions (cors empty)
}

type c39Part struct {
	id       partstore.PartId
	store    *string
	size     int64
	orig     []byte
	cur      []byte
	gone     bool
	touched  bool
	pidOrd   int
	storeTok string
}

type c39Obj struct {
	b, k   string
	kind   string
	ctype  string
	ent    *object.Entity
	lobj   storage.Object
	parts  []*c39Part
	seqs   []int // sequence_number of each part row
}

type c39Run struct {
	ctx      context.Context
	s        *c39Stack
	out      *verifx.Out
	kinds    map[string][2]string // "b/k" -> (kind, ctype)
	contents map[string]int
	pids     map[string]int
	lossy    bool // observed: an untouched empty part is unreadable (store cannot represent it)
}

func c39sp(s string) *string {
	if s == "" {
		return nil
	}
	return &s
}

func (r *c39Run) apply(o c39Op) error {
	st, ctx := r.s.st, r.ctx
	B := storage.MustNewBucketName
	K := storage.MustNewObjectKey
	id := o.b + "/" + o.k
	switch o.op {
	case "put":
		_, err := st.PutObject(ctx, B(o.b), K(o.k), nil, bytes.NewReader(o.bodies[0]), nil, &storage.PutObjectOptions{StorageClass: c39sp(o.cls)})
		if err == nil {
			r.kinds[id] = [2]string{"single", "F"}
		}
		return err
	case "mpu", "upc":
		up, err := st.CreateMultipartUpload(ctx, B(o.b), K(o.k), nil, c39sp(o.ctype), &storage.CreateMultipartUploadOptions{StorageClass: c39sp(o.cls)})
		if err != nil {
			return err
		}
		n := int32(0)
		if o.op == "upc" { // first part: a whole-object UploadPartCopy (shares the part when it can)
			n++
			if _, err := st.UploadPartCopy(ctx, B(o.sb), K(o.sk), B(o.b), K(o.k), up.UploadId, n, nil); err != nil {
				_ = st.AbortMultipartUpload(ctx, B(o.b), K(o.k), up.UploadId)
				return err
			}
		}
		for _, body := range o.bodies {
			n++
			if _, err := st.UploadPart(ctx, B(o.b), K(o.k), up.UploadId, n, bytes.NewReader(body), nil); err != nil {
				return err
			}
		}
		if _, err := st.CompleteMultipartUpload(ctx, B(o.b), K(o.k), up.UploadId, nil, nil); err != nil {
			return err
		}
		ct := "F"
		if o.ctype == "COMPOSITE" {
			ct = "C"
		}
		r.kinds[id] = [2]string{"multi", ct}
		return nil
	case "app":
		_, err := st.AppendObject(ctx, B(o.b), K(o.k), bytes.NewReader(o.bodies[0]), nil, nil)
		if err == nil {
			r.kinds[id] = [2]string{"app", "F"}
		}
		return err
	case "cp":
		_, err := st.CopyObject(ctx, B(o.sb), K(o.sk), B(o.b), K(o.k), &storage.CopyObjectOptions{StorageClass: c39sp(o.cls)})
		if err == nil {
			r.kinds[id] = r.kinds[o.sb+"/"+o.sk]
		}
		return err
	case "trans":
		return st.TransitionObjectStorageClass(ctx, B(o.b), K(o.k), o.cls, nil)
	case "remap":
		r.s.remap(o.remap)
		return nil
	case "del":
		_, err := st.DeleteObject(ctx, B(o.b), K(o.k), nil)
		if err == nil {
			delete(r.kinds, id)
		}
		return err
	}
	return fmt.Errorf("unknown op %q", o.op)
}

// readRaw reads a part straight from its part store (nil, false when the store has no such part).
func (r *c39Run) readRaw(ps partstore.PartStore, id partstore.PartId) ([]byte, bool) {
	var data []byte
	found := true
	err := database.WithTx(r.ctx, r.s.db, &sql.TxOptions{ReadOnly: true}, func(ctx context.Context, tx database.Tx) error {
		rc, err := ps.GetPart(ctx, tx, id)
		if err != nil {
			if errors.Is(err, partstore.ErrPartNotFound) {
				found = false
				return nil
			}
			return err
		}
		defer rc.Close()
		data, err = io.ReadAll(rc)
		return err
	})
	verifx.Check(err)
	return data, found
}

// snapshot lists every current object with its part rows and the bytes each part holds now.
func (r *c39Run) snapshot(buckets []string) []*c39Obj {
	var objs []*c39Obj
	parts := map[string]*c39Part{} // one entry per (store, part id): shared parts are one part
	for _, b := range buckets {
		listed, err := storage.ListAllObjectsOfBucket(r.ctx, r.s.st, storage.MustNewBucketName(b))
		if err != nil {
			continue
		}
		for _, lo := range listed {
			o := &c39Obj{b: b, k: lo.Key.String(), lobj: lo}
			kc := r.kinds[b+"/"+o.k]
			o.kind, o.ctype = kc[0], kc[1]
			verifx.Check(database.WithTx(r.ctx, r.s.db, &sql.TxOptions{ReadOnly: true}, func(ctx context.Context, tx database.Tx) error {
				ent, err := r.s.objRepo.FindObjectByBucketNameAndKey(ctx, tx.SqlTx(), storage.MustNewBucketName(b), lo.Key)
				if err != nil || ent == nil {
					return fmt.Errorf("object row of %s/%s: %v", b, o.k, err)
				}
				o.ent = ent
				rows, err := r.s.partRepo.FindPartsByObjectIdOrderBySequenceNumberAsc(ctx, tx.SqlTx(), *ent.Id)
				if err != nil {
					return err
				}
				for _, row := range rows {
					_, tok, _ := r.s.storeOf(row.PartStoreName)
					key := tok + "/" + row.PartId.String()
					p, ok := parts[key]
					if !ok {
						p = &c39Part{id: row.PartId, store: row.PartStoreName, size: row.Size, storeTok: tok}
						if _, seen := r.pids[key]; !seen {
							r.pids[key] = len(r.pids)
						}
						p.pidOrd = r.pids[key]
						parts[key] = p
					}
					// the same physical part may sit at different sequence numbers of different objects
					o.parts = append(o.parts, p)
					o.seqs = append(o.seqs, row.SequenceNumber)
				}
				return nil
			}))
			objs = append(objs, o)
		}
	}
	for _, p := range parts {
		ps, _, _ := r.s.storeOf(p.store)
		data, found := r.readRaw(ps, p.id)
		if !found && p.size != 0 {
			verifx.Fatalf("c39: freshly written part %s is missing", p.id.String())
		}
		if !found {
			r.lossy = true // the store answers "not found" for an empty part it acknowledged
		}
		p.orig = data
		p.cur = data
	}
	return objs
}

func (r *c39Run) contentOrd(b []byte) int {
	k := string(b)
	if n, ok := r.contents[k]; ok {
		return n
	}
	r.contents[k] = len(r.contents)
	return r.contents[k]
}

// corrupt applies one catalogue entry to a part; returns false when it would be a no-op.
func (r *c39Run) corrupt(p *c39Part, how string, rng *verifx.Rng) bool {
	if p.gone {
		return false
	}
	var next []byte
	gone := false
	switch how {
	case "flip":
		if len(p.cur) == 0 {
			return false
		}
		next = append([]byte{}, p.cur...)
		next[rng.Intn(len(next))] ^= byte(1 << uint(rng.Intn(8)))
	case "trunc":
		if len(p.cur) == 0 {
			return false
		}
		next = append([]byte{}, p.cur[:rng.Intn(len(p.cur))]...)
	case "trunc0":
		if len(p.cur) == 0 {
			return false
		}
		next = []byte{}
	case "ext":
		next = append(append([]byte{}, p.cur...), rng.Bytes(1+rng.Intn(8))...)
	case "gone":
		if r.lossy && len(p.cur) == 0 {
			return false // the store keeps nothing for an empty part: nothing to remove
		}
		gone = true
	default:
		verifx.Fatalf("c39: unknown corruption %q", how)
	}
	ps, _, dir := r.s.storeOf(p.store)
	if r.s.partKind == "fs" {
		// behind the store's back: edit the part file on disk
		fn := filepath.Join(dir, hex.EncodeToString(p.id.Bytes()))
		if gone {
			verifx.Check(os.Remove(fn))
		} else {
			verifx.Check(os.WriteFile(fn, next, 0o600))
		}
	} else {
		// rows of the part-content repository, rewritten through the SQL part store
		verifx.Check(database.WithTx(r.ctx, r.s.db, &sql.TxOptions{}, func(ctx context.Context, tx database.Tx) error {
			if gone {
				return ps.DeletePart(ctx, tx, p.id)
			}
			return ps.PutPart(ctx, tx, p.id, bytes.NewReader(next))
		}))
	}
	p.cur, p.gone, p.touched = next, gone, true
	return true
}

func c39CkShape(p *string) string {
	if p == nil || *p == "" {
		return "-"
	}
	s := strings.Trim(*p, "\"")
	if i := strings.LastIndexByte(s, '-'); i >= 0 {
		return "d" + s[i+1:]
	}
	return "p"
}

func (r *c39Run) validate(host storage.Storage, del bool) (*integrity.ValidationReport, error) {
	dbc := config.NewDbContainer()
	dbc.AddDb(r.s.db)
	return integrity.NewValidator(host, dbc, del, true).ValidateAll(r.ctx)
}

func (r *c39Run) printReport(tag string, objs []*c39Obj, rep *integrity.ValidationReport) {
	byKey := map[string]integrity.ValidationResult{}
	for _, res := range rep.Results {
		byKey[res.BucketName+"/"+res.ObjectKey] = res
	}
	for i, o := range objs {
		res, ok := byKey[o.b+"/"+o.k]
		if !ok {
			r.out.Line("%s %d unlisted ~ ~", tag, i)
			continue
		}
		outc := "ok"
		if !res.Success {
			switch res.ErrorType {
			case "Part validation failed":
				outc = "part"
			case "Object checksum mismatch":
				outc = "object"
			default:
				outc = "other:" + verifx.HexS(res.ErrorType)
			}
		}
		fails := []string{}
		for _, pf := range res.PartFailures {
			idx := -1
			for j, sq := range o.seqs {
				if sq == pf.SequenceNumber {
					idx = j
				}
			}
			fails = append(fails, fmt.Sprint(idx))
		}
		act := res.ActionTaken
		if act == "" {
			act = "~"
		}
		r.out.Line("%s %d %s %s %s", tag, i, outc, joinOr(fails), strings.ReplaceAll(act, " ", "_"))
	}
}

func (r *c39Run) run(sc c39Script, rng *verifx.Rng) {
	out := r.out
	out.Line("cfg stack=%s", sc.stack)
	buckets := map[string]bool{}
	for _, o := range sc.ops {
		if o.op == "remap" {
			_ = r.apply(o)
			continue
		}
		if !buckets[o.b] {
			buckets[o.b] = true
			verifx.Check(r.s.st.CreateBucket(r.ctx, storage.MustNewBucketName(o.b)))
		}
		_ = r.apply(o) // a failing op (e.g. a source that does not exist) simply creates nothing
	}
	bl := []string{}
	for b := range buckets {
		bl = append(bl, b)
	}
	sort.Strings(bl)
	objs := r.snapshot(bl)
	out.Line("lossy %d", b2i(r.lossy))

	// corruptions
	if len(sc.cors) > 0 {
		for _, c := range sc.cors {
			for _, o := range objs {
				if o.b == c.b && o.k == c.k && c.part < len(o.parts) {
					r.corrupt(o.parts[c.part], c.how, rng)
				}
			}
		}
	} else {
		var all []*c39Part
		seen := map[*c39Part]bool{}
		for _, o := range objs {
			for _, p := range o.parts {
				if !seen[p] {
					seen[p] = true
					all = append(all, p)
				}
			}
		}
		for i := 0; i < sc.ncor && len(all) > 0; i++ {
			p := verifx.Pick(rng, all)
			how := verifx.Pick(rng, []string{"flip", "flip", "trunc", "trunc0", "ext", "gone", "gone"})
			if !r.corrupt(p, how, rng) {
				r.corrupt(p, "ext", rng)
			}
		}
	}

	for i, o := range objs {
		ps := []string{}
		for _, p := range o.parts {
			state := "="
			switch {
			case p.gone:
				state = "g/0"
			case p.touched && !bytes.Equal(p.cur, p.orig):
				state = fmt.Sprintf("%d/%d", r.contentOrd(p.cur), len(p.cur))
			}
			if state == "=" {
				state = "=/0"
			}
			ps = append(ps, fmt.Sprintf("%s/%d/%d/%d/%s", p.storeTok, p.pidOrd, r.contentOrd(p.orig), len(p.orig), state))
		}
		e := o.ent
		etag := e.ETag
		rec := strings.Join([]string{c39CkShape(&etag), c39CkShape(e.ChecksumCRC32), c39CkShape(e.ChecksumCRC32C), c39CkShape(e.ChecksumCRC64NVME),
			c39CkShape(e.ChecksumSHA1), c39CkShape(e.ChecksumSHA256)}, ":")
		oct := "~"
		if e.ChecksumType != nil {
			oct = map[string]string{"FULL_OBJECT": "F", "COMPOSITE": "C"}[*e.ChecksumType]
		}
		out.Line("obj %d b=%s k=%s kind=%s ct=%s rec=%s octype=%s parts=%s", i, o.b, verifx.HexS(o.k), o.kind, o.ctype, rec, oct, joinOr(ps))
	}

	// (1) the validator on the storage exactly as constructed
	rep, err := r.validate(r.s.st, false)
	switch {
	case err != nil && strings.Contains(err.Error(), "could not find PartStore"):
		out.Line("direct nostore")
	case err != nil:
		out.Line("direct err %s", verifx.HexS(err.Error()))
	default:
		out.Line("direct ok")
		r.printReport("drep", objs, rep)
	}
	// (2) the validator on a host that exposes the default part store
	host := &c39Host{Storage: r.s.st, PS: r.s.dflt}
	rep, err = r.validate(host, false)
	if err != nil {
		out.Line("hosted err %s", verifx.HexS(err.Error()))
		return
	}
	out.Line("hosted ok total=%d failed=%d", rep.TotalObjects, rep.FailedObjects)
	r.printReport("rep", objs, rep)
	// (3) … with deleteCorrupted
	rep, err = r.validate(host, true)
	if err != nil {
		out.Line("delrun err %s", verifx.HexS(err.Error()))
		return
	}
	out.Line("delrun ok deleted=%d", rep.DeletedObjects)
	r.printReport("del", objs, rep)
	surv := []string{}
	for _, b := range bl {
		listed, err := storage.ListAllObjectsOfBucket(r.ctx, r.s.st, storage.MustNewBucketName(b))
		verifx.Check(err)
		for _, lo := range listed {
			for i, o := range objs {
				if o.b == b && o.k == lo.Key.String() {
					surv = append(surv, fmt.Sprint(i))
				}
			}
		}
	}
	out.Line("surv %s", joinOr(surv))
}

// ---------------------------------------------------------------- generator

func c39Body(r *verifx.Rng) []byte {
	switch r.Intn(9) {
	case 0:
		return nil
	case 1:
		return []byte("a")
	case 2, 3:
		return []byte("hello world") // duplicate content on purpose (deduplicated parts)
	case 4:
		return bytesRepeat(byte('A'+r.Intn(3)), 1+r.Intn(40))
	case 5:
		return r.Bytes(1 + r.Intn(64))
	case 6:
		return bytesRepeat('z', 300+r.Intn(900))
	default:
		return r.Bytes(100 + r.Intn(4000))
	}
}

func c39Gen(r *verifx.Rng, thorough bool) c39Script {
	sc := c39Script{stack: verifx.Pick(r, []string{"fs", "sql", "named-fs", "named-sql", "fs", "sql"})}
	named := strings.HasPrefix(sc.stack, "named-")
	keys := []string{"k0", "k1", "k2", "k3", "dir/k4", "k5"}
	bk := func() string {
		if r.Chance(4, 5) {
			return "bkt-a"
		}
		return "bkt-b"
	}
	cls := func() string {
		if named && r.Chance(2, 5) {
			return verifx.Pick(r, []string{"GLACIER", "DEEP_ARCHIVE"})
		}
		if r.Chance(1, 4) {
			return verifx.Pick(r, []string{"STANDARD", "STANDARD_IA"})
		}
		return ""
	}
	var made [][2]string
	pickMade := func() ([2]string, bool) {
		if len(made) == 0 {
			return [2]string{}, false
		}
		return verifx.Pick(r, made), true
	}
	nops := 6 + r.Intn(8)
	if thorough {
		nops += r.Intn(10)
	}
	for i := 0; i < nops; i++ {
		b, k := bk(), verifx.Pick(r, keys)
		if named && r.Chance(1, 7) {
			sc.ops = append(sc.ops, c39Op{op: "remap", remap: r.Intn(len(c39ClassMaps))})
			continue
		}
		switch x := r.Intn(20); {
		case x < 6:
			sc.ops = append(sc.ops, c39Op{op: "put", b: b, k: k, bodies: [][]byte{c39Body(r)}, cls: cls()})
		case x < 11:
			n := 1 + r.Intn(3)
			bodies := make([][]byte, n)
			for j := range bodies {
				bodies[j] = c39Body(r)
			}
			sc.ops = append(sc.ops, c39Op{op: "mpu", b: b, k: k, bodies: bodies, ctype: verifx.Pick(r, []string{"", "FULL_OBJECT", "COMPOSITE"}), cls: cls()})
		case x < 14:
			if m, ok := pickMade(); ok && r.Chance(2, 3) {
				b, k = m[0], m[1]
			}
			sc.ops = append(sc.ops, c39Op{op: "app", b: b, k: k, bodies: [][]byte{c39Body(r)}})
		case x < 16:
			if m, ok := pickMade(); ok {
				sc.ops = append(sc.ops, c39Op{op: "cp", b: b, k: k, sb: m[0], sk: m[1], cls: cls()})
			}
		case x < 17:
			if m, ok := pickMade(); ok {
				n := r.Intn(2)
				bodies := make([][]byte, n)
				for j := range bodies {
					bodies[j] = c39Body(r)
				}
				sc.ops = append(sc.ops, c39Op{op: "upc", b: b, k: k, sb: m[0], sk: m[1], bodies: bodies, ctype: verifx.Pick(r, []string{"", "COMPOSITE"}), cls: cls()})
			}
		case x < 18:
			if m, ok := pickMade(); ok && named {
				sc.ops = append(sc.ops, c39Op{op: "trans", b: m[0], k: m[1], cls: verifx.Pick(r, []string{"GLACIER", "STANDARD", "DEEP_ARCHIVE"})})
				continue
			}
			sc.ops = append(sc.ops, c39Op{op: "put", b: b, k: k, bodies: [][]byte{c39Body(r)}, cls: cls()})
		default:
			if m, ok := pickMade(); ok && r.Chance(1, 2) {
				sc.ops = append(sc.ops, c39Op{op: "del", b: m[0], k: m[1]})
				continue
			}
			sc.ops = append(sc.ops, c39Op{op: "put", b: b, k: k, bodies: [][]byte{c39Body(r)}, cls: cls()})
		}
		if len(sc.ops) == 0 {
			continue
		}
		last := sc.ops[len(sc.ops)-1]
		if last.op != "del" && last.op != "trans" && last.op != "remap" {
			made = append(made, [2]string{last.b, last.k})
		}
	}
	sc.ncor = verifx.Pick(r, []int{0, 1, 1, 2, 2, 3, 4})
	return sc
}

func c39Directed() []c39Script {
	h := []byte("hello world")
	b := "bkt-a"
	put := func(k string, body []byte, cls string) c39Op {
		return c39Op{op: "put", b: b, k: k, bodies: [][]byte{body}, cls: cls}
	}
	mpu := func(k, ct, cls string, bodies ...[]byte) c39Op {
		return c39Op{op: "mpu", b: b, k: k, bodies: bodies, ctype: ct, cls: cls}
	}
	var out []c39Script
	// 0: one flipped object next to an intact one — on the current tree the direct run aborts
	out = append(out, c39Script{stack: "fs", ops: []c39Op{put("good", h, ""), put("bad", []byte("some other content"), "")},
		cors: []c39Cor{{b, "bad", 0, "flip"}}})
	// 1: one-part multipart uploads and a first append (ETag …-1), all intact, plus a corrupted control
	out = append(out, c39Script{stack: "fs", ops: []c39Op{mpu("mp1", "", "", []byte("part-one")), mpu("mp1c", "COMPOSITE", "", []byte("part-one-c")),
		{op: "app", b: b, k: "appnew", bodies: [][]byte{[]byte("fresh")}}, put("ctl", []byte("control"), ""),
		mpu("mp2", "", "", []byte("p1"), []byte("p2")), put("base", []byte("base"), ""), {op: "app", b: b, k: "base", bodies: [][]byte{[]byte("tail")}},
		{op: "cp", b: b, k: "mp1copy", sb: b, sk: "mp1"}},
		cors: []c39Cor{{b, "ctl", 0, "trunc"}}})
	// 2: objects in a named (non-default) part store, intact; one default-store object corrupted
	for _, stk := range []string{"named-fs", "named-sql"} {
		out = append(out, c39Script{stack: stk, ops: []c39Op{put("cold1", h, "GLACIER"), mpu("cold3", "COMPOSITE", "DEEP_ARCHIVE", []byte("x1"), []byte("x2"), []byte("x3")),
			put("warm", []byte("warm"), ""), put("moved", []byte("to be moved"), ""), {op: "trans", b: b, k: "moved", cls: "GLACIER"},
			put("ctl", []byte("control"), "")},
			cors: []c39Cor{{b, "ctl", 0, "gone"}}})
	}
	// 2b: objects whose parts live in different stores (the class mapping is changed between a put and an append)
	for _, stk := range []string{"named-fs", "named-sql"} {
		out = append(out, c39Script{stack: stk, ops: []c39Op{put("log-intact", []byte("first chunk A"), "GLACIER"), put("log-bad-cold", []byte("first chunk B"), "GLACIER"),
			put("log-bad-dflt", []byte("first chunk C"), "GLACIER"), put("std", []byte("standard"), ""), {op: "remap", remap: 1},
			{op: "app", b: b, k: "log-intact", bodies: [][]byte{[]byte("second chunk A")}}, {op: "app", b: b, k: "log-bad-cold", bodies: [][]byte{[]byte("second chunk B")}},
			{op: "app", b: b, k: "log-bad-dflt", bodies: [][]byte{[]byte("second chunk C")}}, {op: "remap", remap: 2},
			{op: "app", b: b, k: "std", bodies: [][]byte{[]byte("+ cold tail")}}},
			cors: []c39Cor{{b, "log-bad-cold", 0, "flip"}, {b, "log-bad-dflt", 1, "trunc"}}})
	}
	// 3: empty objects, intact, on the SQL part store (no chunk row exists for an empty part)
	out = append(out, c39Script{stack: "sql", ops: []c39Op{put("empty", nil, ""), mpu("mpe", "", "", []byte("head"), nil, []byte("tail")), put("ctl", []byte("control"), "")},
		cors: []c39Cor{{b, "ctl", 0, "ext"}}})
	out = append(out, c39Script{stack: "fs", ops: []c39Op{put("empty", nil, ""), mpu("mpe", "", "", []byte("head"), nil, []byte("tail")), put("gone-empty", nil, "STANDARD_IA")},
		cors: []c39Cor{{b, "mpe", 1, "ext"}}})
	// 4: shared parts — deduplicated identical content, a copy, an UploadPartCopy: one flip hits all of them
	for _, stk := range []string{"fs", "sql"} {
		out = append(out, c39Script{stack: stk, ops: []c39Op{put("a", h, ""), put("b", h, ""), {op: "cp", b: b, k: "c", sb: b, sk: "a"},
			{op: "upc", b: b, k: "d", sb: b, sk: "a", bodies: [][]byte{[]byte("second part")}}, put("other", []byte("unrelated"), ""),
			mpu("m", "", "", h, []byte("xyz"))},
			cors: []c39Cor{{b, "a", 0, "flip"}}})
	}
	// 5: the corruption catalogue on the parts of three-part uploads
	for _, stk := range []string{"fs", "sql"} {
		for _, how := range []string{"flip", "trunc", "trunc0", "ext", "gone"} {
			for part := 0; part < 3; part++ {
				if (part+len(how))%2 == 0 && stk == "sql" {
					continue
				}
				out = append(out, c39Script{stack: stk, ops: []c39Op{mpu("m3", verifx.Pick(verifx.NewRng(uint64(part)), []string{"", "COMPOSITE"}), "", []byte("first part"), []byte("second part!"), []byte("third")),
					put("s", []byte("single"), ""), {op: "app", b: b, k: "s", bodies: [][]byte{[]byte("+more")}}, put("intact", []byte("intact"), "")},
					cors: []c39Cor{{b, "m3", part, how}, {b, "s", 1, how}}})
			}
		}
	}
	return out
}

func runC39(args []string) {
	f := verifx.ParseFlags("c39", args, 130, 1000)
	out := verifx.NewOut()
	ctx := context.Background()
	directed := c39Directed()
	total := len(directed) + f.Cases
	for k := 0; k < total; k++ {
		if !f.Wants(k) {
			continue
		}
		seed := verifx.CaseSeed(f.Seed, k)
		rng := verifx.NewRng(seed)
		var sc c39Script
		if k < len(directed) {
			sc = directed[k]
		} else {
			sc = c39Gen(rng, f.Tier == "thorough")
		}
		stk := c39NewStack(f.Scratch, filepath.Join(f.Scratch, fmt.Sprintf("c39-%d", k)), sc.stack)
		r := &c39Run{ctx: ctx, s: stk, out: out, kinds: map[string][2]string{}, contents: map[string]int{}, pids: map[string]int{}}
		out.Case(k, seed)
		func() {
			defer func() {
				if p := recover(); p != nil {
					out.Line("panic %s", verifx.HexS(fmt.Sprint(p)))
				}
			}()
			r.run(sc, rng)
		}()
		out.End()
		stk.close()
	}
	out.Flush()
}
