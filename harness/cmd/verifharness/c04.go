//go:build verif

package main

import (
	"bytes"
	"context"
	"crypto/md5"
	"crypto/sha1"
	"crypto/sha256"
	"encoding/base64"
	"encoding/binary"
	"encoding/hex"
	"errors"
	"fmt"
	"hash/crc32"
	"hash/crc64"
	"io"
	"path/filepath"
	"strconv"
	"strings"

	"github.com/jdillenkofer/pithos/internal/storage"
	"github.com/jdillenkofer/pithos/internal/verifx"
)

// C04: ETags and checksums describe the stored bytes. Trace format: /verif/lean/Driver/C04.lean.
//
// One case = one history of put / multipart / append / copy / head / get / delete requests on a
// handful of keys of a real storage stack (SQLite metadata + "sql" or "fs" part store), with
// supplied Content-MD5 / checksum values (correct and wrong). For every body the harness prints
// a data record with the digests Go's standard library computes for it; for the uninterpreted
// hashes it prints oracle lines `h <alg> <input> <digest>` for short inputs. It decides nothing.

func init() { register("c04", runC04) }

// (kept local so that this file builds without c35.go)
var c04NvmeTable = crc64.MakeTable(0x9a6c9329ac4bc9b5)
var c04CastagnoliTable = crc32.MakeTable(crc32.Castagnoli)

func c04StdCrc(alg string, data []byte) []byte {
	switch alg {
	case "crc32":
		b := make([]byte, 4)
		binary.BigEndian.PutUint32(b, crc32.ChecksumIEEE(data))
		return b
	case "crc32c":
		b := make([]byte, 4)
		binary.BigEndian.PutUint32(b, crc32.Checksum(data, c04CastagnoliTable))
		return b
	default:
		b := make([]byte, 8)
		binary.BigEndian.PutUint64(b, crc64.Checksum(data, c04NvmeTable))
		return b
	}
}

func c04Pattern(r *verifx.Rng, n int) []byte {
	switch r.Intn(8) {
	case 0:
		return make([]byte, n)
	case 1:
		b := make([]byte, n)
		for i := range b {
			b[i] = 0xff
		}
		return b
	}
	return r.Bytes(n)
}

func c04Size(r *verifx.Rng, max int) int {
	switch r.Intn(10) {
	case 0:
		return 0
	case 1:
		return 1
	case 2, 3:
		return r.Intn(70)
	}
	return r.Intn(max + 1)
}

const c04ShipLimit = 4096 // bodies up to this size are shipped to the Lean judge byte by byte

type c04Obj struct {
	parts [][]byte
	multi bool
}

type c04Upload struct {
	key   int
	ctype string
	parts map[int][]byte
}

type c04Case struct {
	out    *verifx.Out
	st     *verifx.Stack
	bucket storage.BucketName
	prefix string
	nData  int
	objs   map[int]*c04Obj
	ups    map[int]*c04Upload
	upIds  map[int]storage.UploadId
	ctx    context.Context
}

func (c *c04Case) key(k int) storage.ObjectKey {
	return storage.MustNewObjectKey(fmt.Sprintf("%s/k%d", c.prefix, k))
}

func c04Digests(b []byte) (m5, s1, s256, c32, c32c, c64 []byte) {
	a := md5.Sum(b)
	s := sha1.Sum(b)
	t := sha256.Sum256(b)
	return a[:], s[:], t[:], c04StdCrc("crc32", b), c04StdCrc("crc32c", b), c04StdCrc("crc64nvme", b)
}

// data registers a byte string and prints its record (stdlib digests; bytes when small).
func (c *c04Case) data(b []byte) string {
	name := "d" + strconv.Itoa(c.nData)
	c.nData++
	m5, s1, s256, c32, c32c, c64 := c04Digests(b)
	payload := "*"
	if len(b) <= c04ShipLimit {
		payload = verifx.Hex(b)
	}
	c.out.Line("d %s %d %s %s %s %s %s %s %s", name, len(b), verifx.Hex(m5), verifx.Hex(s1), verifx.Hex(s256),
		verifx.Hex(c32), verifx.Hex(c32c), verifx.Hex(c64), payload)
	return name
}

func (c *c04Case) oracle(alg string, in []byte) []byte {
	var out []byte
	switch alg {
	case "md5":
		a := md5.Sum(in)
		out = a[:]
	case "sha1":
		a := sha1.Sum(in)
		out = a[:]
	default:
		a := sha256.Sum256(in)
		out = a[:]
	}
	c.out.Line("h %s %s %s", alg, verifx.Hex(in), verifx.Hex(out))
	return out
}

// oraclesFor prints the oracle lines an object with these parts may need (ETag of ETags and the
// composite SHA digests).
func (c *c04Case) oraclesFor(parts [][]byte) {
	var m, s1, s2 []byte
	for _, p := range parts {
		a := md5.Sum(p)
		b := sha1.Sum(p)
		d := sha256.Sum256(p)
		m = append(m, a[:]...)
		s1 = append(s1, b[:]...)
		s2 = append(s2, d[:]...)
	}
	c.oracle("md5", m)
	c.oracle("sha1", s1)
	c.oracle("sha256", s2)
}

// ---------- canonical value tokens ----------

// sumTok renders a base64 checksum string (optionally with -N) as hex[-N].
func c04SumTok(s *string) string {
	if s == nil {
		return "nil"
	}
	v := *s
	suffix := ""
	if i := strings.LastIndex(v, "-"); i >= 0 && i > strings.LastIndex(v, "=") {
		if _, err := strconv.Atoi(v[i+1:]); err == nil {
			suffix = v[i:]
			v = v[:i]
		}
	}
	raw, err := base64.StdEncoding.DecodeString(v)
	if err != nil || len(raw) == 0 {
		return "bad:" + hex.EncodeToString([]byte(*s))
	}
	return hex.EncodeToString(raw) + suffix
}

// etagTok renders a quoted hex ETag (optionally with -N inside the quotes) as hex[-N].
func c04EtagTok(s string) string {
	if len(s) < 2 || s[0] != '"' || s[len(s)-1] != '"' {
		return "bad:" + hex.EncodeToString([]byte(s))
	}
	v := s[1 : len(s)-1]
	suffix := ""
	if i := strings.Index(v, "-"); i >= 0 {
		if _, err := strconv.Atoi(v[i+1:]); err != nil {
			return "bad:" + hex.EncodeToString([]byte(s))
		}
		suffix = v[i:]
		v = v[:i]
	}
	raw, err := hex.DecodeString(v)
	if err != nil || len(raw) == 0 {
		return "bad:" + hex.EncodeToString([]byte(s))
	}
	return hex.EncodeToString(raw) + suffix
}

func c04Err(err error) string {
	switch {
	case errors.Is(err, storage.ErrBadDigest):
		return "BadDigest"
	case errors.Is(err, storage.ErrNoSuchKey):
		return "NoSuchKey"
	case errors.Is(err, storage.ErrInvalidRange):
		return "InvalidRange"
	case errors.Is(err, storage.ErrInvalidPart):
		return "InvalidPart"
	}
	if err.Error() == "UploadWithInvalidSequenceNumber" {
		return "InvalidSequence"
	}
	return "Other:" + strings.ReplaceAll(err.Error(), " ", "_")
}

// ---------- supplied checksums ----------

// c04Supplied is one supplied field: which one, the raw digest it encodes, the -N suffix (or -1).
type c04Supplied struct {
	field string
	raw   []byte
	n     int
}

func c04Input(sup []c04Supplied) (*storage.ChecksumInput, string) {
	if sup == nil {
		return nil, "-"
	}
	in := &storage.ChecksumInput{}
	var toks []string
	for _, s := range sup {
		suffix := ""
		if s.n >= 0 {
			suffix = "-" + strconv.Itoa(s.n)
		}
		toks = append(toks, s.field+"="+hex.EncodeToString(s.raw)+suffix)
		if s.field == "etag" {
			v := "\"" + hex.EncodeToString(s.raw) + suffix + "\""
			in.ETag = &v
			continue
		}
		v := base64.StdEncoding.EncodeToString(s.raw) + suffix
		switch s.field {
		case "crc32":
			in.ChecksumCRC32 = &v
		case "crc32c":
			in.ChecksumCRC32C = &v
		case "crc64":
			in.ChecksumCRC64NVME = &v
		case "sha1":
			in.ChecksumSHA1 = &v
		case "sha256":
			in.ChecksumSHA256 = &v
		}
	}
	if len(toks) == 0 {
		return in, "empty"
	}
	return in, strings.Join(toks, ",")
}

var c04Fields = []string{"etag", "crc32", "crc32c", "crc64", "sha1", "sha256"}

func c04FieldDigest(field string, b []byte) []byte {
	m5, s1, s256, c32, c32c, c64 := c04Digests(b)
	switch field {
	case "etag":
		return m5
	case "crc32":
		return c32
	case "crc32c":
		return c32c
	case "crc64":
		return c64
	case "sha1":
		return s1
	}
	return s256
}

func c04Flip(raw []byte, r *verifx.Rng) []byte {
	o := append([]byte(nil), raw...)
	o[r.Intn(len(o))] ^= byte(1 << uint(r.Intn(8)))
	return o
}

// ---------- operations ----------

func (c *c04Case) vals(etag string, a, b, d, e, f *string) string {
	return fmt.Sprintf("etag=%s crc32=%s crc32c=%s crc64=%s sha1=%s sha256=%s", c04EtagTok(etag), c04SumTok(a),
		c04SumTok(b), c04SumTok(d), c04SumTok(e), c04SumTok(f))
}

func c04TypeTok(t *string) string {
	if t == nil {
		return "nil"
	}
	return *t
}

func (c *c04Case) head(k int) {
	c.out.Line("op head %d", k)
	o, err := c.st.Storage.HeadObject(c.ctx, c.bucket, c.key(k), nil)
	if err != nil {
		c.out.Line("r err %s", c04Err(err))
		return
	}
	c.out.Line("r ok %s type=%s size=%d", c.vals(o.ETag, o.ChecksumCRC32, o.ChecksumCRC32C, o.ChecksumCRC64NVME, o.ChecksumSHA1, o.ChecksumSHA256),
		c04TypeTok(o.ChecksumType), o.Size)
}

func (c *c04Case) get(k int) {
	want := c.objs[k]
	if want == nil || len(bytes.Join(want.parts, nil)) == 0 {
		return // GetObject of a missing / empty object is not this property's business
	}
	c.out.Line("op get %d", k)
	o, rs, err := c.st.Storage.GetObject(c.ctx, c.bucket, c.key(k), nil, nil)
	if err != nil {
		c.out.Line("r err %s", c04Err(err))
		return
	}
	var got []byte
	body := "ok"
	for _, r := range rs {
		b, rerr := io.ReadAll(r)
		_ = r.Close()
		if rerr != nil {
			// reading the body is not this property's business (C01/C15); the headers still are
			body = "unreadable:" + strings.ReplaceAll(rerr.Error(), " ", "_")
		}
		got = append(got, b...)
	}
	if body == "ok" && !bytes.Equal(got, bytes.Join(want.parts, nil)) {
		body = "mismatch"
	}
	c.out.Line("r ok %s type=%s size=%d body=%s", c.vals(o.ETag, o.ChecksumCRC32, o.ChecksumCRC32C, o.ChecksumCRC64NVME, o.ChecksumSHA1, o.ChecksumSHA256),
		c04TypeTok(o.ChecksumType), o.Size, body)
}

func (c *c04Case) put(k int, body []byte, sup []c04Supplied) {
	dn := c.data(body)
	in, tok := c04Input(sup)
	c.head(k)
	c.out.Line("op put %d %s %s", k, dn, tok)
	r, err := c.st.Storage.PutObject(c.ctx, c.bucket, c.key(k), nil, bytes.NewReader(body), in, nil)
	if err != nil {
		c.out.Line("r err %s", c04Err(err))
	} else {
		etag := "<nil>"
		if r.ETag != nil {
			etag = *r.ETag
		}
		c.out.Line("r ok %s", c.vals(etag, r.ChecksumCRC32, r.ChecksumCRC32C, r.ChecksumCRC64NVME, r.ChecksumSHA1, r.ChecksumSHA256))
		c.objs[k] = &c04Obj{parts: [][]byte{body}}
	}
	c.head(k)
}

func (c *c04Case) create(uid, k int, ctype string) {
	c.out.Line("op create %d %d %s", uid, k, ctype)
	ct := ctype
	r, err := c.st.Storage.CreateMultipartUpload(c.ctx, c.bucket, c.key(k), nil, &ct, nil)
	if err != nil {
		c.out.Line("r err %s", c04Err(err))
		return
	}
	c.out.Line("r ok")
	c.upIds[uid] = r.UploadId
	c.ups[uid] = &c04Upload{key: k, ctype: ctype, parts: map[int][]byte{}}
}

func (c *c04Case) part(uid, n int, body []byte, sup []c04Supplied) {
	u := c.ups[uid]
	dn := c.data(body)
	in, tok := c04Input(sup)
	c.out.Line("op part %d %d %s %s", uid, n, dn, tok)
	r, err := c.st.Storage.UploadPart(c.ctx, c.bucket, c.key(u.key), c.upIds[uid], int32(n), bytes.NewReader(body), in)
	if err != nil {
		c.out.Line("r err %s", c04Err(err))
		return
	}
	c.out.Line("r ok %s", c.vals(r.ETag, r.ChecksumCRC32, r.ChecksumCRC32C, r.ChecksumCRC64NVME, r.ChecksumSHA1, r.ChecksumSHA256))
	u.parts[n] = body
}

func (c *c04Case) partCopy(uid, n, src int, start, stop int64, whole bool) {
	u := c.ups[uid]
	so := c.objs[src]
	content := bytes.Join(so.parts, nil)
	slice := content[start:stop]
	dn := c.data(slice)
	c.out.Line("op partcopy %d %d %d %d %d %s", uid, n, src, start, stop, dn)
	var opts *storage.UploadPartCopyOptions
	if !whole {
		opts = &storage.UploadPartCopyOptions{Range: &storage.ByteRange{Start: &start, End: &stop}}
	}
	r, err := c.st.Storage.UploadPartCopy(c.ctx, c.bucket, c.key(src), c.bucket, c.key(u.key), c.upIds[uid], int32(n), opts)
	if err != nil {
		c.out.Line("r err %s", c04Err(err))
		return
	}
	c.out.Line("r ok etag=%s", c04EtagTok(r.ETag))
	u.parts[n] = append([]byte(nil), slice...)
}

// orderedParts returns the upload's parts by ascending part number and whether the numbers are 1..N.
func (u *c04Upload) orderedParts() ([][]byte, bool) {
	var out [][]byte
	n := len(u.parts)
	ok := true
	found := 0
	for i := 1; found < n && i < 100000; i++ {
		if p, has := u.parts[i]; has {
			out = append(out, p)
			found++
			if i != found {
				ok = false
			}
		}
	}
	return out, ok
}

func (c *c04Case) complete(uid int, supf func(parts [][]byte, whole []byte) []c04Supplied) {
	u := c.ups[uid]
	parts, _ := u.orderedParts()
	whole := bytes.Join(parts, nil)
	wn := c.data(whole)
	c.oraclesFor(parts)
	var sup []c04Supplied
	if supf != nil {
		sup = supf(parts, whole)
	}
	in, tok := c04Input(sup)
	c.head(u.key)
	c.out.Line("op complete %d %s %s", uid, tok, wn)
	r, err := c.st.Storage.CompleteMultipartUpload(c.ctx, c.bucket, c.key(u.key), c.upIds[uid], in, nil)
	if err != nil {
		c.out.Line("r err %s", c04Err(err))
	} else {
		c.out.Line("r ok %s type=%s", c.vals(r.ETag, r.ChecksumCRC32, r.ChecksumCRC32C, r.ChecksumCRC64NVME, r.ChecksumSHA1, r.ChecksumSHA256), c04TypeTok(r.ChecksumType))
		c.objs[u.key] = &c04Obj{parts: parts, multi: true}
		delete(c.ups, uid)
	}
	c.head(u.key)
}

func (c *c04Case) appendObj(k int, body []byte, sup []c04Supplied) {
	dn := c.data(body)
	var parts [][]byte
	if o := c.objs[k]; o != nil {
		parts = append(parts, o.parts...)
	}
	parts = append(parts, body)
	c.oraclesFor(parts)
	in, tok := c04Input(sup)
	c.head(k)
	c.out.Line("op append %d %s %s", k, dn, tok)
	r, err := c.st.Storage.AppendObject(c.ctx, c.bucket, c.key(k), bytes.NewReader(body), in, nil)
	if err != nil {
		c.out.Line("r err %s", c04Err(err))
	} else {
		c.out.Line("r ok etag=%s size=%d", c04EtagTok(r.ETag), r.Size)
		c.objs[k] = &c04Obj{parts: parts, multi: true}
	}
	c.head(k)
}

func (c *c04Case) copyObj(src, dst int) {
	c.head(dst)
	c.out.Line("op copy %d %d", src, dst)
	r, err := c.st.Storage.CopyObject(c.ctx, c.bucket, c.key(src), c.bucket, c.key(dst), nil)
	if err != nil {
		c.out.Line("r err %s", c04Err(err))
	} else {
		c.out.Line("r ok etag=%s", c04EtagTok(r.ETag))
		so := c.objs[src]
		c.objs[dst] = &c04Obj{parts: so.parts, multi: so.multi}
	}
	c.head(dst)
}

func (c *c04Case) copyRange(src, dst int, start, stop int64) {
	so := c.objs[src]
	slice := append([]byte(nil), bytes.Join(so.parts, nil)[start:stop]...)
	dn := c.data(slice)
	c.head(dst)
	c.out.Line("op copyrange %d %d %d %d %s", src, dst, start, stop, dn)
	r, err := c.st.Storage.CopyObject(c.ctx, c.bucket, c.key(src), c.bucket, c.key(dst), &storage.CopyObjectOptions{Range: &storage.ByteRange{Start: &start, End: &stop}})
	if err != nil {
		c.out.Line("r err %s", c04Err(err))
	} else {
		c.out.Line("r ok etag=%s", c04EtagTok(r.ETag))
		c.objs[dst] = &c04Obj{parts: [][]byte{slice}}
	}
	c.head(dst)
}

func (c *c04Case) del(k int) {
	c.out.Line("op delete %d", k)
	_, err := c.st.Storage.DeleteObject(c.ctx, c.bucket, c.key(k), nil)
	if err != nil {
		c.out.Line("r err %s", c04Err(err))
		return
	}
	c.out.Line("r ok")
	delete(c.objs, k)
	c.head(k)
}

// ---------- supplied-value generators ----------

// bodySupplied: one field, variant 0 = correct, 1 = one bit flipped, 2 = digest of other data,
// 3 = correct digest with a "-1" suffix.
func c04BodySupplied(r *verifx.Rng, field string, body []byte, variant int) c04Supplied {
	raw := c04FieldDigest(field, body)
	switch variant {
	case 1:
		return c04Supplied{field, c04Flip(raw, r), -1}
	case 2:
		return c04Supplied{field, c04FieldDigest(field, append([]byte("x"), body...)), -1}
	case 3:
		return c04Supplied{field, raw, 1}
	}
	return c04Supplied{field, raw, -1}
}

// completeSupplied: the value CompleteMultipartUpload is expected to hold for the field.
// variant 0 = correct, 1 = one bit flipped, 2 = wrong part count, 3 = the other checksum type's value.
func c04CompleteSupplied(r *verifx.Rng, ctype, field string, parts [][]byte, whole []byte, variant int) c04Supplied {
	n := len(parts)
	var cat []byte
	for _, p := range parts {
		cat = append(cat, c04FieldDigest(field, p)...)
	}
	composite := c04Supplied{field, c04FieldDigest(field, cat), n}
	full := c04Supplied{field, c04FieldDigest(field, whole), -1}
	correct := full
	other := composite
	if field == "etag" || ctype == "COMPOSITE" {
		correct, other = composite, full
	}
	switch variant {
	case 1:
		correct.raw = c04Flip(correct.raw, r)
	case 2:
		if correct.n >= 0 {
			correct.n++
		} else {
			correct.n = n
		}
	case 3:
		return other
	}
	return correct
}

func c04Body(r *verifx.Rng, max int) []byte {
	return c04Pattern(r, c04Size(r, max))
}

func runC04(args []string) {
	f := verifx.ParseFlags("c04", args, 260, 1500)
	out := verifx.NewOut()
	ctx := context.Background()
	thorough := f.Tier == "thorough"

	stacks := map[string]*verifx.Stack{}
	buckets := map[string]storage.BucketName{}
	for _, kind := range []string{"sql", "fs"} {
		st := verifx.NewStack(filepath.Join(f.Scratch, "c04-"+kind), verifx.StackOpts{PartKind: kind})
		defer st.Close()
		stacks[kind] = st
		for _, ver := range []string{"plain", "versioned"} {
			b := storage.MustNewBucketName("c04-" + ver)
			verifx.Check(st.Storage.CreateBucket(ctx, b))
			if ver == "versioned" {
				en := storage.BucketVersioningStatusEnabled
				verifx.Check(st.Storage.PutBucketVersioningConfiguration(ctx, b, &storage.BucketVersioningConfiguration{Status: &en}))
			}
			buckets[ver] = b
		}
	}

	k := 0
	run := func(seed uint64, kind, ver string, body func(c *c04Case, r *verifx.Rng)) {
		if !f.Wants(k) {
			k++
			return
		}
		out.Case(k, seed)
		c := &c04Case{out: out, st: stacks[kind], bucket: buckets[ver], prefix: fmt.Sprintf("c%d-%d", k, seed), objs: map[int]*c04Obj{},
			ups: map[int]*c04Upload{}, upIds: map[int]storage.UploadId{}, ctx: ctx}
		k++
		out.Line("cfg %s %s", kind, ver)
		func() {
			defer func() {
				if p := recover(); p != nil {
					out.Line("panic %s", strings.ReplaceAll(fmt.Sprint(p), " ", "_"))
				}
			}()
			body(c, verifx.NewRng(seed))
		}()
		out.End()
	}
	kinds := []string{"sql", "fs"}
	vers := []string{"plain", "versioned"}

	// ---------------- directed cases ----------------
	seedN := uint64(100)
	nextSeed := func() uint64 { seedN++; return seedN }
	for _, kind := range kinds {
		// bodies: empty, one byte, multi-part; every op kind once
		run(nextSeed(), kind, "plain", func(c *c04Case, r *verifx.Rng) {
			c.put(0, nil, nil)
			c.put(1, []byte{0x61}, nil)
			c.put(2, r.Bytes(1000), nil)
			c.get(1)
			c.get(2)
			c.create(0, 3, "FULL_OBJECT")
			c.part(0, 1, r.Bytes(700), nil)
			c.part(0, 2, nil, nil) // an empty middle part
			c.part(0, 3, r.Bytes(1), nil)
			c.complete(0, nil)
			c.get(3)
			c.create(1, 4, "COMPOSITE")
			c.part(1, 2, r.Bytes(33), nil)
			c.part(1, 1, r.Bytes(900), nil)
			c.part(1, 2, r.Bytes(34), nil) // re-upload of part 2
			c.complete(1, nil)
			c.get(4)
			c.appendObj(5, r.Bytes(10), nil) // append creating the object
			c.appendObj(5, r.Bytes(20), nil)
			c.appendObj(2, r.Bytes(5), nil) // append to a PutObject object
			c.appendObj(3, nil, nil)        // empty append to a multipart object
			c.get(5)
			c.get(2)
			c.copyObj(3, 6)
			c.copyObj(5, 7)
			c.put(10, r.Bytes(77), nil)
			c.copyObj(10, 11)               // a single-part object: all five checksums travel
			c.copyObj(4, 12)                // a COMPOSITE object
			c.appendObj(6, r.Bytes(3), nil) // append to the COPY of a multipart object
			c.copyRange(3, 8, 100, 701)
			c.get(8)
			c.create(2, 9, "FULL_OBJECT")
			c.partCopy(2, 1, 3, 0, 700, false) // exactly the first part of key 3: shares the stored row
			c.partCopy(2, 2, 3, 5, 600, false) // a proper sub-range: streamed
			c.partCopy(2, 3, 1, 0, 1, true)    // a whole single-part object
			c.complete(2, nil)
			c.get(9)
			c.del(1)
		})
		// the supplied-checksum matrix on body-carrying writes: every field, every variant
		for _, field := range c04Fields {
			field := field
			run(nextSeed(), kind, "plain", func(c *c04Case, r *verifx.Rng) {
				body := r.Bytes(300)
				c.put(0, r.Bytes(10), nil) // an object that must survive failed overwrites
				for v := 0; v <= 3; v++ {
					c.put(0, body, []c04Supplied{c04BodySupplied(r, field, body, v)})
				}
				c.create(0, 1, "FULL_OBJECT")
				for v := 0; v <= 3; v++ {
					c.part(0, 1+v, body, []c04Supplied{c04BodySupplied(r, field, body, v)})
				}
				c.complete(0, nil)
				for v := 0; v <= 3; v++ {
					c.appendObj(2, body, []c04Supplied{c04BodySupplied(r, field, body, v)})
				}
				c.appendObj(0, nil, []c04Supplied{c04BodySupplied(r, field, nil, 1)})
			})
		}
		// the matrix on CompleteMultipartUpload, both checksum types
		for _, ctype := range []string{"FULL_OBJECT", "COMPOSITE"} {
			for _, field := range c04Fields {
				ctype, field := ctype, field
				run(nextSeed(), kind, "plain", func(c *c04Case, r *verifx.Rng) {
					c.put(0, r.Bytes(7), nil)
					for v := 0; v <= 3; v++ {
						v := v
						c.create(v, 0, ctype)
						c.part(v, 1, r.Bytes(200), nil)
						c.part(v, 2, r.Bytes(100+v), nil)
						c.complete(v, func(parts [][]byte, whole []byte) []c04Supplied {
							return []c04Supplied{c04CompleteSupplied(r, ctype, field, parts, whole, v)}
						})
					}
				})
			}
		}
		// bodies beyond the shipping limit: digests observed, CRCs folded over many parts
		run(nextSeed(), kind, "versioned", func(c *c04Case, r *verifx.Rng) {
			c.put(0, r.Bytes(300000), nil)
			c.create(0, 1, "FULL_OBJECT")
			for n := 1; n <= 6; n++ {
				c.part(0, n, c04Pattern(r, 60000+n*1111), nil)
			}
			c.complete(0, nil)
			c.get(1)
			c.appendObj(1, r.Bytes(5000), nil)
			c.copyObj(1, 2)
			c.copyRange(0, 3, 12345, 299999)
		})
		// a completed upload without any part (the code accepts it)
		run(nextSeed(), kind, "plain", func(c *c04Case, r *verifx.Rng) {
			c.create(0, 0, "FULL_OBJECT")
			c.complete(0, nil)
			c.create(1, 1, "COMPOSITE")
			c.complete(1, nil)
		})
	}

	// ---------------- generated histories ----------------
	for g := 0; g < f.Cases; g++ {
		seed := verifx.CaseSeed(f.Seed, k)
		r0 := verifx.NewRng(seed)
		kind := verifx.Pick(r0, kinds)
		ver := verifx.Pick(r0, vers)
		big := r0.Chance(1, 12)
		run(seed, kind, ver, func(c *c04Case, r *verifx.Rng) {
			maxBody := 1500
			if big {
				maxBody = 600000
				if thorough {
					maxBody = 3 << 20
				}
			}
			nextUid := 0
			supBody := func(body []byte) []c04Supplied {
				if r.Chance(1, 2) {
					return nil
				}
				var s []c04Supplied
				for i := r.Intn(3); i >= 0; i-- {
					v := 0
					if r.Chance(3, 10) {
						v = 1 + r.Intn(3)
					}
					s = append(s, c04BodySupplied(r, verifx.Pick(r, c04Fields), body, v))
				}
				return s
			}
			nops := 3 + r.Intn(8)
			for i := 0; i < nops; i++ {
				key := r.Intn(4)
				var existing []int
				for kk, o := range c.objs {
					_ = o
					existing = append(existing, kk)
				}
				// deterministic order
				for a := 0; a < len(existing); a++ {
					for b := a + 1; b < len(existing); b++ {
						if existing[b] < existing[a] {
							existing[a], existing[b] = existing[b], existing[a]
						}
					}
				}
				switch w := r.Intn(100); {
				case w < 22:
					body := c04Body(r, maxBody)
					c.put(key, body, supBody(body))
				case w < 50: // a whole multipart upload
					ctype := "FULL_OBJECT"
					if r.Bool() {
						ctype = "COMPOSITE"
					}
					uid := nextUid
					nextUid++
					c.create(uid, key, ctype)
					if c.ups[uid] == nil {
						continue
					}
					np := 1 + r.Intn(5)
					for n := 1; n <= np; n++ {
						if len(existing) > 0 && r.Chance(1, 5) {
							src := verifx.Pick(r, existing)
							so := c.objs[src]
							total := int64(len(bytes.Join(so.parts, nil)))
							if total > 0 {
								if r.Bool() { // a whole part of the source
									pi := r.Intn(len(so.parts))
									var off int64
									for j := 0; j < pi; j++ {
										off += int64(len(so.parts[j]))
									}
									if len(so.parts[pi]) > 0 {
										c.partCopy(uid, n, src, off, off+int64(len(so.parts[pi])), false)
										continue
									}
								}
								a := int64(r.Intn(int(total)))
								b := a + 1 + int64(r.Intn(int(total-a)))
								c.partCopy(uid, n, src, a, b, false)
								continue
							}
						}
						body := c04Body(r, maxBody/2)
						c.part(uid, n, body, supBody(body))
						if c.ups[uid].parts[n] == nil {
							c.part(uid, n, body, nil) // a rejected part is uploaded again without checksums
						}
					}
					var supf func(parts [][]byte, whole []byte) []c04Supplied
					if r.Chance(1, 2) {
						supf = func(parts [][]byte, whole []byte) []c04Supplied {
							v := 0
							if r.Chance(3, 10) {
								v = 1 + r.Intn(3)
							}
							return []c04Supplied{c04CompleteSupplied(r, ctype, verifx.Pick(r, c04Fields), parts, whole, v)}
						}
					}
					c.complete(uid, supf)
				case w < 68:
					body := c04Body(r, maxBody/2)
					c.appendObj(key, body, supBody(body))
				case w < 78:
					if len(existing) > 0 {
						c.copyObj(verifx.Pick(r, existing), key)
					}
				case w < 86:
					if len(existing) > 0 {
						src := verifx.Pick(r, existing)
						total := int64(len(bytes.Join(c.objs[src].parts, nil)))
						if total > 0 {
							a := int64(r.Intn(int(total)))
							b := a + 1 + int64(r.Intn(int(total-a)))
							c.copyRange(src, key, a, b)
						}
					}
				case w < 95:
					c.get(key)
				default:
					if c.objs[key] != nil && ver == "plain" {
						c.del(key)
					}
				}
			}
			for kk := 0; kk < 4; kk++ {
				c.head(kk)
			}
		})
	}
	out.Flush()
}
