//go:build verif

package main

import (
	"fmt"
	"go/ast"
	"go/token"
	"strings"
)

// T1 extractor for C15: the decisions of the outbox part store's two read paths (`GetPart` with a
// transaction and `getPartTxFree`) inside their retry loop — which condition leads to which action, in
// source order — in particular what a reader does when the entry it looked up has been flushed and
// deleted before its second statement (`!entryExists`): `continue` (re-evaluate) or something else.
// Output: lean/Pithos/Gen/OutboxRead.lean. Fails closed on any unrecognised shape.

func init() { registerExtractor("outboxread", extractOutboxRead) }

const c15OutboxFile = "internal/storage/metadatapart/partstore/outbox/outbox.go"

func c15Sel(e ast.Expr) string {
	switch v := e.(type) {
	case *ast.Ident:
		return v.Name
	case *ast.SelectorExpr:
		return c15Sel(v.X) + "." + v.Sel.Name
	}
	return ""
}

// c15Action classifies the way a block leaves the loop iteration.
func c15Action(x *ExtractCtx, stmts []ast.Stmt) (string, error) {
	// bookkeeping calls (releaseTx()) and local definitions do not decide anything
	var last ast.Stmt
	for _, s := range stmts {
		if es, ok := s.(*ast.ExprStmt); ok {
			if ce, ok := es.X.(*ast.CallExpr); ok && c15Sel(ce.Fun) == "releaseTx" {
				continue
			}
		}
		last = s
	}
	switch v := last.(type) {
	case *ast.BranchStmt:
		if v.Tok == token.CONTINUE && v.Label == nil {
			return "retry", nil
		}
	case *ast.ReturnStmt:
		src := ""
		for _, s := range stmts {
			src += x.Src(s) + "\n"
		}
		switch {
		case strings.Contains(src, "innerPartStore.GetPart("):
			return "serve-inner", nil
		case strings.Contains(src, "ErrPartNotFound"):
			return "not-found", nil
		case strings.Contains(src, "lazyOutboxChunkReadCloser"):
			return "stream-entry", nil
		case strings.Contains(src, "bytes.NewReader(nil)"):
			return "empty-part", nil
		case strings.Contains(src, "return nil, err"):
			return "fail", nil
		}
	}
	return "", fmt.Errorf("unrecognised way to leave the loop iteration: %s", x.Src(last))
}

// c15ReadDecisions reads the decisions of the `for range maxGetPartRaceRetries` loop of fn.
func c15ReadDecisions(x *ExtractCtx, fn *ast.FuncDecl) (decisions [][2]string, lookups []string, after string, err error) {
	var loop *ast.RangeStmt
	for _, s := range fn.Body.List {
		if rs, ok := s.(*ast.RangeStmt); ok {
			if loop != nil {
				return nil, nil, "", fmt.Errorf("%s: more than one range loop", fn.Name.Name)
			}
			loop = rs
		}
	}
	if loop == nil || c15Sel(loop.X) != "maxGetPartRaceRetries" || loop.Key != nil {
		return nil, nil, "", fmt.Errorf("%s: no `for range maxGetPartRaceRetries` loop", fn.Name.Name)
	}
	x.Note(fn.Name.Name+" retry loop", loop)
	body := loop.Body.List
	tailStart := 0
	for i, s := range body {
		switch v := s.(type) {
		case *ast.AssignStmt:
			for _, r := range v.Rhs {
				if ce, ok := r.(*ast.CallExpr); ok {
					if name := c15Sel(ce.Fun); strings.HasPrefix(name, "obs.partOutboxEntryRepository.") {
						lookups = append(lookups, strings.TrimPrefix(name, "obs.partOutboxEntryRepository."))
						tailStart = i + 1
					}
				}
			}
		case *ast.IfStmt:
			if v.Else != nil || v.Init != nil {
				return nil, nil, "", fmt.Errorf("%s: if with else/init inside the loop: %s", fn.Name.Name, x.Src(v.Cond))
			}
			cond := x.Src(v.Cond)
			act, err := c15Action(x, v.Body.List)
			if err != nil {
				return nil, nil, "", fmt.Errorf("%s, `if %s`: %w", fn.Name.Name, cond, err)
			}
			if cond != "err != nil" {
				decisions = append(decisions, [2]string{cond, act})
				x.Note(fn.Name.Name+" if "+cond+" -> "+act, v)
			} else if act != "fail" {
				return nil, nil, "", fmt.Errorf("%s: `if err != nil` does not fail", fn.Name.Name)
			}
			tailStart = i + 1
		}
	}
	if tailStart >= len(body) {
		return nil, nil, "", fmt.Errorf("%s: the loop body has no tail", fn.Name.Name)
	}
	act, err := c15Action(x, body[tailStart:])
	if err != nil {
		return nil, nil, "", fmt.Errorf("%s, loop tail: %w", fn.Name.Name, err)
	}
	decisions = append(decisions, [2]string{"tail", act})
	// behind the loop: the retries are exhausted
	for i, s := range fn.Body.List {
		if s == ast.Stmt(loop) {
			rest := ""
			for _, t := range fn.Body.List[i+1:] {
				rest += x.Src(t) + "\n"
			}
			if !strings.Contains(rest, "errPartOutboxEntryVanished") {
				return nil, nil, "", fmt.Errorf("%s: exhausted retries do not fail with errPartOutboxEntryVanished", fn.Name.Name)
			}
			after = "fail-vanished"
		}
	}
	return decisions, lookups, after, nil
}

func extractOutboxRead(x *ExtractCtx) error {
	f, err := x.ParseFile(c15OutboxFile)
	if err != nil {
		return err
	}
	get := FindFunc(f, "outboxPartStore", "GetPart")
	free := FindFunc(f, "outboxPartStore", "getPartTxFree")
	if get == nil || free == nil {
		return fmt.Errorf("GetPart / getPartTxFree not found")
	}
	// GetPart hands a nil transaction to getPartTxFree
	delegates := false
	for _, s := range get.Body.List {
		if is, ok := s.(*ast.IfStmt); ok && x.Src(is.Cond) == "tx == nil" && strings.Contains(x.Src(is.Body), "obs.getPartTxFree(ctx, partId)") {
			delegates = true
			x.Note("GetPart tx == nil -> getPartTxFree", is)
		}
	}
	if !delegates {
		return fmt.Errorf("GetPart does not hand `tx == nil` to getPartTxFree")
	}
	// the retry bound
	bound := ""
	for _, d := range f.Decls {
		gd, ok := d.(*ast.GenDecl)
		if !ok || gd.Tok != token.CONST {
			continue
		}
		for _, sp := range gd.Specs {
			vs := sp.(*ast.ValueSpec)
			for i, n := range vs.Names {
				if n.Name == "maxGetPartRaceRetries" && i < len(vs.Values) {
					if bl, ok := vs.Values[i].(*ast.BasicLit); ok && bl.Kind == token.INT {
						bound = bl.Value
						x.Note("maxGetPartRaceRetries", vs)
					}
				}
			}
		}
	}
	if bound == "" {
		return fmt.Errorf("const maxGetPartRaceRetries (integer literal) not found")
	}
	fmt.Fprintf(x.Lean, "-- Source: %s\nnamespace Pithos.Gen.OutboxRead\n\n", c15OutboxFile)
	for _, it := range []struct {
		name string
		fn   *ast.FuncDecl
		doc  string
	}{{"txRead", get, "`GetPart` with a transaction"}, {"txFreeRead", free, "`getPartTxFree` (GetPart with a nil transaction)"}} {
		dec, lookups, after, err := c15ReadDecisions(x, it.fn)
		if err != nil {
			return err
		}
		var ds []string
		for _, d := range dec {
			ds = append(ds, "("+LeanStr(d[0])+", "+LeanStr(d[1])+")")
		}
		fmt.Fprintf(x.Lean, "/-- %s: (condition, action) of the decisions inside the retry loop, in source order -/\n", it.doc)
		fmt.Fprintf(x.Lean, "def %s : List (String × String) := [%s]\n", it.name, strings.Join(ds, ", "))
		fmt.Fprintf(x.Lean, "/-- … the repository statements of one iteration, in source order; what follows the loop -/\n")
		fmt.Fprintf(x.Lean, "def %sLookups : List String := %s\n", it.name, LeanStrList(lookups))
		fmt.Fprintf(x.Lean, "def %sAfterLoop : String := %s\n\n", it.name, LeanStr(after))
	}
	fmt.Fprintf(x.Lean, "def maxGetPartRaceRetries : Nat := %s\n\nend Pithos.Gen.OutboxRead\n", bound)
	return nil
}
