//go:build verif

package main

import (
	"bytes"
	"context"
	"crypto/sha256"
	"database/sql"
	"encoding/hex"
	"errors"
	"fmt"
	"io"
	"os"
	"path/filepath"
	"sort"
	"strings"
	"sync"

	"github.com/jdillenkofer/pithos/internal/storage"
	"github.com/jdillenkofer/pithos/internal/storage/database"
	"github.com/jdillenkofer/pithos/internal/storage/database/sqlite"
	"github.com/jdillenkofer/pithos/internal/storage/metadatapart"
	"github.com/jdillenkofer/pithos/internal/storage/metadatapart/partstore"
	"github.com/jdillenkofer/pithos/internal/verifx"
)

// C03 — a failed operation leaves no observable trace (T4, fault half).
//
// Every operation of a generated history is executed against a real SQLite + two-filesystem-
// part-store stack: first once per fault position it reaches (the j-th event of the operation
// fails: a part-store call, or `tx.precommit(i)` / `tx.commit` through database.SetVerifPointFunc),
// then normally. Before the first attempt and after every failing call the complete state visible
// through the storage API and the part directories are snapshotted. Protocol: lean/Driver/C03.lean.

func init() { register("c03", runC03) }

// ---------------------------------------------------------------- fault plan (process global)

type c03Call struct {
	kind  string // put | get | del
	store string // d | c
	id    string // hex part id
	hash  string // content hash (put)
}

type c03Plan struct {
	mu     sync.Mutex
	armed  bool
	target int // index of the event that must fail (-1 = none)
	mode   int // 0: fail before the inner call; 1: PutPart — the data stream fails half way
	n      int
	fired  string // description of the event that failed ("" = none)
	events []string
	calls  []c03Call
	cancel context.CancelFunc // cancels the request context of the running attempt
}

var c03P = &c03Plan{target: -1}

var c03ErrInjected = errors.New("c03-injected-fault")

// event registers one fault opportunity; it returns true when this event must fail.
func (p *c03Plan) event(desc string) bool {
	p.mu.Lock()
	defer p.mu.Unlock()
	if !p.armed {
		return false
	}
	i := p.n
	p.n++
	if i == p.target {
		p.fired = desc
		return true
	}
	p.events = append(p.events, desc)
	return false
}

func (p *c03Plan) arm(target, mode int) {
	p.mu.Lock()
	defer p.mu.Unlock()
	p.armed, p.target, p.mode, p.n, p.fired, p.events, p.calls = true, target, mode, 0, "", nil, nil
}

func (p *c03Plan) disarm() {
	p.mu.Lock()
	defer p.mu.Unlock()
	p.armed = false
}

func (p *c03Plan) addCall(c c03Call) {
	p.mu.Lock()
	defer p.mu.Unlock()
	if p.armed {
		p.calls = append(p.calls, c)
	}
}

func c03VerifPoint(ctx context.Context, name string, index int) error {
	// only writable transactions: the shared executor follows some operations with read-only
	// listings (learnVids) that are not part of the operation under test
	if tx, ok := database.TxControllerFromContext(ctx); ok && tx.ReadOnly() {
		return nil
	}
	switch name {
	case "tx.precommit":
		if c03P.event(fmt.Sprintf("pre%d", index)) {
			return c03ErrInjected
		}
	case "tx.commit":
		if c03P.event("commit") {
			return c03ErrInjected
		}
		// the COMMIT statement itself fails: end the SQL transaction behind the controller's back, so
		// that the real tx.Commit() answers an error and leaves the sql.Tx finished (what a lost
		// connection or a full disk does); TxController.Rollback then gets sql.ErrTxDone from
		// t.tx.Rollback() and must still run every rollback closure
		if c03P.event("commit-stmt") {
			if tx, ok := database.TxControllerFromContext(ctx); ok {
				_, _ = tx.SqlTx().ExecContext(ctx, "ROLLBACK")
			}
			return nil
		}
		// the request context is cancelled (client gone / deadline) right before COMMIT: database/sql
		// refuses the COMMIT, and Rollback runs every closure with an already cancelled context
		if c03P.event("commit-ctx") {
			if c03P.cancel != nil {
				c03P.cancel()
			}
			return nil
		}
	}
	// every other point (tx.committed, tx.aftercommit, tx.done, tx.rollback, fs.*) is a crash point
	// only: an error there cannot occur naturally and is not injected
	return nil
}

// ---------------------------------------------------------------- part-store double

type c03Store struct {
	partstore.PartStore
	name string
}

func (s *c03Store) Capabilities() partstore.Capabilities { return partstore.CapabilitiesOf(s.PartStore) }

type c03FailingReader struct {
	r    io.Reader
	left int
}

func (f *c03FailingReader) Read(p []byte) (int, error) {
	if f.left <= 0 {
		return 0, c03ErrInjected
	}
	if len(p) > f.left {
		p = p[:f.left]
	}
	n, err := f.r.Read(p)
	f.left -= n
	if err == io.EOF {
		return n, c03ErrInjected
	}
	return n, err
}

func (s *c03Store) PutPart(ctx context.Context, tx database.Tx, id partstore.PartId, r io.Reader) error {
	hx := hex.EncodeToString(id.Bytes())
	if c03P.event("ps.put") {
		if c03P.mode == 1 {
			// the data stream breaks after a few bytes: the inner store's own cleanup path runs
			err := s.PartStore.PutPart(ctx, tx, id, &c03FailingReader{r: r, left: 3})
			if err == nil {
				return c03ErrInjected
			}
			return err
		}
		return c03ErrInjected
	}
	h := sha256.New()
	err := s.PartStore.PutPart(ctx, tx, id, io.TeeReader(r, h))
	if err == nil {
		c03P.addCall(c03Call{kind: "put", store: s.name, id: hx, hash: hex.EncodeToString(h.Sum(nil)[:6])})
	}
	return err
}

// c03BrokenReadCloser delivers a few bytes of a part and then a non-EOF error; Close succeeds or
// fails independently of that.
type c03BrokenReadCloser struct {
	rc         io.ReadCloser
	left       int
	closeFails bool
}

func (b *c03BrokenReadCloser) Read(p []byte) (int, error) {
	if b.left <= 0 {
		return 0, c03ErrInjected
	}
	if len(p) > b.left {
		p = p[:b.left]
	}
	n, err := b.rc.Read(p)
	b.left -= n
	if err == io.EOF {
		return n, c03ErrInjected
	}
	return n, err
}

func (b *c03BrokenReadCloser) Close() error {
	err := b.rc.Close()
	if b.closeFails {
		return c03ErrInjected
	}
	return err
}

func (s *c03Store) GetPart(ctx context.Context, tx database.Tx, id partstore.PartId) (io.ReadCloser, error) {
	if c03P.event("ps.get") {
		if c03P.mode >= 1 {
			// the call succeeds, the stream breaks mid-way (mode 2: Close fails as well)
			rc, err := s.PartStore.GetPart(ctx, tx, id)
			if err != nil {
				return nil, err
			}
			// never the complete content: half of the part, then the error (a reader that is only
			// asked for the bytes it does deliver would not notice anything)
			data, _ := io.ReadAll(rc)
			return &c03BrokenReadCloser{rc: struct {
				io.Reader
				io.Closer
			}{bytes.NewReader(data), rc}, left: len(data) / 2, closeFails: c03P.mode == 2}, nil
		}
		return nil, c03ErrInjected
	}
	rc, err := s.PartStore.GetPart(ctx, tx, id)
	if err == nil {
		c03P.addCall(c03Call{kind: "get", store: s.name, id: hex.EncodeToString(id.Bytes())})
	}
	return rc, err
}

func (s *c03Store) DeletePart(ctx context.Context, tx database.Tx, id partstore.PartId) error {
	if c03P.event("ps.del") {
		return c03ErrInjected
	}
	err := s.PartStore.DeletePart(ctx, tx, id)
	if err == nil {
		c03P.addCall(c03Call{kind: "del", store: s.name, id: hex.EncodeToString(id.Bytes())})
	}
	return err
}

// ---------------------------------------------------------------- stack: SQLite + two fs part stores

type c03Stack struct {
	dir  string
	raw  database.Database
	st   storage.Storage
	dirs map[string]string // store letter -> directory
}

func c03NewStack(dir string) *c03Stack {
	verifx.Check(os.MkdirAll(dir, 0o755))
	raw := verifx.Must(sqlite.OpenDatabase(filepath.Join(dir, "pithos.db")))
	dDir, cDir := filepath.Join(dir, "parts"), filepath.Join(dir, "parts-cold")
	def := &c03Store{PartStore: verifx.NewBasePartStore(raw, "fs", dDir), name: "d"}
	cold := &c03Store{PartStore: verifx.NewBasePartStore(raw, "fs", cDir), name: "c"}
	ms := verifx.NewMeta(raw)
	st := verifx.Must(metadatapart.NewStorageWithNamedPartStores(raw, ms, def, map[string]partstore.PartStore{"cold": cold},
		map[string]string{"GLACIER": "cold", "DEEP_ARCHIVE": "cold"}))
	// not started: no background GC (its transactions would hit the process-global fault hook)
	return &c03Stack{dir: dir, raw: raw, st: st, dirs: map[string]string{"d": dDir, "c": cDir}}
}

func (s *c03Stack) close() {
	_ = s.raw.Close()
	_ = os.RemoveAll(s.dir)
}

// ---------------------------------------------------------------- canonical names

type c03Names struct {
	ord map[string]int
}

func (n *c03Names) of(kind, raw string) string {
	k := kind + "\x00" + raw
	if v, ok := n.ord[k]; ok {
		return fmt.Sprintf("%s%d", kind, v)
	}
	c := 0
	for kk := range n.ord {
		if strings.HasPrefix(kk, kind+"\x00") {
			c++
		}
	}
	n.ord[k] = c
	return fmt.Sprintf("%s%d", kind, c)
}

func c03Hash(b []byte) string {
	h := sha256.Sum256(b)
	return hex.EncodeToString(h[:6])
}

// dirListing renders both part directories: "<store>/p<N>=<hash>", backups "<store>/p<N>.bk=<hash>",
// temp files "<store>/p<N>.tmp=<hash>", anything else "<store>/?<name>". Sorted; "~" when empty.
func (s *c03Stack) dirListing(nm *c03Names) string {
	items := []string{}
	for _, letter := range []string{"d", "c"} {
		ents, err := os.ReadDir(s.dirs[letter])
		if err != nil {
			items = append(items, letter+"/!unreadable")
			continue
		}
		names := []string{}
		for _, e := range ents {
			names = append(names, e.Name())
		}
		sort.Strings(names)
		// register part ids in name (= creation) order first so that ordinals are stable
		for _, name := range names {
			if len(name) == 32 {
				nm.of("p", name)
			}
		}
		for _, name := range names {
			content, _ := os.ReadFile(filepath.Join(s.dirs[letter], name))
			hs := c03Hash(content)
			switch {
			case len(name) == 32:
				items = append(items, fmt.Sprintf("%s/%s=%s", letter, nm.of("p", name), hs))
			case len(name) > 42 && name[32:42] == ".txbackup.":
				items = append(items, fmt.Sprintf("%s/%s.bk=%s", letter, nm.of("p", name[:32]), hs))
			case len(name) > 34 && name[0] == '.' && strings.HasSuffix(name, ".tmp"):
				items = append(items, fmt.Sprintf("%s/%s.tmp=%s", letter, nm.of("p", name[1:33]), hs))
			default:
				items = append(items, fmt.Sprintf("%s/?%s", letter, verifx.HexS(name)))
			}
		}
	}
	sort.Strings(items)
	return joinOr(items)
}

func c03Calls(nm *c03Names, calls []c03Call) string {
	items := []string{}
	for _, c := range calls {
		it := fmt.Sprintf("%s:%s/%s", c.kind, c.store, nm.of("p", c.id))
		if c.kind == "put" {
			it += ":" + c.hash
		}
		items = append(items, it)
	}
	return joinOr(items)
}

// ---------------------------------------------------------------- API snapshot

func c03ErrTok(err error) string {
	k := errKind(err)
	if k == "Other" {
		if errors.Is(err, c03ErrInjected) {
			return "Injected"
		}
		return "Other:" + verifx.HexS(err.Error())
	}
	return k
}

// snapshot reads everything the storage API shows: buckets, versioning, listings, every version
// (body, metadata, tags), uploads and their parts. One line per item, sorted.
func c03Snapshot(ctx context.Context, st storage.Storage, nm *c03Names) []string {
	lines := []string{}
	add := func(f string, a ...any) { lines = append(lines, fmt.Sprintf(f, a...)) }
	tm := func(t int64) string { return nm.of("t", fmt.Sprint(t)) }
	buckets, err := st.ListBuckets(ctx)
	if err != nil {
		return []string{"LSB err:" + c03ErrTok(err)}
	}
	for _, b := range buckets {
		bn := b.Name.String()
		vc, err := st.GetBucketVersioningConfiguration(ctx, b.Name)
		vs := "~"
		if err != nil {
			vs = "err:" + c03ErrTok(err)
		} else if vc != nil && vc.Status != nil {
			vs = string(*vc.Status)
		}
		add("B %s ver=%s", bn, vs)
		objs, err := storage.ListAllObjectsOfBucket(ctx, st, b.Name)
		if err != nil {
			add("L %s err:%s", bn, c03ErrTok(err))
		}
		for _, o := range objs {
			add("L %s %s size=%d etag=%s cls=%s lm=%s", bn, verifx.HexS(o.Key.String()), o.Size, o.ETag, optS(o.StorageClass), tm(o.LastModified.UnixNano()))
		}
		vers, err := st.ListObjectVersions(ctx, b.Name, storage.ListObjectVersionsOptions{MaxKeys: 100000})
		if err != nil {
			add("V %s err:%s", bn, c03ErrTok(err))
		} else {
			for i, v := range vers.Versions {
				vid := v.VersionID
				if vid != "null" {
					vid = nm.of("v", vid)
				}
				et := "~"
				if v.ETag != nil {
					et = *v.ETag
				}
				add("V %s #%03d %s %s latest=%d dm=%d size=%d etag=%s cls=%s lm=%s", bn, i, verifx.HexS(v.Key.String()), vid, b2i(v.IsLatest), b2i(v.IsDeleteMarker),
					v.Size, et, optS(v.StorageClass), tm(v.LastModified.UnixNano()))
				if v.IsDeleteMarker {
					continue
				}
				raw := v.VersionID
				obj, rs, err := st.GetObject(ctx, b.Name, v.Key, nil, &storage.GetObjectOptions{VersionID: &raw})
				if err != nil {
					add("O %s %s %s err:%s", bn, verifx.HexS(v.Key.String()), vid, c03ErrTok(err))
				} else {
					body, rerr := readAllClose(rs)
					bs := c03Hash(body) + fmt.Sprintf("/%d", len(body))
					if rerr != nil {
						bs = "READFAIL"
					}
					add("O %s %s %s body=%s size=%d ct=%s md=%s tags=%s cls=%s etag=%s lm=%s", bn, verifx.HexS(v.Key.String()), vid, bs, obj.Size,
						optS(obj.ContentType), pairsS(metaPairs(obj.Metadata)), pairsS(obj.Tags), optS(obj.StorageClass), obj.ETag, tm(obj.LastModified.UnixNano()))
				}
				tags, err := st.GetObjectTagging(ctx, b.Name, v.Key, &storage.ObjectTaggingOptions{VersionID: &raw})
				if err != nil {
					add("T %s %s %s err:%s", bn, verifx.HexS(v.Key.String()), vid, c03ErrTok(err))
				} else {
					add("T %s %s %s tags=%s", bn, verifx.HexS(v.Key.String()), vid, pairsS(tags))
				}
			}
		}
		ups, err := st.ListMultipartUploads(ctx, b.Name, storage.ListMultipartUploadsOptions{MaxUploads: 1000})
		if err != nil {
			add("U %s err:%s", bn, c03ErrTok(err))
			continue
		}
		for _, u := range ups.Uploads {
			un := nm.of("u", u.UploadId.String())
			add("U %s %s %s init=%s cls=%s", bn, verifx.HexS(u.Key.String()), un, tm(u.Initiated.UnixNano()), optS(u.StorageClass))
			ps, err := st.ListParts(ctx, b.Name, u.Key, u.UploadId, storage.ListPartsOptions{MaxParts: 10000})
			if err != nil {
				add("P %s %s err:%s", bn, un, c03ErrTok(err))
				continue
			}
			for _, p := range ps.Parts {
				add("P %s %s n=%d etag=%s size=%d lm=%s", bn, un, p.PartNumber, p.ETag, p.Size, tm(p.LastModified.UnixNano()))
			}
		}
	}
	sort.Strings(lines)
	return lines
}

func c03Digest(lines []string) string {
	h := sha256.New()
	for _, l := range lines {
		h.Write([]byte(l))
		h.Write([]byte{'\n'})
	}
	return hex.EncodeToString(h.Sum(nil)[:8])
}

// c03Diff prints up to `max` lines that are in one snapshot but not the other.
func c03Diff(out *verifx.Out, tag string, pre, post []string, max int) {
	in := func(xs []string) map[string]int {
		m := map[string]int{}
		for _, x := range xs {
			m[x]++
		}
		return m
	}
	a, b := in(pre), in(post)
	n := 0
	for _, l := range pre {
		if b[l] == 0 && n < max {
			out.Line("%s - %s", tag, strings.ReplaceAll(l, " ", "|"))
			n++
		}
	}
	for _, l := range post {
		if a[l] == 0 && n < 2*max {
			out.Line("%s + %s", tag, strings.ReplaceAll(l, " ", "|"))
			n++
		}
	}
}

// ---------------------------------------------------------------- capturing s3hCase output

// c03Capture gives an *verifx.Out that writes into a scratch file instead of stdout, so that the
// shared op executor (s3hCase.exec) can be reused and its result line read back.
type c03Capture struct {
	f   *os.File
	out *verifx.Out
}

func c03NewCapture(path string) *c03Capture {
	f := verifx.Must(os.Create(path))
	saved := os.Stdout
	os.Stdout = f
	out := verifx.NewOut()
	os.Stdout = saved
	return &c03Capture{f: f, out: out}
}

// take returns the lines written since the last call.
func (c *c03Capture) take() []string {
	c.out.Flush()
	_, _ = c.f.Seek(0, io.SeekStart)
	b, _ := io.ReadAll(c.f)
	_ = c.f.Truncate(0)
	_, _ = c.f.Seek(0, io.SeekStart)
	s := strings.TrimRight(string(b), "\n")
	if s == "" {
		return nil
	}
	return strings.Split(s, "\n")
}

// ---------------------------------------------------------------- executing one op (shared + C03 extras)

// c03Exec runs one op line and returns its result line ("res …").
func c03Exec(c *s3hCase, cap *c03Capture, line string) (res string) {
	defer func() {
		if r := recover(); r != nil {
			cap.take()
			res = "res panic " + verifx.HexS(fmt.Sprint(r))
		}
	}()
	t := strings.Fields(line)
	bad := "AAAAAAAAAAAAAAAAAAAAAAAAAAAAAAAAAAAAAAAAAAA=" // a well-formed SHA-256 that matches nothing
	B := func(i int) storage.BucketName { return storage.MustNewBucketName("bkt-" + t[i]) }
	K := func(i int) storage.ObjectKey { return storage.MustNewObjectKey(t[i]) }
	var err error
	switch t[1] {
	case "putbad": // PutObject with a wrong digest
		_, err = c.st.PutObject(c.ctx, B(2), K(3), nil, bytes.NewReader(unhexTok(t[4])), &storage.ChecksumInput{ChecksumSHA256: &bad}, nil)
	case "appbad":
		_, err = c.st.AppendObject(c.ctx, B(2), K(3), bytes.NewReader(unhexTok(t[4])), &storage.ChecksumInput{ChecksumSHA256: &bad}, nil)
	case "uppbad":
		_, err = c.st.UploadPart(c.ctx, B(2), K(3), c.uid(t[4]), atoi32(t[5]), bytes.NewReader(unhexTok(t[6])), &storage.ChecksumInput{ChecksumSHA256: &bad})
	case "cmplbad": // CompleteMultipartUpload with a wrong whole-object ETag
		e := "00000000000000000000000000000000-9"
		_, err = c.st.CompleteMultipartUpload(c.ctx, B(2), K(3), c.uid(t[4]), &storage.ChecksumInput{ETag: &e}, nil)
	case "dels": // DeleteObjects over several keys
		entries := []storage.DeleteObjectsInputEntry{}
		for _, k := range t[3:] {
			entries = append(entries, storage.DeleteObjectsInputEntry{Key: storage.MustNewObjectKey(k)})
		}
		_, err = c.st.DeleteObjects(c.ctx, B(2), entries)
		c.learnVids() // delete markers get version ids
		cap.take()
	case "uppcp": // UploadPartCopy of the whole source object
		_, err = c.st.UploadPartCopy(c.ctx, B(2), K(3), B(4), K(5), c.uid(t[6]), atoi32(t[7]), nil)
	default:
		c.exec(line)
		ls := cap.take()
		for _, l := range ls {
			if strings.HasPrefix(l, "res ") {
				return l
			}
		}
		return "res missing"
	}
	if err != nil {
		k := errKind(err)
		if k == "Other" {
			if errors.Is(err, storage.ErrBadDigest) {
				return "res err BadDigest"
			}
			return "res err Other " + verifx.HexS(err.Error())
		}
		return "res err " + k
	}
	return "res ok"
}

var c03ErrInner = errors.New("c03-inner-operation-failed")

type c03Feedback struct {
	nuids, netags int
	vids          map[string]int
	lastEtag      map[string]string
	lastSize      map[string]int64
}

func c03SaveFeedback(c *s3hCase) c03Feedback {
	fb := c03Feedback{nuids: len(c.uids), netags: len(c.allEtags), vids: map[string]int{}, lastEtag: map[string]string{}, lastSize: map[string]int64{}}
	for k, v := range c.vids {
		fb.vids[k] = v
	}
	for k, v := range c.lastEtag {
		fb.lastEtag[k] = v
	}
	for k, v := range c.lastSize {
		fb.lastSize[k] = v
	}
	return fb
}

func (fb c03Feedback) restore(c *s3hCase) {
	c.uids, c.allEtags = c.uids[:fb.nuids], c.allEtags[:fb.netags]
	c.vids, c.lastEtag, c.lastSize = fb.vids, fb.lastEtag, fb.lastSize
}

// c03Attempt runs one op line once: directly, or (nested) inside an enclosing
// TransactionalStorage.WithTransaction the way the notification / outbox middlewares run every
// mutation — the part stores then see a child transaction handle and everything is finalised by
// the OUTER Commit. The request context is cancellable (fault kind commit-ctx). What the executor
// learnt from a call that failed in the end (upload ids, version ids, ETags) is forgotten again.
func c03Attempt(c *s3hCase, cap *c03Capture, base storage.Storage, line string, nested bool) (res string) {
	fb := c03SaveFeedback(c)
	ctx, cancel := context.WithCancel(context.Background())
	c03P.mu.Lock()
	c03P.cancel = cancel
	c03P.mu.Unlock()
	defer func() {
		cancel()
		c.ctx, c.st = context.Background(), base
		if !strings.HasPrefix(res, "res ok") {
			fb.restore(c)
		}
	}()
	if !nested {
		c.ctx, c.st = ctx, base
		return c03Exec(c, cap, line)
	}
	ts, ok := base.(storage.TransactionalStorage)
	if !ok {
		return "res missing storage-is-not-transactional"
	}
	inner := "res missing"
	err := func() (err error) {
		defer func() {
			if r := recover(); r != nil {
				err = fmt.Errorf("panic: %v", r)
			}
		}()
		return ts.WithTransaction(ctx, &sql.TxOptions{ReadOnly: false}, func(ctx context.Context, txSt storage.Storage) error {
			c.ctx, c.st = ctx, txSt
			inner = c03Exec(c, cap, line)
			if !strings.HasPrefix(inner, "res ok") {
				return c03ErrInner
			}
			return nil
		})
	}()
	if err != nil && !errors.Is(err, c03ErrInner) {
		k := errKind(err)
		if k == "Other" {
			return "res err Other " + verifx.HexS(err.Error())
		}
		return "res err " + k
	}
	return inner
}

// c03Bad counts the object versions of a snapshot that cannot be read in full.
func c03Bad(lines []string) int {
	n := 0
	for _, l := range lines {
		if strings.HasPrefix(l, "O ") && (strings.Contains(l, "READFAIL") || strings.Contains(l, " err:")) {
			n++
		}
	}
	return n
}

// c03HookRouting observes to which list of which controller the three registration methods
// append, through a child handle: expected "PQa" (pre-commit hooks in order, then the after-commit
// hook) and "r" (the rollback hook registered through the child runs with the root's Rollback).
func c03HookRouting(db database.Database) string {
	ctx := context.Background()
	seq := ""
	mark := func(m string) func(context.Context) error {
		return func(context.Context) error { seq += m; return nil }
	}
	tx, err := db.BeginTx(ctx, &sql.TxOptions{})
	if err != nil {
		return "unknown"
	}
	tx.OnPreCommit(mark("P"))
	tx.Child().OnAfterCommit(mark("a"))
	tx.Child().OnPreCommit(mark("Q"))
	_ = tx.Commit(ctx)
	commitSeq := seq
	seq = ""
	tx2, err := db.BeginTx(ctx, &sql.TxOptions{})
	if err != nil {
		return "unknown"
	}
	tx2.Child().OnRollback(mark("r"))
	_ = tx2.Rollback(ctx)
	return commitSeq + "," + seq
}

// rollbackOrder observes the order in which TxController.Rollback runs its hooks.
func c03RollbackOrder(db database.Database) string {
	order := ""
	tx, err := db.BeginTx(context.Background(), &sql.TxOptions{})
	if err != nil {
		return "unknown"
	}
	tx.OnRollback(func(context.Context) error { order += "a"; return nil })
	tx.OnRollback(func(context.Context) error { order += "b"; return nil })
	_ = tx.Rollback(context.Background())
	switch order {
	case "ab":
		return "fwd"
	case "ba":
		return "rev"
	}
	return "unknown"
}

// ---------------------------------------------------------------- the run

func c03Directed() [][]string {
	h := verifx.HexS
	po := " ct=~ md=~ tags=~ cls=~ inm=0 im=~"
	return [][]string{
		{ // dedup: the second put of identical content publishes and deletes its fresh part in one transaction
			"op mkb b0", "op put b0 k0 " + h("same-content") + po, "op put b0 k1 " + h("same-content") + po,
			"op put b0 k0 " + h("other") + po, "op del b0 k1 vid=~ im=~", "op get b0 k0 vid=~",
		},
		{ // bad digests, overwrite, multipart with replaced part, abort
			"op mkb b0", "op putbad b0 k0 " + h("x"), "op put b0 k0 " + h("v1") + po, "op putbad b0 k0 " + h("v2"), "op appbad b0 k0 " + h("tail"),
			"op mpu b0 k1 ct=~ md=~ tags=~ cls=~", "op upp b0 k1 0 1 " + h("part-one"), "op uppbad b0 k1 0 2 " + h("part-two"),
			"op upp b0 k1 0 1 " + h("part-one-replaced"), "op upp b0 k1 0 2 " + h("part-two"), "op cmplbad b0 k1 0",
			"op cmpl b0 k1 0 parts=2,1 inm=0 im=~", "op cmpl b0 k1 0 parts=1,2,7 inm=0 im=~", "op cmpl b0 k1 0 parts=~ inm=1 im=~",
			"op mpu b0 k0 ct=~ md=~ tags=~ cls=~", "op upp b0 k0 1 1 " + h("zz"), "op abort b0 k0 1", "op app b0 k0 " + h("+") + " off=7",
			"op put b0 k0 " + h("v3") + " ct=~ md=~ tags=~ cls=~ inm=1 im=~", "op del b0 k0 vid=~ im=bogus",
		},
		{ // transitions between the two stores, cross-store copy, versioned deletes
			"op mkb b0", "op ver b0 E", "op put b0 k0 " + h("warm-data") + po, "op trans b0 k0 GLACIER vid=~", "op get b0 k0 vid=~",
			"op cp b0 k0 b0 k1 svid=~ mdir=C tdir=C ct=~ md=~ tags=~ cls=~", "op trans b0 k0 STANDARD vid=v0", "op del b0 k0 vid=v0 im=~",
			"op mkb b1", "op put b1 k0 " + h("cold") + " ct=~ md=~ tags=~ cls=" + h("GLACIER") + " inm=0 im=~", "op cp b1 k0 b0 dir/k2 svid=~ mdir=R tdir=R ct=~ md=~ tags=~ cls=~",
			"op dels b0 k1 dir/k2 k0", "op mpu b0 k0 ct=~ md=~ tags=~ cls=~", "op uppcp b1 k0 b0 k0 0 1", "op cmpl b0 k0 0 parts=~ inm=0 im=~",
		},
	}
}

func runC03(args []string) {
	f := verifx.ParseFlags("c03", args, 12, 70)
	out := verifx.NewOut()
	ctx := context.Background()
	database.SetVerifPointFunc(c03VerifPoint)
	defer database.SetVerifPointFunc(nil)
	nops := 28
	if f.Tier == "thorough" {
		nops = 45
	}

	directed := c03Directed()
	directed = append(directed, directed...) // second half: nested in an enclosing transaction
	total := len(directed) + f.Cases
	for k := 0; k < total; k++ {
		if !f.Wants(k) {
			continue
		}
		seed := verifx.CaseSeed(f.Seed, k)
		dir := filepath.Join(f.Scratch, fmt.Sprintf("c03-%d", k))
		_ = os.RemoveAll(dir)
		stk := c03NewStack(dir)
		cap := c03NewCapture(filepath.Join(f.Scratch, fmt.Sprintf("c03-%d.cap", k)))
		c := &s3hCase{ctx: ctx, st: stk.st, out: cap.out, vids: map[string]int{}, bnams: []string{"b0", "b1"},
			lastEtag: map[string]string{}, lastSize: map[string]int64{}, made: map[string]bool{}}
		nm := &c03Names{ord: map[string]int{}}
		out.Case(k, seed)
		// every history runs either directly or nested in an enclosing transaction: the directed
		// ones both ways, the generated ones alternately
		nested := false
		if k < len(directed) {
			nested = k >= len(directed)/2
		} else {
			nested = (k-len(directed))%2 == 1
		}
		out.Line("cfg rollback=%s stores=2 nested=%d hooks=%s", c03RollbackOrder(stk.raw), b2i(nested), c03HookRouting(stk.raw))

		runOp := func(line string) {
			out.Line("%s", line)
			pre := c03Snapshot(ctx, stk.st, nm)
			out.Line("pre %s bad=%d", c03Digest(pre), c03Bad(pre))
			out.Line("dir0 %s", stk.dirListing(nm))
			// faulted attempts: event j fails, j = 0, 1, … until the operation no longer reaches event j
			for j := 0; j < 64; j++ {
				modes := []int{0}
				var res string
				reached := false
				for mi := 0; mi < len(modes); mi++ {
					c03P.arm(j, modes[mi])
					res = c03Attempt(c, cap, stk.st, line, nested)
					c03P.disarm()
					fired, calls := c03P.fired, c03P.calls
					if fired == "" {
						break
					}
					reached = true
					if fired == "ps.put" && mi == 0 {
						modes = append(modes, 1) // also: the upload stream breaks half way
					}
					if fired == "ps.get" && mi == 0 {
						modes = append(modes, 1, 2) // also: the source stream breaks mid-way, Close ok / failing
					}
					post := c03Snapshot(ctx, stk.st, nm)
					ev := fired
					switch {
					case fired == "ps.put" && modes[mi] == 1:
						ev = "ps.put-midstream"
					case fired == "ps.get" && modes[mi] == 1:
						ev = "ps.get-midstream"
					case fired == "ps.get" && modes[mi] == 2:
						ev = "ps.get-midstream-closefail"
					}
					out.Line("f %d ev=%s res=%s post=%s bad=%d", j, ev, strings.Join(strings.Fields(res)[1:], ":"), c03Digest(post), c03Bad(post))
					out.Line("fc %s", c03Calls(nm, calls))
					if c03Digest(post) != c03Digest(pre) {
						c03Diff(out, "fx", pre, post, 4)
					}
					out.Line("fd %s", stk.dirListing(nm))
				}
				if !reached {
					// that attempt was the normal execution
					out.Line("%s", res)
					out.Line("rc %s", c03Calls(nm, c03P.calls))
					out.Line("re %s", joinOr(c03P.events))
					if strings.HasPrefix(res, "res err") || strings.HasPrefix(res, "res panic") {
						post := c03Snapshot(ctx, stk.st, nm)
						out.Line("post %s", c03Digest(post))
						if c03Digest(post) != c03Digest(pre) {
							c03Diff(out, "px", pre, post, 4)
						}
					}
					out.Line("dir1 %s", stk.dirListing(nm))
					return
				}
			}
			out.Line("res missing too-many-fault-points")
		}

		func() {
			defer func() {
				if r := recover(); r != nil {
					c03P.disarm()
					out.Line("res panic %s", verifx.HexS(fmt.Sprint(r)))
				}
			}()
			if k < len(directed) {
				for _, line := range directed[k] {
					runOp(line)
				}
			} else {
				r := verifx.NewRng(seed)
				g := &s3hGen{r: r, c: c, mode: verifx.Pick(r, []string{"mixed", "mixed", "versioning", "transition", "append"})}
				for i := 0; i < nops; i++ {
					line := g.next()
					// a smaller stream of C03-specific failing requests
					if r.Chance(1, 9) {
						t := strings.Fields(line)
						switch t[1] {
						case "put":
							line = fmt.Sprintf("op putbad %s %s %s", t[2], t[3], t[4])
						case "app":
							line = fmt.Sprintf("op appbad %s %s %s", t[2], t[3], t[4])
						case "upp":
							line = fmt.Sprintf("op uppbad %s %s %s %s %s", t[2], t[3], t[4], t[5], t[6])
						case "cmpl":
							line = fmt.Sprintf("op cmplbad %s %s %s", t[2], t[3], t[4])
						case "del":
							line = fmt.Sprintf("op dels %s k0 k1 dir/k2", t[2])
						}
					}
					runOp(line)
				}
			}
		}()
		out.End()
		cap.f.Close()
		_ = os.Remove(cap.f.Name())
		stk.close()
	}
	out.Flush()
}
