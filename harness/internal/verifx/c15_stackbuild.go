//go:build verif

package verifx

// Part-store middleware stacks for C15 (and the bases of C16/C17): a stack is a word over the
// middleware alphabet applied to a base kind. An erasure-coding letter replicates the rest of the
// word once per shard store (every leaf gets its own directory / part-store id / outbox id).
//
// Test doubles used (no source hooks):
//   - SwitchStore: a re-pointable pass-through below each tink middleware, so that the costly
//     scrypt key derivation of tink.NewWithLocalKMS is paid once per pooled instance and not once
//     per generated stack. It forwards every call (and the capability set, and the concrete reader,
//     so *os.File stays seekable) to its current target.
//   - GateDB: the database handle given to an outbox part store. While the gate is closed every
//     *writable* BeginTx issued through it blocks, which parks the outbox worker in front of its
//     claim statement: entries stay pending until the harness opens the gate ("flush").

import (
	"context"
	"database/sql"
	"errors"
	"fmt"
	"io"
	"os"
	"path/filepath"
	"strconv"
	"strings"
	"sync"
	"sync/atomic"
	"time"

	cachepkg "github.com/jdillenkofer/pithos/internal/cache"
	"github.com/jdillenkofer/pithos/internal/cache/evictionpolicy/evictnothing"
	"github.com/jdillenkofer/pithos/internal/cache/persistor/inmemory"
	"github.com/jdillenkofer/pithos/internal/storage/database"
	repositoryfactory "github.com/jdillenkofer/pithos/internal/storage/database/repository"
	"github.com/jdillenkofer/pithos/internal/storage/database/repository/partoutboxentry"
	"github.com/jdillenkofer/pithos/internal/storage/database/sqlite"
	"github.com/jdillenkofer/pithos/internal/storage/metadatapart/partstore"
	pscache "github.com/jdillenkofer/pithos/internal/storage/metadatapart/partstore/cache"
	fsstore "github.com/jdillenkofer/pithos/internal/storage/metadatapart/partstore/filesystem"
	"github.com/jdillenkofer/pithos/internal/storage/metadatapart/partstore/middlewares/compression"
	"github.com/jdillenkofer/pithos/internal/storage/metadatapart/partstore/middlewares/encryption/tink"
	"github.com/jdillenkofer/pithos/internal/storage/metadatapart/partstore/middlewares/erasurecoding"
	"github.com/jdillenkofer/pithos/internal/storage/metadatapart/partstore/outbox"
	sqlstore "github.com/jdillenkofer/pithos/internal/storage/metadatapart/partstore/sql"
	"github.com/prometheus/client_golang/prometheus"
)

// ---------- SwitchStore ----------

type SwitchStore struct {
	mu     sync.RWMutex
	target partstore.PartStore
}

func (s *SwitchStore) Set(t partstore.PartStore) { s.mu.Lock(); s.target = t; s.mu.Unlock() }
func (s *SwitchStore) get() partstore.PartStore  { s.mu.RLock(); defer s.mu.RUnlock(); return s.target }

func (s *SwitchStore) Start(ctx context.Context) error { return s.get().Start(ctx) }
func (s *SwitchStore) Stop(ctx context.Context) error  { return s.get().Stop(ctx) }
func (s *SwitchStore) PutPart(ctx context.Context, tx database.Tx, id partstore.PartId, r io.Reader) error {
	return s.get().PutPart(ctx, tx, id, r)
}
func (s *SwitchStore) GetPart(ctx context.Context, tx database.Tx, id partstore.PartId) (io.ReadCloser, error) {
	return s.get().GetPart(ctx, tx, id)
}
func (s *SwitchStore) GetPartIds(ctx context.Context, tx database.Tx) ([]partstore.PartId, error) {
	return s.get().GetPartIds(ctx, tx)
}
func (s *SwitchStore) DeletePart(ctx context.Context, tx database.Tx, id partstore.PartId) error {
	return s.get().DeletePart(ctx, tx, id)
}
func (s *SwitchStore) Capabilities() partstore.Capabilities { return partstore.CapabilitiesOf(s.get()) }

// TinkPool hands out tink middlewares (local KMS) over SwitchStores, reusing instances.
type TinkPool struct {
	Password string
	free     []*PooledTink
}

type PooledTink struct {
	Store  partstore.PartStore
	Switch *SwitchStore
}

func (p *TinkPool) Get(inner partstore.PartStore) *PooledTink {
	var t *PooledTink
	if n := len(p.free); n > 0 {
		t = p.free[n-1]
		p.free = p.free[:n-1]
	} else {
		sw := &SwitchStore{}
		t = &PooledTink{Store: Must(tink.NewWithLocalKMS(p.Password, sw, nil)), Switch: sw}
	}
	t.Switch.Set(inner)
	return t
}

func (p *TinkPool) Put(t *PooledTink) { p.free = append(p.free, t) }

// ---------- GuardStore ----------

// GuardStore is placed between an erasure-coding store and each of its shard stores. The
// erasure-coding code calls its shard stores from goroutines of its own, where a panic would kill
// the harness process; the guard turns such a panic into an error and counts it, so the harness can
// report it as an observation of the operation that caused it. It changes nothing else.
type GuardStore struct {
	partstore.PartStore
	Panics   *atomic.Int64
	InFlight *atomic.Int64 // guarded PutPart calls that have not returned yet
}

var errGuardedPanic = errors.New("panic in shard store call")

func (g *GuardStore) PutPart(ctx context.Context, tx database.Tx, id partstore.PartId, r io.Reader) (err error) {
	if g.InFlight != nil {
		g.InFlight.Add(1)
		defer g.InFlight.Add(-1)
	}
	defer func() {
		if p := recover(); p != nil {
			g.Panics.Add(1)
			_, _ = io.Copy(io.Discard, r) // unblock the writer side of the pipe
			err = errGuardedPanic
		}
	}()
	return g.PartStore.PutPart(ctx, tx, id, r)
}

func (g *GuardStore) GetPart(ctx context.Context, tx database.Tx, id partstore.PartId) (rc io.ReadCloser, err error) {
	defer func() {
		if p := recover(); p != nil {
			g.Panics.Add(1)
			rc, err = nil, errGuardedPanic
		}
	}()
	return g.PartStore.GetPart(ctx, tx, id)
}

func (g *GuardStore) DeletePart(ctx context.Context, tx database.Tx, id partstore.PartId) (err error) {
	defer func() {
		if p := recover(); p != nil {
			g.Panics.Add(1)
			err = errGuardedPanic
		}
	}()
	return g.PartStore.DeletePart(ctx, tx, id)
}

func (g *GuardStore) Capabilities() partstore.Capabilities {
	return partstore.CapabilitiesOf(g.PartStore)
}

// ---------- GateDB ----------

type Gate struct {
	mu     sync.Mutex
	open   bool
	ch     chan struct{} // closed when open
	active atomic.Int64  // write transactions begun through a GateDB and not yet finished
}

// Quiesce waits until no gated write transaction is in flight (call with the gate closed).
func (g *Gate) Quiesce(timeout time.Duration) bool {
	deadline := time.Now().Add(timeout)
	for g.active.Load() != 0 {
		if time.Now().After(deadline) {
			return false
		}
		time.Sleep(time.Millisecond)
	}
	return true
}

func NewGate() *Gate { return &Gate{ch: make(chan struct{})} }

func (g *Gate) Open() {
	g.mu.Lock()
	if !g.open {
		g.open = true
		close(g.ch)
	}
	g.mu.Unlock()
}

func (g *Gate) Close() {
	g.mu.Lock()
	if g.open {
		g.open = false
		g.ch = make(chan struct{})
	}
	g.mu.Unlock()
}

func (g *Gate) wait(ctx context.Context) error {
	g.mu.Lock()
	ch := g.ch
	g.mu.Unlock()
	select {
	case <-ch:
		return nil
	case <-ctx.Done():
		return ctx.Err()
	}
}

type GateDB struct {
	database.Database
	Gate *Gate
}

func (g *GateDB) BeginTx(ctx context.Context, opts *sql.TxOptions) (*database.TxController, error) {
	if opts == nil || !opts.ReadOnly {
		if _, nested := database.TxControllerFromContext(ctx); !nested {
			if err := g.Gate.wait(ctx); err != nil {
				return nil, err
			}
			// count the worker's write transactions that are in flight, so that Flush can wait
			// until none of them can commit in the middle of the next harness operation
			g.Gate.active.Add(1)
			tx, err := g.Database.BeginTx(ctx, opts)
			if err != nil {
				g.Gate.active.Add(-1)
				return nil, err
			}
			var once sync.Once
			done := func(context.Context) error { once.Do(func() { g.Gate.active.Add(-1) }); return nil }
			tx.OnAfterCommit(done)
			tx.OnRollback(done)
			return tx, nil
		}
	}
	return g.Database.BeginTx(ctx, opts)
}

// ---------- stack words ----------

// Letter is one middleware of a stack word.
//
//	z:<sample>  compression zstd, SampleSize        g:<sample>  compression gzip
//	t           tink, local KMS                      c:<max>     cache (generic cache, in-memory, evict-nothing), MaxPartSizeBytes
//	o           outbox                               e:<d>:<p>:<stripe>  erasure coding over d+p copies of the rest of the word
type Letter struct {
	Kind    byte
	A, B, C int
}

func (l Letter) String() string {
	switch l.Kind {
	case 'z', 'g', 'c':
		return fmt.Sprintf("%c:%d", l.Kind, l.A)
	case 'e':
		return fmt.Sprintf("e:%d:%d:%d", l.A, l.B, l.C)
	}
	return string(l.Kind)
}

func ParseLetter(s string) Letter {
	f := strings.Split(s, ":")
	l := Letter{Kind: f[0][0]}
	n := func(i int) int {
		if i < len(f) {
			v, _ := strconv.Atoi(f[i])
			return v
		}
		return 0
	}
	l.A, l.B, l.C = n(1), n(2), n(3)
	return l
}

func WordString(w []Letter) string {
	if len(w) == 0 {
		return "-"
	}
	s := make([]string, len(w))
	for i, l := range w {
		s[i] = l.String()
	}
	return strings.Join(s, " ")
}

// Leaf describes one base store created for a stack.
type Leaf struct {
	Kind  string // "fs" | "sql"
	Dir   string // fs root
	Store partstore.PartStore
}

// StaleRepo is the outbox entry repository with one addition: the answer of a reader's FIRST statement
// (FindLastPartOutboxEntryByPartId) can be taken early — Arm runs the real statement now and keeps its
// result — and is handed to the next GetPart of that part instead of running the statement again. That
// is what a reader observes under statement-level visibility (Postgres READ COMMITTED) when commits and
// worker passes happen between its first and its second statement; SQLite itself cannot produce the
// interleaving (a read transaction keeps its snapshot). Everything else is the real repository.
type StaleRepo struct {
	partoutboxentry.Repository
	mu    sync.Mutex
	armed map[string]*staleAnswer
}

type staleAnswer struct{ entry *partoutboxentry.Entity }

func staleKey(outboxId string, partId partstore.PartId) string {
	return outboxId + "|" + partId.String()
}

// Arm executes the reader's first statement now and reports what it saw: "none", "put" or "del".
func (r *StaleRepo) Arm(ctx context.Context, db database.Database, outboxId string, partId partstore.PartId) string {
	var e *partoutboxentry.Entity
	Check(database.WithTx(ctx, db, &sql.TxOptions{ReadOnly: true}, func(ctx context.Context, tx database.Tx) error {
		var err error
		e, err = r.Repository.FindLastPartOutboxEntryByPartId(ctx, tx.SqlTx(), outboxId, partId)
		return err
	}))
	r.mu.Lock()
	r.armed[staleKey(outboxId, partId)] = &staleAnswer{entry: e}
	r.mu.Unlock()
	switch {
	case e == nil:
		return "none"
	case e.Operation == partoutboxentry.DeletePartOperation:
		return "del"
	}
	return "put"
}

func (r *StaleRepo) FindLastPartOutboxEntryByPartId(ctx context.Context, tx *sql.Tx, outboxId string, partId partstore.PartId) (*partoutboxentry.Entity, error) {
	r.mu.Lock()
	a := r.armed[staleKey(outboxId, partId)]
	delete(r.armed, staleKey(outboxId, partId))
	r.mu.Unlock()
	if a != nil {
		if a.entry == nil {
			return nil, nil
		}
		c := *a.entry
		return &c, nil
	}
	return r.Repository.FindLastPartOutboxEntryByPartId(ctx, tx, outboxId, partId)
}

// StackEnv owns what all stacks of a harness run share: the SQLite database, the scratch
// directory, the tink pool, the outbox gate.
type StackEnv struct {
	Dir      string
	DB       database.Database
	Gate     *Gate
	Tinks    *TinkPool
	outRepo  partoutboxentry.Repository
	Stale    *StaleRepo // the repository every outbox of every stack uses (pass-through unless armed)
	seq      int
	Panics   atomic.Int64 // panics caught by GuardStores
	InFlight atomic.Int64 // guarded shard-store PutPart calls still running
}

// Settle waits until no guarded shard-store write is in flight any more. erasurecoding.PutPart returns
// at the FIRST shard error without waiting for the other shard writes it started, so such writes (and
// their panics) can outlive the operation that caused them; observations are attributed to the
// operation only after they have ended.
func (e *StackEnv) Settle(timeout time.Duration) bool {
	deadline := time.Now().Add(timeout)
	for e.InFlight.Load() != 0 {
		if time.Now().After(deadline) {
			return false
		}
		time.Sleep(200 * time.Microsecond)
	}
	return true
}

func NewStackEnv(dir string) *StackEnv {
	_ = os.RemoveAll(dir) // a crashed earlier run may have left a database with the same store ids
	Check(os.MkdirAll(dir, 0o755))
	db := Must(sqlite.OpenDatabase(filepath.Join(dir, "pithos.db")))
	e := &StackEnv{Dir: dir, DB: db, Gate: NewGate(), Tinks: &TinkPool{Password: "verif-c15"}}
	e.Stale = &StaleRepo{Repository: Must(repositoryfactory.NewPartOutboxEntryRepository(db)), armed: map[string]*staleAnswer{}}
	e.outRepo = e.Stale
	return e
}

func (e *StackEnv) Close() {
	_ = e.DB.Close()
	_ = os.RemoveAll(e.Dir)
}

// BuiltStack is one instantiated stack.
type BuiltStack struct {
	Top       partstore.PartStore
	Leaves    []*Leaf
	OutboxIds []string
	tinks     []*PooledTink
	env       *StackEnv
	dir       string
}

// Build instantiates word over base ("fs", "sql" or "mix": leaves alternate fs, sql, fs, …).
func (e *StackEnv) Build(word []Letter, base string) *BuiltStack {
	e.seq++
	b := &BuiltStack{env: e, dir: filepath.Join(e.Dir, "s"+strconv.Itoa(e.seq))}
	b.Top = b.build(word, base)
	return b
}

func (b *BuiltStack) build(word []Letter, base string) partstore.PartStore {
	e := b.env
	if len(word) == 0 {
		kind := base
		if base == "mix" {
			kind = []string{"fs", "sql"}[len(b.Leaves)%2]
		}
		lf := &Leaf{Kind: kind}
		tag := fmt.Sprintf("s%d-l%d", e.seq, len(b.Leaves))
		switch kind {
		case "fs":
			lf.Dir = filepath.Join(b.dir, tag)
			Check(os.MkdirAll(lf.Dir, 0o755))
			lf.Store = Must(fsstore.New(lf.Dir))
		case "sql":
			pcr := Must(repositoryfactory.NewPartContentRepository(e.DB))
			lf.Store = Must(sqlstore.New(e.DB, pcr, sqlstore.WithPartStoreId(tag)))
		default:
			Fatalf("unknown base %q", base)
		}
		b.Leaves = append(b.Leaves, lf)
		return lf.Store
	}
	l, rest := word[0], word[1:]
	switch l.Kind {
	case 'z', 'g':
		alg := compression.AlgorithmZstd
		if l.Kind == 'g' {
			alg = compression.AlgorithmGzip
		}
		return Must(compression.NewWithConfig(b.build(rest, base), compression.Config{Algorithm: alg, SampleSize: l.A}))
	case 't':
		t := e.Tinks.Get(b.build(rest, base))
		b.tinks = append(b.tinks, t)
		return t.Store
	case 'c':
		c := Must(cachepkg.NewGenericCache(Must(inmemory.New()), Must(evictnothing.New())))
		return Must(pscache.New(c, b.build(rest, base), pscache.Options{MaxPartSizeBytes: int64(l.A)}))
	case 'o':
		id := fmt.Sprintf("s%d-o%d", e.seq, len(b.OutboxIds))
		b.OutboxIds = append(b.OutboxIds, id)
		inner := b.build(rest, base)
		return Must(outbox.New(&GateDB{Database: e.DB, Gate: e.Gate}, id, inner, e.outRepo, prometheus.NewRegistry(), 30*time.Second))
	case 'e':
		n := l.A + l.B
		stores := make([]partstore.PartStore, n)
		for i := range stores {
			stores[i] = &GuardStore{PartStore: b.build(rest, base), Panics: &e.Panics, InFlight: &e.InFlight}
		}
		return Must(erasurecoding.NewWithPartStores(l.A, l.B, l.C, stores, erasurecoding.WithHealScanInterval(0)))
	}
	Fatalf("unknown letter %q", string(l.Kind))
	return nil
}

// Release stops nothing (call Top.Stop first); it returns pooled tinks and removes the files.
func (b *BuiltStack) Release() {
	for _, t := range b.tinks {
		b.env.Tinks.Put(t)
	}
	b.tinks = nil
	_ = os.RemoveAll(b.dir)
}

// Pending counts the entries of all outboxes of the stack in one read snapshot.
func (b *BuiltStack) Pending(ctx context.Context) int {
	total := 0
	err := database.WithTx(ctx, b.env.DB, &sql.TxOptions{ReadOnly: true}, func(ctx context.Context, tx database.Tx) error {
		for _, id := range b.OutboxIds {
			n, err := b.env.outRepo.Count(ctx, tx.SqlTx(), id)
			if err != nil {
				return err
			}
			total += n
		}
		return nil
	})
	Check(err)
	return total
}

// Flush opens the gate until every outbox of the stack is empty, then closes it again.
// It reports false when the outboxes did not drain within the timeout.
func (b *BuiltStack) Flush(ctx context.Context, timeout time.Duration) bool {
	if len(b.OutboxIds) == 0 {
		return true
	}
	b.env.Gate.Open()
	defer func() {
		b.env.Gate.Close()
		b.env.Gate.Quiesce(5 * time.Second)
	}()
	deadline := time.Now().Add(timeout)
	for {
		if b.Pending(ctx) == 0 {
			return true
		}
		if time.Now().After(deadline) {
			return false
		}
		time.Sleep(2 * time.Millisecond)
	}
}
