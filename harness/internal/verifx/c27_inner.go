//go:build verif

package verifx

import (
	"context"
	"io"
	"sync"
	"sync/atomic"

	"github.com/jdillenkofer/pithos/internal/storage"
)

// AuditInner is a trivial in-memory double of the storage *below* the audit middleware (used by the
// C26/C27 harnesses): every storage.Storage method records that it ran and returns success, or the
// error chosen by Fail. It never touches a database, so the audit log is the only thing under test.
type AuditInner struct {
	// Fail decides the outcome of a call; nil error = success. May be nil.
	Fail func(ctx context.Context, op string) error
	// OnCall, when set, is invoked while the inner call runs (between START and COMPLETE).
	OnCall func(ctx context.Context, op string)
	Calls  atomic.Int64
	mu     sync.Mutex
	byOp   map[string]int
	nextUp atomic.Int64
}

var _ storage.Storage = (*AuditInner)(nil)

func (a *AuditInner) do(ctx context.Context, op string) error {
	a.Calls.Add(1)
	a.mu.Lock()
	if a.byOp == nil {
		a.byOp = map[string]int{}
	}
	a.byOp[op]++
	a.mu.Unlock()
	if a.OnCall != nil {
		a.OnCall(ctx, op)
	}
	if a.Fail != nil {
		return a.Fail(ctx, op)
	}
	return nil
}

// CountOf reports how often the inner method ran.
func (a *AuditInner) CountOf(op string) int {
	a.mu.Lock()
	defer a.mu.Unlock()
	return a.byOp[op]
}

func (a *AuditInner) Start(ctx context.Context) error { return nil }
func (a *AuditInner) Stop(ctx context.Context) error  { return nil }

func (a *AuditInner) CreateBucket(ctx context.Context, b storage.BucketName) error {
	return a.do(ctx, "CreateBucket")
}
func (a *AuditInner) DeleteBucket(ctx context.Context, b storage.BucketName) error {
	return a.do(ctx, "DeleteBucket")
}
func (a *AuditInner) ListBuckets(ctx context.Context) ([]storage.Bucket, error) {
	return nil, a.do(ctx, "ListBuckets")
}
func (a *AuditInner) HeadBucket(ctx context.Context, b storage.BucketName) (*storage.Bucket, error) {
	if err := a.do(ctx, "HeadBucket"); err != nil {
		return nil, err
	}
	return &storage.Bucket{}, nil
}
func (a *AuditInner) GetBucketVersioningConfiguration(ctx context.Context, b storage.BucketName) (*storage.BucketVersioningConfiguration, error) {
	if err := a.do(ctx, "GetBucketVersioningConfiguration"); err != nil {
		return nil, err
	}
	return &storage.BucketVersioningConfiguration{}, nil
}
func (a *AuditInner) PutBucketVersioningConfiguration(ctx context.Context, b storage.BucketName, c *storage.BucketVersioningConfiguration) error {
	return a.do(ctx, "PutBucketVersioningConfiguration")
}
func (a *AuditInner) GetBucketWebsiteConfiguration(ctx context.Context, b storage.BucketName) (*storage.WebsiteConfiguration, error) {
	if err := a.do(ctx, "GetBucketWebsiteConfiguration"); err != nil {
		return nil, err
	}
	return &storage.WebsiteConfiguration{}, nil
}
func (a *AuditInner) PutBucketWebsiteConfiguration(ctx context.Context, b storage.BucketName, c *storage.WebsiteConfiguration) error {
	return a.do(ctx, "PutBucketWebsiteConfiguration")
}
func (a *AuditInner) DeleteBucketWebsiteConfiguration(ctx context.Context, b storage.BucketName) error {
	return a.do(ctx, "DeleteBucketWebsiteConfiguration")
}
func (a *AuditInner) GetBucketCORSConfiguration(ctx context.Context, b storage.BucketName) (*storage.BucketCORSConfiguration, error) {
	if err := a.do(ctx, "GetBucketCORSConfiguration"); err != nil {
		return nil, err
	}
	return &storage.BucketCORSConfiguration{}, nil
}
func (a *AuditInner) PutBucketCORSConfiguration(ctx context.Context, b storage.BucketName, c *storage.BucketCORSConfiguration) error {
	return a.do(ctx, "PutBucketCORSConfiguration")
}
func (a *AuditInner) DeleteBucketCORSConfiguration(ctx context.Context, b storage.BucketName) error {
	return a.do(ctx, "DeleteBucketCORSConfiguration")
}
func (a *AuditInner) GetBucketLifecycleConfiguration(ctx context.Context, b storage.BucketName) (*storage.BucketLifecycleConfiguration, error) {
	if err := a.do(ctx, "GetBucketLifecycleConfiguration"); err != nil {
		return nil, err
	}
	return &storage.BucketLifecycleConfiguration{}, nil
}
func (a *AuditInner) PutBucketLifecycleConfiguration(ctx context.Context, b storage.BucketName, c *storage.BucketLifecycleConfiguration) error {
	return a.do(ctx, "PutBucketLifecycleConfiguration")
}
func (a *AuditInner) DeleteBucketLifecycleConfiguration(ctx context.Context, b storage.BucketName) error {
	return a.do(ctx, "DeleteBucketLifecycleConfiguration")
}
func (a *AuditInner) GetBucketNotificationConfiguration(ctx context.Context, b storage.BucketName) (*storage.BucketNotificationConfiguration, error) {
	if err := a.do(ctx, "GetBucketNotificationConfiguration"); err != nil {
		return nil, err
	}
	return &storage.BucketNotificationConfiguration{}, nil
}
func (a *AuditInner) PutBucketNotificationConfiguration(ctx context.Context, b storage.BucketName, c *storage.BucketNotificationConfiguration) error {
	return a.do(ctx, "PutBucketNotificationConfiguration")
}
func (a *AuditInner) GetObjectTagging(ctx context.Context, b storage.BucketName, k storage.ObjectKey, o *storage.ObjectTaggingOptions) (map[string]string, error) {
	return nil, a.do(ctx, "GetObjectTagging")
}
func (a *AuditInner) PutObjectTagging(ctx context.Context, b storage.BucketName, k storage.ObjectKey, t map[string]string, o *storage.ObjectTaggingOptions) error {
	return a.do(ctx, "PutObjectTagging")
}
func (a *AuditInner) DeleteObjectTagging(ctx context.Context, b storage.BucketName, k storage.ObjectKey, o *storage.ObjectTaggingOptions) error {
	return a.do(ctx, "DeleteObjectTagging")
}
func (a *AuditInner) ListObjects(ctx context.Context, b storage.BucketName, o storage.ListObjectsOptions) (*storage.ListBucketResult, error) {
	if err := a.do(ctx, "ListObjects"); err != nil {
		return nil, err
	}
	return &storage.ListBucketResult{}, nil
}
func (a *AuditInner) ListObjectVersions(ctx context.Context, b storage.BucketName, o storage.ListObjectVersionsOptions) (*storage.ListObjectVersionsResult, error) {
	if err := a.do(ctx, "ListObjectVersions"); err != nil {
		return nil, err
	}
	return &storage.ListObjectVersionsResult{}, nil
}
func (a *AuditInner) HeadObject(ctx context.Context, b storage.BucketName, k storage.ObjectKey, o *storage.HeadObjectOptions) (*storage.Object, error) {
	if err := a.do(ctx, "HeadObject"); err != nil {
		return nil, err
	}
	return &storage.Object{}, nil
}
func (a *AuditInner) GetObject(ctx context.Context, b storage.BucketName, k storage.ObjectKey, r []storage.ByteRange, o *storage.GetObjectOptions) (*storage.Object, []io.ReadCloser, error) {
	if err := a.do(ctx, "GetObject"); err != nil {
		return nil, nil, err
	}
	return &storage.Object{}, nil, nil
}
func (a *AuditInner) PutObject(ctx context.Context, b storage.BucketName, k storage.ObjectKey, ct *string, d io.Reader, c *storage.ChecksumInput, o *storage.PutObjectOptions) (*storage.PutObjectResult, error) {
	if err := a.do(ctx, "PutObject"); err != nil {
		return nil, err
	}
	return &storage.PutObjectResult{}, nil
}
func (a *AuditInner) CopyObject(ctx context.Context, sb storage.BucketName, sk storage.ObjectKey, db storage.BucketName, dk storage.ObjectKey, o *storage.CopyObjectOptions) (*storage.CopyObjectResult, error) {
	if err := a.do(ctx, "CopyObject"); err != nil {
		return nil, err
	}
	return &storage.CopyObjectResult{}, nil
}
func (a *AuditInner) AppendObject(ctx context.Context, b storage.BucketName, k storage.ObjectKey, d io.Reader, c *storage.ChecksumInput, o *storage.AppendObjectOptions) (*storage.AppendObjectResult, error) {
	if err := a.do(ctx, "AppendObject"); err != nil {
		return nil, err
	}
	return &storage.AppendObjectResult{}, nil
}
func (a *AuditInner) DeleteObject(ctx context.Context, b storage.BucketName, k storage.ObjectKey, o *storage.DeleteObjectOptions) (*storage.DeleteObjectResult, error) {
	if err := a.do(ctx, "DeleteObject"); err != nil {
		return nil, err
	}
	return &storage.DeleteObjectResult{}, nil
}
func (a *AuditInner) DeleteObjects(ctx context.Context, b storage.BucketName, e []storage.DeleteObjectsInputEntry) (*storage.DeleteObjectsResult, error) {
	if err := a.do(ctx, "DeleteObjects"); err != nil {
		return nil, err
	}
	return &storage.DeleteObjectsResult{}, nil
}
func (a *AuditInner) TransitionObjectStorageClass(ctx context.Context, b storage.BucketName, k storage.ObjectKey, cl string, o *storage.TransitionObjectStorageClassOptions) error {
	return a.do(ctx, "TransitionObjectStorageClass")
}
func (a *AuditInner) CreateMultipartUpload(ctx context.Context, b storage.BucketName, k storage.ObjectKey, ct *string, cht *string, o *storage.CreateMultipartUploadOptions) (*storage.InitiateMultipartUploadResult, error) {
	if err := a.do(ctx, "CreateMultipartUpload"); err != nil {
		return nil, err
	}
	n := a.nextUp.Add(1)
	return &storage.InitiateMultipartUploadResult{UploadId: storage.MustNewUploadId("up-" + auditItoa(n))}, nil
}
func (a *AuditInner) UploadPart(ctx context.Context, b storage.BucketName, k storage.ObjectKey, u storage.UploadId, p int32, d io.Reader, c *storage.ChecksumInput) (*storage.UploadPartResult, error) {
	if err := a.do(ctx, "UploadPart"); err != nil {
		return nil, err
	}
	return &storage.UploadPartResult{}, nil
}
func (a *AuditInner) UploadPartCopy(ctx context.Context, sb storage.BucketName, sk storage.ObjectKey, db storage.BucketName, dk storage.ObjectKey, u storage.UploadId, p int32, o *storage.UploadPartCopyOptions) (*storage.UploadPartCopyResult, error) {
	if err := a.do(ctx, "UploadPartCopy"); err != nil {
		return nil, err
	}
	return &storage.UploadPartCopyResult{}, nil
}
func (a *AuditInner) CompleteMultipartUpload(ctx context.Context, b storage.BucketName, k storage.ObjectKey, u storage.UploadId, c *storage.ChecksumInput, o *storage.CompleteMultipartUploadOptions) (*storage.CompleteMultipartUploadResult, error) {
	if err := a.do(ctx, "CompleteMultipartUpload"); err != nil {
		return nil, err
	}
	return &storage.CompleteMultipartUploadResult{}, nil
}
func (a *AuditInner) AbortMultipartUpload(ctx context.Context, b storage.BucketName, k storage.ObjectKey, u storage.UploadId) error {
	return a.do(ctx, "AbortMultipartUpload")
}
func (a *AuditInner) ListMultipartUploads(ctx context.Context, b storage.BucketName, o storage.ListMultipartUploadsOptions) (*storage.ListMultipartUploadsResult, error) {
	if err := a.do(ctx, "ListMultipartUploads"); err != nil {
		return nil, err
	}
	return &storage.ListMultipartUploadsResult{}, nil
}
func (a *AuditInner) ListParts(ctx context.Context, b storage.BucketName, k storage.ObjectKey, u storage.UploadId, o storage.ListPartsOptions) (*storage.ListPartsResult, error) {
	if err := a.do(ctx, "ListParts"); err != nil {
		return nil, err
	}
	return &storage.ListPartsResult{}, nil
}

func auditItoa(n int64) string {
	if n == 0 {
		return "0"
	}
	var b [20]byte
	i := len(b)
	for n > 0 {
		i--
		b[i] = byte('0' + n%10)
		n /= 10
	}
	return string(b[i:])
}
