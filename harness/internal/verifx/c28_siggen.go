//go:build verif

package verifx

// Generator of S3-shaped request specifications for C28/C29.

import (
	"strings"
	"time"

	"github.com/aws/smithy-go/encoding/httpbinding"
)

var SigCreds = []SigCred{
	{AK: "AKIAVERIFPITHOS0001", SK: "verif/secret+one/0123456789abcdefABCDEF"},
	{AK: "AKIAVERIFPITHOS0002", SK: "another-Secret/two+9876543210zyxwvuTSRQ"},
}

const SigRegion = "eu-verif-1"

var plainPieces = []string{"a", "b1", "photo", "x.y", "A-Z_~", "obj", "2024", "k", "data.bin", "Z"}
var specialPieces = []string{" ", "+", "%", "~", "*", "'", "\"", "!", "(", ")", "&", "=", "?", "#", ":", "@", "$", ",", ";",
	"[", "]", "{", "}", "|", "\\", "^", "`", "<", ">", "%20", "%2F", "%2f", "%zz", "a b", "a+b", "  ", "\x7f", "\x01"}
var unicodePieces = []string{"ä", "é", "日本", "😀", "ß", "Ω", " ", "ı"}
var sepPieces = []string{"/", "/", "/", "//", "/./", "/../", "///"}

// GenKey builds an object key from plain, reserved, unicode and separator pieces.
func GenKey(r *Rng) string {
	n := 1 + r.Intn(6)
	var b strings.Builder
	for i := 0; i < n; i++ {
		switch x := r.Intn(100); {
		case x < 40:
			b.WriteString(Pick(r, plainPieces))
		case x < 70:
			b.WriteString(Pick(r, specialPieces))
		case x < 85:
			b.WriteString(Pick(r, unicodePieces))
		default:
			b.WriteString(Pick(r, sepPieces))
		}
	}
	return b.String()
}

func genValue(r *Rng, weird bool) string {
	n := 1 + r.Intn(3)
	var b strings.Builder
	for i := 0; i < n; i++ {
		if weird && r.Chance(1, 2) {
			if r.Chance(2, 3) {
				b.WriteString(Pick(r, specialPieces))
			} else {
				b.WriteString(Pick(r, unicodePieces))
			}
		} else {
			b.WriteString(Pick(r, plainPieces))
		}
	}
	return b.String()
}

var s3QueryNames = []string{"prefix", "delimiter", "marker", "max-keys", "list-type", "continuation-token", "start-after",
	"uploadId", "partNumber", "versionId", "x-id", "response-content-type", "response-content-disposition", "tagging", "acl", "uploads"}

// SigProfile steers the generator away from (or into) the two known C29 triggers.
type SigProfile struct {
	WeirdQueryKeys bool // query keys/values whose byte order changes under percent-encoding
	InnerSpaceRuns bool // header values with runs of inner spaces
}

// orderSensitive reports whether sorting the strings decoded and sorting them percent-encoded
// can disagree: some string has a byte that gets escaped (the escape starts with '%', which
// sorts before every unreserved byte).
func needsEscape(s string) bool {
	for i := 0; i < len(s); i++ {
		c := s[i]
		if !(c >= 'A' && c <= 'Z' || c >= 'a' && c <= 'z' || c >= '0' && c <= '9' || c == '-' || c == '.' || c == '_' || c == '~') {
			return true
		}
	}
	return false
}

func genQuery(r *Rng, p SigProfile) [][2]string {
	var q [][2]string
	n := r.Intn(5)
	if r.Chance(1, 4) {
		n = 0
	}
	for i := 0; i < n; i++ {
		name := Pick(r, s3QueryNames)
		if p.WeirdQueryKeys && r.Chance(1, 2) {
			name = genValue(r, true)
		}
		val := ""
		if !r.Chance(1, 6) {
			val = genValue(r, r.Chance(1, 2))
		}
		q = append(q, [2]string{name, val})
		if r.Chance(1, 5) { // repeated key
			v2 := genValue(r, p.WeirdQueryKeys && r.Chance(1, 2))
			q = append(q, [2]string{name, v2})
		}
	}
	if !p.WeirdQueryKeys {
		// keep the run free of the known query-order trigger: for a repeated key, the values
		// must not need escaping (their order is then the same decoded and encoded)
		seen := map[string]int{}
		for _, kv := range q {
			seen[kv[0]]++
		}
		for i := range q {
			if seen[q[i][0]] > 1 && needsEscape(q[i][1]) {
				q[i][1] = "v" + Pick(r, plainPieces)
			}
		}
	}
	return q
}

var wsPieces = []string{" ", "  ", "\t", " \t ", "   "}

func genHeaderValue(r *Rng, p SigProfile) string {
	var b strings.Builder
	if r.Chance(1, 4) {
		b.WriteString(Pick(r, wsPieces)) // leading white space (the transport trims it)
	}
	words := 1 + r.Intn(3)
	for i := 0; i < words; i++ {
		if i > 0 {
			if p.InnerSpaceRuns && r.Chance(1, 2) {
				b.WriteString(Pick(r, []string{"  ", "   ", "    ", " \t  "}))
			} else if r.Chance(1, 6) {
				b.WriteString("\t")
			} else {
				b.WriteString(" ")
			}
		}
		switch x := r.Intn(10); {
		case x < 6:
			b.WriteString(Pick(r, plainPieces))
		case x < 8:
			b.WriteString(Pick(r, []string{"a,b", "x=y", "q;r", "\"quoted\"", "(p)", "a/b", "50%", "é", "日本", "+", "*", "~", "'"}))
		default:
			b.WriteString(Pick(r, []string{"ä", "ß", "Ω"}))
		}
	}
	if r.Chance(1, 4) {
		b.WriteString(Pick(r, wsPieces)) // trailing
	}
	return b.String()
}

var metaNames = []string{"X-Amz-Meta-A", "x-amz-meta-b", "X-AMZ-META-Case", "x-amz-meta-long-name-1", "X-Amz-Meta-Z9"}

func genHeaders(r *Rng, p SigProfile, hasBody bool) [][2]string {
	var h [][2]string
	if hasBody && r.Chance(2, 3) {
		h = append(h, [2]string{"Content-Type", Pick(r, []string{"text/plain", "application/octet-stream", "text/html; charset=utf-8", "application/x-www-form-urlencoded"})})
	}
	n := r.Intn(4)
	for i := 0; i < n; i++ {
		h = append(h, [2]string{Pick(r, metaNames), genHeaderValue(r, p)})
	}
	if r.Chance(1, 6) { // a header sent twice
		h = append(h, [2]string{"X-Amz-Meta-Multi", genHeaderValue(r, SigProfile{})}, [2]string{"X-Amz-Meta-Multi", genHeaderValue(r, SigProfile{})})
	}
	if r.Chance(1, 5) {
		h = append(h, [2]string{"Cache-Control", "no-cache, max-age=0"})
	}
	if r.Chance(1, 6) {
		h = append(h, [2]string{"x-amz-acl", "public-read"})
	}
	if r.Chance(1, 6) {
		h = append(h, [2]string{"x-amz-storage-class", "STANDARD"})
	}
	if r.Chance(1, 6) {
		h = append(h, [2]string{"x-amz-tagging", "k=v&k2=" + Pick(r, plainPieces)})
	}
	if r.Chance(1, 8) {
		h = append(h, [2]string{"Content-MD5", "1B2M2Y8AsgTpgAmY7PhCfg=="})
	}
	if r.Chance(1, 8) {
		h = append(h, [2]string{"Range", "bytes=0-9"})
	}
	if r.Chance(1, 8) {
		h = append(h, [2]string{"If-Match", "\"0123abc\""})
	}
	if r.Chance(1, 8) {
		h = append(h, [2]string{"x-amz-copy-source", "/src/" + httpbinding.EscapePath(GenKey(r), false)}) // clients URL-encode it
	}
	if r.Chance(1, 6) {
		h = append(h, [2]string{"User-Agent", "verif-agent/1.0 (" + Pick(r, plainPieces) + ")"})
	}
	if r.Chance(1, 10) {
		h = append(h, [2]string{"X-Amzn-Trace-Id", "Root=1-5759e988-bd862e3fe1be46a994272793"})
	}
	return h
}

var sigHosts = []string{"s3.verif.test", "s3.verif.test:9000", "127.0.0.1:8080", "S3.Verif.Test", "[::1]:9000", "s3.verif.test:80", "bucket.s3.verif.test"}
var sigBuckets = []string{"b", "bucket-1", "my.bucket", "verif"}
var TrailerNames = []string{"x-amz-checksum-crc32", "x-amz-checksum-crc32c", "x-amz-checksum-crc64nvme", "x-amz-checksum-sha1", "x-amz-checksum-sha256"}

// GenSpec draws one request specification.
func GenSpec(r *Rng, p SigProfile, now time.Time) *SigSpec {
	s := &SigSpec{Region: SigRegion, Cred: Pick(r, SigCreds), Host: Pick(r, sigHosts), Bucket: Pick(r, sigBuckets)}
	switch x := r.Intn(100); {
	case x < 30:
		s.Mode = ModeHash
	case x < 45:
		s.Mode = ModeUnsigned
	case x < 65:
		s.Mode = ModePresign
	case x < 77:
		s.Mode = ModeStream
	case x < 87:
		s.Mode = ModeStreamTrailer
	case x < 97:
		s.Mode = ModeStreamUnsignedTrailer
	default:
		s.Mode = ModeStreamUnsigned
	}
	switch {
	case IsStreaming(s.Mode):
		s.Method = "PUT"
	case s.Mode == ModePresign:
		s.Method = Pick(r, []string{"GET", "GET", "PUT", "HEAD", "DELETE"})
	default:
		s.Method = Pick(r, []string{"GET", "GET", "PUT", "PUT", "HEAD", "DELETE", "POST"})
	}
	switch x := r.Intn(20); {
	case x == 0:
		s.Bucket = "" // service root
	case x == 1:
		s.NoSlash = true // bucket-level request
	case x == 2:
		s.Key = "" // "/bucket/"
	default:
		s.Key = GenKey(r)
	}
	s.Query = genQuery(r, p)
	hasBody := s.Method == "PUT" || s.Method == "POST"
	if hasBody && !r.Chance(1, 8) {
		s.Body = r.Bytes(genSize(r))
	}
	if IsStreaming(s.Mode) && len(s.Body) == 0 && r.Chance(3, 4) {
		s.Body = r.Bytes(1 + r.Intn(300))
	}
	s.Header = genHeaders(r, p, hasBody)
	if IsStreaming(s.Mode) {
		if r.Chance(1, 8) {
			s.Header = append(s.Header, [2]string{"Content-Encoding", "gzip"})
		}
		nch := r.Intn(5)
		for i := 0; i < nch; i++ {
			s.Chunks = append(s.Chunks, 1+r.Intn(1+len(s.Body)))
		}
		if s.Mode == ModeStreamTrailer || s.Mode == ModeStreamUnsignedTrailer {
			if !r.Chance(1, 8) {
				s.Trailer = Pick(r, TrailerNames)
			}
			s.AltFrame = r.Chance(1, 5)
		}
	}
	if hasBody && len(s.Body) > 0 && !IsStreaming(s.Mode) && r.Chance(1, 8) {
		s.TEChunk = true
	}
	if r.Chance(1, 3) {
		s.Respell(r)
	}
	// the query-string carrier combined with the other payload modes (one request in five)
	if s.Mode != ModePresign && r.Chance(1, 5) {
		s.Presign = true
	}
	if s.IsPresigned() {
		s.Expires = Pick(r, []int{300, 900, 3600, 86400, 604800})
	}
	s.SignTime = now.Add(time.Duration(r.Intn(81)-40) * time.Second)
	return s
}

func genSize(r *Rng) int {
	switch r.Intn(6) {
	case 0:
		return 1
	case 1:
		return 1 + r.Intn(16)
	case 2:
		return 1024
	default:
		return 1 + r.Intn(700)
	}
}
