//go:build verif

package verifx

// Shared by the C28, C29 and C30 harnesses: building requests the way the AWS SDK's S3 client
// builds and signs them, an aws-chunked encoder (SigV4 streaming spec), a raw HTTP/1.1 wire
// representation that can be mutated byte by byte, and a loop-back server that records what the
// code under test received.

import (
	"bufio"
	"bytes"
	"context"
	"crypto/hmac"
	"crypto/sha1"
	"crypto/sha256"
	"encoding/base64"
	"encoding/hex"
	"fmt"
	"hash"
	"hash/crc32"
	"hash/crc64"
	"io"
	"net"
	"net/http"
	"net/http/httptest"
	"net/url"
	"os"
	"sort"
	"strconv"
	"strings"
	"sync"
	"time"

	"github.com/aws/aws-sdk-go-v2/aws"
	v4 "github.com/aws/aws-sdk-go-v2/aws/signer/v4"
	"github.com/aws/smithy-go/encoding/httpbinding"
	"github.com/jdillenkofer/pithos/internal/http/server/authentication"
)

type SigCred struct{ AK, SK string }

// Payload modes.
const (
	ModeHash                  = "hash"       // x-amz-content-sha256 = hex(sha256(body))
	ModeUnsigned              = "unsigned"   // UNSIGNED-PAYLOAD
	ModePresign               = "presign"    // presigned URL (UNSIGNED-PAYLOAD)
	ModeStream                = "stream"     // STREAMING-AWS4-HMAC-SHA256-PAYLOAD
	ModeStreamTrailer         = "streamtr"   // STREAMING-AWS4-HMAC-SHA256-PAYLOAD-TRAILER
	ModeStreamUnsignedTrailer = "ustreamtr"  // STREAMING-UNSIGNED-PAYLOAD-TRAILER
	ModeStreamUnsigned        = "ustream"    // STREAMING-UNSIGNED-PAYLOAD (no trailer)
)

func IsStreaming(mode string) bool {
	return mode == ModeStream || mode == ModeStreamTrailer || mode == ModeStreamUnsignedTrailer || mode == ModeStreamUnsigned
}

func ContentSHA256For(mode string, body []byte) string {
	switch mode {
	case ModeUnsigned, ModePresign:
		return "UNSIGNED-PAYLOAD"
	case ModeStream:
		return "STREAMING-AWS4-HMAC-SHA256-PAYLOAD"
	case ModeStreamTrailer:
		return "STREAMING-AWS4-HMAC-SHA256-PAYLOAD-TRAILER"
	case ModeStreamUnsignedTrailer:
		return "STREAMING-UNSIGNED-PAYLOAD-TRAILER"
	case ModeStreamUnsigned:
		return "STREAMING-UNSIGNED-PAYLOAD"
	}
	s := sha256.Sum256(body)
	return hex.EncodeToString(s[:])
}

// SigSpec is what the client application asks the SDK to send.
type SigSpec struct {
	Method   string
	Host     string
	Bucket   string
	Key      string     // object key, raw bytes (may be empty)
	NoSlash  bool       // path is "/bucket" (or "/" when Bucket is empty) instead of "/bucket/key"
	Query    [][2]string // decoded pairs, in the order the application added them
	RawQuery *string    // when set, used verbatim as the raw query (hand-written URL forms)
	Header   [][2]string // application headers (name, value); repeated names = several values
	Body     []byte
	Mode     string
	Trailer  string // x-amz-checksum-… name for trailer modes ("" = none declared), lower case
	// Spellings of things HTTP/S3 treat case-insensitively ("" = the lower-case default):
	TrailerDecl string // the x-amz-trailer header value as sent (e.g. "X-Amz-Checksum-CRC32", " x-amz-checksum-crc32 ")
	TrailerLine string // the name of the checksum line in the trailer section of the body
	ChunkedWord string // the aws-chunked token in Content-Encoding (e.g. "AWS-Chunked")
	NameCase    int    // header names on the wire: 0 as net/http writes them, 1 lower case, 2 upper case
	Chunks   []int  // chunk sizes for streaming modes (the rest goes into a last chunk)
	AltFrame bool   // put a blank line between the zero chunk and the trailer section
	TEChunk  bool   // send the body with Transfer-Encoding: chunked (length unknown to the signer) instead of Content-Length
	Presign  bool   // credentials in the query string (presigned URL), with whatever payload Mode says
	Expires  int    // presign: X-Amz-Expires
	Cred     SigCred
	Region   string
	SignTime time.Time
}

// EscapedObjectPath is how the S3 client writes bucket and key into the URL
// (smithy httpbinding: every byte except unreserved ones and '/' is %XX-escaped).
func (s *SigSpec) paths() (path, rawPath string) {
	if s.Bucket == "" {
		return "/", "/"
	}
	if s.NoSlash {
		return "/" + s.Bucket, "/" + s.Bucket
	}
	return "/" + s.Bucket + "/" + s.Key, "/" + s.Bucket + "/" + httpbinding.EscapePath(s.Key, false)
}

// Wire is an HTTP/1.1 request as text: it can be mutated freely and is written verbatim.
type Wire struct {
	Method  string
	Target  string // request-target: escaped path [ "?" raw query ]
	Headers [][2]string
	Body    []byte
	// Decoded, when non-nil, is the body net/http hands to handlers after removing its own
	// Transfer-Encoding: chunked framing (Body then holds the framed bytes that go on the wire).
	Decoded []byte
}

// TEFrame is HTTP/1.1 chunked transfer coding of b in one chunk (what http.Request.Write emits
// for a body of unknown length is equivalent).
func TEFrame(b []byte) []byte {
	var out bytes.Buffer
	if len(b) > 0 {
		fmt.Fprintf(&out, "%x\r\n", len(b))
		out.Write(b)
		out.WriteString("\r\n")
	}
	out.WriteString("0\r\n\r\n")
	return out.Bytes()
}

// HandlerBody is the request body as a handler reads it.
func (w *Wire) HandlerBody() []byte {
	if w.Decoded != nil {
		return w.Decoded
	}
	return w.Body
}

func (w *Wire) Clone() *Wire {
	c := &Wire{Method: w.Method, Target: w.Target, Body: append([]byte(nil), w.Body...)}
	if w.Decoded != nil {
		c.Decoded = append([]byte{}, w.Decoded...)
	}
	c.Headers = append([][2]string(nil), w.Headers...)
	return c
}

func (w *Wire) Get(name string) (int, string) {
	for i, h := range w.Headers {
		if strings.EqualFold(h[0], name) {
			return i, h[1]
		}
	}
	return -1, ""
}

func (w *Wire) Set(name, value string) {
	if i, _ := w.Get(name); i >= 0 {
		w.Headers[i][1] = value
		return
	}
	w.Headers = append(w.Headers, [2]string{name, value})
}

func (w *Wire) Del(name string) {
	out := w.Headers[:0:0]
	for _, h := range w.Headers {
		if !strings.EqualFold(h[0], name) {
			out = append(out, h)
		}
	}
	w.Headers = out
}

// SplitTarget returns the escaped path and the raw query of the request-target.
func (w *Wire) SplitTarget() (string, string, bool) {
	p, q, has := strings.Cut(w.Target, "?")
	return p, q, has
}

func (w *Wire) Bytes() []byte {
	var b bytes.Buffer
	fmt.Fprintf(&b, "%s %s HTTP/1.1\r\n", w.Method, w.Target)
	for _, h := range w.Headers {
		fmt.Fprintf(&b, "%s: %s\r\n", h[0], h[1])
	}
	b.WriteString("\r\n")
	b.Write(w.Body)
	return b.Bytes()
}

// FixContentLength sets Content-Length to the current body length (used after body mutations
// that change the length; whether that header was signed is the property's business).
func (w *Wire) FixContentLength() {
	if i, _ := w.Get("Content-Length"); i >= 0 {
		w.Headers[i][1] = strconv.Itoa(len(w.Body))
	}
}

// parseWire splits what http.Request.Write produced.
func parseWire(raw []byte) *Wire {
	head, body, _ := bytes.Cut(raw, []byte("\r\n\r\n"))
	lines := strings.Split(string(head), "\r\n")
	parts := strings.SplitN(lines[0], " ", 3)
	w := &Wire{Method: parts[0], Target: parts[1], Body: append([]byte(nil), body...)}
	for _, l := range lines[1:] {
		k, v, _ := strings.Cut(l, ": ")
		w.Headers = append(w.Headers, [2]string{k, v})
	}
	return w
}

// Signed is the outcome of building and signing a spec with the SDK.
type Signed struct {
	Wire      *Wire
	Payload   []byte // the decoded payload the application meant to send
	Timestamp string
	Scope     string
	SeedSig   string
	SignKey   []byte
}

func hmacSHA256(key, data []byte) []byte {
	h := hmac.New(sha256.New, key)
	h.Write(data)
	return h.Sum(nil)
}

func DeriveSigningKey(secret, date, region, service string) []byte {
	k := hmacSHA256([]byte("AWS4"+secret), []byte(date))
	k = hmacSHA256(k, []byte(region))
	k = hmacSHA256(k, []byte(service))
	return hmacSHA256(k, []byte("aws4_request"))
}

// TrailerHash returns the checksum the trailer named name carries (computed with the Go
// standard library, independently of pithos' checksumutils).
func TrailerHash(name string) hash.Hash {
	switch name {
	case "x-amz-checksum-crc32":
		return crc32.NewIEEE()
	case "x-amz-checksum-crc32c":
		return crc32.New(crc32.MakeTable(crc32.Castagnoli))
	case "x-amz-checksum-crc64nvme":
		return crc64.New(crc64.MakeTable(0x9a6c9329ac4bc9b5))
	case "x-amz-checksum-sha1":
		return sha1.New()
	case "x-amz-checksum-sha256":
		return sha256.New()
	}
	return nil
}

func TrailerValue(name string, payload []byte) string {
	h := TrailerHash(name)
	if h == nil {
		return ""
	}
	h.Write(payload)
	return base64.StdEncoding.EncodeToString(h.Sum(nil))
}

// ChunkEnc describes one aws-chunked encoding of a payload.
type ChunkEnc struct {
	Signed      bool // chunk signatures (and a trailer signature when Trailer is set)
	HasTrailer  bool // mode …-TRAILER
	TrailerName string // lower-case algorithm header name (selects the checksum)
	LineName    string // how the name is spelled in the trailer line ("" = TrailerName)
	Sizes       []int
	AltFrame    bool
	Alg         string // "AWS4-HMAC-SHA256"
	Timestamp   string
	Scope       string
	SeedSig     string
	SignKey     []byte
}

const emptySHA256 = "e3b0c44298fc1c149afbf4c8996fb92427ae41e4649b934ca495991b7852b855"

// ChunkSignature computes one chunk signature per the SigV4 streaming specification.
func (e *ChunkEnc) ChunkSignature(prev string, data []byte) string {
	d := sha256.Sum256(data)
	sts := e.Alg + "-PAYLOAD\n" + e.Timestamp + "\n" + e.Scope + "\n" + prev + "\n" + emptySHA256 + "\n" + hex.EncodeToString(d[:])
	return hex.EncodeToString(hmacSHA256(e.SignKey, []byte(sts)))
}

func (e *ChunkEnc) TrailerSignature(prev string, trailerLine string) string {
	d := sha256.Sum256([]byte(trailerLine + "\n"))
	sts := e.Alg + "-TRAILER\n" + e.Timestamp + "\n" + e.Scope + "\n" + prev + "\n" + hex.EncodeToString(d[:])
	return hex.EncodeToString(hmacSHA256(e.SignKey, []byte(sts)))
}

// Split cuts the payload according to Sizes; whatever is left forms a last chunk.
func (e *ChunkEnc) Split(payload []byte) [][]byte {
	var out [][]byte
	rest := payload
	for _, n := range e.Sizes {
		if n <= 0 || len(rest) == 0 {
			continue
		}
		if n > len(rest) {
			n = len(rest)
		}
		out = append(out, rest[:n])
		rest = rest[n:]
	}
	if len(rest) > 0 {
		out = append(out, rest)
	}
	return out
}

// Encode produces the aws-chunked body.
func (e *ChunkEnc) Encode(payload []byte) []byte {
	var b bytes.Buffer
	prev := e.SeedSig
	for _, c := range e.Split(payload) {
		if e.Signed {
			sig := e.ChunkSignature(prev, c)
			fmt.Fprintf(&b, "%x;chunk-signature=%s\r\n", len(c), sig)
			prev = sig
		} else {
			fmt.Fprintf(&b, "%x\r\n", len(c))
		}
		b.Write(c)
		b.WriteString("\r\n")
	}
	if e.Signed {
		sig := e.ChunkSignature(prev, nil)
		fmt.Fprintf(&b, "0;chunk-signature=%s\r\n", sig)
		prev = sig
	} else {
		b.WriteString("0\r\n")
	}
	if e.HasTrailer {
		if e.AltFrame {
			b.WriteString("\r\n")
		}
		if e.TrailerName != "" {
			name := e.LineName
			if name == "" {
				name = e.TrailerName
			}
			line := name + ":" + TrailerValue(e.TrailerName, payload)
			b.WriteString(line + "\r\n")
			if e.Signed {
				b.WriteString("x-amz-trailer-signature:" + e.TrailerSignature(prev, line) + "\r\n")
			}
		} else if e.Signed {
			b.WriteString("x-amz-trailer-signature:" + e.TrailerSignature(prev, "") + "\r\n")
		}
		b.WriteString("\r\n")
	} else {
		b.WriteString("\r\n")
	}
	return b.Bytes()
}

var sdkSigner = v4.NewSigner(func(o *v4.SignerOptions) {
	// exactly what service/s3 sets (api_client.go: so.DisableURIPathEscaping = true)
	o.DisableURIPathEscaping = true
})

// IsPresigned: the credentials travel in the query string (presigned URL). ModePresign is the
// S3 presign client's own shape (UNSIGNED-PAYLOAD, no payload header); Presign = true combines the
// query-string carrier with any payload mode, including the aws-chunked streaming modes.
func (s *SigSpec) IsPresigned() bool { return s.Presign || s.Mode == ModePresign }

// Label names carrier and payload mode for traces and statistics.
func (s *SigSpec) Label() string {
	if s.Presign && s.Mode != ModePresign {
		return "presign+" + s.Mode
	}
	return s.Mode
}

// Build assembles the http.Request as the S3 client does, signs it with the real SDK signer
// (SignHTTP, or PresignHTTP for the query-string carrier), serialises it with http.Request.Write
// (what the Go transport puts on the wire) and returns the text. For the streaming modes the
// body is framed by ChunkEnc, the chunk chain seeded by the request's own signature: the
// Authorization header's, or X-Amz-Signature of a presigned URL.
func (s *SigSpec) Build() (*Signed, error) {
	path, rawPath := s.paths()
	u := &url.URL{Scheme: "http", Host: s.Host, Path: path, RawPath: rawPath}
	if s.RawQuery != nil {
		u.RawQuery = *s.RawQuery
	} else {
		vals := url.Values{}
		for _, kv := range s.Query {
			vals.Add(kv[0], kv[1])
		}
		u.RawQuery = vals.Encode()
	}
	req := &http.Request{Method: s.Method, URL: u, Host: s.Host, Header: http.Header{}, Proto: "HTTP/1.1", ProtoMajor: 1, ProtoMinor: 1}
	for _, kv := range s.Header {
		req.Header.Add(kv[0], kv[1])
	}
	cred := aws.Credentials{AccessKeyID: s.Cred.AK, SecretAccessKey: s.Cred.SK}
	ts := s.SignTime.UTC().Format("20060102T150405Z")
	date := ts[:8]
	out := &Signed{Payload: s.Body, Timestamp: ts, Scope: date + "/" + s.Region + "/s3/aws4_request",
		SignKey: DeriveSigningKey(s.Cred.SK, date, s.Region, "s3")}
	ph := ContentSHA256For(s.Mode, s.Body)
	ctx := context.Background()
	presigned := s.IsPresigned()

	// payload-mode headers (a presigned URL of the S3 presign client carries none of them)
	if !presigned || (s.Mode != ModePresign && s.Mode != ModeHash) {
		req.Header.Set("X-Amz-Content-Sha256", ph)
	}
	var enc *ChunkEnc
	if IsStreaming(s.Mode) {
		enc = &ChunkEnc{Signed: s.Mode == ModeStream || s.Mode == ModeStreamTrailer,
			HasTrailer: s.Mode == ModeStreamTrailer || s.Mode == ModeStreamUnsignedTrailer, TrailerName: s.Trailer, LineName: s.TrailerLine,
			Sizes: s.Chunks, AltFrame: s.AltFrame, Alg: "AWS4-HMAC-SHA256", Timestamp: ts, Scope: out.Scope, SignKey: out.SignKey}
		word := s.ChunkedWord
		if word == "" {
			word = "aws-chunked"
		}
		ce := req.Header.Get("Content-Encoding")
		if ce == "" {
			req.Header.Set("Content-Encoding", word)
		} else {
			req.Header.Set("Content-Encoding", word+","+ce)
		}
		req.Header.Set("X-Amz-Decoded-Content-Length", strconv.Itoa(len(s.Body)))
		if enc.HasTrailer && s.Trailer != "" {
			decl := s.TrailerDecl
			if decl == "" {
				decl = s.Trailer
			}
			req.Header.Set("X-Amz-Trailer", decl)
		}
		// the encoded length does not depend on the signature values
		enc.SeedSig = strings.Repeat("0", 64)
		req.ContentLength = int64(len(enc.Encode(s.Body)))
	} else {
		req.ContentLength = int64(len(s.Body))
	}
	teChunk := s.TEChunk && enc == nil && len(s.Body) > 0
	if teChunk {
		req.ContentLength = -1 // the signer then has no content-length to sign
	}

	send := req
	if presigned {
		q := req.URL.Query()
		q.Set("X-Amz-Expires", strconv.Itoa(s.Expires))
		req.URL.RawQuery = q.Encode()
		// S3 verifies a presigned request against UNSIGNED-PAYLOAD whatever the body is.
		signedURL, signedHeaders, err := sdkSigner.PresignHTTP(ctx, cred, req, "UNSIGNED-PAYLOAD", "s3", s.Region, s.SignTime,
			func(o *v4.SignerOptions) {
				// the streaming headers (x-amz-decoded-content-length, x-amz-trailer) are read by the
				// server as headers: keep them headers instead of hoisting them into the query
				o.DisableHeaderHoisting = enc != nil
			})
		if err != nil {
			return nil, err
		}
		su, err := url.Parse(signedURL)
		if err != nil {
			return nil, err
		}
		// the party holding the URL sends exactly the signed headers (minus host/length, which the
		// transport writes itself), including the Host value the SDK signed (it strips a default port)
		host := s.Host
		if h := signedHeaders.Get("Host"); h != "" {
			host = h
		}
		send = &http.Request{Method: s.Method, URL: su, Host: host, Header: http.Header{}, Proto: "HTTP/1.1", ProtoMajor: 1, ProtoMinor: 1}
		for k, vs := range signedHeaders {
			if k == "Host" || k == "Content-Length" {
				continue
			}
			for _, v := range vs {
				send.Header.Add(k, v)
			}
		}
		out.SeedSig = su.Query().Get("X-Amz-Signature")
	} else {
		if err := sdkSigner.SignHTTP(ctx, cred, req, ph, "s3", s.Region, s.SignTime); err != nil {
			return nil, err
		}
		auth := req.Header.Get("Authorization")
		if i := strings.LastIndex(auth, "Signature="); i >= 0 {
			out.SeedSig = auth[i+len("Signature="):]
		}
	}
	body := s.Body
	if enc != nil {
		enc.SeedSig = out.SeedSig
		body = enc.Encode(s.Body)
	}
	send.ContentLength = int64(len(body))
	if teChunk {
		send.ContentLength = -1
	}
	if len(body) > 0 {
		send.Body = io.NopCloser(bytes.NewReader(body))
	} else {
		send.Body = http.NoBody
	}
	var buf bytes.Buffer
	if err := send.Write(&buf); err != nil {
		return nil, err
	}
	out.Wire = parseWire(buf.Bytes())
	if s.NameCase != 0 {
		// header field names are case-insensitive: respell them on the wire (the signature covers
		// their lower-case form)
		for i := range out.Wire.Headers {
			if s.NameCase == 1 {
				out.Wire.Headers[i][0] = strings.ToLower(out.Wire.Headers[i][0])
			} else {
				out.Wire.Headers[i][0] = strings.ToUpper(out.Wire.Headers[i][0])
			}
		}
	}
	if teChunk {
		out.Wire.Decoded = append([]byte{}, body...)
	}
	return out, nil
}

// ---------------------------------------------------------------- loop-back server

// View is what the code under test was handed (recorded before it ran).
type View struct {
	Method string
	Path   string // r.URL.EscapedPath()
	Query  [][2]string
	Host   string
	Header [][]string // key, values…
}

// Seen is one request's observation.
type Seen struct {
	HasView  bool
	View     View
	Reached  bool // the inner handler ran
	Authed   bool
	AK       string
	BodyErr  bool
	BodyRead []byte
	Status   int
	RespBody []byte
}

func ViewOf(r *http.Request) View {
	v := View{Method: r.Method, Path: r.URL.EscapedPath(), Host: r.Host}
	q := r.URL.Query()
	keys := make([]string, 0, len(q))
	for k := range q {
		keys = append(keys, k)
	}
	sort.Strings(keys)
	for _, k := range keys {
		for _, val := range q[k] {
			v.Query = append(v.Query, [2]string{k, val})
		}
	}
	hk := make([]string, 0, len(r.Header))
	for k := range r.Header {
		hk = append(hk, k)
	}
	sort.Strings(hk)
	for _, k := range hk {
		v.Header = append(v.Header, append([]string{k}, r.Header[k]...))
	}
	return v
}

// Loop is a real net/http server on the loop-back interface in front of the handler under test.
type Loop struct {
	srv  *httptest.Server
	mu   sync.Mutex
	cur  *Seen
	conn net.Conn
	br   *bufio.Reader
}

// NewLoop wraps mk(inner) — inner is only used by harnesses that need a terminal handler and
// reports what it saw through Loop.Inner.
func NewLoop(handler http.Handler) *Loop {
	l := &Loop{}
	l.srv = httptest.NewServer(http.HandlerFunc(func(w http.ResponseWriter, r *http.Request) {
		l.mu.Lock()
		if l.cur != nil {
			l.cur.HasView = true
			l.cur.View = ViewOf(r)
		}
		l.mu.Unlock()
		handler.ServeHTTP(w, r)
	}))
	return l
}

// Note lets the terminal handler add to the observation of the request in flight.
func (l *Loop) Note(f func(s *Seen)) {
	l.mu.Lock()
	if l.cur != nil {
		f(l.cur)
	}
	l.mu.Unlock()
}

func (l *Loop) Close() {
	if l.conn != nil {
		l.conn.Close()
	}
	l.srv.Close()
}

func (l *Loop) URL() string { return l.srv.URL }

// Do writes the raw request and reads one response.
func (l *Loop) Do(raw []byte, method string) *Seen {
	seen := &Seen{}
	l.mu.Lock()
	l.cur = seen
	l.mu.Unlock()
	defer func() {
		l.mu.Lock()
		l.cur = nil
		l.mu.Unlock()
	}()
	for attempt := 0; attempt < 2; attempt++ {
		if l.conn == nil {
			c, err := net.Dial("tcp", l.srv.Listener.Addr().String())
			if err != nil {
				Fatalf("dial: %v", err)
			}
			l.conn = c
			l.br = bufio.NewReader(c)
		}
		l.conn.SetDeadline(time.Now().Add(20 * time.Second))
		_, werr := l.conn.Write(raw)
		var resp *http.Response
		var rerr error
		if werr == nil {
			resp, rerr = http.ReadResponse(l.br, &http.Request{Method: method})
		}
		if werr != nil || rerr != nil {
			l.conn.Close()
			l.conn = nil
			if attempt == 0 && !seen.HasView {
				continue // stale keep-alive connection: retry once
			}
			seen.Status = -1
			return seen
		}
		body, _ := io.ReadAll(resp.Body)
		resp.Body.Close()
		seen.Status = resp.StatusCode
		seen.RespBody = body
		if resp.Close || resp.StatusCode == 400 {
			l.conn.Close()
			l.conn = nil
		}
		return seen
	}
	return seen
}

// PrintView writes the server-side view of a request in the line protocol.
func PrintView(o *Out, v View, wireBody []byte) {
	o.Line("m %s", HexS(v.Method))
	o.Line("p %s", HexS(v.Path))
	for _, kv := range v.Query {
		o.Line("q %s %s", HexS(kv[0]), HexS(kv[1]))
	}
	o.Line("host %s", HexS(v.Host))
	for _, h := range v.Header {
		parts := make([]string, len(h))
		for i, x := range h {
			parts[i] = HexS(x)
		}
		o.Line("h %s", strings.Join(parts, " "))
	}
	o.Line("body %s", Hex(wireBody))
}

func B2i(b bool) int {
	if b {
		return 1
	}
	return 0
}

// sigLoop is the signature middleware in front of a body-reading 200 handler.
func SigLoop() *Loop {
	var l *Loop
	creds := make([]authentication.Credentials, len(SigCreds))
	for i, c := range SigCreds {
		creds[i] = authentication.Credentials{AccessKeyId: c.AK, SecretAccessKey: c.SK}
	}
	inner := http.HandlerFunc(func(w http.ResponseWriter, r *http.Request) {
		ak, _ := r.Context().Value(authentication.AccessKeyIdContextKey{}).(string)
		authed, _ := r.Context().Value(authentication.IsAuthenticatedContextKey{}).(bool)
		body, err := io.ReadAll(r.Body)
		l.Note(func(s *Seen) {
			s.Reached, s.Authed, s.AK, s.BodyErr, s.BodyRead = true, authed, ak, err != nil, body
		})
		if err != nil {
			w.WriteHeader(400)
			return
		}
		w.WriteHeader(200)
	})
	l = NewLoop(authentication.MakeSignatureMiddleware(creds, SigRegion, inner))
	return l
}

func SigCfgLine(out *Out) {
	parts := []string{HexS(SigRegion)}
	for _, c := range SigCreds {
		parts = append(parts, HexS(c.AK), HexS(c.SK))
	}
	out.Line("cfg %s", strings.Join(parts, " "))
}

// sendWire sends one wire request and prints its record.
func SendWire(out *Out, l *Loop, label, mode string, w *Wire, signer string, payload []byte, sdk bool) *Seen {
	now := time.Now().Unix()
	var seen *Seen
	func() {
		defer func() {
			if p := recover(); p != nil {
				seen = &Seen{Status: -2}
			}
		}()
		seen = l.Do(w.Bytes(), w.Method)
	}()
	if os.Getenv("VERIF_DUMP_WIRE") != "" {
		fmt.Fprintf(os.Stderr, "--- %s status=%d\n%q\n", label, seen.Status, w.Bytes())
	}
	out.Line("req %s %s %d %s %s %d", label, mode, now, HexS(signer), Hex(payload), B2i(sdk))
	if seen.HasView {
		PrintView(out, seen.View, w.HandlerBody())
	} else {
		out.Line("noview")
	}
	st := seen.Status
	if st < 0 {
		st = 999
	}
	out.Line("obs %d %d %d %s %d %s", st, B2i(seen.Reached), B2i(seen.Authed), HexS(seen.AK), B2i(seen.BodyErr), Hex(seen.BodyRead))
	out.Line("endreq")
	return seen
}


// FlipHex replaces the hex digit at position i by another one.
func FlipHex(s string, i int) string {
	b := []byte(s)
	if b[i] == '0' {
		b[i] = '1'
	} else {
		b[i] = '0'
	}
	return string(b)
}

// CaseVariant respells a case-insensitive token: upper case, MIME-canonical case, alternating
// case, or with surrounding blanks.
func CaseVariant(r *Rng, s string) string {
	switch r.Intn(5) {
	case 0:
		return strings.ToUpper(s)
	case 1:
		return http.CanonicalHeaderKey(s)
	case 2:
		b := []byte(s)
		for i := range b {
			if i%2 == 0 && b[i] >= 'a' && b[i] <= 'z' {
				b[i] -= 32
			}
		}
		return string(b)
	case 3:
		return "  " + http.CanonicalHeaderKey(s) + " "
	}
	return s
}

// Respell draws spellings for everything the spec's request treats case-insensitively.
func (s *SigSpec) Respell(r *Rng) {
	if s.Trailer != "" {
		if r.Chance(1, 2) {
			s.TrailerDecl = CaseVariant(r, s.Trailer)
		}
		if r.Chance(1, 3) {
			s.TrailerLine = strings.TrimSpace(CaseVariant(r, s.Trailer))
		}
	}
	if IsStreaming(s.Mode) && r.Chance(1, 3) {
		s.ChunkedWord = strings.TrimSpace(CaseVariant(r, "aws-chunked"))
	}
	s.NameCase = r.Intn(3)
}
