//go:build verif

package verifx

import (
	"context"
	"os"
	"path/filepath"

	"github.com/jdillenkofer/pithos/internal/storage"
	"github.com/jdillenkofer/pithos/internal/storage/database"
	repositoryfactory "github.com/jdillenkofer/pithos/internal/storage/database/repository"
	"github.com/jdillenkofer/pithos/internal/storage/database/sqlite"
	"github.com/jdillenkofer/pithos/internal/storage/metadatapart"
	"github.com/jdillenkofer/pithos/internal/storage/metadatapart/metadatastore"
	sqlmeta "github.com/jdillenkofer/pithos/internal/storage/metadatapart/metadatastore/sql"
	"github.com/jdillenkofer/pithos/internal/storage/metadatapart/partstore"
	fsstore "github.com/jdillenkofer/pithos/internal/storage/metadatapart/partstore/filesystem"
	sqlstore "github.com/jdillenkofer/pithos/internal/storage/metadatapart/partstore/sql"
)

// Stack is an in-process SQLite-backed metadata+part storage.
type Stack struct {
	Dir       string
	RawDB     database.Database
	DB        database.Database // possibly wrapped
	Meta      metadatastore.MetadataStore
	PartStore partstore.PartStore
	Storage   storage.Storage
}

type StackOpts struct {
	// PartKind: "sql" (part content in SQLite) or "fs" (filesystem part store).
	PartKind string
	// WrapDB, when set, wraps the database handed to the part store and the storage.
	WrapDB func(database.Database) database.Database
	// WrapPartStore, when set, wraps the base part store (middleware stacks, doubles).
	WrapPartStore func(db database.Database, ps partstore.PartStore) partstore.PartStore
	// StorageOptions are passed to metadatapart.NewStorage.
	StorageOptions []metadatapart.StorageOption
	// NoStart skips Storage.Start.
	NoStart bool
}

// NewMeta builds the SQL metadata store over db.
func NewMeta(db database.Database) metadatastore.MetadataStore {
	br := Must(repositoryfactory.NewBucketRepository(db))
	or := Must(repositoryfactory.NewObjectRepository(db))
	pr := Must(repositoryfactory.NewPartRepository(db))
	tr := Must(repositoryfactory.NewTagRepository(db))
	ur := Must(repositoryfactory.NewUserMetadataRepository(db))
	return Must(sqlmeta.New(db, br, or, pr, tr, ur))
}

// NewBasePartStore builds a filesystem ("fs") or SQL ("sql") part store.
func NewBasePartStore(db database.Database, kind, dir string) partstore.PartStore {
	switch kind {
	case "fs":
		Check(os.MkdirAll(dir, 0o755))
		return Must(fsstore.New(dir))
	case "sql":
		pcr := Must(repositoryfactory.NewPartContentRepository(db))
		return Must(sqlstore.New(db, pcr))
	}
	Fatalf("unknown part kind %q", kind)
	return nil
}

// NewStack creates a fresh stack under dir (which must not exist or be empty).
func NewStack(dir string, o StackOpts) *Stack {
	Check(os.MkdirAll(dir, 0o755))
	raw := Must(sqlite.OpenDatabase(filepath.Join(dir, "pithos.db")))
	var db database.Database = raw
	if o.WrapDB != nil {
		db = o.WrapDB(raw)
	}
	if o.PartKind == "" {
		o.PartKind = "sql"
	}
	ps := NewBasePartStore(db, o.PartKind, filepath.Join(dir, "parts"))
	if o.WrapPartStore != nil {
		ps = o.WrapPartStore(db, ps)
	}
	ms := NewMeta(db)
	st := Must(metadatapart.NewStorage(db, ms, ps, o.StorageOptions...))
	if !o.NoStart {
		Check(st.Start(context.Background()))
	}
	return &Stack{Dir: dir, RawDB: raw, DB: db, Meta: ms, PartStore: ps, Storage: st}
}

// Close stops the storage, closes the database and removes the directory.
func (s *Stack) Close() {
	_ = s.Storage.Stop(context.Background())
	_ = s.RawDB.Close()
	_ = os.RemoveAll(s.Dir)
}
