//go:build verif

// Package verifx holds what every verification harness subcommand shares: the PRNG, the line
// protocol writer, scratch handling and builders for in-process storage stacks.
// It is compiled INTO the pithos module through `go build -overlay` (see /verif/check).
package verifx

import (
	"bufio"
	"encoding/hex"
	"flag"
	"fmt"
	"os"
	"path/filepath"
	"strconv"
)

// ---------- PRNG (splitmix64): every random choice of a case derives from one state ----------

type Rng struct{ s uint64 }

func NewRng(seed uint64) *Rng { return &Rng{s: seed} }

func (r *Rng) Next() uint64 {
	r.s += 0x9E3779B97F4A7C15
	z := r.s
	z = (z ^ (z >> 30)) * 0xBF58476D1CE4E5B9
	z = (z ^ (z >> 27)) * 0x94D049BB133111EB
	return z ^ (z >> 31)
}

// Intn returns a value in [0,n).
func (r *Rng) Intn(n int) int {
	if n <= 0 {
		return 0
	}
	return int(r.Next() % uint64(n))
}

func (r *Rng) Bool() bool { return r.Next()&1 == 1 }

// Chance is true with probability num/den.
func (r *Rng) Chance(num, den int) bool { return r.Intn(den) < num }

func (r *Rng) Bytes(n int) []byte {
	b := make([]byte, n)
	for i := 0; i < n; i += 8 {
		v := r.Next()
		for j := 0; j < 8 && i+j < n; j++ {
			b[i+j] = byte(v >> (8 * j))
		}
	}
	return b
}

func Pick[T any](r *Rng, xs []T) T { return xs[r.Intn(len(xs))] }

// CaseSeed derives the seed of case k from the run seed, so that a single case replays exactly.
func CaseSeed(seed uint64, k int) uint64 {
	r := NewRng(seed ^ (uint64(k)+1)*0xD1B54A32D192ED03)
	return r.Next()
}

// ---------- common flags ----------

type Flags struct {
	Seed    uint64
	Tier    string
	Cases   int
	Only    int
	Scratch string
	Extra   map[string]*string
}

// ParseFlags parses the flags every subcommand accepts. defQuick/defThorough are the default
// numbers of generated cases per tier.
func ParseFlags(name string, args []string, defQuick, defThorough int) *Flags {
	fs := flag.NewFlagSet(name, flag.ExitOnError)
	f := &Flags{}
	seed := fs.Uint64("seed", 1, "run seed")
	tier := fs.String("tier", "quick", "quick|thorough")
	cases := fs.Int("cases", -1, "number of generated cases (default by tier)")
	only := fs.Int("only", -1, "run only this case index (replay)")
	scratch := fs.String("scratch", "", "scratch directory")
	_ = fs.Parse(args)
	f.Seed, f.Tier, f.Cases, f.Only, f.Scratch = *seed, *tier, *cases, *only, *scratch
	if f.Cases < 0 {
		if f.Tier == "thorough" {
			f.Cases = defThorough
		} else {
			f.Cases = defQuick
		}
	}
	if f.Scratch == "" {
		f.Scratch = os.Getenv("VERIF_SCRATCH")
	}
	if f.Scratch == "" {
		f.Scratch = filepath.Join("/var/tmp", "verif-"+strconv.Itoa(os.Getpid()))
	}
	if err := os.MkdirAll(f.Scratch, 0o755); err != nil {
		Fatalf("scratch: %v", err)
	}
	return f
}

// Wants reports whether case k should be executed under -only.
func (f *Flags) Wants(k int) bool { return f.Only < 0 || f.Only == k }

// ---------- line protocol ----------

type Out struct{ w *bufio.Writer }

func NewOut() *Out { return &Out{w: bufio.NewWriterSize(os.Stdout, 1<<16)} }

func (o *Out) Line(format string, a ...any) {
	fmt.Fprintf(o.w, format, a...)
	o.w.WriteByte('\n')
}
func (o *Out) Case(k int, seed uint64) { o.Line("case %d %d", k, seed) }
func (o *Out) End()                    { o.Line("end"); o.w.Flush() }
func (o *Out) Flush()                  { o.w.Flush() }

// Hex encodes bytes for the protocol ("-" = empty).
func Hex(b []byte) string {
	if len(b) == 0 {
		return "-"
	}
	return hex.EncodeToString(b)
}
func HexS(s string) string { return Hex([]byte(s)) }

func Fatalf(format string, a ...any) {
	fmt.Fprintf(os.Stderr, "verifharness: "+format+"\n", a...)
	os.Exit(3)
}

func Must[T any](v T, err error) T {
	if err != nil {
		Fatalf("%v", err)
	}
	return v
}

func Check(err error) {
	if err != nil {
		Fatalf("%v", err)
	}
}
