//go:build verif

package verifx

import (
	"bytes"
	"context"
	"encoding/binary"
	"errors"
	"fmt"
	"strings"
	"sync"
	"time"

	"github.com/jdillenkofer/pithos/internal/auditlog"
	"github.com/jdillenkofer/pithos/internal/auditlog/signing"
	"github.com/jdillenkofer/pithos/internal/http/server/authentication"
	"github.com/jdillenkofer/pithos/internal/storage"
	"go.opentelemetry.io/otel/trace"
)

// ---------- canonical view of an audit entry (field names as in lean/Pithos/Gen/AuditLog.lean) ----------

type AuditField struct {
	Name string
	Val  []byte
}

func auditBE(n int, v uint64) []byte {
	b := make([]byte, 8)
	binary.BigEndian.PutUint64(b, v)
	return b[8-n:]
}

// AuditFields lists every field of an entry: integers as fixed-width big-endian bytes.
func AuditFields(e *auditlog.Entry) []AuditField {
	fs := []AuditField{
		{"Version", auditBE(2, uint64(e.Version))},
		{"Timestamp", auditBE(8, uint64(e.Timestamp.UnixNano()))},
		{"Type", []byte(e.Type)},
	}
	switch d := e.Details.(type) {
	case *auditlog.LogDetails:
		fs = append(fs,
			AuditField{"Log.Operation", []byte(d.Operation)},
			AuditField{"Log.Phase", []byte(d.Phase)},
			AuditField{"Log.Resource.Bucket", []byte(d.Resource.Bucket)},
			AuditField{"Log.Resource.Key", []byte(d.Resource.Key)},
			AuditField{"Log.Resource.UploadID", []byte(d.Resource.UploadID)},
			AuditField{"Log.Resource.PartNumber", auditBE(4, uint64(uint32(d.Resource.PartNumber)))},
			AuditField{"Log.Resource.SourceBucket", []byte(d.Resource.SourceBucket)},
			AuditField{"Log.Resource.SourceKey", []byte(d.Resource.SourceKey)},
			AuditField{"Log.Actor.CredentialID", []byte(d.Actor.CredentialID)},
			AuditField{"Log.Actor.AuthType", []byte(d.Actor.AuthType)},
			AuditField{"Log.Request.RequestID", []byte(d.Request.RequestID)},
			AuditField{"Log.Request.TraceID", []byte(d.Request.TraceID)},
			AuditField{"Log.Request.ClientIP", []byte(d.Request.ClientIP)},
			AuditField{"Log.Outcome.StatusCode", auditBE(4, uint64(uint32(d.Outcome.StatusCode)))},
			AuditField{"Log.Outcome.Outcome", []byte(d.Outcome.Outcome)},
			AuditField{"Log.Outcome.ErrorCode", []byte(d.Outcome.ErrorCode)},
			AuditField{"Log.Outcome.Error", []byte(d.Outcome.Error)},
			AuditField{"Log.Outcome.DurationMs", auditBE(8, uint64(d.Outcome.DurationMs))},
		)
	case *auditlog.GroundingDetails:
		fs = append(fs,
			AuditField{"Grounding.MerkleRootHash", d.MerkleRootHash},
			AuditField{"Grounding.SignatureEd25519", d.SignatureEd25519},
			AuditField{"Grounding.SignatureMlDsa87", d.SignatureMlDsa87},
		)
	}
	fs = append(fs,
		AuditField{"PreviousHash", e.PreviousHash},
		AuditField{"Hash", e.Hash},
		AuditField{"SignatureEd25519", e.SignatureEd25519},
	)
	return fs
}

// AuditLine renders the fields as "name=hex name=hex ...".
func AuditLine(e *auditlog.Entry) string {
	var sb strings.Builder
	for i, f := range AuditFields(e) {
		if i > 0 {
			sb.WriteByte(' ')
		}
		sb.WriteString(f.Name)
		sb.WriteByte('=')
		sb.WriteString(Hex(f.Val))
	}
	return sb.String()
}

// AuditClone deep-copies an entry.
func AuditClone(e *auditlog.Entry) *auditlog.Entry {
	c := *e
	c.PreviousHash = append([]byte(nil), e.PreviousHash...)
	c.Hash = append([]byte(nil), e.Hash...)
	c.SignatureEd25519 = append([]byte(nil), e.SignatureEd25519...)
	switch d := e.Details.(type) {
	case *auditlog.LogDetails:
		dd := *d
		c.Details = &dd
	case *auditlog.GroundingDetails:
		c.Details = &auditlog.GroundingDetails{
			MerkleRootHash:   append([]byte(nil), d.MerkleRootHash...),
			SignatureEd25519: append([]byte(nil), d.SignatureEd25519...),
			SignatureMlDsa87: append([]byte(nil), d.SignatureMlDsa87...),
		}
	case *auditlog.GenesisDetails:
		c.Details = &auditlog.GenesisDetails{}
	}
	return &c
}

func auditBEU(b []byte) uint64 {
	var v uint64
	for _, x := range b {
		v = v<<8 | uint64(x)
	}
	return v
}

// AuditSet sets one field (by canonical name) of an entry in place; false if the entry has no such field.
// After a change of Type the details are what a decoder would have produced for that type.
func AuditSet(e *auditlog.Entry, name string, v []byte) bool {
	switch name {
	case "Version":
		e.Version = uint16(auditBEU(v))
		return true
	case "Timestamp":
		e.Timestamp = time.Unix(0, int64(auditBEU(v)))
		return true
	case "Type":
		e.Type = auditlog.EntryType(v)
		switch e.Type {
		case auditlog.EntryTypeGenesis:
			e.Details = &auditlog.GenesisDetails{}
		case auditlog.EntryTypeLog:
			if _, ok := e.Details.(*auditlog.LogDetails); !ok {
				e.Details = &auditlog.LogDetails{}
			}
		case auditlog.EntryTypeGrounding:
			if _, ok := e.Details.(*auditlog.GroundingDetails); !ok {
				e.Details = &auditlog.GroundingDetails{}
			}
		default:
			e.Details = nil
		}
		return true
	case "PreviousHash":
		e.PreviousHash = v
		return true
	case "Hash":
		e.Hash = v
		return true
	case "SignatureEd25519":
		e.SignatureEd25519 = v
		return true
	}
	if d, ok := e.Details.(*auditlog.LogDetails); ok {
		s := string(v)
		switch name {
		case "Log.Operation":
			d.Operation = auditlog.Operation(s)
		case "Log.Phase":
			d.Phase = auditlog.Phase(s)
		case "Log.Resource.Bucket":
			d.Resource.Bucket = s
		case "Log.Resource.Key":
			d.Resource.Key = s
		case "Log.Resource.UploadID":
			d.Resource.UploadID = s
		case "Log.Resource.PartNumber":
			d.Resource.PartNumber = int32(uint32(auditBEU(v)))
		case "Log.Resource.SourceBucket":
			d.Resource.SourceBucket = s
		case "Log.Resource.SourceKey":
			d.Resource.SourceKey = s
		case "Log.Actor.CredentialID":
			d.Actor.CredentialID = s
		case "Log.Actor.AuthType":
			d.Actor.AuthType = auditlog.AuthType(s)
		case "Log.Request.RequestID":
			d.Request.RequestID = s
		case "Log.Request.TraceID":
			d.Request.TraceID = s
		case "Log.Request.ClientIP":
			d.Request.ClientIP = s
		case "Log.Outcome.StatusCode":
			d.Outcome.StatusCode = int32(uint32(auditBEU(v)))
		case "Log.Outcome.Outcome":
			d.Outcome.Outcome = auditlog.OutcomeType(s)
		case "Log.Outcome.ErrorCode":
			d.Outcome.ErrorCode = s
		case "Log.Outcome.Error":
			d.Outcome.Error = s
		case "Log.Outcome.DurationMs":
			d.Outcome.DurationMs = int64(auditBEU(v))
		default:
			return false
		}
		return true
	}
	if d, ok := e.Details.(*auditlog.GroundingDetails); ok {
		switch name {
		case "Grounding.MerkleRootHash":
			d.MerkleRootHash = v
		case "Grounding.SignatureEd25519":
			d.SignatureEd25519 = v
		case "Grounding.SignatureMlDsa87":
			d.SignatureMlDsa87 = v
		default:
			return false
		}
		return true
	}
	return false
}

// AuditDiff lists the canonical fields in which two entries differ.
func AuditDiff(a, b *auditlog.Entry) []string {
	fa, fb := AuditFields(a), AuditFields(b)
	var out []string
	if len(fa) != len(fb) {
		return []string{"<details-kind>"}
	}
	for i := range fa {
		if fa[i].Name != fb[i].Name || !bytes.Equal(fa[i].Val, fb[i].Val) {
			out = append(out, fa[i].Name)
		}
	}
	return out
}

// ---------- validator verdicts ----------

// AuditVerdict runs the real Validator over entries: "ok" or "<index>:<reason>".
func AuditVerdict(entries []*auditlog.Entry, ed, ml signing.Verifier) (res string) {
	v := auditlog.NewValidator(ed, ml)
	defer func() {
		if p := recover(); p != nil {
			res = fmt.Sprintf("%d:panic", v.Index)
		}
	}()
	for _, e := range entries {
		if err := v.ValidateEntry(e); err != nil {
			return AuditReason(err)
		}
	}
	return "ok"
}

// AuditReason maps a Validator error to "<index>:<reason enum>" (enum as Pithos.AuditLog.Reason.name).
func AuditReason(err error) string {
	var ve *auditlog.VerificationError
	if !errors.As(err, &ve) {
		return "0:other"
	}
	r := "other"
	switch {
	case strings.HasPrefix(ve.Reason, "entry hash mismatch"):
		r = "hash"
	case strings.HasPrefix(ve.Reason, "first entry is not GENESIS"):
		r = "first-not-genesis"
	case strings.HasPrefix(ve.Reason, "genesis previous hash invalid"):
		r = "genesis-prev"
	case strings.HasPrefix(ve.Reason, "chain break"):
		r = "chain"
	case strings.HasPrefix(ve.Reason, "entry signature invalid"):
		r = "entry-sig"
	case strings.HasPrefix(ve.Reason, "too many log entries"):
		r = "too-many"
	case strings.HasPrefix(ve.Reason, "grounding entry appeared at wrong interval"):
		r = "interval"
	case strings.HasPrefix(ve.Reason, "invalid grounding details"):
		r = "grounding-details"
	case strings.HasPrefix(ve.Reason, "merkle root mismatch"):
		r = "merkle"
	case strings.HasPrefix(ve.Reason, "merkle root Ed25519"):
		r = "root-sig-ed"
	case strings.HasPrefix(ve.Reason, "merkle root ML-DSA"):
		r = "root-sig-ml"
	}
	return fmt.Sprintf("%d:%s", ve.EntryIndex, r)
}

// CachedVerifier memoises a real verifier (the mutation catalogue re-validates the same entries
// thousands of times; the verdict of the real verifier on a given (data, signature) never changes).
type CachedVerifier struct {
	Inner signing.Verifier
	mu    sync.Mutex
	memo  map[string]bool
}

func NewCachedVerifier(v signing.Verifier) *CachedVerifier {
	return &CachedVerifier{Inner: v, memo: map[string]bool{}}
}

func (c *CachedVerifier) Verify(data, sig []byte) bool {
	k := string(data) + "|" + string(sig)
	c.mu.Lock()
	r, ok := c.memo[k]
	c.mu.Unlock()
	if ok {
		return r
	}
	r = c.Inner.Verify(data, sig)
	c.mu.Lock()
	c.memo[k] = r
	c.mu.Unlock()
	return r
}

// ---------- an in-memory sink ----------

type MemSink struct {
	mu      sync.Mutex
	Entries []*auditlog.Entry
}

func (m *MemSink) WriteEntry(e *auditlog.Entry) error {
	m.mu.Lock()
	m.Entries = append(m.Entries, AuditClone(e))
	m.mu.Unlock()
	return nil
}
func (m *MemSink) Close() error { return nil }

// ---------- storage calls ----------

// AuditOps: every method of storage.Storage's embedded managers (not Start/Stop), in a fixed order.
var AuditOps = []string{
	"CreateBucket", "DeleteBucket", "ListBuckets", "HeadBucket",
	"GetBucketVersioningConfiguration", "PutBucketVersioningConfiguration",
	"GetBucketWebsiteConfiguration", "PutBucketWebsiteConfiguration", "DeleteBucketWebsiteConfiguration",
	"GetBucketCORSConfiguration", "PutBucketCORSConfiguration", "DeleteBucketCORSConfiguration",
	"GetBucketLifecycleConfiguration", "PutBucketLifecycleConfiguration", "DeleteBucketLifecycleConfiguration",
	"GetBucketNotificationConfiguration", "PutBucketNotificationConfiguration",
	"ListObjects", "ListObjectVersions", "HeadObject", "GetObject", "PutObject", "CopyObject", "AppendObject",
	"DeleteObject", "DeleteObjects", "TransitionObjectStorageClass",
	"CreateMultipartUpload", "UploadPart", "UploadPartCopy", "CompleteMultipartUpload", "AbortMultipartUpload",
	"ListMultipartUploads", "ListParts",
	"GetObjectTagging", "PutObjectTagging", "DeleteObjectTagging",
}

// AuditArgs are the arguments of one generated call.
type AuditArgs struct {
	Bucket, SrcBucket string
	Key, SrcKey       string
	UploadID          string
	Part              int32
}

// AuditCall performs storage method `op` on st with the given arguments.
func AuditCall(ctx context.Context, st storage.Storage, op string, a AuditArgs) error {
	b := storage.MustNewBucketName(a.Bucket)
	k := storage.MustNewObjectKey(a.Key)
	var err error
	switch op {
	case "CreateBucket":
		err = st.CreateBucket(ctx, b)
	case "DeleteBucket":
		err = st.DeleteBucket(ctx, b)
	case "ListBuckets":
		_, err = st.ListBuckets(ctx)
	case "HeadBucket":
		_, err = st.HeadBucket(ctx, b)
	case "GetBucketVersioningConfiguration":
		_, err = st.GetBucketVersioningConfiguration(ctx, b)
	case "PutBucketVersioningConfiguration":
		err = st.PutBucketVersioningConfiguration(ctx, b, &storage.BucketVersioningConfiguration{})
	case "GetBucketWebsiteConfiguration":
		_, err = st.GetBucketWebsiteConfiguration(ctx, b)
	case "PutBucketWebsiteConfiguration":
		err = st.PutBucketWebsiteConfiguration(ctx, b, &storage.WebsiteConfiguration{})
	case "DeleteBucketWebsiteConfiguration":
		err = st.DeleteBucketWebsiteConfiguration(ctx, b)
	case "GetBucketCORSConfiguration":
		_, err = st.GetBucketCORSConfiguration(ctx, b)
	case "PutBucketCORSConfiguration":
		err = st.PutBucketCORSConfiguration(ctx, b, &storage.BucketCORSConfiguration{})
	case "DeleteBucketCORSConfiguration":
		err = st.DeleteBucketCORSConfiguration(ctx, b)
	case "GetBucketLifecycleConfiguration":
		_, err = st.GetBucketLifecycleConfiguration(ctx, b)
	case "PutBucketLifecycleConfiguration":
		err = st.PutBucketLifecycleConfiguration(ctx, b, &storage.BucketLifecycleConfiguration{})
	case "DeleteBucketLifecycleConfiguration":
		err = st.DeleteBucketLifecycleConfiguration(ctx, b)
	case "GetBucketNotificationConfiguration":
		_, err = st.GetBucketNotificationConfiguration(ctx, b)
	case "PutBucketNotificationConfiguration":
		err = st.PutBucketNotificationConfiguration(ctx, b, &storage.BucketNotificationConfiguration{})
	case "ListObjects":
		_, err = st.ListObjects(ctx, b, storage.ListObjectsOptions{MaxKeys: 10})
	case "ListObjectVersions":
		_, err = st.ListObjectVersions(ctx, b, storage.ListObjectVersionsOptions{MaxKeys: 10})
	case "HeadObject":
		_, err = st.HeadObject(ctx, b, k, nil)
	case "GetObject":
		var rs []interface{ Close() error }
		_, readers, e2 := st.GetObject(ctx, b, k, nil, nil)
		for _, r := range readers {
			rs = append(rs, r)
		}
		for _, r := range rs {
			_ = r.Close()
		}
		err = e2
	case "PutObject":
		_, err = st.PutObject(ctx, b, k, nil, bytes.NewReader([]byte("x")), nil, nil)
	case "CopyObject":
		_, err = st.CopyObject(ctx, storage.MustNewBucketName(a.SrcBucket), storage.MustNewObjectKey(a.SrcKey), b, k, nil)
	case "AppendObject":
		_, err = st.AppendObject(ctx, b, k, bytes.NewReader([]byte("y")), nil, nil)
	case "DeleteObject":
		_, err = st.DeleteObject(ctx, b, k, nil)
	case "DeleteObjects":
		_, err = st.DeleteObjects(ctx, b, []storage.DeleteObjectsInputEntry{{Key: k}})
	case "TransitionObjectStorageClass":
		err = st.TransitionObjectStorageClass(ctx, b, k, "STANDARD_IA", nil)
	case "CreateMultipartUpload":
		_, err = st.CreateMultipartUpload(ctx, b, k, nil, nil, nil)
	case "UploadPart":
		_, err = st.UploadPart(ctx, b, k, storage.MustNewUploadId(a.UploadID), a.Part, bytes.NewReader([]byte("p")), nil)
	case "UploadPartCopy":
		_, err = st.UploadPartCopy(ctx, storage.MustNewBucketName(a.SrcBucket), storage.MustNewObjectKey(a.SrcKey), b, k, storage.MustNewUploadId(a.UploadID), a.Part, nil)
	case "CompleteMultipartUpload":
		_, err = st.CompleteMultipartUpload(ctx, b, k, storage.MustNewUploadId(a.UploadID), nil, nil)
	case "AbortMultipartUpload":
		err = st.AbortMultipartUpload(ctx, b, k, storage.MustNewUploadId(a.UploadID))
	case "ListMultipartUploads":
		_, err = st.ListMultipartUploads(ctx, b, storage.ListMultipartUploadsOptions{MaxUploads: 10})
	case "ListParts":
		_, err = st.ListParts(ctx, b, k, storage.MustNewUploadId(a.UploadID), storage.ListPartsOptions{MaxParts: 10})
	case "GetObjectTagging":
		_, err = st.GetObjectTagging(ctx, b, k, nil)
	case "PutObjectTagging":
		err = st.PutObjectTagging(ctx, b, k, map[string]string{"a": "b"}, nil)
	case "DeleteObjectTagging":
		err = st.DeleteObjectTagging(ctx, b, k, nil)
	default:
		Fatalf("AuditCall: unknown op %s", op)
	}
	return err
}

// AuditCtx builds a request context the way the HTTP layer does (actor, request id, client ip, trace id).
func AuditCtx(r *Rng, tag string) context.Context {
	ctx := context.Background()
	if r.Chance(3, 4) {
		ctx = context.WithValue(ctx, authentication.AccessKeyIdContextKey{}, Pick(r, []string{"AKIAEXAMPLE1", "AKIAEXAMPLE2", "svc-backup", "ключ-7"}))
		ctx = context.WithValue(ctx, authentication.AuthTypeContextKey{}, Pick(r, []string{"sigv4-header", "sigv4-presign"}))
	} else if r.Bool() {
		ctx = context.WithValue(ctx, authentication.AuthTypeContextKey{}, "anonymous")
	}
	if r.Chance(5, 6) {
		ctx = context.WithValue(ctx, authentication.RequestIDContextKey{}, "req-"+tag)
	}
	if r.Chance(2, 3) {
		ctx = context.WithValue(ctx, authentication.ClientIPContextKey{}, Pick(r, []string{"10.0.0.7", "192.168.1.20", "2001:db8::1", "203.0.113.9"}))
	}
	if r.Bool() {
		var tid trace.TraceID
		copy(tid[:], r.Bytes(16))
		tid[0] |= 1
		var sid trace.SpanID
		copy(sid[:], r.Bytes(8))
		sid[0] |= 1
		ctx = trace.ContextWithSpanContext(ctx, trace.NewSpanContext(trace.SpanContextConfig{TraceID: tid, SpanID: sid}))
	}
	return ctx
}

// AuditRandArgs draws arguments: valid names, keys with spaces / unicode / separators.
func AuditRandArgs(r *Rng) AuditArgs {
	buckets := []string{"alpha", "beta-bucket", "gamma.logs", "b00"}
	keys := []string{"a", "dir/file.txt", "with space", "ünï/ço∂é", "x/y/z/" + auditItoa(int64(r.Intn(50))), "k<&>\"quote", "tab\tkey", "long-" + strings.Repeat("k", 1+r.Intn(40))}
	return AuditArgs{
		Bucket: Pick(r, buckets), SrcBucket: Pick(r, buckets),
		Key: Pick(r, keys), SrcKey: Pick(r, keys),
		UploadID: "up-" + auditItoa(int64(1+r.Intn(9))), Part: int32(1 + r.Intn(10000)),
	}
}

// ---------- process time zone ----------

// AuditZones: the zones the harness process is put into (time.Local), so that the time.Now() calls of
// the code under test itself yield timestamps carrying these Locations.
var AuditZones = []struct {
	Name string
	Off  int // seconds east of UTC
}{
	{"UTC", 0},
	{"+02:00", 2 * 3600},
	{"-03:30", -(3*3600 + 30*60)},
	{"+03:17:43", 3*3600 + 17*60 + 43},
	{"+12:45", 12*3600 + 45*60},
}

// AuditSetZone puts the process into zone i (mod len) and returns its offset in seconds.
func AuditSetZone(i int) int {
	z := AuditZones[((i%len(AuditZones))+len(AuditZones))%len(AuditZones)]
	if z.Off == 0 {
		time.Local = time.UTC
	} else {
		time.Local = time.FixedZone(z.Name, z.Off)
	}
	return z.Off
}
