#!/bin/sh
# Build the framework from files on disk only (offline): the Lean project and the Go harness.
set -e
cd "$(dirname "$0")"
export GOFLAGS=-mod=mod GOPROXY=off GOSUMDB=off GOTOOLCHAIN=auto
drivers=""
for f in lean/Driver/C*.lean; do
  [ -f "$f" ] || continue
  n=$(basename "$f" .lean | tr 'C' 'c')
  drivers="$drivers drv_$n"
done
(cd lean && lake build Pithos $drivers) || echo "setup: some Lean targets failed to build; the affected ./check Cxx runs will report them"
python3 - <<'PY'
import importlib.machinery, importlib.util, sys
loader = importlib.machinery.SourceFileLoader("check", "./check")
spec = importlib.util.spec_from_loader("check", loader); m = importlib.util.module_from_spec(spec); loader.exec_module(m)
h, err = m.build_harness()
if h is None:
    print(err); sys.exit(1)
print("harness:", h)
PY
